package main

import (
	"context"
	"fmt"
	"hash/fnv"
	"math/rand"
	"reflect"
	"runtime"
	"sort"
	"strings"
	"sync"
	"time"

	"google.golang.org/grpc"
	"google.golang.org/grpc/codes"
	"google.golang.org/grpc/status"
	"google.golang.org/protobuf/encoding/prototext"
	"google.golang.org/protobuf/proto"
	"google.golang.org/protobuf/reflect/protoreflect"
	"google.golang.org/protobuf/reflect/protoregistry"
	"google.golang.org/protobuf/types/known/fieldmaskpb"

	"github.com/smart-core-os/sc-golang/pkg/resource"
	"github.com/smart-core-os/sc-golang/verifharness/cmd/c07/pbgen"
	"github.com/smart-core-os/sc-golang/verifharness/lib"
)

// triple is one discovered Get/Update/Pull triple of a service: a register exposed over gRPC.
type triple struct {
	Row      stackRow
	Service  string // full service name
	X        string // resource name: methods GetX, UpdateX, PullX
	get      protoreflect.MethodDescriptor
	update   protoreflect.MethodDescriptor
	pull     protoreflect.MethodDescriptor
	resource protoreflect.MessageDescriptor // R = output of GetX

	// keyed families (collection items): the request field holding the key, and the Create/Delete RPCs if the service has them
	keyField string
	create   protoreflect.MethodDescriptor
	del      protoreflect.MethodDescriptor
	list     protoreflect.MethodDescriptor // the collection-wide unary ListXs RPC, if the service has one (a READ: see keyedSession.listAll)
}

// key identifies the triple of one row (server + configuration); signatures use the server's key (Row.key()).
func (t triple) key() string { return t.Row.rowKey() + "/" + t.X }

// isPair: the service has Get and Pull for the resource but no Update RPC (sensors): the register is
// written at the model level only.
func (t triple) isPair() bool { return t.update == nil }

// keyedTriples records keyed Get/Update/Pull triples whose shape the keyed driver does not handle (skipped, listed).
var keyedTriples = map[string]bool{}

type unwrapper interface {
	UnwrapService() (grpc.ClientConnInterface, grpc.ServiceDesc)
}

// discover finds the Get/Update/Pull triples of the service a stack row serves, from the service
// descriptor (protoregistry), not from a list.
func discover(row stackRow) ([]triple, string, error) {
	cl, _ := row.New()
	c, ok := cl.(unwrapper)
	if !ok {
		return nil, "", fmt.Errorf("%s: client has no UnwrapService", row.key())
	}
	_, desc := c.UnwrapService()
	d, err := protoregistry.GlobalFiles.FindDescriptorByName(protoreflect.FullName(desc.ServiceName))
	if err != nil {
		return nil, desc.ServiceName, err
	}
	sd := d.(protoreflect.ServiceDescriptor)
	ms := sd.Methods()
	var out []triple
	for i := 0; i < ms.Len(); i++ {
		g := ms.Get(i)
		name := string(g.Name())
		if !strings.HasPrefix(name, "Get") || g.IsStreamingServer() || g.IsStreamingClient() {
			continue
		}
		x := strings.TrimPrefix(name, "Get")
		u := ms.ByName(protoreflect.Name("Update" + x))
		p := ms.ByName(protoreflect.Name("Pull" + x))
		if p == nil {
			p = ms.ByName(protoreflect.Name("Pull" + x + "s")) // GetEnterLeaveEvent / PullEnterLeaveEvents
		}
		if p == nil && u == nil {
			// a Get/Pull pair whose Pull is not named after the Get (accesspb: GetLastAccessAttempt / PullAccessAttempts):
			// paired by the resource type - the one server-streaming Pull* method with updates_only whose changes carry
			// exactly one field of the Get's output type (collection-wide Pulls carry old and new value: two)
			var cands []protoreflect.MethodDescriptor
			for j := 0; j < ms.Len(); j++ {
				c := ms.Get(j)
				if !strings.HasPrefix(string(c.Name()), "Pull") || !c.IsStreamingServer() || c.Input().Fields().ByName("updates_only") == nil {
					continue
				}
				if ms.ByName(protoreflect.Name("Get"+strings.TrimPrefix(string(c.Name()), "Pull"))) != nil {
					continue // this Pull belongs to the Get of its own name
				}
				cf := c.Output().Fields().ByName("changes")
				if cf == nil || cf.Message() == nil {
					continue
				}
				n := 0
				for k := 0; k < cf.Message().Fields().Len(); k++ {
					if fd := cf.Message().Fields().Get(k); fd.Message() != nil && !fd.IsList() && !fd.IsMap() && fd.Message().FullName() == g.Output().FullName() {
						n++
					}
				}
				if n == 1 {
					cands = append(cands, c)
				}
			}
			if len(cands) == 1 {
				p = cands[0]
			}
		}
		if p == nil || !p.IsStreamingServer() {
			continue
		}
		if u != nil {
			// shape: Update returns R, its request carries a field of type R; Pull's changes carry R
			if u.IsStreamingServer() || u.Output().FullName() != g.Output().FullName() || payloadField(u.Input(), g.Output()) == nil {
				continue
			}
		}
		// Pull's changes must carry R
		if cf := p.Output().Fields().ByName("changes"); cf == nil || cf.Message() == nil || payloadField(cf.Message(), g.Output()) == nil {
			continue
		}
		if g.Input().Fields().ByName("read_mask") == nil || p.Input().Fields().ByName("updates_only") == nil {
			continue
		}
		// a Get request with one more string field besides (name, read_mask) addresses one item of a collection by
		// that key: a KEYED family of registers. The key is also a field of the resource (the Update request
		// carries it inside the payload) and of the Pull request.
		keyField := ""
		extra := 0
		for j := 0; j < g.Input().Fields().Len(); j++ {
			fd := g.Input().Fields().Get(j)
			n := fd.Name()
			if n == "name" || n == "read_mask" {
				continue
			}
			extra++
			// the key: a string field that the Pull request and the resource itself have too; other extra
			// fields of the Get request (publication's `version`) stay unset
			rk, pk := g.Output().Fields().ByName(n), p.Input().Fields().ByName(n)
			if keyField == "" && fd.Kind() == protoreflect.StringKind && !fd.IsList() && rk != nil && rk.Kind() == protoreflect.StringKind && pk != nil {
				keyField = string(n)
			}
		}
		if extra > 0 && (keyField == "" || u == nil) {
			keyedTriples[row.key()+"/"+x] = true // a shape the keyed driver does not know: listed, not driven
			continue
		}
		tr := triple{Row: row, Service: desc.ServiceName, X: x, get: g, update: u, pull: p, resource: g.Output(), keyField: keyField}
		if keyField != "" {
			tr.create = ms.ByName(protoreflect.Name("Create" + x))
			tr.del = ms.ByName(protoreflect.Name("Delete" + x))
			if l := ms.ByName(protoreflect.Name("List" + x + "s")); l != nil && !l.IsStreamingServer() && !l.IsStreamingClient() {
				tr.list = l
			}
		}
		out = append(out, tr)
	}
	return out, desc.ServiceName, nil
}

func payloadField(in, r protoreflect.MessageDescriptor) protoreflect.FieldDescriptor {
	fds := in.Fields()
	for i := 0; i < fds.Len(); i++ {
		fd := fds.Get(i)
		if fd.Kind() == protoreflect.MessageKind && !fd.IsList() && !fd.IsMap() && fd.Message().FullName() == r.FullName() {
			return fd
		}
	}
	return nil
}

func newMsg(md protoreflect.MessageDescriptor) protoreflect.Message {
	mt, err := protoregistry.GlobalTypes.FindMessageByName(md.FullName())
	if err != nil {
		panic(err)
	}
	return mt.New()
}

// --- independent projection (the read-mask semantics the property refers to) ---------------------

type maskTree map[string]maskTree

func treeOf(paths []string) maskTree {
	t := maskTree{}
	for _, p := range paths {
		cur := t
		for _, seg := range strings.Split(p, ".") {
			if cur[seg] == nil {
				cur[seg] = maskTree{}
			}
			cur = cur[seg]
		}
	}
	return t
}

// project returns a copy of m keeping only the masked fields. nil mask = everything.
func project(mask *fieldmaskpb.FieldMask, m proto.Message) proto.Message {
	if mask == nil || m == nil {
		return m
	}
	c := proto.Clone(m)
	keep(c.ProtoReflect(), treeOf(mask.Paths), len(mask.Paths) == 0)
	return c
}

func keep(m protoreflect.Message, t maskTree, dropAll bool) {
	m.Range(func(fd protoreflect.FieldDescriptor, v protoreflect.Value) bool {
		sub, ok := t[string(fd.Name())]
		if dropAll || !ok {
			m.Clear(fd)
			return true
		}
		// a path continuing below a map, a repeated scalar or a scalar selects that field whole; below a
		// repeated message field it applies to every element
		switch {
		case len(sub) == 0 || fd.IsMap() || fd.Message() == nil:
		case fd.IsList():
			l := v.List()
			for i := 0; i < l.Len(); i++ {
				keep(l.Get(i).Message(), sub, false)
			}
		default:
			keep(v.Message(), sub, false)
		}
		return true
	})
}

// --- observations ----------------------------------------------------------------------------------

// expectation of one stream message
type expect struct {
	val  proto.Message
	must bool
}

type pullStream struct {
	mask   *fieldmaskpb.FieldMask
	maskID int
	uo     bool
	cancel context.CancelFunc
	ch     chan streamMsg
	queue  []expect
	closed bool
	name   string // the name given in the Pull request: every change on the stream carries it
	// established: the server-side subscription is known to exist. The Pull RPC returns before the handler
	// has subscribed (as with real gRPC); a seeded stream proves it by delivering the seed, an updates_only
	// stream only by delivering its first message: until then an update may legitimately be missed.
	established bool
	lastSeen    proto.Message // the last message delivered (seed included)

	// stalled: the client has stopped calling Recv (stall.go): the reader does not keep up, nothing is owed to it and
	// nothing is read from it until it resumes
	stalled bool
	holdMu  sync.Mutex
	hold    chan struct{}
}

// stall makes the stream's reader stop calling Recv (after the call it may be blocked in right now); resume lets it go on.
func (st *pullStream) stall() {
	st.holdMu.Lock()
	defer st.holdMu.Unlock()
	if st.hold == nil {
		st.hold = make(chan struct{})
	}
}

func (st *pullStream) resume() {
	st.holdMu.Lock()
	defer st.holdMu.Unlock()
	if st.hold != nil {
		close(st.hold)
		st.hold = nil
	}
}

type streamMsg struct {
	val  proto.Message
	name string
	err  error
}

type stepDesc struct {
	Step int    `json:"step"`
	Op   string `json:"op"`
	Out  string `json:"out"`
}

type session struct {
	t       triple
	r       *rand.Rand
	g       *pbgen.Gen
	client  reflect.Value
	cur     proto.Message // the register's value as the property defines it (last ok Update response / first full Get)
	streams []*pullStream
	ids     map[string]int
	maskIDs map[string]int
	lines   []string // observation lines for the Lean acceptor
	verdict []string // the Go monitor's verdict per line
	trace   []stepDesc
	mon     *lib.Monitor
	input   func(n int) any
	step    int
	failed  bool
	sid     sessionID
	pokes   []reflect.Value // model-level writers of the resource (pairs only)

	noSeedWait    bool
	createdByPoke bool
	// bogusMasks: one update mask in ten names a field the resource does not have
	bogusMasks bool
	// noDrain: drain does nothing (expectations of two writes are queued before anything is read: window.go)
	noDrain bool
	// singleItem: payloads carry at most one element per repeated message field (see shape.go)
	singleItem bool
	// dense, when set, is the field density of generated payloads (default 0.5)
	dense float64
	// multiWrite: a multi-item write happened while a stream was open (see noteWrite)
	multiWrite bool
	// keyedOpen, when set, adds the item key to the Pull request and returns the acceptor's open line prefix
	keyedOpen func(req protoreflect.Message) string
	// names (rows with aliases, see rowNames): the names the router knows the device under
	names []string
	// onWritten, when set, runs once when the next write (Update RPC or model-level write) has returned, before its
	// outcome is judged (first.go: what the bus saw during the write decides whether a new stream is owed its event)
	onWritten func()
}

func txt(m proto.Message) string {
	if m == nil || !m.ProtoReflect().IsValid() {
		return "<nil>"
	}
	b, _ := prototext.MarshalOptions{}.Marshal(m)
	return "{" + strings.Join(strings.Fields(string(b)), " ") + "}"
}

func (s *session) id(m proto.Message) int {
	b, err := proto.MarshalOptions{Deterministic: true}.Marshal(m)
	if err != nil {
		panic(err)
	}
	k := string(b)
	if v, ok := s.ids[k]; ok {
		return v
	}
	s.ids[k] = len(s.ids) + 1
	return len(s.ids)
}

func (s *session) maskID(m *fieldmaskpb.FieldMask) int {
	if m == nil {
		return 0
	}
	k := strings.Join(m.Paths, ",")
	if v, ok := s.maskIDs[k]; ok {
		return v
	}
	s.maskIDs[k] = len(s.maskIDs) + 1
	return len(s.maskIDs)
}

// fact tells the acceptor what the projection of value v under mask m is (computed by project above).
func (s *session) fact(m *fieldmaskpb.FieldMask, v proto.Message) {
	if m == nil {
		return
	}
	s.lines = append(s.lines, fmt.Sprintf("fact %d %d %d", s.maskID(m), s.id(v), s.id(project(m, v))))
	s.verdict = append(s.verdict, "ok")
}

// obs records one observation: the line for the acceptor and the monitor's own verdict.
func (s *session) obs(line, verdict string) {
	s.lines = append(s.lines, line)
	s.verdict = append(s.verdict, verdict)
}

func (s *session) violate(class, what, expected, observed string) string {
	sig := fmt.Sprintf("C14/%s/%s/%s", s.t.Row.key(), s.t.X, s.sigQual(class))
	s.mon.Violate(sig, what, s.input(s.step+1), expected, observed)
	s.failed = true
	return "reject:" + class
}

// reqName: the device name this request carries. On rows whose router knows the device under several names (rowNames)
// every request picks one: the register is the same under each of them, and a stream's changes carry the name of ITS
// Pull request.
func (s *session) reqName() string {
	if len(s.names) == 0 {
		return devName
	}
	s.mon.Count("request-under-alias")
	return s.names[s.r.Intn(len(s.names))]
}

func (s *session) call(method string, req proto.Message) (out []reflect.Value, panicMsg string) {
	m := s.client.MethodByName(method)
	panicked, msg := lib.Catch(func() {
		out = m.Call([]reflect.Value{reflect.ValueOf(context.Background()), reflect.ValueOf(req)})
	})
	if panicked {
		return nil, msg
	}
	return out, ""
}

func setStr(m protoreflect.Message, name, v string) {
	if fd := m.Descriptor().Fields().ByName(protoreflect.Name(name)); fd != nil && fd.Kind() == protoreflect.StringKind {
		m.Set(fd, protoreflect.ValueOfString(v))
	}
}

func setMask(m protoreflect.Message, name string, mask *fieldmaskpb.FieldMask) {
	if fd := m.Descriptor().Fields().ByName(protoreflect.Name(name)); fd != nil && mask != nil {
		m.Set(fd, protoreflect.ValueOfMessage(mask.ProtoReflect()))
	}
}

func (s *session) randMask(md protoreflect.MessageDescriptor, nilP int, nested bool) *fieldmaskpb.FieldMask {
	if s.r.Intn(100) < nilP {
		return nil
	}
	if s.r.Intn(15) == 0 {
		return &fieldmaskpb.FieldMask{}
	}
	// nested: paths from the path tree (below message fields, through repeated messages); else top-level fields only
	paths := s.g.TopPaths(md, 2)
	if nested {
		paths = s.g.ReadMaskPaths(md, 2)
	}
	return &fieldmaskpb.FieldMask{Paths: paths}
}

// stripTweens clears fields of the sc-api Tween type: a tweened write is a server-side animation
// (several writes over time), not one register write; it is excluded from the generic acceptor.
func stripTweens(m protoreflect.Message) {
	m.Range(func(fd protoreflect.FieldDescriptor, v protoreflect.Value) bool {
		if fd.Kind() != protoreflect.MessageKind {
			return true
		}
		if fd.IsMap() {
			return true
		}
		if strings.HasSuffix(string(fd.Message().FullName()), ".Tween") {
			m.Clear(fd)
			return true
		}
		if fd.IsList() {
			l := v.List()
			for i := 0; i < l.Len(); i++ {
				stripTweens(l.Get(i).Message())
			}
			return true
		}
		stripTweens(v.Message())
		return true
	})
}

func (s *session) doGet(mask *fieldmaskpb.FieldMask) {
	req, op := s.prepGet(mask)
	out, pm := s.call("Get"+s.t.X, req)
	s.finishGet(mask, op, out, pm)
}

// prepGet builds a Get request; finishGet judges its outcome against the register as it is when the outcome is judged.
func (s *session) prepGet(mask *fieldmaskpb.FieldMask) (proto.Message, string) {
	req := newMsg(s.t.get.Input())
	setStr(req, "name", s.reqName())
	setMask(req, "read_mask", mask)
	op := fmt.Sprintf("Get%s(read_mask=%v)", s.t.X, paths(mask))
	reportProgress(progress{Sid: s.sid, Step: s.step, Op: op, Trace: tailTrace(s.trace, 12)})
	return req.Interface(), op
}

func (s *session) finishGet(mask *fieldmaskpb.FieldMask, op string, out []reflect.Value, pm string) {
	if pm != "" {
		s.trace = append(s.trace, stepDesc{s.step, op, "panic: " + pm})
		s.obs("getpanic", s.violate("Get/panic", "Get panicked", "a response", "panic: "+pm))
		return
	}
	if err, _ := out[1].Interface().(error); err != nil {
		s.trace = append(s.trace, stepDesc{s.step, op, "error: " + err.Error()})
		if s.step < 0 && status.Code(err) == codes.NotFound && len(s.pokes) > 0 && !s.createdByPoke {
			// a server that keys its registers by the request name (metadatapb.CollectionServer) has none under the
			// device name yet: create it with a model-level write, then learn it
			s.createdByPoke = true
			s.trace = append(s.trace, stepDesc{s.step, op, "NotFound: creating the register under the device name at the model level"})
			s.doPoke()
			return
		}
		if s.step < 0 && status.Code(err) == codes.NotFound {
			// nothing is registered under this name in a server that keys its registers by the request name
			// (metadatapb.CollectionServer): no register to observe
			s.mon.Count("no-register-under-name:" + s.t.key())
			s.failed = true
			return
		}
		if status.Code(err) == codes.Unimplemented {
			s.obs("getunimpl", s.violate("Get/unimplemented", "the server is registered for a service with a Get/Update/Pull triple but answers its Get with Unimplemented (method missing or misnamed)", "a response", err.Error()))
			return
		}
		s.obs("geterr", s.violate("Get/error", "Get returned an error", "a response", err.Error()))
		return
	}
	got := out[0].Interface().(proto.Message)
	s.trace = append(s.trace, stepDesc{s.step, op, txt(got)})
	v := "ok"
	if s.cur == nil {
		if mask == nil {
			s.cur = proto.Clone(got)
		}
	} else {
		s.fact(mask, s.cur)
		want := project(mask, s.cur)
		if !proto.Equal(got, want) {
			class, what := "Get/differs-from-register", "an unmasked Get differs from the last successful Update response (or, after a rejected Update, from the Get before it)"
			if mask != nil {
				class, what = "Get/masked-get-not-projection", "a Get with a read mask differs from the projection of the register's value"
			}
			v = s.violate(class, what, txt(want), txt(got))
		}
	}
	s.obs(fmt.Sprintf("get %d %d", s.maskID(mask), s.id(got)), v)
}

func paths(m *fieldmaskpb.FieldMask) string {
	if m == nil {
		return "nil"
	}
	return "[" + strings.Join(m.Paths, ",") + "]"
}

func (s *session) doUpdate() {
	req, payload, op := s.prepUpdate()
	out, pm := s.call("Update"+s.t.X, req)
	s.finishUpdate(payload, op, out, pm)
}

// prepUpdate generates an Update request (payload, extras, update mask); finishUpdate judges the outcome as one
// register write on the register as it is when the outcome is judged.
func (s *session) prepUpdate() (proto.Message, proto.Message, string) {
	req := newMsg(s.t.update.Input())
	s.g.Density = s.density()
	// random extras first (relative/delta flags etc.: part of the arbitrary interceptor), then the canonical fields
	tmp := s.g.Message(req.Type())
	req = tmp.ProtoReflect()
	fds := req.Descriptor().Fields()
	for i := 0; i < fds.Len(); i++ {
		if fd := fds.Get(i); fd.Kind() == protoreflect.MessageKind || fd.Kind() == protoreflect.StringKind {
			req.Clear(fd)
		}
	}
	setStr(req, "name", s.reqName())
	pf := payloadField(s.t.update.Input(), s.t.resource)
	payload := s.g.Message(newMsg(s.t.resource).Type())
	stripTweens(payload.ProtoReflect())
	if s.singleItem {
		capLists(payload.ProtoReflect(), 1)
	}
	req.Set(pf, protoreflect.ValueOfMessage(payload.ProtoReflect()))
	um := s.randMask(s.t.resource, 50, s.r.Intn(2) == 0) // half of the update masks are nested (paths below message fields)
	if um != nil && len(um.Paths) == 0 {
		um = nil
	}
	if s.bogusMasks && s.r.Intn(10) == 0 {
		// an update mask naming a field the resource does not have (alone, or next to valid paths): whatever the server
		// answers, it is one register write or a rejected one
		bogus := []string{"no_such_field", "no_such_field.x", string(s.t.resource.Fields().Get(0).Name()) + "_"}[s.r.Intn(3)]
		if um == nil || s.r.Intn(2) == 0 {
			um = &fieldmaskpb.FieldMask{Paths: []string{bogus}}
		} else {
			um = &fieldmaskpb.FieldMask{Paths: append(append([]string{}, um.Paths...), bogus)}
		}
	}
	setMask(req, "update_mask", um)
	op := fmt.Sprintf("Update%s(%s)", s.t.X, txt(req.Interface()))
	reportProgress(progress{Sid: s.sid, Step: s.step, Op: op, Trace: tailTrace(s.trace, 12)})
	return req.Interface(), payload, op
}

func (s *session) finishUpdate(payload proto.Message, op string, out []reflect.Value, pm string) {
	if pm != "" {
		s.trace = append(s.trace, stepDesc{s.step, op, "panic: " + pm})
		s.obs("updpanic", s.violate("Update/panic", "Update panicked instead of returning a value or a status", "a response or an error status", "panic: "+pm))
		return
	}
	if err, _ := out[1].Interface().(error); err != nil {
		s.trace = append(s.trace, stepDesc{s.step, op, "error: " + status.Code(err).String()})
		s.mon.Count("update-error:" + status.Code(err).String())
		s.obs("upderr", "ok")
		// rejected_frame: nothing may arrive on the streams and the next Get is unchanged
		s.drain(false)
		s.doGet(nil)
		return
	}
	got := out[0].Interface().(proto.Message)
	s.trace = append(s.trace, stepDesc{s.step, op, txt(got)})
	s.mon.Count("update-ok")
	prev := s.cur
	s.cur = proto.Clone(got)
	s.noteWrite(payload, prev, s.cur)
	for _, st := range s.streams {
		if st.closed {
			continue
		}
		s.fact(st.mask, s.cur)
		if prev != nil {
			s.fact(st.mask, prev)
		}
		w := project(st.mask, s.cur)
		must := (prev == nil || !proto.Equal(w, project(st.mask, prev))) && st.established
		st.queue = append(st.queue, expect{val: w, must: must})
	}
	s.obs(fmt.Sprintf("updok %d", s.id(got)), "ok")
	s.drain(true)
}

// recvOne handles one message that arrived on stream i.
func (s *session) recvOne(i int, m streamMsg) {
	st := s.streams[i]
	st.lastSeen = m.val
	s.trace = append(s.trace, stepDesc{s.step, fmt.Sprintf("stream#%d recv", i), fmt.Sprintf("name=%q %s", m.name, txt(m.val))})
	v := "ok"
	for len(st.queue) > 0 && !st.queue[0].must && !proto.Equal(st.queue[0].val, m.val) {
		st.queue = st.queue[1:]
	}
	switch {
	case len(st.queue) == 0:
		v = s.violate("Pull/unexpected-stream-message", "a Pull stream delivered a message no successful Update (or seed) accounts for", "nothing", txt(m.val))
	case !proto.Equal(st.queue[0].val, m.val):
		v = s.violate("Pull/wrong-stream-value", "a Pull stream delivered a value that is not the (projected) Update response / current value", txt(st.queue[0].val), txt(m.val))
		st.queue = st.queue[1:]
	default:
		st.queue = st.queue[1:]
		st.established = true
		if m.name != st.name {
			v = s.violate("Pull/wrong-name", "a change on a Pull stream does not carry the name given in the Pull request", st.name, m.name)
		}
	}
	nameok := 1
	if m.name != st.name {
		nameok = 0
	}
	s.obs(fmt.Sprintf("recv %d %d %d", i, s.id(m.val), nameok), v)
}

// drain receives what the streams owe: every MUST entry is waited for (bounded); optional entries get
// a short grace period. Messages that arrive although nothing is owed are read too.
func (s *session) drain(wait bool) {
	if s.noDrain {
		return
	}
	for i, st := range s.streams {
		if st.closed || st.stalled {
			continue
		}
		for {
			mustPending := false
			for _, e := range st.queue {
				mustPending = mustPending || e.must
			}
			timeout := 300 * time.Microsecond
			if mustPending {
				timeout = time.Second
			}
			select {
			case m, ok := <-st.ch:
				if !ok || m.err != nil {
					st.closed = true
					s.obs(fmt.Sprintf("ended %d", i), s.violate("Pull/stream-ended", "a Pull stream ended although it was not cancelled", "open stream", fmt.Sprint(m.err)))
					goto next
				}
				s.recvOne(i, m)
				continue
			case <-time.After(timeout):
			}
			v := "ok"
			if mustPending {
				class, what := "Pull/update-missing-on-stream", "a successful value-changing Update did not appear on an open Pull stream"
				v = s.violate(class, what, txt(firstMust(st.queue)), "nothing within 1s")
				st.queue = nil
			}
			s.obs(fmt.Sprintf("idle %d", i), v)
			break
		}
	next:
	}
}

func firstMust(q []expect) proto.Message {
	for _, e := range q {
		if e.must {
			return e.val
		}
	}
	return nil
}

func (s *session) doPull() {
	s.doPullWith(s.randMask(s.t.resource, 50, true), s.r.Intn(3) == 0)
}

func (s *session) doPullWith(mask *fieldmaskpb.FieldMask, uo bool) {
	openLine := "open"
	var prep func(req protoreflect.Message)
	if s.keyedOpen != nil {
		prep = func(req protoreflect.Message) { openLine = s.keyedOpen(req) }
	}
	st, op, failure := s.openStream(mask, uo, prep)
	if st == nil {
		s.trace = append(s.trace, stepDesc{s.step, op, "failed: " + failure})
		s.obs("openerr", s.violate("Pull/open-failed", "opening a Pull stream failed", "a stream", failure))
		return
	}
	s.streams = append(s.streams, st)
	s.trace = append(s.trace, stepDesc{s.step, op, fmt.Sprintf("stream#%d", len(s.streams)-1)})
	if !uo && s.cur != nil {
		s.fact(mask, s.cur)
		st.queue = append(st.queue, expect{val: project(mask, s.cur), must: true})
	}
	uoi := 0
	if uo {
		uoi = 1
	}
	s.obs(fmt.Sprintf("%s %d %d", openLine, s.maskID(mask), uoi), "ok")
	if !s.noSeedWait {
		s.drainSeed(len(s.streams) - 1)
	}
}

// openStream sends the Pull request (name, read_mask, updates_only; prep may add more) and starts the goroutine that
// turns the responses into streamMsgs. It returns nil and the failure if the call failed.
func (s *session) openStream(mask *fieldmaskpb.FieldMask, uo bool, prep func(req protoreflect.Message)) (st *pullStream, op, failure string) {
	req := newMsg(s.t.pull.Input())
	reqName := s.reqName()
	setStr(req, "name", reqName)
	setMask(req, "read_mask", mask)
	if prep != nil {
		prep(req)
	}
	if fd := req.Descriptor().Fields().ByName("updates_only"); fd != nil {
		req.Set(fd, protoreflect.ValueOfBool(uo))
	}
	op = fmt.Sprintf("%s(read_mask=%v updates_only=%v)", s.t.pull.Name(), paths(mask), uo)
	ctx, cancel := context.WithCancel(context.Background())
	var out []reflect.Value
	m := s.client.MethodByName(string(s.t.pull.Name()))
	panicked, pm := lib.Catch(func() {
		out = m.Call([]reflect.Value{reflect.ValueOf(ctx), reflect.ValueOf(req.Interface())})
	})
	if panicked || !out[1].IsNil() {
		cancel()
		return nil, op, pm + fmt.Sprint(out)
	}
	stream := out[0]
	st = &pullStream{mask: mask, maskID: s.maskID(mask), uo: uo, cancel: cancel, ch: make(chan streamMsg, 64), name: reqName}
	recv := stream.MethodByName("Recv")
	pullOut := s.t.pull.Output()
	go func() {
		defer close(st.ch)
		for {
			st.holdMu.Lock()
			h := st.hold
			st.holdMu.Unlock()
			if h != nil {
				// a client that has stopped reading its stream
				select {
				case <-h:
				case <-ctx.Done():
					return
				}
			}
			var r []reflect.Value
			if p, _ := lib.Catch(func() { r = recv.Call(nil) }); p {
				return
			}
			if err, _ := r[1].Interface().(error); err != nil {
				if ctx.Err() == nil {
					st.ch <- streamMsg{err: err}
				}
				return
			}
			resp := r[0].Interface().(proto.Message).ProtoReflect()
			cf := pullOut.Fields().ByName("changes")
			if cf == nil {
				continue
			}
			l := resp.Get(cf).List()
			for i := 0; i < l.Len(); i++ {
				ch := l.Get(i).Message()
				var sm streamMsg
				if nf := ch.Descriptor().Fields().ByName("name"); nf != nil {
					sm.name = ch.Get(nf).String()
				}
				if pf := payloadField(ch.Descriptor(), s.t.resource); pf != nil && ch.Has(pf) {
					sm.val = ch.Get(pf).Message().Interface()
				} else {
					sm.val = newMsg(s.t.resource).Interface()
				}
				st.ch <- sm
			}
		}
	}()
	return st, op, ""
}

// openNoWait opens a seeded, unmasked stream and returns without waiting for the seed.
func (s *session) openNoWait() {
	s.noSeedWait = true
	s.doPullWith(nil, false)
	s.noSeedWait = false
}

// drainSeed is drain for the stream just opened, with seed-specific failure classes.
func (s *session) drainSeed(i int) {
	st := s.streams[i]
	if len(st.queue) == 0 {
		// updates_only: nothing may arrive; yield so that the handler gets to subscribe
		for i := 0; i < 200; i++ {
			runtime.Gosched()
		}
		select {
		case m, ok := <-st.ch:
			if ok && m.err == nil {
				s.recvOne(i, m)
			}
		case <-time.After(300 * time.Microsecond):
		}
		s.obs(fmt.Sprintf("idle %d", i), "ok")
		return
	}
	select {
	case m, ok := <-st.ch:
		if !ok || m.err != nil {
			st.closed = true
			s.obs(fmt.Sprintf("ended %d", i), s.violate("Pull/stream-ended", "a Pull stream ended although it was not cancelled", "open stream", fmt.Sprint(m.err)))
			return
		}
		want := st.queue[0].val
		if !proto.Equal(want, m.val) {
			st.queue = nil
			s.trace = append(s.trace, stepDesc{s.step, fmt.Sprintf("stream#%d recv", i), fmt.Sprintf("name=%q %s", m.name, txt(m.val))})
			nameok := 1
			if m.name != st.name {
				nameok = 0
			}
			s.obs(fmt.Sprintf("recv %d %d %d", i, s.id(m.val), nameok),
				s.violate("Pull/seed-wrong", "a new Pull without updates_only did not start with the (projected) current value", txt(want), txt(m.val)))
			return
		}
		s.recvOne(i, m)
		s.obs(fmt.Sprintf("idle %d", i), "ok")
	case <-time.After(time.Second):
		st.queue = nil
		s.obs(fmt.Sprintf("idle %d", i), s.violate("Pull/seed-missing", "a new Pull without updates_only did not start with the current value", "the current value", "nothing within 1s"))
	}
}

func (s *session) doClose() {
	var open []int
	for i, st := range s.streams {
		if !st.closed {
			open = append(open, i)
		}
	}
	if len(open) == 0 {
		return
	}
	i := open[s.r.Intn(len(open))]
	s.streams[i].closed = true
	s.streams[i].cancel()
	s.trace = append(s.trace, stepDesc{s.step, fmt.Sprintf("cancel stream#%d", i), ""})
	s.obs(fmt.Sprintf("close %d", i), "ok")
}

func (s *session) openCount() int {
	n := 0
	for _, st := range s.streams {
		if !st.closed {
			n++
		}
	}
	return n
}

// sessionID identifies a generated session: everything in it is a function of these fields.
type sessionID struct {
	Kind   string `json:"kind"` // "triple"
	Triple string `json:"triple"`
	Seed   int64  `json:"seed"`
	Seq    int    `json:"seq"`
	Steps  int    `json:"steps"`
}

func seqRand(seed int64, key string, seq int) *rand.Rand {
	h := fnv.New64a()
	fmt.Fprintf(h, "%d/%s/%d", seed, key, seq)
	return rand.New(rand.NewSource(int64(h.Sum64() >> 1)))
}

// runSession executes one session; returns the observation lines and the monitor's verdicts.
func runSession(t triple, sid sessionID, mon *lib.Monitor) (lines, verdicts []string) {
	r := seqRand(sid.Seed, sid.Triple, sid.Seq)
	s := &session{t: t, r: r, g: pbgen.New(r), ids: map[string]int{}, maskIDs: map[string]int{}, mon: mon, sid: sid}
	s.g.MaxDepth = 2
	cl, model := t.Row.New()
	var g *gate
	if mk := gatedRows[t.Row.rowKey()]; mk != nil {
		g = &gate{}
		cl, model = mk(g), nil
	}
	s.names = rowNames[t.Row.rowKey()]
	s.client = reflect.ValueOf(cl)
	s.pokes = pokeMethods(model, t.resource)
	s.singleItem = sid.Seq%2 == 1
	s.bogusMasks = sid.Seq%3 == 2
	s.input = func(n int) any {
		return map[string]any{"kind": "triple", "triple": sid.Triple, "seed": sid.Seed, "seq": sid.Seq, "steps": n, "trace": tailTrace(s.trace, 14)}
	}
	defer func() {
		for _, st := range s.streams {
			st.cancel()
		}
	}()
	s.lines = append(s.lines, "reset")
	s.verdict = append(s.verdict, "ok")
	s.step = -1
	if g != nil {
		s.firstUse(g) // the first requests for the name overlap inside the router's client factory
	} else {
		s.doGet(nil) // learn the initial value
	}
	for i := 0; i < sid.Steps && !s.failed; i++ {
		s.step = i
		reportProgress(progress{Sid: sid, Step: i, Op: "next", Trace: tailTrace(s.trace, 12)})
		switch x := s.r.Intn(20); {
		case x < 9:
			if s.t.isPair() {
				s.doPoke()
			} else {
				s.doUpdate()
			}
		case x < 14:
			m := s.randMask(s.t.resource, 40, true)
			s.doGet(m)
			if m != nil && !s.failed {
				s.doGet(nil) // a read does not change the register
			}
		case x < 18:
			if s.openCount() < 2 {
				s.doPull()
				if !s.failed {
					s.doGet(nil) // opening a (masked) stream does not change the register
				}
			}
		default:
			s.doClose()
		}
	}
	if !s.failed {
		// end of session: everything owed must have arrived
		s.step = sid.Steps
		s.drain(true)
		s.doGet(nil)
	}
	mon.Eval(sid.Triple+fmt.Sprint(sid.Seq), len(s.lines) > 6, nil)
	return s.lines, s.verdict
}

func tailTrace(t []stepDesc, n int) []stepDesc {
	if len(t) > n {
		return t[len(t)-n:]
	}
	return t
}

func allTriples() ([]triple, map[string]string, error) {
	var out []triple
	services := map[string]string{}
	for _, row := range stackTable {
		ts, svc, err := discover(row)
		if err != nil {
			return nil, nil, err
		}
		services[row.key()] = svc
		out = append(out, ts...)
	}
	sort.Slice(out, func(i, j int) bool { return out[i].key() < out[j].key() })
	return out, services, nil
}

var tWriteOpt = reflect.TypeOf((*resource.WriteOption)(nil)).Elem()

// pokeMethods finds the model's own writers of resource r: exported methods named Update*/Set*/Create*/Add*/Merge*
// whose only mandatory parameter is a *R (optionally followed by ...resource.WriteOption).
func pokeMethods(model any, r protoreflect.MessageDescriptor) []reflect.Value {
	if model == nil {
		return nil
	}
	v := reflect.ValueOf(model)
	t := v.Type()
	var out []reflect.Value
	for i := 0; i < t.NumMethod(); i++ {
		m := t.Method(i)
		ok := false
		for _, p := range []string{"Update", "Set", "Create", "Add", "Merge"} {
			ok = ok || strings.HasPrefix(m.Name, p)
		}
		mt := m.Type
		if !ok || mt.NumIn() < 2 {
			continue
		}
		// (recv, *R [, ...WriteOption])  or, for servers that key their registers by the device name
		// (metadatapb.Collection), (recv, name string, *R [, ...WriteOption])
		pi := 1
		if mt.In(1).Kind() == reflect.String && mt.NumIn() >= 3 {
			pi = 2
		}
		if mt.NumIn() > pi+2 {
			continue
		}
		in := mt.In(pi)
		pm, isProto := reflect.Zero(in).Interface().(proto.Message)
		if !isProto || in.Kind() != reflect.Ptr || pm.ProtoReflect().Descriptor().FullName() != r.FullName() {
			continue
		}
		if mt.NumIn() == pi+2 && !(mt.IsVariadic() && mt.In(pi+1).Elem() == tWriteOpt) {
			continue
		}
		out = append(out, v.Method(i))
	}
	return out
}

// doPoke writes the register at the model level (the service has no Update RPC); the value it now
// holds is read back with a full Get and plays the role of the Update response.
func (s *session) doPoke() {
	if len(s.pokes) == 0 {
		return
	}
	m := s.pokes[s.r.Intn(len(s.pokes))]
	s.g.Density = s.density()
	payload := s.g.Message(newMsg(s.t.resource).Type())
	stripTweens(payload.ProtoReflect())
	if s.singleItem {
		capLists(payload.ProtoReflect(), 1)
	}
	op := fmt.Sprintf("model-level write(%s)", txt(payload))
	reportProgress(progress{Sid: s.sid, Step: s.step, Op: op, Trace: tailTrace(s.trace, 12)})
	var outs []reflect.Value
	args := []reflect.Value{reflect.ValueOf(payload)}
	if mt := m.Type(); mt.NumIn() >= 2 && mt.In(0).Kind() == reflect.String {
		// the register lives under the device name; create it if this is the first write
		args = []reflect.Value{reflect.ValueOf(devName), reflect.ValueOf(payload)}
		if mt.IsVariadic() {
			args = append(args, reflect.ValueOf(resource.WithCreateIfAbsent()))
		}
	}
	panicked, pmsg := lib.Catch(func() { outs = m.Call(args) })
	if f := s.onWritten; f != nil {
		s.onWritten = nil
		f()
	}
	if panicked {
		s.trace = append(s.trace, stepDesc{s.step, op, "panic: " + pmsg})
		return // a model-level panic on arbitrary input is not this property's concern
	}
	for _, o := range outs {
		if err, ok := o.Interface().(error); ok && err != nil {
			s.trace = append(s.trace, stepDesc{s.step, op, "error: " + err.Error()})
			s.mon.Count("poke-error")
			s.obs("upderr", "ok")
			s.drain(false)
			s.doGet(nil)
			return
		}
	}
	s.mon.Count("poke-ok")
	// read the new value back
	req := newMsg(s.t.get.Input())
	setStr(req, "name", s.reqName())
	gout, pm := s.call("Get"+s.t.X, req.Interface())
	if pm != "" || gout[1].Interface() != nil {
		s.trace = append(s.trace, stepDesc{s.step, op, "Get after the write failed"})
		s.obs("geterr", s.violate("Get/error", "Get failed after a model-level write", "a response", pm))
		return
	}
	got := gout[0].Interface().(proto.Message)
	s.trace = append(s.trace, stepDesc{s.step, op, "now " + txt(got)})
	prev := s.cur
	s.cur = proto.Clone(got)
	s.noteWrite(payload, prev, s.cur)
	for _, st := range s.streams {
		if st.closed {
			continue
		}
		s.fact(st.mask, s.cur)
		if prev != nil {
			s.fact(st.mask, prev)
		}
		w := project(st.mask, s.cur)
		must := (prev == nil || !proto.Equal(w, project(st.mask, prev))) && st.established
		st.queue = append(st.queue, expect{val: w, must: must})
	}
	s.obs(fmt.Sprintf("updok %d", s.id(got)), "ok")
	s.drain(true)
}

func (s *session) density() float64 {
	if s.dense > 0 {
		return s.dense
	}
	return 0.5
}

func ctxBg() context.Context { return context.Background() }
