package main

import (
	"fmt"
	"reflect"
	"strings"
	"time"

	"google.golang.org/grpc/status"
	"google.golang.org/protobuf/proto"
	"google.golang.org/protobuf/reflect/protoreflect"
	"google.golang.org/protobuf/types/known/durationpb"

	"github.com/smart-core-os/sc-golang/verifharness/cmd/c07/pbgen"
	"github.com/smart-core-os/sc-golang/verifharness/lib"
)

// Scenario family for servers whose Update can start BACKGROUND writes: resources with a field of the
// sc-api Tween type (lightpb.MemoryDevice animates brightness in a goroutine).
//
//   interrupted:      Update with a short tween (shorter than one tick, or a few ticks) ▸ after a random
//                     delay a plain Update ▸ wait until the tween's deadline has certainly passed ▸
//                     Get must equal the LAST Update's response, open streams must have ended on it
//   not interrupted:  Update with a tween ▸ wait (bounded polling) ▸ Get eventually equals the tween's
//                     target and the streams end on it. The target is taken from a twin server of the
//                     same kind that received the same request without the tween.
//
// Intermediate tween values are never asserted on. A slow machine can only make the interrupted
// scenario miss a stale write (it is awaited for a fixed time) and the other one wait longer (polled).

// tweenField returns the top-level field of r that holds a Tween, if any.
func tweenField(r protoreflect.MessageDescriptor) protoreflect.FieldDescriptor {
	fds := r.Fields()
	for i := 0; i < fds.Len(); i++ {
		fd := fds.Get(i)
		if fd.Kind() == protoreflect.MessageKind && !fd.IsList() && !fd.IsMap() && strings.HasSuffix(string(fd.Message().FullName()), ".Tween") {
			return fd
		}
	}
	return nil
}

const tweenSlack = 400 * time.Millisecond // two generous ticks + 150 ms after the tween's nominal end

// updateReq builds an Update request: random extras, the given payload, no update mask.
func (s *session) updateReq(payload proto.Message, extras proto.Message) protoreflect.Message {
	req := proto.Clone(extras).ProtoReflect()
	setStr(req, "name", devName)
	req.Set(payloadField(s.t.update.Input(), s.t.resource), protoreflect.ValueOfMessage(proto.Clone(payload).ProtoReflect()))
	return req
}

func (s *session) randomExtras() proto.Message {
	req := s.g.Message(newMsg(s.t.update.Input()).Type()).ProtoReflect()
	fds := req.Descriptor().Fields()
	for i := 0; i < fds.Len(); i++ {
		if fd := fds.Get(i); fd.Kind() == protoreflect.MessageKind || fd.Kind() == protoreflect.StringKind {
			req.Clear(fd)
		}
	}
	return req.Interface()
}

// takeAll receives everything stream i has delivered so far (in bg mode every message is just recorded).
func (s *session) takeAll(i int, grace time.Duration) {
	st := s.streams[i]
	for {
		select {
		case m, ok := <-st.ch:
			if !ok || m.err != nil {
				st.closed = true
				s.obs(fmt.Sprintf("ended %d", i), s.violate("Pull/stream-ended", "a Pull stream ended although it was not cancelled", "open stream", fmt.Sprint(m.err)))
				return
			}
			st.lastSeen = m.val
			st.established = true
			v := "ok"
			nameok := 1
			if m.name != devName {
				nameok = 0
				v = s.violate("Pull/wrong-name", "a change on a Pull stream does not carry the name given in the Pull request", devName, m.name)
			}
			s.trace = append(s.trace, stepDesc{s.step, fmt.Sprintf("stream#%d recv", i), txt(m.val)})
			s.obs(fmt.Sprintf("recv %d %d %d", i, s.id(m.val), nameok), v)
		case <-time.After(grace):
			return
		}
	}
}

func runTweenSession(t triple, sid sessionID, mon *lib.Monitor) (lines, verdicts []string) {
	r := seqRand(sid.Seed, sid.Triple+"/tween", sid.Seq)
	s := &session{t: t, r: r, g: pbgen.New(r), ids: map[string]int{}, maskIDs: map[string]int{}, mon: mon, sid: sid}
	s.g.MaxDepth = 2
	cl, _ := t.Row.New()
	s.client = reflect.ValueOf(cl)
	twinCl, _ := t.Row.New()
	twin := reflect.ValueOf(twinCl)
	s.input = func(n int) any {
		return map[string]any{"kind": "tween", "triple": sid.Triple, "seed": sid.Seed, "seq": sid.Seq, "steps": n, "trace": tailTrace(s.trace, 16)}
	}
	defer func() {
		for _, st := range s.streams {
			st.cancel()
		}
	}()
	s.lines, s.verdict = []string{"reset"}, []string{"ok"}
	s.step = -1
	s.doGet(nil)
	if s.failed {
		return s.lines, s.verdict
	}
	s.step = 0
	if r.Intn(3) != 0 {
		s.doPullWith(nil, false) // one seeded, unmasked stream
	}
	tf := tweenField(t.resource)
	dur := []time.Duration{20 * time.Millisecond, 200 * time.Millisecond}[r.Intn(2)]
	interrupted := r.Intn(3) != 0
	// the tween request and its tween-less twin
	s.g.Density = 0.35 // few fields: requests that take a server's special branches (presets ...) stay the minority
	payload := s.g.Message(newMsg(t.resource).Type())
	stripTweens(payload.ProtoReflect())
	extras := s.randomExtras()
	withTween := proto.Clone(payload)
	tw := withTween.ProtoReflect().Mutable(tf).Message()
	if df := tw.Descriptor().Fields().ByName("total_duration"); df != nil {
		tw.Set(df, protoreflect.ValueOfMessage(durationpb.New(dur).ProtoReflect()))
	}
	s.step = 1
	op := fmt.Sprintf("Update%s(%s) [tween %v]", t.X, txt(withTween), dur)
	reportProgress(progress{Sid: sid, Step: s.step, Op: op, Trace: tailTrace(s.trace, 12)})
	start := time.Now()
	out, pm := s.call("Update"+t.X, s.updateReq(withTween, extras).Interface())
	if pm != "" {
		s.obs("updpanic", s.violate("Update/panic", "Update panicked", "a response or an error status", pm))
		return s.lines, s.verdict
	}
	if err, _ := out[1].Interface().(error); err != nil {
		s.trace = append(s.trace, stepDesc{s.step, op, "error: " + status.Code(err).String()})
		s.obs("upderr", "ok")
		s.doGet(nil)
		return s.lines, s.verdict
	}
	r1 := out[0].Interface().(proto.Message)
	s.trace = append(s.trace, stepDesc{s.step, op, txt(r1)})
	// where the tween ends: what the same request without the tween answers on a twin server
	var target proto.Message
	{
		var o []reflect.Value
		p, _ := lib.Catch(func() {
			o = twin.MethodByName("Update" + t.X).Call([]reflect.Value{reflect.ValueOf(ctxBg()), reflect.ValueOf(s.updateReq(payload, extras).Interface())})
		})
		if p || o[1].Interface() != nil {
			// the twin refuses the request without a tween: no oracle for the target, fall back to "whatever Get says later"
			target = nil
		} else {
			target = o[0].Interface().(proto.Message)
		}
	}
	// Whether this server animates at all is observed, not assumed: if the register moves away from the
	// response without any request, it does, and must end on the twin's answer; if it stays on the response
	// past the deadline, the tween was stored as plain data and the response is the register's value.
	// The observation line is completed once that is known (the acceptor reads the trace afterwards).
	s.cur = proto.Clone(r1)
	for _, st := range s.streams {
		st.queue = nil
	}
	bgLine := len(s.lines)
	s.obs("updokbg", "ok")
	mon.Count("tween:" + dur.String())
	if interrupted {
		// land a plain Update somewhere between "at once" and "just after the nominal end"
		delays := []time.Duration{0, dur / 2, dur - 10*time.Millisecond, dur + 20*time.Millisecond, dur + 60*time.Millisecond}
		d := delays[r.Intn(len(delays))]
		if d > 0 {
			time.Sleep(time.Until(start.Add(d)))
		}
		s.step = 2
		p2 := s.g.Message(newMsg(t.resource).Type())
		stripTweens(p2.ProtoReflect())
		op2 := fmt.Sprintf("Update%s(%s) [plain, %v after the tween started]", t.X, txt(p2), d)
		reportProgress(progress{Sid: sid, Step: s.step, Op: op2, Trace: tailTrace(s.trace, 12)})
		out2, pm2 := s.call("Update"+t.X, s.updateReq(p2, s.randomExtras()).Interface())
		if pm2 != "" {
			s.obs("updpanic", s.violate("Update/panic", "Update panicked", "a response or an error status", pm2))
			return s.lines, s.verdict
		}
		if err, _ := out2[1].Interface().(error); err != nil {
			s.trace = append(s.trace, stepDesc{s.step, op2, "error: " + status.Code(err).String()})
			s.obs("upderr", "ok")
			interrupted = false
		} else {
			r2 := out2[0].Interface().(proto.Message)
			s.trace = append(s.trace, stepDesc{s.step, op2, txt(r2)})
			s.cur = proto.Clone(r2)
			for _, st := range s.streams {
				s.fact(st.mask, r2)
			}
			s.obs(fmt.Sprintf("updok %d", s.id(r2)), "ok")
			mon.Count("tween-interrupted")
		}
	}
	s.step = 3
	get := func() proto.Message {
		req := newMsg(t.get.Input())
		setStr(req, "name", devName)
		o, p := s.call("Get"+t.X, req.Interface())
		if p != "" || o[1].Interface() != nil {
			return nil
		}
		return o[0].Interface().(proto.Message)
	}
	final := r1 // what the background job ends on, as far as the acceptor is told
	if interrupted {
		// a stale background write, if the server has one, happens by the deadline: wait for it, never shorter
		time.Sleep(time.Until(start.Add(dur + tweenSlack)))
	} else {
		animated := false
		for time.Now().Before(start.Add(dur + tweenSlack)) {
			if g := get(); g != nil && !proto.Equal(g, r1) {
				animated = true
				break
			}
			time.Sleep(15 * time.Millisecond)
		}
		if animated {
			mon.Count("tween-animated")
			if target != nil {
				final = target
				// eventually the target: poll (bounded) so that a slow machine only makes this slower
				deadline := start.Add(dur + tweenSlack + 3*time.Second)
				for time.Now().Before(deadline) {
					if g := get(); g != nil && proto.Equal(g, target) {
						break
					}
					time.Sleep(20 * time.Millisecond)
				}
			} else {
				// no oracle for the target: wait for the deadline and take what the register holds then
				time.Sleep(time.Until(start.Add(dur + tweenSlack)))
				if g := get(); g != nil {
					final = g
				}
			}
			s.cur = proto.Clone(final)
			// and the streams get the final message
			for i, st := range s.streams {
				end := time.Now().Add(time.Second)
				for !st.closed && time.Now().Before(end) {
					s.takeAll(i, 20*time.Millisecond)
					if st.lastSeen != nil && proto.Equal(st.lastSeen, s.cur) {
						break
					}
				}
			}
		}
	}
	s.lines[bgLine] = fmt.Sprintf("updokbg %d %d", s.id(r1), s.id(final))
	for i := range s.streams {
		s.takeAll(i, 30*time.Millisecond)
	}
	// quiescence: the streams must have ended on the register's value
	v := "ok"
	if s.cur != nil && !s.failed {
		for i, st := range s.streams {
			if st.closed || !st.established {
				continue
			}
			if st.lastSeen == nil || !proto.Equal(st.lastSeen, s.cur) {
				what := "after a tween that a later Update interrupted, an open Pull stream did not end on that Update's response (a stale background write was published)"
				if !interrupted {
					what = "after a completed tween an open Pull stream did not end on the tween's target"
				}
				v = s.violate("Pull/stream-does-not-end-on-register", what, txt(s.cur), fmt.Sprintf("stream#%d ended on %s", i, txt(st.lastSeen)))
				break
			}
		}
	}
	s.obs("quiesce", v)
	if !s.failed {
		s.doGet(nil)
	}
	mon.Eval(sid.Triple+"/tween"+fmt.Sprint(sid.Seq), true, nil)
	return s.lines, s.verdict
}
