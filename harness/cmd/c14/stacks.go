package main

import (
	"math/rand"
	"strings"
	"sync"
	"time"

	"google.golang.org/protobuf/proto"
	"google.golang.org/protobuf/types/known/timestamppb"

	"github.com/smart-core-os/sc-api/go/traits"
	"github.com/smart-core-os/sc-api/go/types"
	"github.com/smart-core-os/sc-golang/pkg/resource"
	"github.com/smart-core-os/sc-golang/pkg/trait/accesspb"
	"github.com/smart-core-os/sc-golang/pkg/trait/airqualitysensorpb"
	"github.com/smart-core-os/sc-golang/pkg/trait/airtemperaturepb"
	"github.com/smart-core-os/sc-golang/pkg/trait/bookingpb"
	"github.com/smart-core-os/sc-golang/pkg/trait/countpb"
	"github.com/smart-core-os/sc-golang/pkg/trait/electricpb"
	"github.com/smart-core-os/sc-golang/pkg/trait/emergencypb"
	"github.com/smart-core-os/sc-golang/pkg/trait/energystoragepb"
	"github.com/smart-core-os/sc-golang/pkg/trait/enterleavesensorpb"
	"github.com/smart-core-os/sc-golang/pkg/trait/fanspeedpb"
	"github.com/smart-core-os/sc-golang/pkg/trait/hailpb"
	"github.com/smart-core-os/sc-golang/pkg/trait/lightpb"
	"github.com/smart-core-os/sc-golang/pkg/trait/metadatapb"
	"github.com/smart-core-os/sc-golang/pkg/trait/meterpb"
	"github.com/smart-core-os/sc-golang/pkg/trait/modepb"
	"github.com/smart-core-os/sc-golang/pkg/trait/occupancysensorpb"
	"github.com/smart-core-os/sc-golang/pkg/trait/onoffpb"
	"github.com/smart-core-os/sc-golang/pkg/trait/openclosepb"
	"github.com/smart-core-os/sc-golang/pkg/trait/parentpb"
	"github.com/smart-core-os/sc-golang/pkg/trait/presspb"
	"github.com/smart-core-os/sc-golang/pkg/trait/publicationpb"
	"github.com/smart-core-os/sc-golang/pkg/trait/speakerpb"
	"github.com/smart-core-os/sc-golang/pkg/trait/vendingpb"
	"github.com/smart-core-os/sc-golang/pkg/trait/wastepb"
)

// devName is the name the inner client is registered under in the router and the name every
// request carries.
const devName = "dev"

// stackRow is one server implementation stacked as WrapApi(router(WrapApi(server))).
// Go cannot look constructors up by name, so the rows are written out; the K3 fact extractor lists
// the server constructors present in the source tree and the Lean theorem C14_servers_all_driven
// fails when the tree has one this table lacks.
type stackRow struct {
	Pkg  string
	Ctor string // constructor of the server implementation in Pkg
	// New builds the stack and returns the outer client plus the model/device behind the server (for model-level writes
	// on servers without an Update RPC)
	New func() (client any, model any)
	// Variant names a non-default configuration of the same server (model options: initial values, presets ...);
	// "" is the default constructor call. Variants are further rows of the same server: they share its
	// signatures (a finding is a property of the server code, not of the configuration that showed it).
	Variant string
}

// key identifies the server implementation (call site of findings, K3 table of driven servers).
func (r stackRow) key() string { return r.Pkg + "." + r.Ctor }

// rowKey identifies the row (server + configuration): children, sessions and replays are per row.
func (r stackRow) rowKey() string {
	if r.Variant == "" {
		return r.key()
	}
	return r.key() + "+" + r.Variant
}

var stackTable = []stackRow{
	{"accesspb", "NewModelServer", func() (any, any) {
		m := accesspb.NewModel()
		r := accesspb.NewApiRouter()
		r.Add(devName, accesspb.WrapApi(accesspb.NewModelServer(m)))
		return accesspb.WrapApi(r), m
	}, ""},
	{"airqualitysensorpb", "NewModelServer", func() (any, any) {
		m := airqualitysensorpb.NewModel()
		r := airqualitysensorpb.NewApiRouter()
		r.Add(devName, airqualitysensorpb.WrapApi(airqualitysensorpb.NewModelServer(m)))
		return airqualitysensorpb.WrapApi(r), m
	}, ""},
	{"airtemperaturepb", "NewModelServer", func() (any, any) {
		m := airtemperaturepb.NewModel()
		r := airtemperaturepb.NewApiRouter()
		r.Add(devName, airtemperaturepb.WrapApi(airtemperaturepb.NewModelServer(m)))
		return airtemperaturepb.WrapApi(r), m
	}, ""},
	{"airtemperaturepb", "NewMemoryDevice", func() (any, any) {
		m := airtemperaturepb.NewMemoryDevice()
		r := airtemperaturepb.NewApiRouter()
		r.Add(devName, airtemperaturepb.WrapApi(m))
		return airtemperaturepb.WrapApi(r), m
	}, ""},
	{"bookingpb", "NewModelServer", func() (any, any) {
		m := bookingpb.NewModel()
		r := bookingpb.NewApiRouter()
		r.Add(devName, bookingpb.WrapApi(bookingpb.NewModelServer(m)))
		return bookingpb.WrapApi(r), m
	}, ""},
	{"countpb", "NewMemoryDevice", func() (any, any) {
		m := countpb.NewMemoryDevice()
		r := countpb.NewApiRouter()
		r.Add(devName, countpb.WrapApi(m))
		return countpb.WrapApi(r), m
	}, ""},
	{"electricpb", "NewModelServer", func() (any, any) {
		m := electricpb.NewModel()
		r := electricpb.NewApiRouter()
		r.Add(devName, electricpb.WrapApi(electricpb.NewModelServer(m)))
		return electricpb.WrapApi(r), m
	}, ""},
	{"emergencypb", "NewMemoryDevice", func() (any, any) {
		m := emergencypb.NewMemoryDevice()
		r := emergencypb.NewApiRouter()
		r.Add(devName, emergencypb.WrapApi(m))
		return emergencypb.WrapApi(r), m
	}, ""},
	{"energystoragepb", "NewModelServer", func() (any, any) {
		m := energystoragepb.NewModel()
		r := energystoragepb.NewApiRouter()
		r.Add(devName, energystoragepb.WrapApi(energystoragepb.NewModelServer(m)))
		return energystoragepb.WrapApi(r), m
	}, ""},
	{"enterleavesensorpb", "NewModelServer", func() (any, any) {
		m := enterleavesensorpb.NewModel()
		r := enterleavesensorpb.NewApiRouter()
		r.Add(devName, enterleavesensorpb.WrapApi(enterleavesensorpb.NewModelServer(m)))
		return enterleavesensorpb.WrapApi(r), m
	}, ""},
	{"fanspeedpb", "NewModelServer", func() (any, any) {
		m := fanspeedpb.NewModel()
		r := fanspeedpb.NewApiRouter()
		r.Add(devName, fanspeedpb.WrapApi(fanspeedpb.NewModelServer(m)))
		return fanspeedpb.WrapApi(r), m
	}, ""},
	{"hailpb", "NewModelServer", func() (any, any) {
		// the timed garbage collection of arrived hails (a server-initiated Delete) is switched off: the keyed
		// sessions decide themselves when an item is deleted
		m := hailpb.NewModel(hailpb.WithKeepAlive(-1))
		r := hailpb.NewApiRouter()
		r.Add(devName, hailpb.WrapApi(hailpb.NewModelServer(m)))
		return hailpb.WrapApi(r), m
	}, ""},
	{"lightpb", "NewModelServer", func() (any, any) {
		m := lightpb.NewModel()
		r := lightpb.NewApiRouter()
		r.Add(devName, lightpb.WrapApi(lightpb.NewModelServer(m)))
		return lightpb.WrapApi(r), m
	}, ""},
	{"lightpb", "NewMemoryDevice", func() (any, any) {
		m := lightpb.NewMemoryDevice()
		r := lightpb.NewApiRouter()
		r.Add(devName, lightpb.WrapApi(m))
		return lightpb.WrapApi(r), m
	}, ""},
	{"metadatapb", "NewModelServer", func() (any, any) {
		m := metadatapb.NewModel()
		r := metadatapb.NewApiRouter()
		r.Add(devName, metadatapb.WrapApi(metadatapb.NewModelServer(m)))
		return metadatapb.WrapApi(r), m
	}, ""},
	{"metadatapb", "NewCollectionServer", func() (any, any) {
		m := metadatapb.NewCollection()
		r := metadatapb.NewApiRouter()
		r.Add(devName, metadatapb.WrapApi(metadatapb.NewCollectionServer(m)))
		return metadatapb.WrapApi(r), m
	}, ""},
	{"meterpb", "NewModelServer", func() (any, any) {
		m := meterpb.NewModel()
		r := meterpb.NewApiRouter()
		r.Add(devName, meterpb.WrapApi(meterpb.NewModelServer(m)))
		return meterpb.WrapApi(r), m
	}, ""},
	{"modepb", "NewModelServer", func() (any, any) {
		m := modepb.NewModel()
		r := modepb.NewApiRouter()
		r.Add(devName, modepb.WrapApi(modepb.NewModelServer(m)))
		return modepb.WrapApi(r), m
	}, ""},
	{"occupancysensorpb", "NewModelServer", func() (any, any) {
		m := occupancysensorpb.NewModel()
		r := occupancysensorpb.NewApiRouter()
		r.Add(devName, occupancysensorpb.WrapApi(occupancysensorpb.NewModelServer(m)))
		return occupancysensorpb.WrapApi(r), m
	}, ""},
	{"onoffpb", "NewModelServer", func() (any, any) {
		m := onoffpb.NewModel()
		r := onoffpb.NewApiRouter()
		r.Add(devName, onoffpb.WrapApi(onoffpb.NewModelServer(m)))
		return onoffpb.WrapApi(r), m
	}, ""},
	{"openclosepb", "NewModelServer", func() (any, any) {
		m := openclosepb.NewModel()
		r := openclosepb.NewApiRouter()
		r.Add(devName, openclosepb.WrapApi(openclosepb.NewModelServer(m)))
		return openclosepb.WrapApi(r), m
	}, ""},
	{"parentpb", "NewModelServer", func() (any, any) {
		m := parentpb.NewModel()
		r := parentpb.NewApiRouter()
		r.Add(devName, parentpb.WrapApi(parentpb.NewModelServer(m)))
		return parentpb.WrapApi(r), m
	}, ""},
	{"presspb", "NewModelServer", func() (any, any) {
		m := presspb.NewModel(traits.PressedState_UNPRESSED)
		r := presspb.NewApiRouter()
		r.Add(devName, presspb.WrapApi(presspb.NewModelServer(m)))
		return presspb.WrapApi(r), m
	}, ""},
	{"publicationpb", "NewModelServer", func() (any, any) {
		m := publicationpb.NewModel()
		r := publicationpb.NewApiRouter()
		r.Add(devName, publicationpb.WrapApi(publicationpb.NewModelServer(m)))
		return publicationpb.WrapApi(r), m
	}, ""},
	{"speakerpb", "NewMemoryDevice", func() (any, any) {
		m := speakerpb.NewMemoryDevice(&types.AudioLevel{Gain: 10})
		r := speakerpb.NewApiRouter()
		r.Add(devName, speakerpb.WrapApi(m))
		return speakerpb.WrapApi(r), m
	}, ""},
	{"vendingpb", "NewModelServer", func() (any, any) {
		m := vendingpb.NewModel()
		r := vendingpb.NewApiRouter()
		r.Add(devName, vendingpb.WrapApi(vendingpb.NewModelServer(m)))
		return vendingpb.WrapApi(r), m
	}, ""},
	{"wastepb", "NewModelServer", func() (any, any) {
		m := wastepb.NewModel()
		r := wastepb.NewApiRouter()
		r.Add(devName, wastepb.WrapApi(wastepb.NewModelServer(m)))
		return wastepb.WrapApi(r), m
	}, ""},
	// ---- configured variants: the same servers built with model options ------------------------------------
	{"openclosepb", "NewModelServer", func() (any, any) {
		// several directions from the start, presets named from the generator's string pool (so that random
		// payloads select them), the initial positions equal to preset "a" (so that a preset is derived at once)
		up := func(p float32) *traits.OpenClosePosition {
			return &traits.OpenClosePosition{Direction: traits.OpenClosePosition_UP, OpenPercent: p}
		}
		down := func(p float32) *traits.OpenClosePosition {
			return &traits.OpenClosePosition{Direction: traits.OpenClosePosition_DOWN, OpenPercent: p}
		}
		m := openclosepb.NewModel(
			openclosepb.WithInitialPositions(up(100), down(25)),
			openclosepb.WithPreset(&traits.OpenClosePositions_Preset{Name: "a", Title: "A"}, up(100), down(25)),
			openclosepb.WithPreset(&traits.OpenClosePositions_Preset{Name: "b", Title: "B"}, up(0), down(75)),
			openclosepb.WithPreset(&traits.OpenClosePositions_Preset{Name: "c", Title: "C"}, up(50)),
		)
		r := openclosepb.NewApiRouter()
		r.Add(devName, openclosepb.WrapApi(openclosepb.NewModelServer(m)))
		return openclosepb.WrapApi(r), m
	}, "configured"},
	{"lightpb", "NewModelServer", func() (any, any) {
		m := lightpb.NewModel(
			lightpb.WithInitialBrightness(&traits.Brightness{LevelPercent: 50}),
			lightpb.WithPreset(25, &traits.LightPreset{Name: "a", Title: "A"}),
			lightpb.WithPreset(75, &traits.LightPreset{Name: "b", Title: "B"}),
		)
		r := lightpb.NewApiRouter()
		r.Add(devName, lightpb.WrapApi(lightpb.NewModelServer(m)))
		return lightpb.WrapApi(r), m
	}, "configured"},
	{"fanspeedpb", "NewModelServer", func() (any, any) {
		m := fanspeedpb.NewModel(
			fanspeedpb.WithInitialFanSpeed(&traits.FanSpeed{Percentage: 50}),
			fanspeedpb.WithPresets(fanspeedpb.Preset{Name: "a", Percentage: 25}, fanspeedpb.Preset{Name: "b", Percentage: 50}, fanspeedpb.Preset{Name: "c", Percentage: 100}),
		)
		r := fanspeedpb.NewApiRouter()
		r.Add(devName, fanspeedpb.WrapApi(fanspeedpb.NewModelServer(m)))
		return fanspeedpb.WrapApi(r), m
	}, "configured"},
	{"onoffpb", "NewModelServer", func() (any, any) {
		m := onoffpb.NewModel(onoffpb.WithInitialOnOff(&traits.OnOff{State: traits.OnOff_ON}))
		r := onoffpb.NewApiRouter()
		r.Add(devName, onoffpb.WrapApi(onoffpb.NewModelServer(m)))
		return onoffpb.WrapApi(r), m
	}, "configured"},
	{"electricpb", "NewModelServer", func() (any, any) {
		// UpdateActiveMode selects one of the model's modes by id: the default model has none (every Update is
		// rejected), this one has a mode for every id of the generator's string pool but "e"
		mode := func(id string, normal bool, amps float32) *traits.ElectricMode {
			return &traits.ElectricMode{Id: id, Title: "mode " + id, Normal: normal, Segments: []*traits.ElectricMode_Segment{{Magnitude: amps}}}
		}
		m := electricpb.NewModel(electricpb.WithInitialMode(mode("a", true, 12.5), mode("b", false, 25), mode("c", false, 37.5), mode("d", false, 50)))
		r := electricpb.NewApiRouter()
		r.Add(devName, electricpb.WrapApi(electricpb.NewModelServer(m)))
		return electricpb.WrapApi(r), m
	}, "configured"},
	// ---- a keyed model that starts with records and an armed collector (see rowExtras) -------------------------
	{"hailpb", "NewModelServer", func() (any, any) {
		var opts []resource.Option // default keep-alive (30 s); the collector's ticket is primed and never drawn by a Create
		for _, h := range hailInitial() {
			opts = append(opts, resource.WithInitialRecord(h.(*traits.Hail).Id, h))
		}
		m := hailpb.NewModel(opts...)
		r := hailpb.NewApiRouter()
		r.Add(devName, hailpb.WrapApi(hailpb.NewModelServer(m)))
		return hailpb.WrapApi(r), m
	}, "collector"},
	// ---- keyed models whose collections have an id interceptor (resource.WithIDInterceptor): one item, many spellings
	// of its id; every request of a keyed session on these rows spells the id its own way (see rowExtras.Spell) ----------
	{"vendingpb", "NewModelServer", func() (any, any) {
		opts := []resource.Option{resource.WithIDInterceptor(strings.ToLower)}
		for _, m := range stockInitial() {
			opts = append(opts, vendingpb.WithInitialStock(m.(*traits.Consumable_Stock)))
		}
		m := vendingpb.NewModel(opts...)
		r := vendingpb.NewApiRouter()
		c := vendingpb.WrapApi(vendingpb.NewModelServer(m))
		for _, n := range aliasNames {
			r.Add(n, c) // and the device under several names
		}
		return vendingpb.WrapApi(r), m
	}, "icpt"},
	{"hailpb", "NewModelServer", func() (any, any) {
		opts := []resource.Option{hailpb.WithKeepAlive(-1), resource.WithIDInterceptor(strings.ToLower)}
		for _, h := range hailInitialMixed() {
			opts = append(opts, resource.WithInitialRecord(h.(*traits.Hail).Id, h))
		}
		m := hailpb.NewModel(opts...)
		r := hailpb.NewApiRouter()
		r.Add(devName, hailpb.WrapApi(hailpb.NewModelServer(m)))
		return hailpb.WrapApi(r), m
	}, "icpt"},
	{"publicationpb", "NewModelServer", func() (any, any) {
		// ids are compared without surrounding blanks
		m := publicationpb.NewModel(resource.WithIDInterceptor(strings.TrimSpace),
			publicationpb.WithInitialPublication(pubInitial()[0].(*traits.Publication)))
		r := publicationpb.NewApiRouter()
		r.Add(devName, publicationpb.WrapApi(publicationpb.NewModelServer(m)))
		return publicationpb.WrapApi(r), m
	}, "icpt"},
	// ---- one device under several names (see rowNames): the router routes each of them to the same server ------------
	{"onoffpb", "NewModelServer", func() (any, any) {
		m := onoffpb.NewModel()
		r := onoffpb.NewApiRouter()
		c := onoffpb.WrapApi(onoffpb.NewModelServer(m))
		for _, n := range aliasNames {
			r.Add(n, c)
		}
		return onoffpb.WrapApi(r), m
	}, "aliases"},
	{"airtemperaturepb", "NewMemoryDevice", func() (any, any) {
		m := airtemperaturepb.NewMemoryDevice()
		r := airtemperaturepb.NewApiRouter()
		c := airtemperaturepb.WrapApi(m)
		for _, n := range aliasNames {
			r.Add(n, c)
		}
		return airtemperaturepb.WrapApi(r), m
	}, "aliases"},
	{"occupancysensorpb", "NewModelServer", func() (any, any) {
		m := occupancysensorpb.NewModel()
		r := occupancysensorpb.NewApiRouter()
		c := occupancysensorpb.WrapApi(occupancysensorpb.NewModelServer(m))
		for _, n := range aliasNames {
			r.Add(n, c)
		}
		return occupancysensorpb.WrapApi(r), m
	}, "aliases"},
	// ---- routers that create their clients on first use (generated WithXxxApiClientFactory): see gatedRows --------
	{"onoffpb", "NewModelServer", func() (any, any) { return gatedRows["onoffpb.NewModelServer+factory"](&gate{}), nil }, "factory"},
	{"airtemperaturepb", "NewModelServer", func() (any, any) { return gatedRows["airtemperaturepb.NewModelServer+factory"](&gate{}), nil }, "factory"},
	{"fanspeedpb", "NewModelServer", func() (any, any) { return gatedRows["fanspeedpb.NewModelServer+factory"](&gate{}), nil }, "factory"},
	{"modepb", "NewModelServer", func() (any, any) { return gatedRows["modepb.NewModelServer+factory"](&gate{}), nil }, "factory"},
	{"lightpb", "NewModelServer", func() (any, any) { return gatedRows["lightpb.NewModelServer+factory"](&gate{}), nil }, "factory"},
	{"countpb", "NewMemoryDevice", func() (any, any) { return gatedRows["countpb.NewMemoryDevice+factory"](&gate{}), nil }, "factory"},
}

// rowExtra: what a keyed session has to know about a configured row.
type rowExtra struct {
	// Initial lists the records the model starts with (fresh copies)
	Initial func() []proto.Message
	// NoCreate: the session creates no further items. hailpb's collector of arrived hails is a server-initiated Delete
	// that runs at the end of CreateHail (at most once per keep-alive): with the collector armed a Create may
	// legitimately delete every hail whose arrive_time is old; a history of Get/Update/Pull never deletes anything
	NoCreate bool
	// Spell: the model's collections have an id interceptor; Spell gives a random spelling of an item's id that the
	// interceptor maps to the same stored id (sometimes the id as it is). Every Get / Update / Pull / Delete request of
	// a keyed session spells the id of its item afresh: the item is one register under every spelling
	Spell func(r *rand.Rand, key string) string
}

// aliasNames: the names the router of an alias row knows the one device under.
var aliasNames = []string{devName, "DEV", "dev/2"}

// rowNames: rows whose router routes several names to the one server. Every request of a register / keyed session on
// such a row names the device by one of them; the register is one, and the changes on a stream carry the name given in
// ITS Pull request.
var rowNames = map[string][]string{
	"onoffpb.NewModelServer+aliases":           aliasNames,
	"airtemperaturepb.NewMemoryDevice+aliases": aliasNames,
	"occupancysensorpb.NewModelServer+aliases": aliasNames,
	"vendingpb.NewModelServer+icpt":            aliasNames,
}

var rowExtras = map[string]rowExtra{
	"hailpb.NewModelServer+collector":   {Initial: hailInitial, NoCreate: true},
	"vendingpb.NewModelServer+icpt":     {Initial: stockInitial, Spell: spellCase},
	"hailpb.NewModelServer+icpt":        {Initial: hailInitialMixed, Spell: spellCase},
	"publicationpb.NewModelServer+icpt": {Initial: pubInitial, Spell: spellBlanks},
}

// spellCase: spellings under a lower-casing interceptor - the id as it is, lower case, upper case, or letter by letter.
func spellCase(r *rand.Rand, key string) string {
	switch r.Intn(4) {
	case 0:
		return key
	case 1:
		return strings.ToLower(key)
	case 2:
		return strings.ToUpper(key)
	}
	b := []byte(key)
	for i, c := range b {
		if r.Intn(2) == 0 {
			b[i] = []byte(strings.ToUpper(string(c)))[0]
		} else {
			b[i] = []byte(strings.ToLower(string(c)))[0]
		}
	}
	return string(b)
}

// spellBlanks: spellings under a blank-trimming interceptor.
func spellBlanks(r *rand.Rand, key string) string {
	return []string{"", "", " ", "  "}[r.Intn(4)] + strings.TrimSpace(key) + []string{"", "", " ", "\t"}[r.Intn(4)]
}

// stockInitial: stock the icpt vending model starts with (ids in lower and in mixed case).
func stockInitial() []proto.Message {
	return []proto.Message{
		&traits.Consumable_Stock{Consumable: "cola", Remaining: &traits.Consumable_Quantity{Amount: 10}},
		&traits.Consumable_Stock{Consumable: "Tea", Used: &traits.Consumable_Quantity{Amount: 3}},
	}
}

// hailInitialMixed: hails the icpt hail model starts with; the second id is not in the interceptor's image.
func hailInitialMixed() []proto.Message {
	return []proto.Message{
		&traits.Hail{Id: "ha", State: traits.Hail_CALLED, Origin: &traits.Hail_Location{Name: "a"}},
		&traits.Hail{Id: "Hb", State: traits.Hail_ARRIVED, Origin: &traits.Hail_Location{Name: "b"}},
	}
}

func pubInitial() []proto.Message {
	return []proto.Message{&traits.Publication{Id: "pub", Version: "v1", Body: []byte("x")}}
}

// hailInitial: one hail that is still on its way and one that arrived long ago (and is collectable from the start).
func hailInitial() []proto.Message {
	return []proto.Message{
		&traits.Hail{Id: "h1", State: traits.Hail_CALLED, Origin: &traits.Hail_Location{Name: "a"}},
		&traits.Hail{Id: "h2", State: traits.Hail_ARRIVED, Origin: &traits.Hail_Location{Name: "b"}, ArriveTime: timestamppb.New(time.Unix(1000, 0))},
	}
}

// gate sits inside the client factory of a router built with WithXxxApiClientFactory: when armed, the FIRST factory
// call parks (the request that caused it has missed the registry and is creating its client) until released; later
// calls pass. Unarmed it does nothing.
type gate struct {
	mu      sync.Mutex
	armed   bool
	parked  chan struct{}
	release chan struct{}
	calls   int
}

func (g *gate) arm() {
	g.mu.Lock()
	defer g.mu.Unlock()
	g.armed, g.parked, g.release = true, make(chan struct{}), make(chan struct{})
}

func (g *gate) enter() {
	g.mu.Lock()
	g.calls++
	if !g.armed {
		g.mu.Unlock()
		return
	}
	g.armed = false
	p, r := g.parked, g.release
	g.mu.Unlock()
	close(p)
	select {
	case <-r:
	case <-time.After(5 * time.Second):
	}
}

// gatedRows builds WrapApi(NewApiRouter(WithXxxApiClientFactory(f))) where f creates WrapApi(server) on demand, for
// any name, passing through the gate first.
var gatedRows = map[string]func(g *gate) any{
	"onoffpb.NewModelServer+factory": func(g *gate) any {
		return onoffpb.WrapApi(onoffpb.NewApiRouter(onoffpb.WithOnOffApiClientFactory(func(string) (traits.OnOffApiClient, error) {
			g.enter()
			return onoffpb.WrapApi(onoffpb.NewModelServer(onoffpb.NewModel())), nil
		})))
	},
	"airtemperaturepb.NewModelServer+factory": func(g *gate) any {
		return airtemperaturepb.WrapApi(airtemperaturepb.NewApiRouter(airtemperaturepb.WithAirTemperatureApiClientFactory(func(string) (traits.AirTemperatureApiClient, error) {
			g.enter()
			return airtemperaturepb.WrapApi(airtemperaturepb.NewModelServer(airtemperaturepb.NewModel())), nil
		})))
	},
	"fanspeedpb.NewModelServer+factory": func(g *gate) any {
		return fanspeedpb.WrapApi(fanspeedpb.NewApiRouter(fanspeedpb.WithFanSpeedApiClientFactory(func(string) (traits.FanSpeedApiClient, error) {
			g.enter()
			return fanspeedpb.WrapApi(fanspeedpb.NewModelServer(fanspeedpb.NewModel(fanspeedpb.WithPresets(fanspeedpb.Preset{Name: "a", Percentage: 25}, fanspeedpb.Preset{Name: "b", Percentage: 75})))), nil
		})))
	},
	"modepb.NewModelServer+factory": func(g *gate) any {
		return modepb.WrapApi(modepb.NewApiRouter(modepb.WithModeApiClientFactory(func(string) (traits.ModeApiClient, error) {
			g.enter()
			return modepb.WrapApi(modepb.NewModelServer(modepb.NewModel())), nil
		})))
	},
	"lightpb.NewModelServer+factory": func(g *gate) any {
		return lightpb.WrapApi(lightpb.NewApiRouter(lightpb.WithLightApiClientFactory(func(string) (traits.LightApiClient, error) {
			g.enter()
			return lightpb.WrapApi(lightpb.NewModelServer(lightpb.NewModel())), nil
		})))
	},
	"countpb.NewMemoryDevice+factory": func(g *gate) any {
		return countpb.WrapApi(countpb.NewApiRouter(countpb.WithCountApiClientFactory(func(string) (traits.CountApiClient, error) {
			g.enter()
			return countpb.WrapApi(countpb.NewMemoryDevice()), nil
		})))
	},
}
