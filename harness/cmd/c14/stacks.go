package main

import (
	"github.com/smart-core-os/sc-api/go/traits"
	"github.com/smart-core-os/sc-api/go/types"
	"github.com/smart-core-os/sc-golang/pkg/trait/accesspb"
	"github.com/smart-core-os/sc-golang/pkg/trait/airqualitysensorpb"
	"github.com/smart-core-os/sc-golang/pkg/trait/airtemperaturepb"
	"github.com/smart-core-os/sc-golang/pkg/trait/bookingpb"
	"github.com/smart-core-os/sc-golang/pkg/trait/countpb"
	"github.com/smart-core-os/sc-golang/pkg/trait/electricpb"
	"github.com/smart-core-os/sc-golang/pkg/trait/emergencypb"
	"github.com/smart-core-os/sc-golang/pkg/trait/energystoragepb"
	"github.com/smart-core-os/sc-golang/pkg/trait/enterleavesensorpb"
	"github.com/smart-core-os/sc-golang/pkg/trait/fanspeedpb"
	"github.com/smart-core-os/sc-golang/pkg/trait/hailpb"
	"github.com/smart-core-os/sc-golang/pkg/trait/lightpb"
	"github.com/smart-core-os/sc-golang/pkg/trait/metadatapb"
	"github.com/smart-core-os/sc-golang/pkg/trait/meterpb"
	"github.com/smart-core-os/sc-golang/pkg/trait/modepb"
	"github.com/smart-core-os/sc-golang/pkg/trait/occupancysensorpb"
	"github.com/smart-core-os/sc-golang/pkg/trait/onoffpb"
	"github.com/smart-core-os/sc-golang/pkg/trait/openclosepb"
	"github.com/smart-core-os/sc-golang/pkg/trait/parentpb"
	"github.com/smart-core-os/sc-golang/pkg/trait/presspb"
	"github.com/smart-core-os/sc-golang/pkg/trait/publicationpb"
	"github.com/smart-core-os/sc-golang/pkg/trait/speakerpb"
	"github.com/smart-core-os/sc-golang/pkg/trait/vendingpb"
	"github.com/smart-core-os/sc-golang/pkg/trait/wastepb"
)

// devName is the name the inner client is registered under in the router and the name every
// request carries.
const devName = "dev"

// stackRow is one server implementation stacked as WrapApi(router(WrapApi(server))).
// Go cannot look constructors up by name, so the rows are written out; the K3 fact extractor lists
// the server constructors present in the source tree and the Lean theorem C14_servers_all_driven
// fails when the tree has one this table lacks.
type stackRow struct {
	Pkg  string
	Ctor string // constructor of the server implementation in Pkg
	New  func() any
}

func (r stackRow) key() string { return r.Pkg + "." + r.Ctor }

var stackTable = []stackRow{
	{"accesspb", "NewModelServer", func() any {
		r := accesspb.NewApiRouter()
		r.Add(devName, accesspb.WrapApi(accesspb.NewModelServer(accesspb.NewModel())))
		return accesspb.WrapApi(r)
	}},
	{"airqualitysensorpb", "NewModelServer", func() any {
		r := airqualitysensorpb.NewApiRouter()
		r.Add(devName, airqualitysensorpb.WrapApi(airqualitysensorpb.NewModelServer(airqualitysensorpb.NewModel())))
		return airqualitysensorpb.WrapApi(r)
	}},
	{"airtemperaturepb", "NewModelServer", func() any {
		r := airtemperaturepb.NewApiRouter()
		r.Add(devName, airtemperaturepb.WrapApi(airtemperaturepb.NewModelServer(airtemperaturepb.NewModel())))
		return airtemperaturepb.WrapApi(r)
	}},
	{"airtemperaturepb", "NewMemoryDevice", func() any {
		r := airtemperaturepb.NewApiRouter()
		r.Add(devName, airtemperaturepb.WrapApi(airtemperaturepb.NewMemoryDevice()))
		return airtemperaturepb.WrapApi(r)
	}},
	{"bookingpb", "NewModelServer", func() any {
		r := bookingpb.NewApiRouter()
		r.Add(devName, bookingpb.WrapApi(bookingpb.NewModelServer(bookingpb.NewModel())))
		return bookingpb.WrapApi(r)
	}},
	{"countpb", "NewMemoryDevice", func() any {
		r := countpb.NewApiRouter()
		r.Add(devName, countpb.WrapApi(countpb.NewMemoryDevice()))
		return countpb.WrapApi(r)
	}},
	{"electricpb", "NewModelServer", func() any {
		r := electricpb.NewApiRouter()
		r.Add(devName, electricpb.WrapApi(electricpb.NewModelServer(electricpb.NewModel())))
		return electricpb.WrapApi(r)
	}},
	{"emergencypb", "NewMemoryDevice", func() any {
		r := emergencypb.NewApiRouter()
		r.Add(devName, emergencypb.WrapApi(emergencypb.NewMemoryDevice()))
		return emergencypb.WrapApi(r)
	}},
	{"energystoragepb", "NewModelServer", func() any {
		r := energystoragepb.NewApiRouter()
		r.Add(devName, energystoragepb.WrapApi(energystoragepb.NewModelServer(energystoragepb.NewModel())))
		return energystoragepb.WrapApi(r)
	}},
	{"enterleavesensorpb", "NewModelServer", func() any {
		r := enterleavesensorpb.NewApiRouter()
		r.Add(devName, enterleavesensorpb.WrapApi(enterleavesensorpb.NewModelServer(enterleavesensorpb.NewModel())))
		return enterleavesensorpb.WrapApi(r)
	}},
	{"fanspeedpb", "NewModelServer", func() any {
		r := fanspeedpb.NewApiRouter()
		r.Add(devName, fanspeedpb.WrapApi(fanspeedpb.NewModelServer(fanspeedpb.NewModel())))
		return fanspeedpb.WrapApi(r)
	}},
	{"hailpb", "NewModelServer", func() any {
		r := hailpb.NewApiRouter()
		r.Add(devName, hailpb.WrapApi(hailpb.NewModelServer(hailpb.NewModel())))
		return hailpb.WrapApi(r)
	}},
	{"lightpb", "NewModelServer", func() any {
		r := lightpb.NewApiRouter()
		r.Add(devName, lightpb.WrapApi(lightpb.NewModelServer(lightpb.NewModel())))
		return lightpb.WrapApi(r)
	}},
	{"lightpb", "NewMemoryDevice", func() any {
		r := lightpb.NewApiRouter()
		r.Add(devName, lightpb.WrapApi(lightpb.NewMemoryDevice()))
		return lightpb.WrapApi(r)
	}},
	{"metadatapb", "NewModelServer", func() any {
		r := metadatapb.NewApiRouter()
		r.Add(devName, metadatapb.WrapApi(metadatapb.NewModelServer(metadatapb.NewModel())))
		return metadatapb.WrapApi(r)
	}},
	{"metadatapb", "NewCollectionServer", func() any {
		r := metadatapb.NewApiRouter()
		r.Add(devName, metadatapb.WrapApi(metadatapb.NewCollectionServer(metadatapb.NewCollection())))
		return metadatapb.WrapApi(r)
	}},
	{"meterpb", "NewModelServer", func() any {
		r := meterpb.NewApiRouter()
		r.Add(devName, meterpb.WrapApi(meterpb.NewModelServer(meterpb.NewModel())))
		return meterpb.WrapApi(r)
	}},
	{"modepb", "NewModelServer", func() any {
		r := modepb.NewApiRouter()
		r.Add(devName, modepb.WrapApi(modepb.NewModelServer(modepb.NewModel())))
		return modepb.WrapApi(r)
	}},
	{"occupancysensorpb", "NewModelServer", func() any {
		r := occupancysensorpb.NewApiRouter()
		r.Add(devName, occupancysensorpb.WrapApi(occupancysensorpb.NewModelServer(occupancysensorpb.NewModel())))
		return occupancysensorpb.WrapApi(r)
	}},
	{"onoffpb", "NewModelServer", func() any {
		r := onoffpb.NewApiRouter()
		r.Add(devName, onoffpb.WrapApi(onoffpb.NewModelServer(onoffpb.NewModel())))
		return onoffpb.WrapApi(r)
	}},
	{"openclosepb", "NewModelServer", func() any {
		r := openclosepb.NewApiRouter()
		r.Add(devName, openclosepb.WrapApi(openclosepb.NewModelServer(openclosepb.NewModel())))
		return openclosepb.WrapApi(r)
	}},
	{"parentpb", "NewModelServer", func() any {
		r := parentpb.NewApiRouter()
		r.Add(devName, parentpb.WrapApi(parentpb.NewModelServer(parentpb.NewModel())))
		return parentpb.WrapApi(r)
	}},
	{"presspb", "NewModelServer", func() any {
		r := presspb.NewApiRouter()
		r.Add(devName, presspb.WrapApi(presspb.NewModelServer(presspb.NewModel(traits.PressedState_UNPRESSED))))
		return presspb.WrapApi(r)
	}},
	{"publicationpb", "NewModelServer", func() any {
		r := publicationpb.NewApiRouter()
		r.Add(devName, publicationpb.WrapApi(publicationpb.NewModelServer(publicationpb.NewModel())))
		return publicationpb.WrapApi(r)
	}},
	{"speakerpb", "NewMemoryDevice", func() any {
		r := speakerpb.NewApiRouter()
		r.Add(devName, speakerpb.WrapApi(speakerpb.NewMemoryDevice(&types.AudioLevel{Gain: 10})))
		return speakerpb.WrapApi(r)
	}},
	{"vendingpb", "NewModelServer", func() any {
		r := vendingpb.NewApiRouter()
		r.Add(devName, vendingpb.WrapApi(vendingpb.NewModelServer(vendingpb.NewModel())))
		return vendingpb.WrapApi(r)
	}},
	{"wastepb", "NewModelServer", func() any {
		r := wastepb.NewApiRouter()
		r.Add(devName, wastepb.WrapApi(wastepb.NewModelServer(wastepb.NewModel())))
		return wastepb.WrapApi(r)
	}},
}
