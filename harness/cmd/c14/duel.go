package main

import (
	"fmt"
	"reflect"
	"strings"
	"sync/atomic"
	"time"

	"google.golang.org/grpc/status"
	"google.golang.org/protobuf/proto"

	"github.com/smart-core-os/sc-golang/internal/verifhook"
	"github.com/smart-core-os/sc-golang/verifharness/cmd/c07/pbgen"
	"github.com/smart-core-os/sc-golang/verifharness/lib"
)

// Scenario family "two writers" (kind "duel"): two Updates of the same register from two clients overlap in the
// one window the write path leaves open: resource.Value.set (and Collection.Update) STORE the new value under the
// write lock, release the lock, and only then SEND the change to the subscribers. The harness parks writer 1 at the
// yield point between the two (`value.set.beforeSend` / `coll.update.beforeSend`, build tag verif): its value v1 is
// stored, its event is not sent yet. Writer 2 then runs to completion (stores v2 on top of v1, sends v2), the streams
// are drained, and writer 1 is released (sends v1, answers v1).
//
// What a coherent register owes its clients under this schedule: both Updates are answered OK; the register ends
// on v2 (the later store): Get = v2, a new Pull starts with v2; and EVERY successful value-changing Update appears
// on every open stream — v2's event first (compared with what the stream showed before), then v1's event (compared
// with v2). The stream order is the order of the sends, not of the stores; the property asks for each update to
// appear, not for an order. An implementation that drops the overtaken writer's event loses an acknowledged write.
//
// The trial is void (nothing judged, session ends) when writer 2 cannot complete while writer 1 is parked (a model
// that holds its own lock around the write): counted as duel-blocked. When no yield point is reached (writer 1
// rejected before storing, a server that does not write through resource.Value/Collection) the two Updates run one
// after the other: counted as duel-sequential.

type callRes struct {
	out []reflect.Value
	pm  string
}

func okResponse(r callRes) (proto.Message, bool) {
	if r.pm != "" || r.out == nil {
		return nil, false
	}
	if err, _ := r.out[1].Interface().(error); err != nil {
		return nil, false
	}
	return r.out[0].Interface().(proto.Message), true
}

func runDuelSession(t triple, sid sessionID, mon *lib.Monitor) (lines, verdicts []string) {
	r := seqRand(sid.Seed, sid.Triple+"/duel", sid.Seq)
	s := &session{t: t, r: r, g: pbgen.New(r), ids: map[string]int{}, maskIDs: map[string]int{}, mon: mon, sid: sid}
	s.g.MaxDepth = 2
	cl, _ := t.Row.New()
	s.client = reflect.ValueOf(cl)
	s.singleItem = true
	s.input = func(n int) any {
		return map[string]any{"kind": "duel", "triple": sid.Triple, "seed": sid.Seed, "seq": sid.Seq, "steps": n, "trace": tailTrace(s.trace, 16)}
	}
	defer func() {
		for _, st := range s.streams {
			st.cancel()
		}
	}()
	defer verifhook.Set(nil)
	s.lines, s.verdict = []string{"reset"}, []string{"ok"}
	s.step = -1
	s.doGet(nil)
	// one unmasked seeded stream always, a second one with a random mask / updates_only in two of three sessions
	if !s.failed {
		s.doPullWith(nil, false)
	}
	if !s.failed && sid.Seq%3 != 0 {
		s.doPull()
	}
	for k := 0; k < sid.Steps && !s.failed; k++ {
		s.step = k
		req1, payload1, op1 := s.prepUpdate()
		req2, payload2, op2 := s.prepUpdate()
		var armed atomic.Bool
		armed.Store(true)
		parked, release := make(chan struct{}), make(chan struct{})
		heldAt := ""
		verifhook.Set(func(point string) {
			if (point != "value.set.beforeSend" && point != "coll.update.beforeSend") || !armed.CompareAndSwap(true, false) {
				return
			}
			heldAt = point
			close(parked)
			select {
			case <-release:
			case <-time.After(5 * time.Second):
			}
		})
		done1, done2 := make(chan callRes, 1), make(chan callRes, 1)
		go func() {
			out, pm := s.call("Update"+t.X, req1)
			done1 <- callRes{out, pm}
		}()
		forced := false
		var r1 callRes
		select {
		case <-parked:
			forced = true
		case r1 = <-done1:
		case <-time.After(3 * time.Second):
			s.obs("updpanic", s.violate("Update/hung", "Update did not return within 3 s", "a response", "nothing"))
			return s.lines, s.verdict
		}
		if !forced {
			// no store/send window was reached: two ordinary Updates one after the other
			armed.Store(false)
			verifhook.Set(nil)
			mon.Count("duel-sequential")
			s.finishUpdate(payload1, op1, r1.out, r1.pm)
			if !s.failed {
				out, pm := s.call("Update"+t.X, req2)
				s.finishUpdate(payload2, op2, out, pm)
			}
			continue
		}
		// writer 1 has stored its value and is held before announcing it; writer 2 runs on another goroutine
		go func() {
			out, pm := s.call("Update"+t.X, req2)
			done2 <- callRes{out, pm}
		}()
		var r2 callRes
		select {
		case r2 = <-done2:
		case <-time.After(250 * time.Millisecond):
			// writer 2 cannot get past writer 1 (a lock of the model around the write): void trial, end of session
			close(release)
			<-done1
			select {
			case <-done2:
			case <-time.After(3 * time.Second):
			}
			mon.Count("duel-blocked:" + t.key())
			for i := range s.streams {
				if !s.streams[i].closed {
					s.takeAllQuiet(i, 20*time.Millisecond)
				}
			}
			mon.Eval(sid.Triple+"/duel"+fmt.Sprint(sid.Seq), false, nil)
			return s.lines, s.verdict
		}
		op2 += " [while an earlier Update is held between storing and announcing its value]"
		v2, ok2 := okResponse(r2)
		switch {
		case r2.pm != "":
			s.finishUpdate(payload2, op2, r2.out, r2.pm)
		case !ok2:
			// rejected: nothing stored, nothing announced (the Get of the rejected frame is skipped: the register holds
			// writer 1's value, which is only known once writer 1 answers)
			err, _ := r2.out[1].Interface().(error)
			s.trace = append(s.trace, stepDesc{s.step, op2, "error: " + status.Code(err).String()})
			s.mon.Count("update-error:" + status.Code(err).String())
			s.obs("upderr", "ok")
			s.drain(false)
		default:
			// one register write, announced to streams that last showed the value from before BOTH writes
			s.finishUpdate(payload2, op2, r2.out, r2.pm)
			if !s.failed {
				s.doGet(nil)
			}
		}
		close(release)
		select {
		case r1 = <-done1:
		case <-time.After(3 * time.Second):
			s.obs("updpanic", s.violate("Update/hung", "Update did not return within 3 s of being released", "a response", "nothing"))
			return s.lines, s.verdict
		}
		verifhook.Set(nil)
		if s.failed {
			break
		}
		op1 += " [held between storing and announcing its value while the Update above ran]"
		v1, ok1 := okResponse(r1)
		if !ok2 || !ok1 {
			// writer 2 did not write (or writer 1 failed after all): writer 1 is an ordinary register write
			s.finishUpdate(payload1, op1, r1.out, r1.pm)
			mon.Count("duel-one-writer")
			continue
		}
		// the overtaken write: answered OK with v1, the register stays on v2, its event reaches every open stream now
		s.trace = append(s.trace, stepDesc{s.step, op1, txt(v1)})
		s.mon.Count("update-ok")
		mon.Count("duel-forced")
		if !proto.Equal(v1, v2) {
			mon.Count("duel-forced-distinct")
		}
		for _, st := range s.streams {
			if st.closed {
				continue
			}
			s.fact(st.mask, v1)
			s.fact(st.mask, v2)
			w := project(st.mask, v1)
			st.queue = append(st.queue, expect{val: w, must: !proto.Equal(w, project(st.mask, v2)) && st.established})
		}
		s.obs(fmt.Sprintf("updlate %d", s.id(v1)), "ok")
		s.drain(true)
		if !s.failed {
			s.doGet(nil) // the register is the later store
		}
		if !s.failed {
			// both writers have returned, everything owed has arrived: do the streams agree with the register?
			s.streamsOnRegister(strings.TrimSuffix(heldAt, ".beforeSend"))
		}
	}
	if !s.failed {
		s.step = sid.Steps
		s.drain(true)
		s.doGet(nil)
		if !s.failed {
			s.doPullWith(nil, false) // a new Pull starts with the register
		}
	}
	mon.Eval(sid.Triple+"/duel"+fmt.Sprint(sid.Seq), len(s.lines) > 6, nil)
	return s.lines, s.verdict
}

// streamsOnRegister: every open, established stream must have ENDED on the (projected) value the register holds.
// Evaluated after two overlapping writers have both returned. The code as it is does not order the sends of two
// writers: the recorded finding .../two-writers/stream-left-on-overtaken-value (known_findings/C14.json).
func (s *session) streamsOnRegister(site string) {
	v := "ok"
	for i, st := range s.streams {
		if st.closed || !st.established {
			continue
		}
		s.fact(st.mask, s.cur)
		if want := project(st.mask, s.cur); st.lastSeen == nil || !proto.Equal(st.lastSeen, want) {
			if v == "ok" {
				s.mon.Violate("C14/resource/"+site+"/two-writers/stream-left-on-overtaken-value",
					"two Updates of one register overlapped (the earlier one stored its value, the later one stored and announced its value, then the earlier one announced): "+
						"both were answered OK and both reached the stream, but in the order of the announcements, so the open Pull stream ends on the overtaken value and stays there while Get returns the later one",
					s.input(s.step+1), fmt.Sprintf("stream#%d ends on the register's value %s", i, txt(want)), fmt.Sprintf("stream#%d ended on %s", i, txt(st.lastSeen)))
				s.failed = true
				v = "reject:Pull/stream-does-not-end-on-register"
			}
		}
	}
	s.obs("quiesce", v)
}

// takeAllQuiet reads and discards what arrives on stream i during the grace period (void trials).
func (s *session) takeAllQuiet(i int, grace time.Duration) {
	st := s.streams[i]
	for {
		select {
		case _, ok := <-st.ch:
			if !ok {
				st.closed = true
				return
			}
		case <-time.After(grace):
			return
		}
	}
}
