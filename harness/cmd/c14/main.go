// Harness for C14 (trait servers give read-your-writes through the full stack).
//
// Every server implementation in pkg/trait is stacked as WrapApi(router(WrapApi(server))); its
// Get/Update/Pull triples are discovered from the service descriptor; each triple is driven with random
// update messages, update masks, read masks and 0-2 open streams. The observations go
//   - to the Lean model run as a trace acceptor (driverC14): the Update response is the oracle for the
//     arbitrary interceptor, every later observation must be the one the theorems force (tie K1);
//   - to an independent monitor written here (proto.Equal + an own read-mask projection).
package main

import (
	"bytes"
	"encoding/json"
	"flag"
	"fmt"
	"os"
	"os/exec"
	"sort"
	"strings"
	"sync"

	"github.com/smart-core-os/sc-golang/verifharness/lib"
)

var childFlag = flag.String("child", "", "internal: run the sessions of this one triple and write result.json to -out (a server panic kills the process: the parent turns that into an observation)")

func main() {
	f := lib.ParseFlags()
	if f.Facts != "" {
		if err := writeFacts(f.Facts); err != nil {
			lib.Fatal(err)
		}
		return
	}
	if f.Replay != "" {
		os.Exit(replay(f))
	}
	res := lib.NewResult("C14", f)
	if *childFlag != "" {
		runChildSide(f, res, *childFlag)
	} else {
		run(f, res)
	}
	if err := res.Write(f.Out); err != nil {
		lib.Fatal(err)
	}
}

const tieRule = "every discovered Get/Update/Pull triple, Get/Pull pair and keyed triple of every server row (default constructor, plus configured variants: initial values, presets), " +
	"through WrapApi(router(WrapApi(server))): random register sessions (full Get; Update with random payload/extras/top-level or nested update mask, or a model-level write for pairs; " +
	"Get with nested read masks followed by a full Get; Pull with read mask and updates_only, at most 2 open; cancel; odd sessions cap repeated message fields of payloads at one element), " +
	"mask sessions (every single-path read mask of the resource's descriptor below 3 levels, up to the step budget, plus two-path masks, through Get and as Pull seeds), " +
	"keyed sessions (Create/Update/Get/Pull/Delete over up to 3 ids plus ids that do not exist), update-while-subscribing sessions (gap: deterministic through the " +
	"beforeListen yield point; race: by timing), two-writer sessions (duel, and every third keyed session: two Updates of one register from two clients, the earlier one held at the " +
	"value.set.beforeSend / coll.update.beforeSend yield point between storing and announcing its value while the later one runs to completion; 1-2 open streams), " +
	"first-use sessions (rows +factory: routers built with the generated WithXxxApiClientFactory; every register session starts with the first request for the name parked inside its " +
	"factory call while other first requests complete), window sessions (one request - an Update, the opening of a Pull, the cancellation of a Pull - parked at one of 13 yield points of " +
	"pkg/resource and internal/minibus while a second request of another client runs: Update before its store x Update; Update inside bus.Send / Bus.collect x open / cancel; open before its listener is registered x " +
	"Update / cancel; cancel inside listener.stop x Update / open; in keyed sessions Update x Update of the same or another item, Update x Delete, Delete x Update), tidy sessions (a Pull opened while an Update is held inside " +
	"Bus.collect removing a cancelled subscription), stall sessions (one reader stops calling Recv while 9-11 Updates are made and another stream is read promptly, then resumes), one update mask in ten of every third register " +
	"session names a field the resource does not have, a collection-wide List RPC between the writes of keyed sessions, a keyed row whose model starts with records and an armed collector (hailpb +collector: generated timestamps are all older than the keep-alive), tween sessions (servers with a Tween field): the observation trace is fed to the Lean register-server model run as an acceptor " +
	"(driverC14) and its verdict per observation is compared with the independent Go monitor's; composite sessions (registers composed of collection items, discovered by shape and a probe): " +
	"the Lean composed-register model runs as a SIMULATOR and its predicted response listing and per-stream message bursts are compared with what the stack delivered; " +
	"non-trivial = a session with more than 6 observations; distinct = distinct (row, triple, kind, session)"

const monRule = "the five statements of the property evaluated directly on the observations with proto.Equal and an own projection: Update response = next unmasked Get; " +
	"masked Get = projection, and a read never changes what the next full Get returns; Pull seed = current value unless updates_only; every value-changing successful Update appears on every open stream with the " +
	"response's (projected) value and the request's name, nothing else appears; a rejected Update leaves Get unchanged and emits nothing; panics are violations. " +
	"Two overlapping writers: both answered, the register is the later store, each value appears on every open stream (the later store's event first, compared with what the stream showed before both; " +
	"then the overtaken one's), and - the recorded finding .../two-writers/stream-left-on-overtaken-value - every established stream ends on the register's value. " +
	"Windows: two overlapping Updates of which the held one had not stored yet are two register writes one after the other (the held one last: rejected with Aborted, or stored on top); " +
	"in every other window the END state is judged - Get is the stored value, every open stream whose subscription is known to exist has ended on it, the next Update appears on all of them. " +
	"A stalled reader is owed nothing while it is stalled; every Update is still one register write (an Update answered with an error leaves Get unchanged), the other streams still show every change; " +
	"on resuming the stalled stream may deliver any in-order subsequence of what was announced and must end on the register. A collection-wide List changes no item. " +
	"First use through a factory router: the overtaken first request is judged as served after the requests that overtook it, on the same register. " +
	"Stream verdicts of a session that made a multi-item write (two or more items in the payload or changed in the response) while a stream was open carry /after-multi-item-write. " +
	"Composite sessions: an own fold over a plain map predicts the response (only the written items change) and, per stream, the exact burst (one composition per item write, equal neighbours suppressed; " +
	"updates-only streams compose from the whole collection)"

func sessionsOf(f lib.Flags) int { return f.N(24, 500) }

func stepsOf(q int) int {
	if q < 6 {
		return 3 + 2*q // small sessions first
	}
	return 14
}

// unconfirmedLog keeps the first few failures that did not reproduce (reported in the evidence, not as violations).
var unconfirmedLog []any

type sessionFn func(t triple, sid sessionID, mon *lib.Monitor) (lines, verdicts []string)

var sessionKinds = map[string]sessionFn{
	"triple": runSession, "tween": runTweenSession, "race": runRaceSession, "gap": runGapSession, "keyed": runKeyedSession, "masks": runMaskSession, "composite": runCompositeSession,
	"duel": runDuelSession, "tidy": runTidySession, "stall": runStallSession, "window": runWindowSession, "first": runFirstSession,
}

// runConfirmed runs one session against a scratch monitor. Every verdict of the stack involves time somewhere
// (a message "did not arrive within 1 s", a stale write "happened by the deadline"), so a failing session is
// SELF-CONFIRMING: it is re-run 3 times on fresh servers and reported only if at least 2 re-runs fail with the
// same signature. An unconfirmed failure is counted (distribution `unconfirmed:<signature>`) and the session is void.
func runConfirmed(t triple, sid sessionID, mon *lib.Monitor) (lines, verdicts []string) {
	run := sessionKinds[sid.Kind]
	scratch := lib.NewMonitor("scratch", "")
	lines, verdicts = run(t, sid, scratch)
	merge := func(m *lib.Monitor) {
		mon.Evaluations += m.Evaluations
		mon.Distinct += m.Distinct
		for k, v := range m.Distribution {
			mon.Distribution[k] += v
		}
	}
	if len(scratch.Violations) == 0 {
		merge(scratch)
		return lines, verdicts
	}
	sig := scratch.Violations[0].Signature
	confirmed := 0
	for i := 0; i < 3; i++ {
		again := lib.NewMonitor("scratch", "")
		run(t, sid, again)
		for _, v := range again.Violations {
			if v.Signature == sig {
				confirmed++
				break
			}
		}
	}
	if confirmed < 2 {
		mon.Count("unconfirmed:" + sig)
		if len(unconfirmedLog) < 5 {
			v := scratch.Violations[0]
			unconfirmedLog = append(unconfirmedLog, map[string]any{"signature": sig, "reruns_failing": confirmed, "input": v.Input, "expected": v.Expected, "observed": v.Observed})
		}
		return nil, nil
	}
	merge(scratch)
	for _, v := range scratch.Violations {
		mon.Violate(v.Signature, v.What+fmt.Sprintf(" (confirmed: %d of 3 re-runs on fresh servers failed the same way)", confirmed), v.Input, v.Expected, v.Observed)
	}
	return lines, verdicts
}

// runChildSide runs every session of one triple (in a child process).
func runChildSide(f lib.Flags, res *lib.Result, key string) {
	tie := res.Tie("register-acceptor", "K1", tieRule)
	mon := res.Monitor("read-your-writes", monRule)
	triples, _, err := allTriples()
	if err != nil {
		tie.Fail(err)
		return
	}
	drv, err := lib.StartDriver(f.Driver)
	if err != nil {
		tie.Fail(err)
		return
	}
	defer drv.Close()
	failed := false
	exec := func(t triple, sid sessionID) {
		if failed {
			return
		}
		lines, verdicts := runConfirmed(t, sid, mon)
		mon.Count(sid.Kind + ":" + t.key())
		if lines == nil {
			return
		}
		model, err := drv.Batch(lines)
		if err != nil {
			tie.Fail(err)
			failed = true
			return
		}
		in := map[string]any{"kind": sid.Kind, "triple": sid.Triple, "seed": sid.Seed, "seq": sid.Seq, "steps": sid.Steps}
		k := sid.Triple + "/" + sid.Kind + fmt.Sprint(sid.Seq)
		for i := range lines {
			if model[i] != verdicts[i] {
				in["line"] = lines[i]
				in["lines"] = lines[:i+1]
				tie.Record(k, true, in, model[i], verdicts[i])
				return
			}
		}
		tie.Record(k, len(lines) > 6, in, "accepted:"+last(model), "accepted:"+last(verdicts))
	}
	for _, t := range triples {
		if t.key() != key {
			continue
		}
		if t.keyField != "" {
			// a keyed family of registers (collection items addressed by an id in the request)
			for q := 0; q < sessionsOf(f); q++ {
				exec(t, sessionID{Kind: "keyed", Triple: t.key(), Seed: f.Seed, Seq: q, Steps: stepsOf(q) + 4})
			}
			continue
		}
		for q := 0; q < sessionsOf(f); q++ {
			exec(t, sessionID{Kind: "triple", Triple: t.key(), Seed: f.Seed, Seq: q, Steps: stepsOf(q)})
		}
		if gatedRows[t.Row.rowKey()] != nil || rowNames[t.Row.rowKey()] != nil {
			// a router creating its clients on first use: the register sessions above each start with the forced
			// first-use overlap; everything else about these servers is driven on their plain rows. Likewise rows whose
			// router knows the device under several names: the register sessions above name it differently per request
			continue
		}
		// every read-mask path of the resource's descriptor (exhaustive below 3 levels up to the step budget)
		for q := 0; q < f.N(2, 8); q++ {
			exec(t, sessionID{Kind: "masks", Triple: t.key(), Seed: f.Seed, Seq: q, Steps: f.N(60, 400)})
		}
		// registers composed of collection items (discovered by shape + probe): the composed-register model as a simulator
		if compositeShape(t) != nil {
			for q := 0; q < f.N(16, 200); q++ {
				exec(t, sessionID{Kind: "composite", Triple: t.key(), Seed: f.Seed, Seq: q, Steps: 6 + q%10})
			}
		}
		// update-while-subscribing scenarios on every triple with an Update RPC: "gap" deterministic through the
		// yield point before the listener is registered, "race" by timing only
		if t.update != nil {
			for q := 0; q < f.N(1, 6); q++ {
				exec(t, sessionID{Kind: "gap", Triple: t.key(), Seed: f.Seed, Seq: q, Steps: f.N(8, 20)})
			}
			for q := 0; q < f.N(1, 20); q++ {
				exec(t, sessionID{Kind: "race", Triple: t.key(), Seed: f.Seed, Seq: q, Steps: f.N(10, 25)})
			}
		}
		// two writers on one register, the earlier one held between storing and announcing its value (composed
		// registers excepted: one of their Updates is several writes)
		if t.update != nil && compositeShape(t) == nil {
			for q := 0; q < f.N(4, 40); q++ {
				exec(t, sessionID{Kind: "duel", Triple: t.key(), Seed: f.Seed, Seq: q, Steps: 2 + q%3})
			}
		}
		// a Pull opened while an Update is removing a cancelled subscription from the bus (held inside Bus.collect)
		if t.update != nil && compositeShape(t) == nil {
			for q := 0; q < f.N(3, 24); q++ {
				exec(t, sessionID{Kind: "tidy", Triple: t.key(), Seed: f.Seed, Seq: q, Steps: 1 + q%3})
			}
			// one request parked at a yield point of the write / subscribe / cancel path while another one runs
			for q := 0; q < f.N(4, 32); q++ {
				exec(t, sessionID{Kind: "window", Triple: t.key(), Seed: f.Seed, Seq: q, Steps: 2 + q%3})
			}
		}
		// the first write after a subscription whose existence is observed on the bus (updates_only streams too)
		if compositeShape(t) == nil {
			for q := 0; q < f.N(4, 24); q++ {
				exec(t, sessionID{Kind: "first", Triple: t.key(), Seed: f.Seed, Seq: q, Steps: 2 + q%2})
			}
		}
		// a reader that stops reading while Updates (model-level writes for Get/Pull pairs) keep coming
		if compositeShape(t) == nil {
			for q := 0; q < f.N(3, 12); q++ {
				exec(t, sessionID{Kind: "stall", Triple: t.key(), Seed: f.Seed, Seq: q, Steps: q % 3})
			}
		}
		// servers whose Update can start background writes (a Tween field in the resource): tween scenarios
		if t.update != nil && tweenField(t.resource) != nil {
			for q := 0; q < f.N(8, 60); q++ {
				exec(t, sessionID{Kind: "tween", Triple: t.key(), Seed: f.Seed, Seq: q, Steps: 4})
			}
		}
	}
	if len(unconfirmedLog) > 0 {
		res.Extra["unconfirmed"] = unconfirmedLog
	}
}

// progress is printed (unbuffered) by a child before every request so that the parent knows which
// request was in flight if the process dies.
type progress struct {
	Sid   sessionID  `json:"sid"`
	Step  int        `json:"step"`
	Op    string     `json:"op"`
	Trace []stepDesc `json:"trace"`
}

func reportProgress(p progress) {
	if *childFlag == "" && !replayChild {
		return
	}
	b, _ := json.Marshal(p)
	os.Stdout.Write(append(append([]byte("@ "), b...), '\n'))
}

var replayChild = false

// runChild runs one triple in a child process and returns its result, or the crash it died of.
func runChild(f lib.Flags, key string, extra ...string) (*lib.Result, *progress, string) {
	tmp, err := os.MkdirTemp("", "c14-child-")
	if err != nil {
		lib.Fatal(err)
	}
	defer os.RemoveAll(tmp)
	args := append([]string{"-child", key, "-tier", f.Tier, "-seed", fmt.Sprint(f.Seed), "-driver", f.Driver, "-out", tmp}, extra...)
	cmd := exec.Command(os.Args[0], args...)
	var stdout, stderr bytes.Buffer
	cmd.Stdout, cmd.Stderr = &stdout, &stderr
	runErr := cmd.Run()
	var lastP *progress
	for _, l := range strings.Split(stdout.String(), "\n") {
		if strings.HasPrefix(l, "@ ") {
			var p progress
			if json.Unmarshal([]byte(l[2:]), &p) == nil {
				lastP = &p
			}
		}
	}
	if runErr != nil {
		msg := stderr.String()
		if i := strings.Index(msg, "panic:"); i >= 0 {
			msg = msg[i:]
		}
		if len(msg) > 600 {
			msg = msg[:600]
		}
		return nil, lastP, strings.TrimSpace(msg)
	}
	b, err := os.ReadFile(tmp + "/result.json")
	if err != nil {
		return nil, lastP, "child wrote no result: " + err.Error()
	}
	var r lib.Result
	if err := json.Unmarshal(b, &r); err != nil {
		return nil, lastP, "child result unreadable: " + err.Error()
	}
	return &r, lastP, ""
}

func run(f lib.Flags, res *lib.Result) {
	if os.Getenv("C14_DEV_ONLY") == "spell" { // development aid: only the spelled-ids tie
		runSpellTie(f, res)
		return
	}
	tie := res.Tie("register-acceptor", "K1", tieRule)
	mon := res.Monitor("read-your-writes", monRule)
	triples, services, err := allTriples()
	if err != nil {
		tie.Fail(err)
		return
	}
	type out struct {
		r     *lib.Result
		p     *progress
		crash string
	}
	outs := make([]out, len(triples))
	sem := make(chan struct{}, 4)
	var wg sync.WaitGroup
	// the children that take longest (tween scenarios wait for real animations) are started first; results are
	// collected by index, so the order of starting them changes nothing else
	var order []int
	for i, t := range triples {
		if t.update != nil && tweenField(t.resource) != nil {
			order = append(order, i)
		}
	}
	for i, t := range triples {
		if !(t.update != nil && tweenField(t.resource) != nil) {
			order = append(order, i)
		}
	}
	// the ties that run in this process (they need no server row) run while the children work
	sideDone := make(chan struct{})
	go func() {
		defer close(sideDone)
		runRemovePrefix(f, res)
		runGauTie(f, res)
		runSpellTie(f, res)
	}()
	for _, i := range order {
		wg.Add(1)
		sem <- struct{}{}
		go func(i int, key string) {
			defer wg.Done()
			defer func() { <-sem }()
			r, p, crash := runChild(f, key)
			outs[i] = out{r, p, crash}
		}(i, triples[i].key())
	}
	wg.Wait()
	<-sideDone
	var tnames []string
	var allUnconfirmed []any
	for i, t := range triples {
		tnames = append(tnames, t.key())
		o := outs[i]
		if o.r == nil {
			if o.p == nil || !strings.HasPrefix(o.crash, "panic:") {
				tie.Fail(fmt.Errorf("child for %s failed: %s", t.key(), o.crash))
				continue
			}
			// a request killed the server process: the handler panicked
			cls := strings.SplitN(o.p.Op, "(", 2)[0]
			kind := "Update"
			if strings.HasPrefix(cls, "Get") {
				kind = "Get"
			} else if strings.HasPrefix(cls, "Pull") {
				kind = "Pull"
			}
			in := map[string]any{"kind": o.p.Sid.Kind, "triple": o.p.Sid.Triple, "seed": o.p.Sid.Seed, "seq": o.p.Sid.Seq, "steps": max(o.p.Step+1, o.p.Sid.Steps),
				"trace": append(o.p.Trace, stepDesc{o.p.Step, o.p.Op, "the serving process died"})}
			mon.Violate(fmt.Sprintf("C14/%s/%s/%s/panic", t.Row.key(), t.X, kind),
				kind+" panicked in the server (through the wrapper the handler runs on its own goroutine: the process dies) instead of returning a value or a status",
				in, "a response or an error status", o.crash)
			mon.Eval(t.key()+"crash", true, nil)
			tie.Record(t.key()+"crash", true, in, "reject:"+kind+"/panic", "reject:"+kind+"/panic")
			continue
		}
		for _, ct := range o.r.Ties {
			tie.Evaluations += ct.Evaluations
			tie.Distinct += ct.Distinct
			tie.NDisagree += ct.NDisagree
			for _, d := range ct.Disagreements {
				if len(tie.Disagreements) < 10 {
					tie.Disagreements = append(tie.Disagreements, d)
				}
			}
			if len(tie.Samples) < 6 && len(ct.Samples) > 0 {
				tie.Samples = append(tie.Samples, ct.Samples[0])
			}
			if ct.Error != "" {
				tie.Error = ct.Error
			}
		}
		if u, ok := o.r.Extra["unconfirmed"].([]any); ok {
			allUnconfirmed = append(allUnconfirmed, u...)
		}
		for _, cm := range o.r.Monitors {
			mon.Evaluations += cm.Evaluations
			mon.Distinct += cm.Distinct
			for k, v := range cm.Distribution {
				mon.Distribution[k] += v
			}
			for _, v := range cm.Violations {
				for c := 0; c < v.Count; c++ {
					mon.Violate(v.Signature, v.What, v.Input, v.Expected, v.Observed)
				}
			}
		}
	}
	for k, v := range mon.Distribution {
		tie.Distribution[k] = v
	}
	res.Extra["triples"] = tnames
	if len(allUnconfirmed) > 8 {
		allUnconfirmed = allUnconfirmed[:8]
	}
	res.Extra["unconfirmed_failures"] = allUnconfirmed
	res.Extra["services"] = services
	var none []string
	for _, row := range stackTable {
		has := false
		for _, t := range triples {
			has = has || t.Row.key() == row.key()
		}
		if !has {
			none = append(none, row.key())
		}
	}
	res.Extra["rows_without_triple"] = none
	var keyed []string
	for k := range keyedTriples {
		keyed = append(keyed, k)
	}
	sort.Strings(keyed)
	res.Extra["keyed_triples_skipped"] = keyed
}

func last(s []string) string { return s[len(s)-1] }

func replay(f lib.Flags) int {
	rp, err := lib.ReadReplay(f.Replay)
	if err != nil {
		lib.Fatal(err)
	}
	in, ok := rp.Input.(map[string]any)
	if !ok {
		fmt.Println("replay: no concrete input in file (", rp.Kind, rp.Broken, ")")
		return 2
	}
	b, _ := json.Marshal(in)
	if in["kind"] == "rmprefix" {
		return replayRemovePrefix(in)
	}
	if in["kind"] == "gau" {
		return replayGau(in)
	}
	if in["kind"] == "spell" {
		return replaySpell(in)
	}
	var sid sessionID
	if err := json.Unmarshal(b, &sid); err != nil || sessionKinds[sid.Kind] == nil {
		fmt.Println("replay: unknown input", string(b))
		return 2
	}
	if os.Getenv("C14_REPLAY_CHILD") == "" {
		// run the session in a child: a server panic kills the process
		cmd := exec.Command(os.Args[0], os.Args[1:]...)
		cmd.Env = append(os.Environ(), "C14_REPLAY_CHILD=1")
		out, err := cmd.CombinedOutput()
		fmt.Print(string(out))
		if err != nil {
			if ee, ok := err.(*exec.ExitError); ok && ee.ExitCode() == 1 {
				return 1
			}
			fmt.Println("STILL FAILS: the serving process died while replaying (handler panic)")
			return 1
		}
		return 0
	}
	triples, _, err := allTriples()
	if err != nil {
		lib.Fatal(err)
	}
	m := lib.NewMonitor("replay", "")
	found := false
	for _, t := range triples {
		if t.key() == sid.Triple {
			found = true
			run := sessionKinds[sid.Kind]
			lines, _ := run(t, sid, m)
			fmt.Printf("replay %s seq=%d seed=%d: %d observations\n  %s\n", sid.Triple, sid.Seq, sid.Seed, len(lines), strings.Join(lines, "\n  "))
		}
	}
	if !found {
		fmt.Println("replay: triple no longer exists:", sid.Triple)
		return 1
	}
	if len(m.Violations) > 0 {
		for _, v := range m.Violations {
			fmt.Printf("STILL FAILS %s: %s\n  expected %s\n  observed %s\n", v.Signature, v.What, v.Expected, v.Observed)
		}
		return 1
	}
	fmt.Println("replay: property holds on this input now")
	return 0
}
