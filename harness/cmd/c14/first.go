package main

import (
	"fmt"
	"runtime"
	"sync"
	"time"

	"google.golang.org/protobuf/proto"
	"google.golang.org/protobuf/reflect/protoreflect"
	"google.golang.org/protobuf/types/known/fieldmaskpb"

	"github.com/smart-core-os/sc-golang/internal/verifhook"
	"github.com/smart-core-os/sc-golang/verifharness/lib"
)

// Scenario family "first" (kind "first"): the FIRST write after a subscription.
//
// Everywhere else an updates_only stream proves that its server-side subscription exists only by delivering its first
// message (the Pull RPC returns before the handler has subscribed), so the first write after such a subscription is
// never owed to it. Here the existence of the subscription is OBSERVED, not inferred: the yield points of
// internal/minibus are counted. `bus.listen.beforeRegister` says how many listeners the Pull being opened registers
// (d); for every Bus.Send `bus.send.afterSnapshot` followed by one `bus.send.beforeListener` per listener says how many
// listeners were in the snapshot that Send took. A write made just before the Pull gives the base line (one Send over
// n listeners); if the first write after it is one Send over n+d listeners, the new stream's listeners were on the bus
// when the value was announced: the event was handed to it, and whatever its value - the zero message, an empty
// projection, a value within a tolerance of zero - it is owed to the stream like any other (observation `estab i`).
// Nothing is assumed about time: a Pull whose listener was not in the snapshot stays un-established as before.
//
// The first write is chosen from the boundary as often as not: the empty payload under an update mask naming the
// fields the stream's read mask names (clearing exactly what the subscriber looks at), the empty payload alone, a
// sparse random payload; the write before the subscription is dense, so that clearing is a change.

type sendCounter struct {
	mu      sync.Mutex
	sends   []int         // listeners in the snapshot of each Send since reset
	cur     map[int64]int // goroutine -> index of the Send it is in
	listens int           // listeners registered (bus.listen.beforeRegister passed) since reset
}

func (c *sendCounter) hook(point string) {
	switch point {
	case "bus.send.afterSnapshot":
		g := verifhook.GoID()
		c.mu.Lock()
		c.sends = append(c.sends, 0)
		c.cur[g] = len(c.sends) - 1
		c.mu.Unlock()
	case "bus.send.beforeListener":
		g := verifhook.GoID()
		c.mu.Lock()
		if i, ok := c.cur[g]; ok {
			c.sends[i]++
		}
		c.mu.Unlock()
	case "bus.listen.beforeRegister":
		c.mu.Lock()
		c.listens++
		c.mu.Unlock()
	}
}

func (c *sendCounter) reset() {
	c.mu.Lock()
	c.sends, c.cur, c.listens = nil, map[int64]int{}, 0
	c.mu.Unlock()
}

// resetSends forgets the Sends seen so far and keeps the count of registrations.
func (c *sendCounter) resetSends() {
	c.mu.Lock()
	c.sends, c.cur = nil, map[int64]int{}
	c.mu.Unlock()
}

func (c *sendCounter) snapshot() (sends []int, listens int) {
	c.mu.Lock()
	defer c.mu.Unlock()
	return append([]int(nil), c.sends...), c.listens
}

func runFirstSession(t triple, sid sessionID, mon *lib.Monitor) (lines, verdicts []string) {
	s := newSession(t, sid, mon, "first")
	defer s.cancelAll()
	defer verifhook.Set(nil)
	cnt := &sendCounter{cur: map[int64]int{}}
	verifhook.Set(cnt.hook)
	s.doGet(nil)
	if !s.failed && sid.Seq%2 == 0 {
		s.doPullWith(nil, false) // a seeded stream that stays open throughout
	}
	for k := 0; k < sid.Steps && !s.failed; k++ {
		s.step = k
		s.firstRound(cnt, k)
		for s.openCount() > 2 && !s.failed {
			s.closeLast()
			// a cancelled listener stays in the snapshots until a Send has collected it: two writes settle the base line
		}
	}
	if !s.failed {
		s.step = sid.Steps
		s.drain(true)
		s.doGet(nil)
	}
	mon.Eval(sid.Triple+"/first"+fmt.Sprint(sid.Seq), len(s.lines) > 6, nil)
	return s.lines, s.verdict
}

// topMask: a read mask of one or two top-level fields (what a subscriber interested in one aspect asks for), or nil.
func (s *session) topMask() *fieldmaskpb.FieldMask {
	if s.r.Intn(5) == 0 {
		return nil
	}
	return &fieldmaskpb.FieldMask{Paths: s.g.TopPaths(s.t.resource, 1+s.r.Intn(2))}
}

func (s *session) firstRound(cnt *sendCounter, k int) {
	// the write before the subscription: dense, and the base line of the bus (twice after a cancellation: the first
	// Send collects the dead listener, the second one shows the list as it now is)
	var base []int
	for i := 0; i < 2 && !s.failed; i++ {
		s.dense = 0.9
		cnt.reset()
		s.write()
		base, _ = cnt.snapshot()
	}
	s.dense = 0
	if s.failed {
		return
	}
	// d below counts every registration since just before the base-line write (an older stream whose handler
	// subscribes this late is then counted too, and has to be in the snapshot as well)
	mask, uo := s.topMask(), s.r.Intn(4) != 0
	st, op, failure := s.openStream(mask, uo, nil)
	if st == nil {
		s.obs("openerr", s.violate("Pull/open-failed", "opening a Pull stream failed", "a stream", failure))
		return
	}
	// give the handler time to subscribe (not relied upon: whether it has is read off the next Send's snapshot)
	for t0 := time.Now(); time.Since(t0) < 20*time.Millisecond; {
		if _, l := cnt.snapshot(); l > 0 {
			break
		}
		runtime.Gosched()
	}
	for i := 0; i < 50; i++ {
		runtime.Gosched()
	}
	i := s.adoptStream(st, op, mask, uo)
	if s.failed {
		return
	}
	_, d := cnt.snapshot()
	// the first write after the subscription
	var (
		req, payload proto.Message
		opU          string
	)
	if !s.t.isPair() {
		switch x := s.r.Intn(10); {
		case x < 4 && mask != nil:
			req, payload, opU = s.craftUpdate(newMsg(s.t.resource).Interface(), &fieldmaskpb.FieldMask{Paths: append([]string{}, mask.Paths...)})
		case x < 6:
			req, payload, opU = s.craftUpdate(newMsg(s.t.resource).Interface(), nil)
		case x < 8:
			s.dense = 0.15
			req, payload, opU = s.prepUpdate()
			s.dense = 0
		default:
			req, payload, opU = s.prepUpdate()
		}
	}
	cnt.resetSends()
	observe := func() {
		after, _ := cnt.snapshot()
		if st.established {
			return
		}
		if d >= 1 && len(base) == 1 && len(after) == 1 && after[0] == base[0]+d {
			// the Send of this write found the new stream's listener(s) on the bus
			st.established = true
			s.trace = append(s.trace, stepDesc{s.step, fmt.Sprintf("stream#%d: its %d listener(s) were in the snapshot of the write below (%d listeners; %d before the Pull)", i, d, after[0], base[0]), "subscription known to exist"})
			s.obs(fmt.Sprintf("estab %d", i), "ok")
			s.mon.Count("first-write:subscription-observed")
		} else {
			s.mon.Count(fmt.Sprintf("first-write:subscription-not-observed(sends %d->%d)", len(base), len(after)))
		}
	}
	if s.t.isPair() {
		// a model-level write (sparse, as often as not), judged by doPoke
		if s.r.Intn(2) == 0 {
			s.dense = 0.15
		}
		s.onWritten = observe
		s.doPoke()
		s.dense, s.onWritten = 0, nil
		return
	}
	out, pm := s.call("Update"+s.t.X, req)
	observe()
	s.finishUpdate(payload, opU+" [the first write after stream#"+fmt.Sprint(i)+" was opened]", out, pm)
	if !s.failed {
		s.doGet(nil)
	}
}

// craftUpdate builds an Update request with exactly this payload and update mask (no extras).
func (s *session) craftUpdate(payload proto.Message, um *fieldmaskpb.FieldMask) (proto.Message, proto.Message, string) {
	req := newMsg(s.t.update.Input())
	setStr(req, "name", s.reqName())
	req.Set(payloadField(s.t.update.Input(), s.t.resource), protoreflect.ValueOfMessage(payload.ProtoReflect()))
	setMask(req, "update_mask", um)
	op := fmt.Sprintf("Update%s(%s)", s.t.X, txt(req.Interface()))
	reportProgress(progress{Sid: s.sid, Step: s.step, Op: op, Trace: tailTrace(s.trace, 12)})
	return req.Interface(), payload, op
}

// firstWrite (keyed sessions): the same on one item of a collection - a base-line Update of the item, an updates_only
// Pull of the item, the next Update of the item. PullID registers one listener on the collection's bus; when the
// Update's Send found it there, the item's event was handed to the stream.
func (k *keyedSession) firstWrite(it *item) {
	s := k.session
	cnt := &sendCounter{cur: map[int64]int{}}
	verifhook.Set(cnt.hook)
	defer verifhook.Set(nil)
	var base []int
	for i := 0; i < 2 && !s.failed && it.cur != nil; i++ {
		cnt.reset()
		k.update(it)
		base, _ = cnt.snapshot()
	}
	if s.failed || it.cur == nil {
		return
	}
	before := len(s.streams)
	k.pullWith(it, s.topMask(), true)
	if s.failed || len(s.streams) == before {
		return
	}
	i := len(s.streams) - 1
	st := s.streams[i]
	for t0 := time.Now(); time.Since(t0) < 20*time.Millisecond; {
		if _, l := cnt.snapshot(); l > 0 {
			break
		}
		runtime.Gosched()
	}
	for j := 0; j < 50; j++ {
		runtime.Gosched()
	}
	_, d := cnt.snapshot()
	req, p, op := k.prepUpdate(it)
	cnt.resetSends()
	out, pm := s.call("Update"+k.t.X, req)
	after, _ := cnt.snapshot()
	if !st.established {
		if d >= 1 && len(base) == 1 && len(after) == 1 && after[0] == base[0]+d {
			st.established = true
			s.trace = append(s.trace, stepDesc{s.step, fmt.Sprintf("stream#%d: its %d listener(s) were in the snapshot of the write below (%d listeners; %d before the Pull)", i, d, after[0], base[0]), "subscription known to exist"})
			s.obs(fmt.Sprintf("estab %d", i), "ok")
			s.mon.Count("first-write:keyed-subscription-observed")
		} else {
			s.mon.Count(fmt.Sprintf("first-write:keyed-subscription-not-observed(sends %d->%d)", len(base), len(after)))
		}
	}
	k.finishUpdate(it, p, op+" [the first write after stream#"+fmt.Sprint(i)+" was opened]", out, pm)
}
