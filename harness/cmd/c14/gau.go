package main

import (
	"fmt"
	"sort"
	"strings"
	"sync"
	"time"

	"google.golang.org/grpc/codes"
	"google.golang.org/grpc/status"
	"google.golang.org/protobuf/proto"
	"google.golang.org/protobuf/types/known/wrapperspb"

	"github.com/smart-core-os/sc-golang/internal/verifhook"
	"github.com/smart-core-os/sc-golang/pkg/resource"
	"github.com/smart-core-os/sc-golang/verifharness/lib"
)

// Tie K4 `get-and-update`: resource.GetAndUpdate (the optimistic write under Value.set and Collection.Update) against
// its Lean model (Gau.lean, driver op gau) on explicit schedules. Up to three writers; a schedule is an interleaving of
// their `read` steps (the writer's goroutine runs GetAndUpdate up to the yield point gau.beforeLock: it has read and
// computed) and `commit` steps (it is released and runs to the end); every writer commits. The value is a number mod 4
// (a value can come BACK: the re-validation compares values), the requests are the closed family shared with the
// driver: 9 is rejected by the pipeline, 0 stores the value read, u stores (old+u) mod 4.
// Quick: every interleaving of one and two writers with every request combination, every interleaving of three writers
// with a sample of request combinations; thorough: everything.
//
// Monitor (independent of the model: the refinement statement evaluated directly): replay the requests that were
// answered OK, in commit order, on an ATOMIC register from the initial value - every response must be the atomic
// register's, and the final value too; a writer answered with an error must not have changed the value.

const gauTieRule = "every interleaving of read / commit steps of 1-2 writers (3 writers: every interleaving, sampled requests in the quick tier) x requests {reject, keep, +1, +2, +3 mod 4} x initial value 0/1: " +
	"the real resource.GetAndUpdate, each writer held at gau.beforeLock between its read and its commit, against the Lean model (driver op gau); exhaustive; non-trivial = a schedule with an overlap (a commit of another writer between a writer's read and its commit); distinct = distinct schedule"

const gauMonRule = "the requests answered OK, replayed in commit order on an atomic register from the initial value, give exactly the responses and the final value; a writer answered with an error (its pipeline's or Aborted) left the value as it was"

type gauStep struct {
	read bool
	w    int
	u    int
}

func gauLine(cur int, steps []gauStep) string {
	var b strings.Builder
	fmt.Fprintf(&b, "gau %d", cur)
	for _, s := range steps {
		if s.read {
			fmt.Fprintf(&b, " r%d:%d", s.w, s.u)
		} else {
			fmt.Fprintf(&b, " c%d", s.w)
		}
	}
	return b.String()
}

// gauInterleavings: every order of r1,c1,...,rn,cn with r_i before c_i.
func gauInterleavings(n int) [][]gauStep {
	var out [][]gauStep
	var rec func(cur []gauStep, read, committed []bool)
	rec = func(cur []gauStep, read, committed []bool) {
		if len(cur) == 2*n {
			out = append(out, append([]gauStep{}, cur...))
			return
		}
		for w := 1; w <= n; w++ {
			if !read[w] {
				read[w] = true
				rec(append(cur, gauStep{read: true, w: w}), read, committed)
				read[w] = false
			} else if !committed[w] {
				committed[w] = true
				rec(append(cur, gauStep{w: w}), read, committed)
				committed[w] = false
			}
		}
	}
	rec(nil, make([]bool, n+1), make([]bool, n+1))
	return out
}

type gauWriter struct {
	parked, release, done chan struct{}
	res                   string
}

// gauReal runs the schedule on the real GetAndUpdate. It returns the model's answer format, the commit order of the
// writers and what each was answered.
func gauReal(cur int, steps []gauStep) (answer string, order []int, results map[int]string, final int) {
	var mu sync.RWMutex
	val := proto.Message(wrapperspb.Int32(int32(cur)))
	writers := map[int]*gauWriter{}
	var hm sync.Mutex
	byGo := map[int64]*gauWriter{}
	verifhook.Set(func(point string) {
		if point != "gau.beforeLock" {
			return
		}
		hm.Lock()
		w := byGo[verifhook.GoID()]
		hm.Unlock()
		if w == nil {
			return
		}
		close(w.parked)
		select {
		case <-w.release:
		case <-time.After(5 * time.Second):
		}
	})
	defer verifhook.Set(nil)
	results = map[int]string{}
	for _, st := range steps {
		if st.read {
			w := &gauWriter{parked: make(chan struct{}), release: make(chan struct{}), done: make(chan struct{})}
			writers[st.w] = w
			u := st.u
			go func() {
				defer close(w.done)
				hm.Lock()
				byGo[verifhook.GoID()] = w
				hm.Unlock()
				panicked, pm := lib.Catch(func() {
					_, nv, err := resource.GetAndUpdate(&mu,
						func() (proto.Message, error) { return val, nil },
						func(old, dst proto.Message) (proto.Message, error) {
							o := old.(*wrapperspb.Int32Value).Value
							switch u {
							case 9:
								return nil, status.Error(codes.InvalidArgument, "rejected by the pipeline")
							case 0:
								return dst, nil
							}
							return wrapperspb.Int32((o + int32(u)) % 4), nil
						},
						func(m proto.Message) { val = m })
					if err != nil {
						w.res = fmt.Sprintf("err:%d", int(status.Code(err)))
					} else {
						w.res = fmt.Sprintf("ok:%d", nv.(*wrapperspb.Int32Value).Value)
					}
				})
				if panicked {
					w.res = "panic:" + pm
				}
			}()
			select {
			case <-w.parked:
			case <-w.done: // rejected by the pipeline: never reaches the lock
			case <-time.After(3 * time.Second):
				w.res = "hung"
			}
			continue
		}
		w := writers[st.w]
		close(w.release)
		select {
		case <-w.done:
		case <-time.After(3 * time.Second):
			w.res = "hung"
		}
		order = append(order, st.w)
		results[st.w] = w.res
	}
	mu.RLock()
	final = int(val.(*wrapperspb.Int32Value).Value)
	mu.RUnlock()
	var ids []int
	for w := range results {
		ids = append(ids, w)
	}
	sort.Ints(ids)
	answer = fmt.Sprintf("cur=%d", final)
	for _, w := range ids {
		answer += fmt.Sprintf(" %d=%s", w, results[w])
	}
	return answer, order, results, final
}

// gauAtomic: the independent statement. The OK'd requests in commit order on an atomic register.
func gauAtomic(cur int, steps []gauStep, order []int, results map[int]string, final int) (ok bool, want string) {
	req := map[int]int{}
	for _, s := range steps {
		if s.read {
			req[s.w] = s.u
		}
	}
	c := cur
	for _, w := range order {
		if !strings.HasPrefix(results[w], "ok:") {
			continue
		}
		switch u := req[w]; u {
		case 9:
			return false, fmt.Sprintf("writer %d: a request the pipeline rejects was answered OK", w)
		case 0:
		default:
			c = (c + u) % 4
		}
		if results[w] != fmt.Sprintf("ok:%d", c) {
			return false, fmt.Sprintf("writer %d answered %s, the atomic register gives ok:%d", w, results[w], c)
		}
	}
	if c != final {
		return false, fmt.Sprintf("final value %d, the atomic register fed the acknowledged requests ends on %d", final, c)
	}
	return true, ""
}

func gauOverlap(steps []gauStep) bool {
	open := map[int]bool{}
	for _, s := range steps {
		if s.read {
			open[s.w] = true
		} else {
			delete(open, s.w)
			if len(open) > 0 {
				return true
			}
		}
	}
	return false
}

func runGauTie(f lib.Flags, res *lib.Result) {
	tie := res.Tie("get-and-update", "K4", gauTieRule)
	tie.Exhaustive = true
	mon := res.Monitor("optimistic-write-is-atomic", gauMonRule)
	drv, err := lib.StartDriver(f.Driver)
	if err != nil {
		tie.Fail(err)
		return
	}
	defer drv.Close()
	us := []int{9, 0, 1, 2, 3}
	r := seqRand(f.Seed, "gau", 0)
	type tc struct {
		cur   int
		steps []gauStep
	}
	var cases []tc
	for n := 1; n <= 3; n++ {
		for _, il := range gauInterleavings(n) {
			combos := 1
			for i := 0; i < n; i++ {
				combos *= len(us)
			}
			for c := 0; c < combos; c++ {
				if n == 3 && f.Tier == "quick" && r.Intn(12) != 0 {
					continue
				}
				steps := append([]gauStep{}, il...)
				x := c
				req := map[int]int{}
				for w := 1; w <= n; w++ {
					req[w] = us[x%len(us)]
					x /= len(us)
				}
				for i := range steps {
					if steps[i].read {
						steps[i].u = req[steps[i].w]
					}
				}
				cases = append(cases, tc{c % 2, steps})
			}
		}
	}
	lines := make([]string, len(cases))
	for i, c := range cases {
		lines[i] = gauLine(c.cur, c.steps)
	}
	model, err := drv.Batch(lines)
	if err != nil {
		tie.Fail(err)
		return
	}
	for i, c := range cases {
		in := map[string]any{"kind": "gau", "line": lines[i]}
		real, order, results, final := gauReal(c.cur, c.steps)
		nt := gauOverlap(c.steps)
		tie.Record(lines[i], nt, in, model[i], real)
		for _, w := range order {
			tie.Count("answer:" + strings.SplitN(results[w], ":", 2)[0] + map[bool]string{true: ":aborted", false: ""}[results[w] == "err:10"])
		}
		mon.Eval(lines[i], nt, nil)
		if ok, why := gauAtomic(c.cur, c.steps, order, results, final); !ok {
			mon.Violate("C14/resource.GetAndUpdate/not-atomic", "the writes acknowledged by GetAndUpdate are not what an atomic register fed the same requests in commit order produces", in, why, real)
		}
	}
}

// replayGau re-runs one schedule.
func replayGau(in map[string]any) int {
	line, _ := in["line"].(string)
	toks := strings.Fields(line)
	if len(toks) < 2 {
		fmt.Println("replay: malformed gau input")
		return 2
	}
	var cur int
	fmt.Sscan(toks[1], &cur)
	var steps []gauStep
	for _, t := range toks[2:] {
		var s gauStep
		if t[0] == 'r' {
			s.read = true
			fmt.Sscanf(t, "r%d:%d", &s.w, &s.u)
		} else {
			fmt.Sscanf(t, "c%d", &s.w)
		}
		steps = append(steps, s)
	}
	real, order, results, final := gauReal(cur, steps)
	ok, why := gauAtomic(cur, steps, order, results, final)
	fmt.Printf("replay %s: %s\n", line, real)
	if !ok {
		fmt.Println("STILL FAILS C14/resource.GetAndUpdate/not-atomic:", why)
		return 1
	}
	fmt.Println("replay: property holds on this input now")
	return 0
}
