package main

import (
	"fmt"
	"reflect"
	"sync/atomic"
	"time"

	"google.golang.org/protobuf/proto"

	"github.com/smart-core-os/sc-golang/internal/verifhook"
	"github.com/smart-core-os/sc-golang/verifharness/cmd/c07/pbgen"
	"github.com/smart-core-os/sc-golang/verifharness/lib"
)

// Scenario family "update while subscribing": a Pull is opened and, without waiting for its seed, one
// Update is issued concurrently after a tiny random delay. Whatever the interleaving, a coherent register
// makes the stream END on the Update's response: either the seed already is that value or the update is
// delivered after it (Value.Pull reads the current value and registers its listener under one lock).
// A server that sends the current value first and subscribes afterwards loses an update that commits in
// between: the stream stays on the stale value. Nothing is asserted about the order or number of messages.
//
// kind "gap" makes the interleaving deterministic instead of lucky: pkg/resource has yield points (build tag
// verif) right before a Pull registers its bus listener (`value.onUpdate.beforeListen`,
// `coll.onUpdate.beforeListen`). The harness arms a hook there that starts the Update on another goroutine and
// holds the subscribing goroutine for up to 2 ms (or until the Update has committed). In the code as it is, a
// seeded Pull holds the read lock at that point, so the Update commits right after the listener exists and is
// delivered; a server that has already sent the current value and only then subscribes (no lock held) lets
// the Update commit in the gap and loses it.
func runGapSession(t triple, sid sessionID, mon *lib.Monitor) (lines, verdicts []string) {
	return runRaceKind(t, sid, mon, true)
}

func runRaceSession(t triple, sid sessionID, mon *lib.Monitor) (lines, verdicts []string) {
	return runRaceKind(t, sid, mon, false)
}

func runRaceKind(t triple, sid sessionID, mon *lib.Monitor, gap bool) (lines, verdicts []string) {
	r := seqRand(sid.Seed, sid.Triple+"/"+sid.Kind, sid.Seq)
	s := &session{t: t, r: r, g: pbgen.New(r), ids: map[string]int{}, maskIDs: map[string]int{}, mon: mon, sid: sid}
	s.g.MaxDepth, s.g.Density = 2, 0.5
	cl, _ := t.Row.New()
	s.client = reflect.ValueOf(cl)
	s.input = func(n int) any {
		return map[string]any{"kind": sid.Kind, "triple": sid.Triple, "seed": sid.Seed, "seq": sid.Seq, "steps": n, "trace": tailTrace(s.trace, 12)}
	}
	defer func() {
		for _, st := range s.streams {
			st.cancel()
		}
	}()
	s.lines, s.verdict = []string{"reset"}, []string{"ok"}
	s.step = -1
	s.doGet(nil)
	for k := 0; k < sid.Steps && !s.failed; k++ {
		s.step = k
		payload := s.g.Message(newMsg(t.resource).Type())
		stripTweens(payload.ProtoReflect())
		req := s.updateReq(payload, newMsg(t.update.Input()).Interface())
		op := fmt.Sprintf("Pull%s() and concurrently Update%s(%s)", t.X, t.X, txt(payload))
		reportProgress(progress{Sid: sid, Step: k, Op: op, Trace: tailTrace(s.trace, 8)})
		done := make(chan []reflect.Value, 1)
		if gap {
			// the Update is started from the yield point right before the Pull's listener is registered
			var armed atomic.Bool
			armed.Store(true)
			verifhook.Set(func(point string) {
				if (point != "value.onUpdate.beforeListen" && point != "coll.onUpdate.beforeListen") || !armed.CompareAndSwap(true, false) {
					return
				}
				committed := make(chan struct{})
				go func() {
					o, _ := s.call("Update"+t.X, req.Interface())
					close(committed)
					done <- o
				}()
				select {
				case <-committed:
				case <-time.After(2 * time.Millisecond):
				}
			})
			defer verifhook.Set(nil)
			go func() {
				// if the server's Pull never reaches a resource Pull (no yield point), still run the Update
				time.Sleep(50 * time.Millisecond)
				if armed.CompareAndSwap(true, false) {
					o, _ := s.call("Update"+t.X, req.Interface())
					done <- o
				}
			}()
		} else {
			// the Update is started first, delayed by a random few microseconds, then the Pull is opened (without
			// waiting for its seed): the Update commits anywhere from before the Pull's read to after its subscription
			delay := time.Duration(r.Intn(120)) * time.Microsecond
			go func() {
				for t0 := time.Now(); time.Since(t0) < delay; {
				}
				o, _ := s.call("Update"+t.X, req.Interface())
				done <- o
			}()
		}
		before := len(s.streams)
		s.openNoWait()
		if len(s.streams) == before {
			<-done
			return s.lines, s.verdict
		}
		i := len(s.streams) - 1
		var out []reflect.Value
		select {
		case out = <-done:
		case <-time.After(3 * time.Second):
			s.obs("updpanic", s.violate("Update/hung", "Update did not return within 3 s", "a response", "nothing"))
			return s.lines, s.verdict
		}
		if out == nil || out[1].Interface() != nil {
			// rejected (or panicked in-process): nothing to learn from this trial; the register is unchanged
			s.trace = append(s.trace, stepDesc{k, op, "update rejected"})
			s.obs("upderr", "ok")
			s.takeAll(i, 5*time.Millisecond)
			s.closeStream(i)
			continue
		}
		resp := out[0].Interface().(proto.Message)
		s.trace = append(s.trace, stepDesc{k, op, txt(resp)})
		s.cur = proto.Clone(resp)
		s.streams[i].queue = nil
		s.obs(fmt.Sprintf("updokbg %d %d", s.id(resp), s.id(resp)), "ok")
		// let everything in flight arrive: stop as soon as the stream shows the response, give up after 1 s
		end := time.Now().Add(time.Second)
		for time.Now().Before(end) {
			s.takeAll(i, 3*time.Millisecond)
			if st := s.streams[i]; st.lastSeen != nil && proto.Equal(st.lastSeen, s.cur) {
				break
			}
		}
		s.takeAll(i, 3*time.Millisecond)
		v := "ok"
		if st := s.streams[i]; !st.closed && st.established && (st.lastSeen == nil || !proto.Equal(st.lastSeen, s.cur)) {
			v = s.violate("Pull/stream-does-not-end-on-register",
				"a Pull opened while an Update was in flight did not end on the Update's response: the update was lost between the stream's current value and its subscription",
				txt(s.cur), fmt.Sprintf("stream#%d ended on %s", i, txt(st.lastSeen)))
		}
		s.obs("quiesce", v)
		mon.Count(sid.Kind + "-trials")
		if gap {
			verifhook.Set(nil)
		}
		if !s.failed {
			s.closeStream(i)
		}
	}
	if !s.failed {
		s.doGet(nil)
	}
	mon.Eval(sid.Triple+"/"+sid.Kind+fmt.Sprint(sid.Seq), true, nil)
	return s.lines, s.verdict
}

func (s *session) closeStream(i int) {
	s.streams[i].closed = true
	s.streams[i].cancel()
	s.obs(fmt.Sprintf("close %d", i), "ok")
}
