package main

import (
	"fmt"
	"reflect"
	"time"

	"google.golang.org/protobuf/proto"

	"github.com/smart-core-os/sc-golang/verifharness/cmd/c07/pbgen"
	"github.com/smart-core-os/sc-golang/verifharness/lib"
)

// Scenario family "update while subscribing": a Pull is opened and, without waiting for its seed, one
// Update is issued concurrently after a tiny random delay. Whatever the interleaving, a coherent register
// makes the stream END on the Update's response: either the seed already is that value or the update is
// delivered after it (Value.Pull reads the current value and registers its listener under one lock).
// A server that sends the current value first and subscribes afterwards loses an update that commits in
// between: the stream stays on the stale value. Nothing is asserted about the order or number of messages.
func runRaceSession(t triple, sid sessionID, mon *lib.Monitor) (lines, verdicts []string) {
	r := seqRand(sid.Seed, sid.Triple+"/race", sid.Seq)
	s := &session{t: t, r: r, g: pbgen.New(r), ids: map[string]int{}, maskIDs: map[string]int{}, mon: mon, sid: sid}
	s.g.MaxDepth, s.g.Density = 2, 0.5
	cl, _ := t.Row.New()
	s.client = reflect.ValueOf(cl)
	s.input = func(n int) any {
		return map[string]any{"kind": "race", "triple": sid.Triple, "seed": sid.Seed, "seq": sid.Seq, "steps": n, "trace": tailTrace(s.trace, 12)}
	}
	defer func() {
		for _, st := range s.streams {
			st.cancel()
		}
	}()
	s.lines, s.verdict = []string{"reset"}, []string{"ok"}
	s.step = -1
	s.doGet(nil)
	for k := 0; k < sid.Steps && !s.failed; k++ {
		s.step = k
		payload := s.g.Message(newMsg(t.resource).Type())
		stripTweens(payload.ProtoReflect())
		req := s.updateReq(payload, newMsg(t.update.Input()).Interface())
		op := fmt.Sprintf("Pull%s() and concurrently Update%s(%s)", t.X, t.X, txt(payload))
		reportProgress(progress{Sid: sid, Step: k, Op: op, Trace: tailTrace(s.trace, 8)})
		// the Update is started first, delayed by a random few microseconds, then the Pull is opened (without
		// waiting for its seed): the Update commits anywhere from before the Pull's read to after its subscription
		delay := time.Duration(r.Intn(120)) * time.Microsecond
		done := make(chan []reflect.Value, 1)
		go func() {
			for t0 := time.Now(); time.Since(t0) < delay; {
			}
			o, _ := s.call("Update"+t.X, req.Interface())
			done <- o
		}()
		before := len(s.streams)
		s.openNoWait()
		if len(s.streams) == before {
			<-done
			return s.lines, s.verdict
		}
		i := len(s.streams) - 1
		var out []reflect.Value
		select {
		case out = <-done:
		case <-time.After(3 * time.Second):
			s.obs("updpanic", s.violate("Update/hung", "Update did not return within 3 s", "a response", "nothing"))
			return s.lines, s.verdict
		}
		if out == nil || out[1].Interface() != nil {
			// rejected (or panicked in-process): nothing to learn from this trial; the register is unchanged
			s.trace = append(s.trace, stepDesc{k, op, "update rejected"})
			s.obs("upderr", "ok")
			s.takeAll(i, 5*time.Millisecond)
			s.closeStream(i)
			continue
		}
		resp := out[0].Interface().(proto.Message)
		s.trace = append(s.trace, stepDesc{k, op, txt(resp)})
		s.cur = proto.Clone(resp)
		s.streams[i].queue = nil
		s.obs(fmt.Sprintf("updokbg %d %d", s.id(resp), s.id(resp)), "ok")
		// let everything in flight arrive: stop as soon as the stream shows the response, give up after 1 s
		end := time.Now().Add(time.Second)
		for time.Now().Before(end) {
			s.takeAll(i, 3*time.Millisecond)
			if st := s.streams[i]; st.lastSeen != nil && proto.Equal(st.lastSeen, s.cur) {
				break
			}
		}
		s.takeAll(i, 3*time.Millisecond)
		v := "ok"
		if st := s.streams[i]; !st.closed && st.established && (st.lastSeen == nil || !proto.Equal(st.lastSeen, s.cur)) {
			v = s.violate("Pull/stream-does-not-end-on-register",
				"a Pull opened while an Update was in flight did not end on the Update's response: the update was lost between the stream's current value and its subscription",
				txt(s.cur), fmt.Sprintf("stream#%d ended on %s", i, txt(st.lastSeen)))
		}
		s.obs("quiesce", v)
		mon.Count("race-trials")
		if !s.failed {
			s.closeStream(i)
		}
	}
	if !s.failed {
		s.doGet(nil)
	}
	mon.Eval(sid.Triple+"/race"+fmt.Sprint(sid.Seq), true, nil)
	return s.lines, s.verdict
}

func (s *session) closeStream(i int) {
	s.streams[i].closed = true
	s.streams[i].cancel()
	s.obs(fmt.Sprintf("close %d", i), "ok")
}
