package main

import (
	"fmt"
	"time"
)

// First use of a name on a router that creates its clients on demand (generated WithXxxApiClientFactory; rows
// "+factory"): router.Get misses the registry, calls the factory WITHOUT holding the lock, then locks, checks again,
// and either remembers its client or — when another request has registered one meanwhile — discards its own and
// uses the registered one. Every session on such a row starts with that race forced: request A (Update, Pull or Get)
// is sent first and parks inside its factory call (the gate); request(s) B (Get / Update / Get+Pull) run to
// completion meanwhile: B's factory call passes, B's client is the one remembered; then A is released.
//
// A coherent register: A was served after B completed, so the observations must be those of B followed by A on ONE
// register — A's Update shows in the next Get, on B's stream and as the seed of the next Pull; A's Pull starts with
// the value B wrote and sees every later Update. The rest of the session is an ordinary register session.
func (s *session) firstUse(g *gate) {
	g.arm()
	kindA := s.r.Intn(5) // 0,1,2 Update; 3 Pull; 4 Get
	done := make(chan callRes, 1)
	var finishA func(r callRes)
	var stA *pullStream
	var opA string
	switch {
	case kindA <= 2:
		req, payload, op := s.prepUpdate()
		go func() {
			out, pm := s.call("Update"+s.t.X, req)
			done <- callRes{out, pm}
		}()
		finishA = func(r callRes) {
			s.finishUpdate(payload, op+" [the first request for the name: sent first, held inside the router's client factory while the requests above ran]", r.out, r.pm)
		}
	case kindA == 3:
		mask, uo := s.randMask(s.t.resource, 50, true), s.r.Intn(3) == 0
		var failure string
		stA, opA, failure = s.openStream(mask, uo, nil)
		if stA == nil {
			s.trace = append(s.trace, stepDesc{s.step, opA, "failed: " + failure})
			s.obs("openerr", s.violate("Pull/open-failed", "opening a Pull stream failed", "a stream", failure))
			return
		}
	default:
		mask := s.randMask(s.t.resource, 40, true)
		req, op := s.prepGet(mask)
		go func() {
			out, pm := s.call("Get"+s.t.X, req)
			done <- callRes{out, pm}
		}()
		finishA = func(r callRes) {
			s.finishGet(mask, op+" [the first request for the name: held inside the router's client factory]", r.out, r.pm)
		}
	}
	select {
	case <-g.parked:
		s.mon.Count("first-use-overlap")
	case r := <-done:
		// A was answered without entering the factory (no overlap possible): an ordinary first request
		s.mon.Count("first-use-no-factory-call")
		close(g.release)
		finishA(r)
		if !s.failed {
			s.doGet(nil)
		}
		return
	case <-time.After(5 * time.Second):
		// nothing happened for 5 s (a starved machine): void, the session ends without a verdict
		s.mon.Count("first-use-void")
		close(g.release)
		if stA != nil {
			stA.cancel()
		}
		s.failed = true
		return
	}
	// B: the requests that overtake A
	switch s.r.Intn(3) {
	case 0:
		s.doGet(nil)
	case 1:
		s.doUpdate()
		if s.cur == nil && !s.failed {
			s.doGet(nil)
		}
	default:
		s.doGet(nil)
		if !s.failed {
			s.doPull()
		}
	}
	close(g.release)
	if s.failed {
		if stA != nil {
			stA.cancel()
		}
		return
	}
	if stA != nil {
		// A's Pull is served now: it starts with the register as B left it
		s.streams = append(s.streams, stA)
		s.trace = append(s.trace, stepDesc{s.step, opA + " [the first request for the name: held inside the router's client factory]", fmt.Sprintf("stream#%d", len(s.streams)-1)})
		if !stA.uo && s.cur != nil {
			s.fact(stA.mask, s.cur)
			stA.queue = append(stA.queue, expect{val: project(stA.mask, s.cur), must: true})
		}
		uoi := 0
		if stA.uo {
			uoi = 1
		}
		s.obs(fmt.Sprintf("open %d %d", s.maskID(stA.mask), uoi), "ok")
		s.drainSeed(len(s.streams) - 1)
	} else {
		select {
		case r := <-done:
			finishA(r)
		case <-time.After(3 * time.Second):
			s.obs("updpanic", s.violate("first-use/hung", "the first request for a name did not return within 3 s of its factory call returning", "a response", "nothing"))
			return
		}
	}
	if !s.failed {
		s.doGet(nil)
	}
}
