package main

func writeFacts(p string) error { return nil }
