package main

// K3 fact extractor for C14 (go/parser + go/ast only). Writes lean/ScVerif/Generated/C14Facts.lean:
//
//   discoveredServers  constructors in pkg/trait/* returning a struct that embeds a generated
//                      Unimplemented…ApiServer (the server implementations), read from the source tree
//   drivenServers      the rows of this harness's hand-listed stackTable
//   methodTrios        for every server type: the names of the GetX/UpdateX/PullX method trios it declares
//                      (informational; the translation itself is checked behaviourally by the acceptor)

import (
	"go/ast"
	"go/parser"
	"go/token"
	"os"
	"path/filepath"
	"sort"
	"strings"

	"github.com/smart-core-os/sc-golang/verifharness/lib"
)

type tripleFact struct {
	Key                                          string
	GetMask, UpdMask, PullMask, PullUO, PullName bool
	GetParam, UpdParam, PullParam                string
}

func recvTypeName(fd *ast.FuncDecl) string {
	if fd.Recv == nil || len(fd.Recv.List) == 0 {
		return ""
	}
	t := fd.Recv.List[0].Type
	if se, ok := t.(*ast.StarExpr); ok {
		t = se.X
	}
	if id, ok := t.(*ast.Ident); ok {
		return id.Name
	}
	return ""
}

func leanStr(s string) string {
	return "\"" + strings.NewReplacer("\\", "\\\\", "\"", "\\\"", "\n", " ").Replace(s) + "\""
}

func leanList(xs []string) string {
	q := make([]string, len(xs))
	for i, x := range xs {
		q[i] = leanStr(x)
	}
	return "[" + strings.Join(q, ", ") + "]"
}

func writeFacts(path string) error {
	root := filepath.Join(lib.RepoRoot(), "pkg", "trait")
	ents, err := os.ReadDir(root)
	if err != nil {
		return err
	}
	var discovered []string
	var facts []tripleFact
	for _, e := range ents {
		if !e.IsDir() {
			continue
		}
		dir := filepath.Join(root, e.Name())
		fset := token.NewFileSet()
		files, _ := os.ReadDir(dir)
		serverTypes := map[string]bool{}
		holds := map[string][]string{}                   // struct type -> pointer field types (same package idents or resource.X)
		methods := map[string]map[string]*ast.FuncDecl{} // type -> method name -> decl
		ctors := map[string]string{}                     // ctor name -> result type
		for _, fe := range files {
			n := fe.Name()
			if fe.IsDir() || !strings.HasSuffix(n, ".go") || strings.HasSuffix(n, "_test.go") || strings.HasSuffix(n, ".pb.go") {
				continue
			}
			f, err := parser.ParseFile(fset, filepath.Join(dir, n), nil, 0)
			if err != nil {
				return err
			}
			for _, d := range f.Decls {
				switch x := d.(type) {
				case *ast.GenDecl:
					for _, sp := range x.Specs {
						ts, ok := sp.(*ast.TypeSpec)
						if !ok {
							continue
						}
						st, ok := ts.Type.(*ast.StructType)
						if !ok {
							continue
						}
						for _, fl := range st.Fields.List {
							if se, ok := fl.Type.(*ast.StarExpr); ok {
								switch x := se.X.(type) {
								case *ast.Ident:
									holds[ts.Name.Name] = append(holds[ts.Name.Name], x.Name)
								case *ast.SelectorExpr:
									if id, ok := x.X.(*ast.Ident); ok {
										holds[ts.Name.Name] = append(holds[ts.Name.Name], id.Name+"."+x.Sel.Name)
									}
								}
							}
							if len(fl.Names) != 0 {
								continue
							}
							if sel, ok := fl.Type.(*ast.SelectorExpr); ok && strings.HasPrefix(sel.Sel.Name, "Unimplemented") && strings.HasSuffix(sel.Sel.Name, "ApiServer") {
								serverTypes[ts.Name.Name] = true
							}
						}
					}
				case *ast.FuncDecl:
					if x.Recv != nil {
						t := recvTypeName(x)
						if methods[t] == nil {
							methods[t] = map[string]*ast.FuncDecl{}
						}
						methods[t][x.Name.Name] = x
					} else if strings.HasPrefix(x.Name.Name, "New") && ast.IsExported(x.Name.Name) && x.Type.Results != nil && len(x.Type.Results.List) > 0 {
						if se, ok := x.Type.Results.List[0].Type.(*ast.StarExpr); ok {
							if id, ok := se.X.(*ast.Ident); ok {
								ctors[x.Name.Name] = id.Name
							}
						}
					}
				}
			}
		}
		var holdsResource func(t string, d int) bool
		holdsResource = func(t string, d int) bool {
			for _, h := range holds[t] {
				if h == "resource.Value" || h == "resource.Collection" || (d < 2 && h != t && holdsResource(h, d+1)) {
					return true
				}
			}
			return false
		}
		for ctor, typ := range ctors {
			// a server implementation over a resource (model server / memory device), not a Group aggregating clients
			if !serverTypes[typ] || !holdsResource(typ, 0) {
				continue
			}
			discovered = append(discovered, e.Name()+"."+ctor)
			for name, g := range methods[typ] {
				if !strings.HasPrefix(name, "Get") || g.Body == nil {
					continue
				}
				x := strings.TrimPrefix(name, "Get")
				u, p := methods[typ]["Update"+x], methods[typ]["Pull"+x]
				if u == nil || p == nil || u.Body == nil || p.Body == nil {
					continue
				}
				facts = append(facts, tripleFact{Key: e.Name() + "." + ctor + "/" + x})
			}
		}
	}
	sort.Strings(discovered)
	sort.Slice(facts, func(i, j int) bool { return facts[i].Key < facts[j].Key })
	var driven []string
	seenRow := map[string]bool{}
	for _, r := range stackTable {
		if !seenRow[r.key()] { // configured variants are further rows of the same server
			seenRow[r.key()] = true
			driven = append(driven, r.key())
		}
	}
	sort.Strings(driven)
	var b strings.Builder
	b.WriteString("/- GENERATED by harness/cmd/c14 -facts from the source tree on every run. Do not edit, do not commit. -/\n")
	b.WriteString("namespace ScVerif.Generated.C14\n\n")
	b.WriteString("def discoveredServers : List String := " + leanList(discovered) + "\n\n")
	b.WriteString("def drivenServers : List String := " + leanList(driven) + "\n\n")
	// the Get/Update/Pull method trios the server types declare: names only. How a method translates its request
	// (options through locals, slices, helpers ...) is NOT matched syntactically: that the translation is the
	// canonical one is established behaviourally by the acceptor on every discovered triple.
	var trios []string
	for _, t := range facts {
		trios = append(trios, t.Key)
	}
	b.WriteString("def methodTrios : List String := " + leanList(trios) + "\n")
	b.WriteString("\nend ScVerif.Generated.C14\n")

	return os.WriteFile(path, []byte(b.String()), 0o644)
}
