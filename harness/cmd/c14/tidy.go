package main

import (
	"fmt"
	"reflect"
	"sync/atomic"
	"time"

	"google.golang.org/protobuf/types/known/fieldmaskpb"

	"github.com/smart-core-os/sc-golang/internal/verifhook"
	"github.com/smart-core-os/sc-golang/verifharness/cmd/c07/pbgen"
	"github.com/smart-core-os/sc-golang/verifharness/lib"
)

// Scenario family "subscribing while the bus tidies its listeners" (kind "tidy"): three parties on one register.
//
//  1. A Pull stream is opened and cancelled: its bus listener is dead but still listed.
//  2. The next successful Update announces its value (bus.Send), finds the dead listener and removes it
//     (Bus.collect). The harness parks the updating goroutine INSIDE collect, at the yield point `bus.collect.scanned`
//     (the live listeners have been picked, the new list has not been stored yet).
//  3. While it is parked another client opens a Pull stream through the full stack. In the code as it is collect
//     holds the bus's write lock across scan and store, so the new subscription simply waits (nothing arrives) until
//     the harness lets the Update go; an implementation that scans outside the lock lets the subscription through
//     (its seed arrives: the harness waits for that for up to 30 ms) and then overwrites the list without it.
//
// Then the parked Update is released and judged as an ordinary register write; the new stream is registered with the
// monitors AFTER it (its handler read the register after the Update's store: the seed is the Update's value); a
// further Update must appear on it like on every other open stream; Get; the new stream is cancelled and becomes the
// dead listener of the next round. Half of the sessions keep one more stream open throughout (a live listener that
// collect has to keep).
//
// When no Update reaches the yield point within three attempts (a server that does not publish through the bus, a
// rejected Update) the round is an ordinary open / Update / Get round: counted tidy-unforced.

func newSession(t triple, sid sessionID, mon *lib.Monitor, salt string) *session {
	r := seqRand(sid.Seed, sid.Triple+"/"+salt, sid.Seq)
	s := &session{t: t, r: r, g: pbgen.New(r), ids: map[string]int{}, maskIDs: map[string]int{}, mon: mon, sid: sid}
	s.g.MaxDepth = 2
	cl, model := t.Row.New()
	s.client = reflect.ValueOf(cl)
	s.pokes = pokeMethods(model, t.resource)
	s.singleItem = true
	s.input = func(n int) any {
		return map[string]any{"kind": sid.Kind, "triple": sid.Triple, "seed": sid.Seed, "seq": sid.Seq, "steps": n, "trace": tailTrace(s.trace, 16)}
	}
	s.lines, s.verdict = []string{"reset"}, []string{"ok"}
	s.step = -1
	return s
}

// write makes one register write: an Update RPC, or a model-level write where the service has none (Get/Pull pairs).
func (s *session) write() {
	if s.t.isPair() {
		s.doPoke()
	} else {
		s.doUpdate()
	}
}

func (s *session) cancelAll() {
	for _, st := range s.streams {
		st.resume()
		st.cancel()
	}
}

// adoptStream registers a stream that has been opened with openStream with the monitors, as opened NOW (against the
// register as it is now), and waits for its seed.
func (s *session) adoptStream(st *pullStream, op string, mask *fieldmaskpb.FieldMask, uo bool) int {
	s.streams = append(s.streams, st)
	i := len(s.streams) - 1
	s.trace = append(s.trace, stepDesc{s.step, op, fmt.Sprintf("stream#%d", i)})
	if !uo && s.cur != nil {
		s.fact(mask, s.cur)
		st.queue = append(st.queue, expect{val: project(mask, s.cur), must: true})
	}
	uoi := 0
	if uo {
		uoi = 1
	}
	s.obs(fmt.Sprintf("open %d %d", s.maskID(mask), uoi), "ok")
	s.drainSeed(i)
	return i
}

func runTidySession(t triple, sid sessionID, mon *lib.Monitor) (lines, verdicts []string) {
	s := newSession(t, sid, mon, "tidy")
	defer s.cancelAll()
	defer verifhook.Set(nil)
	s.doGet(nil)
	if !s.failed && sid.Seq%2 == 0 {
		s.doPull() // a live listener throughout
	}
	// the first dead listener
	if !s.failed {
		s.doPullWith(nil, s.r.Intn(2) == 0)
		if !s.failed {
			s.closeStream(len(s.streams) - 1)
		}
	}
	for k := 0; k < sid.Steps && !s.failed; k++ {
		s.step = k
		time.Sleep(200 * time.Microsecond) // the cancellation travels down the stack on goroutines of its own
		forced := false
		for attempt := 0; attempt < 3 && !forced && !s.failed; attempt++ {
			req, payload, op := s.prepUpdate()
			var armed atomic.Bool
			armed.Store(true)
			parked, release := make(chan struct{}), make(chan struct{})
			verifhook.Set(func(point string) {
				if point != "bus.collect.scanned" || !armed.CompareAndSwap(true, false) {
					return
				}
				close(parked)
				select {
				case <-release:
				case <-time.After(5 * time.Second):
				}
			})
			done := make(chan callRes, 1)
			go func() {
				out, pm := s.call("Update"+t.X, req)
				done <- callRes{out, pm}
			}()
			var r1 callRes
			select {
			case <-parked:
				forced = true
			case r1 = <-done:
				armed.Store(false)
				verifhook.Set(nil)
				s.finishUpdate(payload, op, r1.out, r1.pm)
				continue
			case <-time.After(3 * time.Second):
				s.obs("updpanic", s.violate("Update/hung", "Update did not return within 3 s", "a response", "nothing"))
				return s.lines, s.verdict
			}
			// the Update has stored and announced its value and is parked inside Bus.collect: a client subscribes now
			mask := s.randMask(t.resource, 50, true)
			st, pop, failure := s.openStream(mask, false, nil)
			if st == nil {
				close(release)
				<-done
				s.obs("openerr", s.violate("Pull/open-failed", "opening a Pull stream failed", "a stream", failure))
				return s.lines, s.verdict
			}
			for t0 := time.Now(); len(st.ch) == 0 && time.Since(t0) < 30*time.Millisecond; {
				time.Sleep(200 * time.Microsecond)
			}
			if len(st.ch) > 0 {
				mon.Count("tidy-subscribed-during-collect")
			}
			close(release)
			select {
			case r1 = <-done:
			case <-time.After(3 * time.Second):
				s.obs("updpanic", s.violate("Update/hung", "Update did not return within 3 s of being released", "a response", "nothing"))
				return s.lines, s.verdict
			}
			verifhook.Set(nil)
			s.finishUpdate(payload, op+" [held inside Bus.collect while the Pull below was opened]", r1.out, r1.pm)
			if s.failed {
				st.cancel()
				break
			}
			mon.Count("tidy-forced")
			i := s.adoptStream(st, pop+" [opened while the Update above was removing a cancelled subscription]", mask, false)
			// every later Update appears on the stream that subscribed during the tidy-up (and on every other one)
			for n := 0; n < 2 && !s.failed; n++ {
				s.doUpdate()
			}
			if !s.failed {
				s.doGet(nil)
			}
			if !s.failed {
				s.closeStream(i) // the dead listener of the next round
			}
		}
		if !forced && !s.failed {
			mon.Count("tidy-unforced")
			s.doPullWith(nil, false)
			if !s.failed {
				s.doUpdate()
			}
			if !s.failed {
				s.closeStream(len(s.streams) - 1)
			}
		}
	}
	if !s.failed {
		s.step = sid.Steps
		s.drain(true)
		s.doGet(nil)
	}
	mon.Eval(sid.Triple+"/tidy"+fmt.Sprint(sid.Seq), len(s.lines) > 6, nil)
	return s.lines, s.verdict
}
