package main

import (
	"fmt"
	"math/rand"
	"reflect"
	"strings"
	"sync/atomic"
	"time"

	"google.golang.org/grpc/codes"
	"google.golang.org/grpc/status"
	"google.golang.org/protobuf/proto"
	"google.golang.org/protobuf/reflect/protoreflect"
	"google.golang.org/protobuf/types/known/fieldmaskpb"

	"github.com/smart-core-os/sc-golang/internal/verifhook"
	"github.com/smart-core-os/sc-golang/verifharness/cmd/c07/pbgen"
	"github.com/smart-core-os/sc-golang/verifharness/lib"
)

// Keyed families: GetX/UpdateX/PullX address one item of a collection by an id in the request (hail,
// publication, vending stock). One register per id: the single-register statements hold pointwise, Updates of
// one id never show on another id's Get or streams, and deleting an item ends its streams.
// Items are created with the service's CreateX RPC, else with the model's Create/Add method; deleted with the
// DeleteX RPC, else with the model's Delete method.

type item struct {
	key string
	kid int // the acceptor's number for this id (0 is the unkeyed register)
	cur proto.Message
}

type keyedSession struct {
	*session
	items    []*item
	nextKid  int
	model    reflect.Value
	streamOf map[int]*item // stream index -> item
	// spellFn (rows whose collections have an id interceptor): a random spelling of an id that names the same item
	spellFn func(r *rand.Rand, key string) string
}

// spell: how this request names the item. On rows with an id interceptor every request spells the id afresh.
func (k *keyedSession) spell(it *item) string {
	if k.spellFn == nil {
		return it.key
	}
	k.session.mon.Count("keyed-spelling")
	sp := k.spellFn(k.session.r, it.key)
	if sp != it.key {
		k.session.mon.Count("keyed-spelling-differs")
	}
	return sp
}

func (k *keyedSession) setKey(m protoreflect.Message, field, key string) {
	if fd := m.Descriptor().Fields().ByName(protoreflect.Name(field)); fd != nil {
		m.Set(fd, protoreflect.ValueOfString(key))
	}
}

func keyOf(m proto.Message, field string) string {
	r := m.ProtoReflect()
	if fd := r.Descriptor().Fields().ByName(protoreflect.Name(field)); fd != nil {
		return r.Get(fd).String()
	}
	return ""
}

func (k *keyedSession) payload(key string) proto.Message {
	k.g.Density = 0.5
	p := k.g.Message(newMsg(k.t.resource).Type())
	stripTweens(p.ProtoReflect())
	if k.singleItem {
		capLists(p.ProtoReflect(), 1)
	}
	if key == "" {
		p.ProtoReflect().Clear(p.ProtoReflect().Descriptor().Fields().ByName(protoreflect.Name(k.t.keyField)))
	} else {
		k.setKey(p.ProtoReflect(), k.t.keyField, key)
	}
	return p
}

// modelMethod finds a method of the model named prefix+X (CreateStock, DeleteStock ...).
func (k *keyedSession) modelMethod(prefix string) reflect.Value {
	if !k.model.IsValid() {
		return reflect.Value{}
	}
	return k.model.MethodByName(prefix + k.t.X)
}

func (k *keyedSession) create() {
	s := k.session
	p := k.payload("")
	var got proto.Message
	op := fmt.Sprintf("Create%s(%s)", k.t.X, txt(p))
	reportProgress(progress{Sid: s.sid, Step: s.step, Op: op, Trace: tailTrace(s.trace, 12)})
	if k.t.create != nil {
		req := newMsg(k.t.create.Input())
		setStr(req, "name", k.session.reqName())
		req.Set(payloadField(k.t.create.Input(), k.t.resource), protoreflect.ValueOfMessage(p.ProtoReflect()))
		out, pm := s.call("Create"+k.t.X, req.Interface())
		if pm != "" {
			s.obs("updpanic", s.violate("Create/panic", "Create panicked", "a response or an error status", pm))
			return
		}
		if err, _ := out[1].Interface().(error); err != nil {
			s.trace = append(s.trace, stepDesc{s.step, op, "error: " + status.Code(err).String()})
			s.obs("upderr", "ok")
			return
		}
		got = out[0].Interface().(proto.Message)
	} else {
		m := k.modelMethod("Create")
		if !m.IsValid() {
			return
		}
		var outs []reflect.Value
		if p, _ := lib.Catch(func() { outs = m.Call([]reflect.Value{reflect.ValueOf(p)}) }); p {
			return
		}
		for _, o := range outs {
			if err, ok := o.Interface().(error); ok && err != nil {
				s.trace = append(s.trace, stepDesc{s.step, op + " [model]", "error: " + err.Error()})
				s.obs("upderr", "ok")
				return
			}
		}
		got = proto.Clone(outs[0].Interface().(proto.Message))
	}
	key := keyOf(got, k.t.keyField)
	s.trace = append(s.trace, stepDesc{s.step, op, txt(got)})
	if key == "" {
		s.obs("kbad Create/no-key", s.violate("Create/no-key", "a created item has no key", "an item with its "+k.t.keyField, txt(got)))
		return
	}
	for _, it := range k.items {
		if it.key == key {
			s.obs("kbad Create/duplicate-key", s.violate("Create/duplicate-key", "Create answered with the key of an existing item", "a new key", key))
			return
		}
	}
	k.nextKid++
	it := &item{key: key, kid: k.nextKid, cur: proto.Clone(got)}
	k.items = append(k.items, it)
	s.mon.Count("keyed-create")
	s.obs(fmt.Sprintf("kupdok %d %d", it.kid, s.id(got)), "ok")
	k.drainAll()
}

func (k *keyedSession) get(it *item, mask *fieldmaskpb.FieldMask) {
	s := k.session
	req := newMsg(k.t.get.Input())
	setStr(req, "name", k.session.reqName())
	sp := k.spell(it)
	setStr(req, k.t.keyField, sp)
	setMask(req, "read_mask", mask)
	op := fmt.Sprintf("Get%s(%s=%q read_mask=%v)", k.t.X, k.t.keyField, sp, paths(mask))
	reportProgress(progress{Sid: s.sid, Step: s.step, Op: op, Trace: tailTrace(s.trace, 12)})
	out, pm := s.call("Get"+k.t.X, req.Interface())
	if pm != "" {
		s.obs("getpanic", s.violate("Get/panic", "Get panicked", "a response", pm))
		return
	}
	if err, _ := out[1].Interface().(error); err != nil {
		s.trace = append(s.trace, stepDesc{s.step, op, "error: " + status.Code(err).String()})
		if it.cur == nil && status.Code(err) == codes.NotFound {
			s.obs(fmt.Sprintf("kgetnf %d", it.kid), "ok")
			return
		}
		if it.cur != nil && status.Code(err) == codes.NotFound {
			s.obs(fmt.Sprintf("kgetnf %d", it.kid), s.violate("Get/not-found-for-existing-item", "Get answered NotFound for an item that was created and not deleted", txt(it.cur), "NotFound"))
			return
		}
		s.obs("geterr", s.violate("Get/error", "Get returned an error", "a response or NotFound", err.Error()))
		return
	}
	got := out[0].Interface().(proto.Message)
	s.trace = append(s.trace, stepDesc{s.step, op, txt(got)})
	if it.cur == nil {
		s.obs("kbad Get/value-for-missing-item", s.violate("Get/value-for-missing-item", "Get answered with a value for an id that does not exist (never created, or deleted)", "NotFound", txt(got)))
		return
	}
	s.cur = it.cur // fact() and project() work on the item's register
	s.fact(mask, it.cur)
	v := "ok"
	if want := project(mask, it.cur); !proto.Equal(got, want) {
		class, what := "Get/differs-from-register", "an unmasked Get of an item differs from the last successful Update/Create response for that id"
		if mask != nil {
			class, what = "Get/masked-get-not-projection", "a Get with a read mask differs from the projection of the item's value"
		}
		v = s.violate(class, what, txt(want), txt(got))
	}
	s.obs(fmt.Sprintf("kget %d %d %d", it.kid, s.maskID(mask), s.id(got)), v)
}

func (k *keyedSession) update(it *item) {
	req, p, op := k.prepUpdate(it)
	out, pm := k.session.call("Update"+k.t.X, req)
	k.finishUpdate(it, p, op, out, pm)
}

// prepUpdate generates an Update request for the item; finishUpdate judges its outcome as one write of the item's
// register as it is when the outcome is judged.
func (k *keyedSession) prepUpdate(it *item) (proto.Message, proto.Message, string) {
	s := k.session
	p := k.payload(k.spell(it))
	req := proto.Clone(s.randomExtras()).ProtoReflect()
	setStr(req, "name", k.session.reqName())
	req.Set(payloadField(k.t.update.Input(), k.t.resource), protoreflect.ValueOfMessage(p.ProtoReflect()))
	um := s.randMask(k.t.resource, 50, s.r.Intn(2) == 0)
	if um != nil && len(um.Paths) == 0 {
		um = nil
	}
	setMask(req, "update_mask", um)
	op := fmt.Sprintf("Update%s(%s)", k.t.X, txt(req.Interface()))
	reportProgress(progress{Sid: s.sid, Step: s.step, Op: op, Trace: tailTrace(s.trace, 12)})
	return req.Interface(), p, op
}

func (k *keyedSession) finishUpdate(it *item, p proto.Message, op string, out []reflect.Value, pm string) {
	s := k.session
	if pm != "" {
		s.obs("updpanic", s.violate("Update/panic", "Update panicked instead of returning a value or a status", "a response or an error status", pm))
		return
	}
	if err, _ := out[1].Interface().(error); err != nil {
		s.trace = append(s.trace, stepDesc{s.step, op, "error: " + status.Code(err).String()})
		s.mon.Count("update-error:" + status.Code(err).String())
		s.obs("upderr", "ok")
		k.drainAll()
		if it.cur != nil && !s.noDrain {
			k.get(it, nil) // rejected_frame (not when a second write has run meanwhile: window)
		}
		return
	}
	got := out[0].Interface().(proto.Message)
	s.trace = append(s.trace, stepDesc{s.step, op, txt(got)})
	if it.cur == nil {
		s.obs("kbad Update/missing-item-updated", s.violate("Update/missing-item-updated", "Update succeeded for an id that does not exist", "NotFound", txt(got)))
		return
	}
	s.mon.Count("update-ok")
	prev := it.cur
	it.cur = proto.Clone(got)
	s.noteWrite(p, prev, it.cur)
	k.announce(it, it.cur, prev)
	s.obs(fmt.Sprintf("kupdok %d %d", it.kid, s.id(got)), "ok")
	k.drainAll()
}

// announce: the event of a write of the item (value v) reaches the item's open streams, which last showed `shown`.
func (k *keyedSession) announce(it *item, v, shown proto.Message) {
	s := k.session
	for i, st := range s.streams {
		if st.closed || k.streamOf[i] != it {
			continue
		}
		s.fact(st.mask, v)
		s.fact(st.mask, shown)
		w := project(st.mask, v)
		st.queue = append(st.queue, expect{val: w, must: !proto.Equal(w, project(st.mask, shown)) && st.established})
	}
}

// twoWriters: two Updates of one item overlap between Collection.Update's store and its send (see duel.go): writer 1
// is held at coll.update.beforeSend, writer 2 runs to completion, writer 1 is released. Both must be answered and
// both must appear on the item's streams; the item ends on writer 2's value.
func (k *keyedSession) twoWriters(it *item) {
	s := k.session
	req1, p1, op1 := k.prepUpdate(it)
	req2, p2, op2 := k.prepUpdate(it)
	var armed atomic.Bool
	armed.Store(true)
	parked, release := make(chan struct{}), make(chan struct{})
	heldAt := ""
	verifhook.Set(func(point string) {
		if (point != "value.set.beforeSend" && point != "coll.update.beforeSend") || !armed.CompareAndSwap(true, false) {
			return
		}
		heldAt = point
		close(parked)
		select {
		case <-release:
		case <-time.After(5 * time.Second):
		}
	})
	defer verifhook.Set(nil)
	done1, done2 := make(chan callRes, 1), make(chan callRes, 1)
	go func() {
		out, pm := s.call("Update"+k.t.X, req1)
		done1 <- callRes{out, pm}
	}()
	var r1 callRes
	select {
	case <-parked:
	case r1 = <-done1:
		// no store/send window reached (rejected before storing): two ordinary Updates
		armed.Store(false)
		s.mon.Count("duel-sequential")
		k.finishUpdate(it, p1, op1, r1.out, r1.pm)
		if !s.failed {
			out, pm := s.call("Update"+k.t.X, req2)
			k.finishUpdate(it, p2, op2, out, pm)
		}
		return
	case <-time.After(3 * time.Second):
		s.obs("updpanic", s.violate("Update/hung", "Update did not return within 3 s", "a response", "nothing"))
		return
	}
	go func() {
		out, pm := s.call("Update"+k.t.X, req2)
		done2 <- callRes{out, pm}
	}()
	var r2 callRes
	select {
	case r2 = <-done2:
	case <-time.After(250 * time.Millisecond):
		close(release)
		<-done1
		select {
		case <-done2:
		case <-time.After(3 * time.Second):
		}
		s.mon.Count("duel-blocked:" + k.t.key())
		s.failed = true // void: the session ends here, nothing is judged
		for i := range s.streams {
			if !s.streams[i].closed {
				s.takeAllQuiet(i, 20*time.Millisecond)
			}
		}
		return
	}
	op2 += " [while an earlier Update of the item is held between storing and announcing its value]"
	v2, ok2 := okResponse(r2)
	if ok2 {
		k.finishUpdate(it, p2, op2, r2.out, r2.pm)
		if !s.failed {
			k.get(it, nil)
		}
	} else if r2.pm != "" {
		k.finishUpdate(it, p2, op2, r2.out, r2.pm)
	} else {
		err, _ := r2.out[1].Interface().(error)
		s.trace = append(s.trace, stepDesc{s.step, op2, "error: " + status.Code(err).String()})
		s.mon.Count("update-error:" + status.Code(err).String())
		s.obs("upderr", "ok")
		k.drainAll()
	}
	close(release)
	select {
	case r1 = <-done1:
	case <-time.After(3 * time.Second):
		s.obs("updpanic", s.violate("Update/hung", "Update did not return within 3 s of being released", "a response", "nothing"))
		return
	}
	if s.failed {
		return
	}
	op1 += " [held between storing and announcing its value while the Update above ran]"
	v1, ok1 := okResponse(r1)
	if !ok1 || !ok2 {
		k.finishUpdate(it, p1, op1, r1.out, r1.pm)
		s.mon.Count("duel-one-writer")
		return
	}
	s.trace = append(s.trace, stepDesc{s.step, op1, txt(v1)})
	s.mon.Count("update-ok")
	s.mon.Count("duel-forced")
	if !proto.Equal(v1, v2) {
		s.mon.Count("duel-forced-distinct")
	}
	k.announce(it, v1, v2)
	s.obs(fmt.Sprintf("kupdlate %d %d", it.kid, s.id(v1)), "ok")
	k.drainAll()
	if !s.failed {
		k.get(it, nil)
	}
	if s.failed {
		return
	}
	// the item's streams against the item's register, both writers having returned (duel.go: the recorded finding)
	site := strings.TrimSuffix(heldAt, ".beforeSend")
	verdict := "ok"
	for i, st := range s.streams {
		on := k.streamOf[i] // (every stream against its own item's register, as the acceptor's quiesce does)
		if st.closed || !st.established || on == nil || on.cur == nil {
			continue
		}
		s.fact(st.mask, on.cur)
		if want := project(st.mask, on.cur); verdict == "ok" && (st.lastSeen == nil || !proto.Equal(st.lastSeen, want)) {
			s.mon.Violate("C14/resource/"+site+"/two-writers/stream-left-on-overtaken-value",
				"two Updates of one collection item overlapped between store and send: both were answered OK and both reached the item's stream, but in the order of the announcements, so the stream ends on the overtaken value while Get returns the later one",
				s.input(s.step+1), fmt.Sprintf("stream#%d ends on the item's value %s", i, txt(want)), fmt.Sprintf("stream#%d ended on %s", i, txt(st.lastSeen)))
			s.failed = true
			verdict = "reject:Pull/stream-does-not-end-on-register"
		}
	}
	s.obs("quiesce", verdict)
}

// window: one write of the item is parked before it has changed anything - an Update between its read and its commit
// (gau.afterRead / gau.beforeLock), a Delete between its read and its re-validation (coll.delete.afterRead) - while a
// second write runs to completion: an Update of the same item, an Update of ANOTHER item, a Delete of the item. The
// parked write is released; both are judged as register writes one after the other, the second one first (the first one
// first when the second was seen to wait for it). So: an Update overtaken by an Update that changed the item is rejected
// (Aborted) and the item keeps the other value; overtaken by an Update of another item it is stored; overtaken by a
// Delete it is rejected and the item stays deleted; a Delete overtaken by an Update deletes the updated item.
func (k *keyedSession) window(it, other *item) {
	s := k.session
	type write struct {
		it     *item
		del    bool
		req, p proto.Message
		op     string
		upd    callRes
		dres   delRes
	}
	mk := func(it *item, del bool) *write {
		w := &write{it: it, del: del}
		if !del {
			w.req, w.p, w.op = k.prepUpdate(it)
		}
		return w
	}
	run := func(w *write) {
		if w.del {
			w.dres = k.callDelete(w.it)
		} else {
			out, pm := s.call("Update"+k.t.X, w.req)
			w.upd = callRes{out, pm}
		}
	}
	finish := func(w *write, note string) {
		if w.del {
			w.dres.op += note
			k.finishDelete(w.it, w.dres)
		} else {
			k.finishUpdate(w.it, w.p, w.op+note, w.upd.out, w.upd.pm)
		}
	}
	var a, b *write
	label := ""
	switch v := s.r.Intn(4); {
	case v == 0:
		a, b, label = mk(it, false), mk(it, false), "update/update"
	case v == 1 && other != nil:
		a, b, label = mk(it, false), mk(other, false), "update/update-of-another-item"
	case v == 2:
		a, b, label = mk(it, true), mk(it, false), "delete/update"
	default:
		a, b, label = mk(it, false), mk(it, true), "update/delete"
	}
	points := []string{"gau.afterRead", "gau.beforeLock"}[s.r.Intn(2):][:1]
	if a.del {
		points = []string{"coll.delete.afterRead"}
	}
	parked, letGo, disarm := armYield(points...)
	defer verifhook.Set(nil)
	defer letGo()
	doneA, doneB := make(chan struct{}), make(chan struct{})
	go func() { run(a); close(doneA) }()
	select {
	case <-parked:
	case <-doneA:
		disarm()
		s.mon.Count("kwindow-unreached:" + label)
		finish(a, "")
		return
	case <-time.After(3 * time.Second):
		s.obs("updpanic", s.violate("Update/hung", "a write did not return within 3 s", "a response", "nothing"))
		return
	}
	go func() { run(b); close(doneB) }()
	bWaited := false
	select {
	case <-doneB:
	case <-time.After(250 * time.Millisecond):
		bWaited = true
	}
	letGo()
	for _, d := range []chan struct{}{doneA, doneB} {
		select {
		case <-d:
		case <-time.After(3 * time.Second):
			s.obs("updpanic", s.violate("Update/hung", "a write did not return within 3 s of being released", "a response", "nothing"))
			return
		}
	}
	verifhook.Set(nil)
	s.mon.Count("kwindow-forced:" + label)
	first, second := b, a
	noteFirst := fmt.Sprintf(" [window %s@%s: ran while the write below was held before it had changed anything]", label, points[0])
	noteSecond := fmt.Sprintf(" [window %s@%s: held while the write above ran]", label, points[0])
	if bWaited {
		first, second = a, b
		noteFirst, noteSecond = fmt.Sprintf(" [window %s@%s: the other write waited for it]", label, points[0]), ""
		s.mon.Count("kwindow-b-waited:" + label)
	}
	// both have returned: whatever the first one announced and whatever the second one announced is on its way already
	s.noDrain = true
	finish(first, noteFirst)
	s.noDrain = false
	if !s.failed {
		finish(second, noteSecond)
	}
	if !s.failed && it.cur != nil {
		k.get(it, nil)
	}
}

// drainAll drains every stream: the streams of the written id get what they are owed, the streams of every
// other id must stay silent (no cross-talk).
func (k *keyedSession) drainAll() { k.session.drain(true) }

func (k *keyedSession) pull(it *item) {
	s := k.session
	mask := s.randMask(k.t.resource, 50, true)
	uo := s.r.Intn(3) == 0
	k.pullWith(it, mask, uo)
}

func (k *keyedSession) pullWith(it *item, mask *fieldmaskpb.FieldMask, uo bool) {
	s := k.session
	s.cur = it.cur
	sp := k.spell(it)
	s.keyedOpen = func(req protoreflect.Message) string {
		setStr(req, k.t.keyField, sp)
		return fmt.Sprintf("kopen %d", it.kid)
	}
	before := len(s.streams)
	s.doPullWith(mask, uo)
	s.keyedOpen = nil
	if len(s.streams) > before {
		k.streamOf[len(s.streams)-1] = it
	}
}

// delRes is the outcome of a Delete: done (the item is gone), rejected (an error status), skipped (no way to delete), or a panic.
type delRes struct {
	op       string
	done     bool
	rejected string
	pm       string
}

func (k *keyedSession) delete(it *item) { k.finishDelete(it, k.callDelete(it)) }

// callDelete deletes the item with the service's Delete RPC, else with the model's Delete method.
func (k *keyedSession) callDelete(it *item) delRes {
	s := k.session
	sp := k.spell(it)
	op := fmt.Sprintf("Delete%s(%s=%q)", k.t.X, k.t.keyField, sp)
	reportProgress(progress{Sid: s.sid, Step: s.step, Op: op, Trace: tailTrace(s.trace, 12)})
	if k.t.del != nil {
		req := newMsg(k.t.del.Input())
		setStr(req, "name", k.session.reqName())
		setStr(req, k.t.keyField, sp)
		out, pm := s.call("Delete"+k.t.X, req.Interface())
		if pm != "" {
			return delRes{op: op, pm: pm}
		}
		if err, _ := out[1].Interface().(error); err != nil {
			return delRes{op: op, rejected: status.Code(err).String()}
		}
		return delRes{op: op, done: true}
	}
	m := k.modelMethod("Delete")
	if !m.IsValid() || m.Type().NumIn() < 1 || m.Type().In(0).Kind() != reflect.String {
		return delRes{op: op}
	}
	var outs []reflect.Value
	if p, _ := lib.Catch(func() { outs = m.Call([]reflect.Value{reflect.ValueOf(sp)}) }); p {
		return delRes{op: op}
	}
	for _, o := range outs {
		if err, ok := o.Interface().(error); ok && err != nil {
			return delRes{op: op, rejected: err.Error()}
		}
	}
	return delRes{op: op, done: true}
}

// finishDelete judges the outcome of a Delete: the item is gone and its streams end.
func (k *keyedSession) finishDelete(it *item, r delRes) {
	s := k.session
	op := r.op
	switch {
	case r.pm != "":
		s.obs("updpanic", s.violate("Delete/panic", "Delete panicked", "a response or an error status", r.pm))
		return
	case r.rejected != "":
		s.trace = append(s.trace, stepDesc{s.step, op, "error: " + r.rejected})
		s.obs("upderr", "ok")
		return
	case !r.done:
		return
	}
	s.trace = append(s.trace, stepDesc{s.step, op, "deleted"})
	s.mon.Count("keyed-delete")
	it.cur = nil
	s.obs(fmt.Sprintf("kdelete %d", it.kid), "ok")
	// the item's streams must end
	for i, st := range s.streams {
		if st.closed || k.streamOf[i] != it {
			continue
		}
		// (what the stream is still owed from before the delete — e.g. a suppressible duplicate — may still arrive first)
		ended := false
		deadline := time.After(time.Second)
	wait:
		for {
			select {
			case m, ok := <-st.ch:
				if !ok {
					ended = true
					break wait
				}
				if m.err != nil {
					ended = true
					break wait
				}
				s.recvOne(i, m) // only what was owed before the delete is accepted
			case <-deadline:
				break wait
			}
		}
		st.closed = true
		if ended {
			s.obs(fmt.Sprintf("ended %d", i), "ok")
		} else {
			st.cancel()
			s.obs(fmt.Sprintf("idle %d", i), s.violate("Pull/not-ended-after-delete", "the Pull stream of an item did not end when the item was deleted", "stream end", "still open after 1 s"))
		}
	}
	k.drainAll()
}

// listAll calls the service's collection-wide List RPC (a read) and then Gets every id the session knows: a read
// changes no register - every live item still answers with its value, every deleted or unknown id is still NotFound.
// What the listing contains is not judged here (C08/C15).
func (k *keyedSession) listAll(ghost *item) {
	s := k.session
	if k.t.list == nil {
		return
	}
	req := newMsg(k.t.list.Input())
	setStr(req, "name", k.session.reqName())
	if s.r.Intn(2) == 0 {
		setMask(req, "read_mask", s.randMask(k.t.resource, 0, true))
	}
	op := fmt.Sprintf("%s(%s)", k.t.list.Name(), txt(req.Interface()))
	reportProgress(progress{Sid: s.sid, Step: s.step, Op: op, Trace: tailTrace(s.trace, 12)})
	out, pm := s.call(string(k.t.list.Name()), req.Interface())
	switch {
	case pm != "":
		s.trace = append(s.trace, stepDesc{s.step, op, "panic: " + pm})
	case out[1].Interface() != nil:
		s.trace = append(s.trace, stepDesc{s.step, op, "error: " + fmt.Sprint(out[1].Interface())})
	default:
		s.trace = append(s.trace, stepDesc{s.step, op, txt(out[0].Interface().(proto.Message))})
	}
	s.mon.Count("keyed-list")
	k.drainAll() // a read announces nothing
	for _, it := range k.items {
		if !s.failed {
			k.get(it, nil)
		}
	}
	if !s.failed {
		k.get(ghost, nil)
	}
}

func runKeyedSession(t triple, sid sessionID, mon *lib.Monitor) (lines, verdicts []string) {
	r := seqRand(sid.Seed, sid.Triple+"/keyed", sid.Seq)
	s := &session{t: t, r: r, g: pbgen.New(r), ids: map[string]int{}, maskIDs: map[string]int{}, mon: mon, sid: sid}
	s.g.MaxDepth = 2
	cl, model := t.Row.New()
	s.client = reflect.ValueOf(cl)
	s.singleItem = sid.Seq%2 == 1
	k := &keyedSession{session: s, streamOf: map[int]*item{}}
	if model != nil {
		k.model = reflect.ValueOf(model)
	}
	s.input = func(n int) any {
		return map[string]any{"kind": "keyed", "triple": sid.Triple, "seed": sid.Seed, "seq": sid.Seq, "steps": n, "trace": tailTrace(s.trace, 14)}
	}
	defer func() {
		for _, st := range s.streams {
			st.cancel()
		}
	}()
	s.lines, s.verdict = []string{"reset"}, []string{"ok"}
	// an id that never exists
	k.nextKid++
	ghost := &item{key: "no-such-item", kid: k.nextKid}
	s.step = -1
	extra := rowExtras[t.Row.rowKey()]
	k.spellFn = extra.Spell
	s.names = rowNames[t.Row.rowKey()]
	if extra.Initial != nil {
		// the model starts with records: each is a register holding the configured value
		for _, m := range extra.Initial() {
			k.nextKid++
			it := &item{key: keyOf(m, t.keyField), kid: k.nextKid, cur: proto.Clone(m)}
			k.items = append(k.items, it)
			s.trace = append(s.trace, stepDesc{s.step, "model started with", txt(m)})
			s.obs(fmt.Sprintf("kupdok %d %d", it.kid, s.id(m)), "ok")
		}
		for _, it := range k.items {
			if !s.failed {
				k.get(it, nil)
			}
		}
	}
	if !extra.NoCreate {
		k.create()
	}
	live := func() []*item {
		var out []*item
		for _, it := range k.items {
			if it.cur != nil {
				out = append(out, it)
			}
		}
		return out
	}
	for i := 0; i < sid.Steps && !s.failed; i++ {
		s.step = i
		reportProgress(progress{Sid: sid, Step: i, Op: "next", Trace: tailTrace(s.trace, 12)})
		ls := live()
		x := s.r.Intn(23)
		if len(ls) == 0 {
			x = 0
		}
		switch {
		case x >= 22:
			// a collection-wide read between the writes: it changes no item
			k.listAll(ghost)
		case x >= 20:
			// two overlapping writes, the earlier one held before it has changed anything
			it := ls[s.r.Intn(len(ls))]
			var other *item
			for _, o := range ls {
				if o != it {
					other = o
				}
			}
			k.window(it, other)
		case x < 3:
			if len(ls) < 3 && !extra.NoCreate {
				k.create()
			}
		case x < 8 || (x < 10 && sid.Seq%3 != 2):
			k.update(ls[s.r.Intn(len(ls))])
		case x < 10:
			// every third session: two overlapping writers of one item (such a session ends at the recorded finding
			// .../two-writers/stream-left-on-overtaken-value as soon as a stream was open on the item)
			k.twoWriters(ls[s.r.Intn(len(ls))])
		case x < 13:
			it, m := ls[s.r.Intn(len(ls))], s.randMask(t.resource, 40, true)
			k.get(it, m)
			if m != nil && !s.failed {
				k.get(it, nil) // a read does not change the item
			}
		case x < 16:
			if s.openCount() < 3 {
				k.pull(ls[s.r.Intn(len(ls))])
			}
		case x < 17:
			k.delete(ls[s.r.Intn(len(ls))])
		case x < 18:
			// ids that do not exist: Get is NotFound, Update is rejected and changes nothing
			if s.r.Intn(2) == 0 {
				k.get(ghost, nil)
			} else {
				k.update(ghost)
			}
		case x < 19:
			// a deleted id behaves like one that never existed
			for _, it := range k.items {
				if it.cur == nil {
					k.get(it, nil)
					break
				}
			}
		default:
			s.doClose()
		}
	}
	if ls := live(); !s.failed && len(ls) > 0 && sid.Seq%2 == 0 {
		// the first write after an updates_only subscription whose existence is observed on the bus (first.go)
		s.step = sid.Steps
		if s.openCount() >= 3 {
			s.doClose()
		}
		k.firstWrite(ls[s.r.Intn(len(ls))])
	}
	if !s.failed {
		s.step = sid.Steps
		k.drainAll()
		for _, it := range live() {
			k.get(it, nil)
		}
	}
	mon.Eval(sid.Triple+"/keyed"+fmt.Sprint(sid.Seq), len(s.lines) > 6, nil)
	return s.lines, s.verdict
}
