package main

import (
	"encoding/base64"
	"encoding/hex"
	"fmt"
	"math/big"
	"regexp"
	"sort"
	"strconv"
	"strings"
	"sync"
	"sync/atomic"
	"time"

	"google.golang.org/grpc/codes"
	"google.golang.org/grpc/status"
	"google.golang.org/protobuf/proto"

	"github.com/smart-core-os/sc-api/go/types"
	"github.com/smart-core-os/sc-golang/internal/verifhook"
	"github.com/smart-core-os/sc-golang/pkg/resource"
	"github.com/smart-core-os/sc-golang/verifharness/lib"
)

// scenario is one paging run on one RPC: build a collection, optionally delete some keys, then start
// at Token and follow next_page_token, asking for Sizes[i mod len] items on page i, until the token
// is empty, an error is returned, the call panics, or the page budget is exhausted.
type scenario struct {
	RPC    string   `json:"rpc"`
	IDs    []string `json:"ids"`              // collection ids (waste: record ids in insertion order)
	Delete []string `json:"delete,omitempty"` // ids deleted before paging starts (tokens may still name them)
	Sizes  []int32  `json:"sizes"`
	Token  string   `json:"token"`          // starting page token exactly as sent ("" = first page)
	Mask   []string `json:"mask,omitempty"` // read_mask paths sent with every call (nil = no read mask)
	Class  string   `json:"class"`          // generator class, for distributions only
	// Ops run, in order, after IDs were created and Delete deleted: the model's own creation / update /
	// deletion APIs, so that the collection paged over is one the public API produced.
	Ops []storeOp `json:"ops,omitempty"`
	// Warm are List calls made on the same model before the monitored chain (any size, token, mask).
	Warm []warmCall `json:"warm,omitempty"`
	// Passes is the number of complete paging passes over the same model (0 means 1).
	Passes int `json:"passes,omitempty"`
	// NInit: the first NInit ids are configured as initial records (the model's WithInitial… option), the others
	// are created through the creation API (hail: UpdateHail with resource.WithCreateIfAbsent()).
	NInit int `json:"ninit,omitempty"`
	// Icpt names the id interceptor of the model's collections (resource.WithIDInterceptor): "" = none, "lower",
	// "upper" (ASCII case mapping). Items are stored under the intercepted id and keep the spelling they were written with.
	Icpt string `json:"icpt,omitempty"`
	// Inflight: a write that is REFUSED is in flight during every List call of the scenario (and while the unpaged
	// listing is taken): it is started before the first call, parks inside its WithExpectedCheck callback (no lock is
	// held there), and is released - the callback then returns an error - after the last call.
	// With Inflight.Accept the callback ACCEPTS: the write is started after the store ops and parks; while it is
	// parked (nothing is committed yet) the unpaged listing is taken, the warm-up calls and one complete chain are
	// made and judged against the contents BEFORE the write; then the callback returns nil, the write completes, and
	// the listing and all passes are taken again and judged against the contents AFTER it.
	Inflight *guardedWrite `json:"inflight,omitempty"`
	// Raw: records configured with the RAW resource option resource.WithInitialRecord(SID, message whose key field
	// is Key) handed to NewModel - the storage id and the key field are unrelated. The List RPCs sort by the key
	// field, so paging must be right as long as the key fields are pairwise different and not empty.
	Raw []rawRec `json:"raw,omitempty"`
	// Payload: what the records (initial, raw and created ones) carry BESIDES their key, where the model has write
	// paths that depend on it (vending inventory: the units the quantities are kept in decide whether a Dispense
	// succeeds, fails at once or fails half-way, see rpc.stock). 0 = nothing but the key (and the witness field).
	Payload int `json:"payload,omitempty"`
}

type rawRec struct {
	SID string `json:"sid"`
	Key string `json:"key"`
}

// guardedWrite is a write of the model carrying a WithExpectedCheck option that parks and then refuses (or, with
// Accept, lets the write through).
type guardedWrite struct {
	Kind   string `json:"kind"` // update | delete | add (waste: AddWasteRecord)
	ID     string `json:"id"`
	Upsert bool   `json:"upsert,omitempty"` // update: resource.WithCreateIfAbsent()
	Accept bool   `json:"accept,omitempty"` // the expected check returns nil after it was released
	// Op: instead of a write carrying an expected check, ANY store op of the model (the APIs that take no write
	// options included: parent AddChild / AddChildTrait / RemoveChildTrait, Create*, Add*), parked by the harness at
	// the yield point Point of the resource layer (verif build tag) - after its verdict, before it takes the write
	// lock and commits - and then let through. Treated like an accepted write (Accept is implied).
	Op    *storeOp `json:"op,omitempty"`
	Point string   `json:"point,omitempty"` // gau.beforeLock | gau.afterRead | coll.delete.afterRead
}

// accepting: the write goes through once it is released.
func (w *guardedWrite) accepting() bool { return w != nil && (w.Accept || w.Op != nil) }

// asOp is the write as a store op (what it does to the contents once it is accepted).
func (w guardedWrite) asOp() storeOp {
	if w.Op != nil {
		return *w.Op
	}
	return storeOp{Kind: w.Kind, ID: w.ID, Upsert: w.Upsert}
}

// storeOp is one call of a creation / update / deletion API of the model.
type storeOp struct {
	Kind string `json:"kind"`          // add | ensure | update | delete
	ID   string `json:"id"`            // add: "" = the model invents the id
	Alt  bool   `json:"alt,omitempty"` // ensure: through AddChildTrait instead of AddChild; update: the written message does not carry the id
	// update only:
	MsgID  string `json:"msg_id,omitempty"` // the written message carries THIS id, not ID (APIs that take the id as a separate argument)
	Upsert bool   `json:"upsert,omitempty"` // resource.WithCreateIfAbsent()
	Mask   string `json:"mask,omitempty"`   // "" = no update mask, "key" = a mask naming the key field, "nokey" = a mask leaving it out, "empty" = a non-nil mask with NO paths
	// delete only: resource.WithAllowMissing(true) / allow_missing
	AllowMissing bool `json:"allow_missing,omitempty"`
	// Via: "" = the model's Go API; "rpc" = the trait server's own Create… / Update… / Delete… RPC; "ack" =
	// AcknowledgePublication (a masked update of an existing publication); "dispense" = vending Dispense (an update
	// of an existing stock). Only where the server has such an RPC.
	Via string `json:"via,omitempty"`
	// Unit of the quantity of a vending Dispense: "" = unspecified, "l" = litres, "kg" = kilograms, "m3" = cubic metres, "none" = NO_UNIT
	Unit string `json:"unit,omitempty"`
}

func (op storeOp) String() string {
	s := op.Kind + ":" + op.ID
	if op.Alt {
		s += ":alt"
	}
	if op.MsgID != "" {
		s += ":msg=" + op.MsgID
	}
	if op.Upsert {
		s += ":upsert"
	}
	if op.Mask != "" {
		s += ":mask=" + op.Mask
	}
	if op.AllowMissing {
		s += ":allow-missing"
	}
	if op.Via != "" {
		s += ":via=" + op.Via
	}
	if op.Unit != "" {
		s += ":unit=" + op.Unit
	}
	return s
}

type warmCall struct {
	Size  int32    `json:"size"`
	Token string   `json:"token"`
	Mask  []string `json:"mask,omitempty"`
}

// outcome of a scenario on the real code
type runResult struct {
	passes    [][]call
	warm      []call
	full      []string // the model's unpaged listing before any List call
	fullAfter []string // and after the last one
	base      []string // ids present before Ops (insertion order)
	coll      []string // ids present while paging according to the harness's own set oracle (insertion order)
	ops       []string // canonical outcome of each op
	gen       []string // add ops: the id the code reported
	wantList  []string // the key fields in Collection.List order (by storage id) according to the set oracle
	inflight  string   // outcome of the in-flight write: "" none, "parked+refused", "refused" (never reached the callback), …
	// accepted in-flight write only: what was seen while it was parked (before its commit); coll / wantList / full /
	// passes above are then those AFTER the write completed
	pre         *prePhase
	inflightOp  string // canonical outcome of the accepted in-flight write as a store op ("ok <hex>", "notfound", …)
	inflightGen string // hooked add op: the id the code reported
	// hooked op that returned WITHOUT parking: it took effect before the "meanwhile" calls
	inflightEarly bool
}

// prePhase: the contents and the List calls made while an accepted write was parked in its expected check.
type prePhase struct {
	coll     []string
	wantList []string
	full     []string
	calls    []call // one complete chain
}

func hexID(s string) string {
	if s == "" {
		return "-"
	}
	return hexs(s)
}

// call is one List call of a scenario.
type call struct {
	Size    int32
	Token   string
	Tok     string // token as the model sees it: E | B | K<hex lastKey> | I<int>
	Out     string // canonical outcome of the real code
	Panic   string
	Resp    pageResp
	Hostile bool // the token was not minted by the previous call (first call with a non-empty Token)
	Mask    []string
}

func hexs(s string) string { return hex.EncodeToString([]byte(s)) }

func hexList(ks []string) string {
	if len(ks) == 0 {
		return "-"
	}
	out := make([]string, len(ks))
	for i, k := range ks {
		out[i] = hexs(k)
	}
	return strings.Join(out, ",")
}

// decodeKeyToken is the harness's own reading of a key token (base64 std of a types.PageToken).
func decodeKeyToken(tok string) (lastKey string, ok bool) {
	if tok == "" {
		return "", true
	}
	b, err := base64.StdEncoding.DecodeString(tok)
	if err != nil {
		return "", false
	}
	pt := &types.PageToken{}
	if err := proto.Unmarshal(b, pt); err != nil {
		return "", false
	}
	return pt.GetLastResourceName(), true
}

func encodeKeyToken(lastKey string) string {
	b, err := proto.Marshal(&types.PageToken{PageStart: &types.PageToken_LastResourceName{LastResourceName: lastKey}})
	if err != nil {
		panic(err)
	}
	return base64.StdEncoding.EncodeToString(b)
}

var intRe = regexp.MustCompile(`^[+-]?[0-9]+$`)

// decodeIndexToken is the harness's own reading of a waste token: a decimal machine integer.
func decodeIndexToken(tok string) (v int64, ok bool) {
	if !intRe.MatchString(tok) {
		return 0, false
	}
	b, good := new(big.Int).SetString(tok, 10)
	if !good || !b.IsInt64() {
		return 0, false
	}
	return b.Int64(), true
}

func tokClass(variant, tok string) string {
	if tok == "" {
		return "E"
	}
	if variant == "waste" {
		if v, ok := decodeIndexToken(tok); ok {
			return "I" + strconv.FormatInt(v, 10)
		}
		return "B"
	}
	if k, ok := decodeKeyToken(tok); ok {
		return "K" + hexs(k)
	}
	return "B"
}

// canonical outcome, same text as the Lean driver prints
func canon(variant string, idx map[string]int, p pageResp) string {
	if p.Err != nil {
		return "err " + codeName(p.Err)
	}
	next := "N"
	if p.Next != "" {
		c := tokClass(variant, p.Next)
		switch {
		case strings.HasPrefix(c, "K"):
			next = "T" + c[1:]
		case strings.HasPrefix(c, "I"):
			next = "T" + c[1:]
		default:
			next = "T?" + hexs(p.Next)
		}
	}
	items := "-"
	if len(p.Keys) > 0 {
		xs := make([]string, len(p.Keys))
		for i, k := range p.Keys {
			if variant == "waste" {
				if j, ok := idx[k]; ok {
					xs[i] = strconv.Itoa(j)
				} else if k == "" {
					xs[i] = "_" // the read mask hides the id
				} else {
					xs[i] = "?" + hexs(k)
				}
			} else {
				xs[i] = hexs(k)
			}
		}
		items = strings.Join(xs, ",")
	}
	return fmt.Sprintf("ok %s %s %d", items, next, p.Total)
}

func maskHas(mask []string, path string) bool {
	for _, p := range mask {
		if p == path {
			return true
		}
	}
	return false
}

// keyVisible: does the read mask leave the key field in the returned items?
func (sc scenario) keyVisible() bool {
	r, _ := rpcByName(sc.RPC)
	return sc.Mask == nil || maskHas(sc.Mask, r.Key)
}

// witVisible: is the witness field (set to the item's id by the harness) in the returned items?
func (sc scenario) witVisible() bool {
	r, _ := rpcByName(sc.RPC)
	return r.Wit != "" && (sc.Mask == nil || maskHas(sc.Mask, r.Wit))
}

// collection computes the ids present while paging.
func (sc scenario) collection() []string {
	del := map[string]bool{}
	for _, d := range sc.Delete {
		del[d] = true
	}
	var out []string
	for _, id := range sc.IDs {
		if !del[id] {
			out = append(out, id)
		}
	}
	return out
}

// runOp executes one store op on the real model and canonicalises its outcome.
func runOp(inst *instance, op storeOp) (out string, got string) {
	var err error
	unsupported := false
	p, msg := lib.Catch(func() {
		if op.Via != "" {
			if inst.via == nil {
				unsupported = true
				return
			}
			var handled bool
			handled, got, err = inst.via(op)
			unsupported = !handled
			return
		}
		switch op.Kind {
		case "add":
			if inst.add == nil {
				unsupported = true
				return
			}
			got, err = inst.add(op.ID)
		case "ensure":
			if inst.ensure == nil {
				unsupported = true
				return
			}
			inst.ensure(op.ID, op.Alt)
			got = op.ID
		case "update":
			if inst.update == nil {
				unsupported = true
				return
			}
			err = inst.update(op)
			got = op.ID
		case "delete":
			if op.AllowMissing {
				if inst.delAllow == nil {
					unsupported = true
					return
				}
				err = inst.delAllow(op.ID)
			} else {
				err = inst.del(op.ID)
			}
			got = op.ID
		default:
			unsupported = true
		}
	})
	switch {
	case unsupported:
		return "unsupported", ""
	case p && op.Kind == "ensure" && op.ID == "":
		return "rejected", "" // the empty name is refused (validateChild panics by contract)
	case p:
		return "panic:" + msg, ""
	case err == nil:
		return "ok " + hexID(got), got
	case op.Kind == "update" && op.ID == "":
		return "rejected", "" // no item can be stored under the empty id: any error status will do
	}
	if op.Via == "dispense" && codeName(err) == "Unknown" {
		// not a status: the error the write interceptor recorded (unit conversion); the write itself went through
		return "failed", ""
	}
	switch codeName(err) {
	case "AlreadyExists":
		return "exists", ""
	case "NotFound":
		return "notfound", ""
	case "Aborted":
		return "aborted", ""
	}
	return "err " + codeName(err), ""
}

// run executes the scenario on the real code.
// startInflight starts w in its own goroutine and waits until it is parked inside its expected-check callback, or
// has returned without ever calling it. finish releases the callback (which then refuses the write) and returns
// the write's outcome.
func startInflight(inst *instance, w guardedWrite) (finish func() string, out string, err error) {
	verdict := status.Error(codes.FailedPrecondition, "refused by the caller's expected check")
	if w.Accept {
		verdict = nil
	}
	if inst.guarded == nil {
		return nil, "", fmt.Errorf("the model takes no write options")
	}
	entered := make(chan struct{})
	release := make(chan struct{})
	done := make(chan string, 1)
	var once sync.Once
	opt := resource.WithExpectedCheck(func(proto.Message) error {
		once.Do(func() { close(entered) })
		<-release
		return verdict
	})
	go func() {
		var handled bool
		var e error
		p, msg := lib.Catch(func() { handled, e = inst.guarded(w.Kind, w.ID, w.Upsert, opt) })
		switch {
		case p:
			done <- "panic:" + msg
		case !handled:
			done <- "unsupported"
		case e == nil:
			done <- "accepted"
		case w.Accept:
			done <- "refused:" + codeName(e) // the write failed although its check accepts (e.g. NotFound before the check)
		default:
			done <- "refused"
		}
	}()
	select {
	case <-entered:
		return func() string {
			close(release)
			select {
			case o := <-done:
				return o
			case <-time.After(10 * time.Second):
				return "stuck"
			}
		}, "parked", nil
	case o := <-done:
		close(release)
		if o == "unsupported" {
			return nil, "", fmt.Errorf("no guarded %q write on this model", w.Kind)
		}
		return func() string { return o }, o, nil
	case <-time.After(10 * time.Second):
		close(release)
		return nil, "", fmt.Errorf("the in-flight write neither reached its callback nor returned")
	}
}

// startHooked runs op in its own goroutine with a controller installed at the yield points of the resource layer:
// that goroutine (and no other) parks the first time it reaches point. finish lets it go on and returns the op's
// canonical outcome and reported id.
func startHooked(inst *instance, op storeOp, point string) (finish func() (string, string), parked bool, err error) {
	entered := make(chan struct{})
	release := make(chan struct{})
	type result struct{ out, got string }
	done := make(chan result, 1)
	var gid atomic.Int64
	gid.Store(-2)
	var once sync.Once
	verifhook.Set(func(p string) {
		if p != point || verifhook.GoID() != gid.Load() {
			return
		}
		first := false
		once.Do(func() { first = true })
		if first {
			close(entered)
			<-release
		}
	})
	go func() {
		gid.Store(verifhook.GoID())
		out, got := runOp(inst, op)
		done <- result{out, got}
	}()
	wait := func() (string, string) {
		defer verifhook.Set(nil)
		select {
		case r := <-done:
			return r.out, r.got
		case <-time.After(10 * time.Second):
			return "stuck", ""
		}
	}
	select {
	case <-entered:
		return func() (string, string) { close(release); return wait() }, true, nil
	case r := <-done:
		verifhook.Set(nil)
		close(release)
		return func() (string, string) { return r.out, r.got }, false, nil
	case <-time.After(10 * time.Second):
		verifhook.Set(nil)
		close(release)
		return nil, false, fmt.Errorf("the hooked write neither reached %s nor returned", point)
	}
}

func (sc scenario) run() (res runResult, err error) {
	r, ok := rpcByName(sc.RPC)
	if !ok {
		return res, fmt.Errorf("unknown rpc %q", sc.RPC)
	}
	var inst *instance
	if sc.NInit < 0 || sc.NInit > len(sc.IDs) {
		return res, fmt.Errorf("ninit %d out of range", sc.NInit)
	}
	r.Payload = sc.Payload
	ropts := icptOpts(sc.Icpt)
	for _, rr := range sc.Raw {
		ropts = append(ropts, r.rawInit(rr))
	}
	panicked, msg := lib.Catch(func() { inst, err = r.build(r, sc.IDs, sc.NInit, ropts) })
	if panicked {
		return res, fmt.Errorf("building the collection panicked: %s", msg)
	}
	if err != nil {
		return res, err
	}
	for _, d := range sc.Delete {
		if e := inst.del(d); e != nil {
			return res, fmt.Errorf("delete %q: %v", d, e)
		}
	}
	res.base = sc.collection()
	// the harness's own set oracle: storage id (the id as the interceptor maps it) -> key field as last written,
	// in insertion order
	orc := &oracle{norm: icptFn(sc.Icpt), pay: sc.Payload}
	for _, id := range res.base {
		orc.entries = append(orc.entries, entry{orc.norm(id), id, sc.Payload})
	}
	for _, rr := range sc.Raw {
		orc.entries = append(orc.entries, entry{orc.norm(rr.SID), rr.Key, sc.Payload})
	}
	for _, op := range sc.Ops {
		out, got := runOp(inst, op)
		if out == "unsupported" {
			return res, fmt.Errorf("%s has no %q operation", sc.RPC, op.Kind)
		}
		got = orc.hookOf(op, got)
		res.ops = append(res.ops, out)
		res.gen = append(res.gen, got)
		orc.apply(op, out, got)
	}
	res.coll, res.wantList = orc.present(), orc.byStorage()
	idx := map[string]int{}
	reindex := func() {
		if r.Variant == "waste" {
			for i, id := range res.coll {
				idx[id] = i
			}
		}
	}
	reindex()
	one := func(size int32, tok string, mask []string, hostile bool) (call, bool) {
		c := call{Size: size, Token: tok, Tok: tokClass(r.Variant, tok), Hostile: hostile, Mask: mask}
		var resp pageResp
		p, m := lib.Catch(func() { resp = inst.list(size, tok, mask) })
		if p {
			c.Panic = m
			c.Out = "panic"
			return c, false
		}
		c.Resp = resp
		c.Out = canon(r.Variant, idx, resp)
		return c, true
	}
	chain := func(nfull int) []call {
		var calls []call
		tok := sc.Token
		for i := 0; i < nfull+3; i++ {
			c, ok := one(sc.Sizes[i%len(sc.Sizes)], tok, sc.Mask, i == 0 && tok != "")
			calls = append(calls, c)
			if !ok || c.Resp.Err != nil || c.Resp.Next == "" {
				break
			}
			tok = c.Resp.Next
		}
		return calls
	}
	warm := func() {
		for _, w := range sc.Warm {
			c, _ := one(w.Size, w.Token, w.Mask, true)
			res.warm = append(res.warm, c)
		}
	}
	accepting := sc.Inflight.accepting()
	switch {
	case accepting && sc.Inflight.Op != nil:
		op := *sc.Inflight.Op
		finish, parked, e := startHooked(inst, op, sc.Inflight.Point)
		if e != nil {
			return res, e
		}
		// the op is parked before it takes the write lock (or has already returned): nothing is committed yet.
		// An op that returned without parking has had its effect: the contents seen "meanwhile" are those after it.
		var out, got string
		if !parked {
			res.inflightEarly = true
			out, got = finish()
			got = orc.hookOf(op, got)
			orc.apply(op, out, got)
			res.coll, res.wantList = orc.present(), orc.byStorage()
			reindex()
		}
		pre := &prePhase{coll: res.coll, wantList: res.wantList, full: inst.all()}
		warm()
		pre.calls = chain(len(pre.full))
		res.pre = pre
		res.inflight = "returned"
		if parked {
			out, got = finish()
			got = orc.hookOf(op, got)
			res.inflight = "parked+returned"
			orc.apply(op, out, got)
		}
		if out == "unsupported" {
			return res, fmt.Errorf("%s has no %q operation", sc.RPC, op.Kind)
		}
		res.inflightOp, res.inflightGen = out, got
		res.coll, res.wantList = orc.present(), orc.byStorage()
		reindex()
	case accepting:
		finish, out, e := startInflight(inst, *sc.Inflight)
		if e != nil {
			return res, e
		}
		// the write is parked in its expected check (or has already returned): nothing is committed yet
		pre := &prePhase{coll: res.coll, wantList: res.wantList, full: inst.all()}
		warm()
		pre.calls = chain(len(pre.full))
		res.pre = pre
		if out == "parked" {
			out = "parked+" + finish()
		}
		res.inflight = out
		// the write has returned: from here on the contents are fixed again
		op := sc.Inflight.asOp()
		switch {
		case strings.HasSuffix(out, "accepted"):
			res.inflightOp = "ok " + hexID(op.ID)
			if op.Kind == "add" {
				orc.entries = append(orc.entries, entry{orc.norm(op.ID), op.ID, 0}) // waste: AddWasteRecord
			} else {
				orc.apply(op, res.inflightOp, op.ID)
			}
		case strings.HasSuffix(out, "refused:NotFound"):
			res.inflightOp = "notfound"
		default:
			res.inflightOp = out
		}
		res.coll, res.wantList = orc.present(), orc.byStorage()
		reindex()
	case sc.Inflight != nil:
		finish, out, e := startInflight(inst, *sc.Inflight)
		if e != nil {
			return res, e
		}
		res.inflight = out
		defer func() {
			if res.inflight == "parked" {
				res.inflight = "parked+" + finish()
			}
			res.fullAfter = inst.all()
		}()
	}
	res.full = inst.all()
	if !accepting {
		warm()
	}
	passes := sc.Passes
	if passes < 1 {
		passes = 1
	}
	for p := 0; p < passes; p++ {
		res.passes = append(res.passes, chain(len(res.full)))
	}
	res.fullAfter = inst.all()
	return res, nil
}

type entry struct {
	sid, field string
	pay        int // the payload the record carries now (scenario.Payload until a write without mask replaces the record)
}

// oracle is the harness's own idea of the contents: storage id (the id as the interceptor maps it) -> key field as
// last written, in insertion order.
type oracle struct {
	norm    func(string) string
	pay     int // the payload records created through the creation API carry
	entries []entry
}

func (o *oracle) find(id string) int {
	for i, x := range o.entries {
		if x.sid == o.norm(id) {
			return i
		}
	}
	return -1
}

// apply: what op does to the contents, given its canonical outcome out and (add ops) the id the code reported.
func (o *oracle) apply(op storeOp, out, got string) {
	switch op.Kind {
	case "add":
		id := op.ID
		if id == "" {
			id = got // invented by the model; "" when it failed
			if id == "" {
				return
			}
		}
		if o.find(id) < 0 && strings.HasPrefix(out, "ok") {
			o.entries = append(o.entries, entry{o.norm(id), id, o.pay})
		}
	case "ensure":
		if op.ID == "" {
			return
		}
		if i := o.find(op.ID); i < 0 {
			o.entries = append(o.entries, entry{o.norm(op.ID), op.ID, 0})
		} else if op.Alt {
			o.entries[i].field = op.ID // AddChildTrait writes {Name: name}: an existing child is re-spelled
		}
	case "update":
		// an update never moves an item, whatever id the written message carries; with create-if-absent it
		// creates the item under ID (the empty id names no item); the key field is always written, whatever the
		// update mask says (none, with or without the key, no paths at all): the item now carries the spelling ID
		if op.ID == "" {
			return
		}
		if i := o.find(op.ID); i >= 0 {
			if strings.HasPrefix(out, "ok") {
				o.entries[i].field = op.ID
				if op.Mask == "" && op.Via != "dispense" && op.Via != "ack" {
					o.entries[i].pay = 0 // no update mask: the stored message is replaced by the written one
				}
			}
		} else if op.Upsert {
			o.entries = append(o.entries, entry{o.norm(op.ID), op.ID, 0})
		}
	case "delete":
		if i := o.find(op.ID); i >= 0 {
			o.entries = append(o.entries[:i:i], o.entries[i+1:]...)
		}
	}
}

// hookOf: for a write that carries a write interceptor of the model (vending Dispense) what the Lean model of the
// callback needs: the units the stored record keeps Used / Remaining in (from the payload the record carries now;
// an absent record never reaches the callback) and the unit dispensed, as "<used> <remaining> <unit>". Whether the
// conversion fails - at once, half-way - is the MODEL's verdict (Hooks.lean: dispenseFails), compared with what the
// RPC answered. Other ops: got unchanged.
func (o *oracle) hookOf(op storeOp, got string) string {
	if op.Via != "dispense" {
		return got
	}
	used, rem := "-", "-"
	if i := o.find(op.ID); i >= 0 {
		used, rem = payloadUnits(o.entries[i].pay)
	}
	return fmt.Sprintf("%s %s %d", used, rem, dispenseUnit(op.Unit))
}

// present: the key fields in insertion order.
func (o *oracle) present() []string {
	var out []string
	for _, e := range o.entries {
		out = append(out, e.field)
	}
	return out
}

// byStorage: the key fields in Collection.List order (by storage id).
func (o *oracle) byStorage() []string {
	by := append([]entry(nil), o.entries...)
	sort.SliceStable(by, func(i, j int) bool { return by[i].sid < by[j].sid })
	var out []string
	for _, e := range by {
		out = append(out, e.field)
	}
	return out
}

// modelQ is one request to the Lean model with the real code's answer to compare it with ("" = not compared).
type modelQ struct {
	Line string
	Code string
	Key  string
	What string
}

// driverLines renders the scenario for the Lean model: the collection (ids in insertion order: the model
// sorts), every store op, the listing, and every List call.
func (sc scenario) driverLines(variant string, res runResult) []modelQ {
	var qs []modelQ
	pageLine := func(n int, c call, where string, i int) modelQ {
		vis := 1
		if !maskShowsKey(sc.RPC, c.Mask) {
			vis = 0
		}
		key := fmt.Sprintf("%s|%d|%d|%s|%v", sc.RPC, n, c.Size, c.Tok, vis)
		if variant == "waste" {
			return modelQ{fmt.Sprintf("waste %d %d %s %d", n, c.Size, c.Tok, vis), c.Out, key, fmt.Sprintf("%s %d", where, i)}
		}
		return modelQ{fmt.Sprintf("page %s %d %s %d", variant, c.Size, c.Tok, vis), c.Out, key, fmt.Sprintf("%s %d", where, i)}
	}
	// the accepted in-flight write as an operation of the model
	writeQ := func() modelQ {
		w := sc.Inflight
		if w.Op != nil {
			return modelQ{sc.opLine(*w.Op, res.inflightGen), res.inflightOp, opKey(sc.RPC, "hooked-write|"+w.Point+"|"+res.inflight, *w.Op, res.inflightOp), "the in-flight write (parked at " + w.Point + ")"}
		}
		var line string
		up := 0
		if w.Upsert {
			up = 1
		}
		switch {
		case w.Kind == "delete":
			line = "sop delete " + hexID(w.ID) + " 0"
		case sc.RPC == "publication.ListPublications":
			line = fmt.Sprintf("sop updi %s %s %d n", hexID(w.ID), hexID(w.ID), up)
		default:
			line = fmt.Sprintf("sop updm %s %d n", hexID(w.ID), up)
		}
		return modelQ{line, res.inflightOp, fmt.Sprintf("%s|accepted-write|%s|%v|%s", sc.RPC, w.Kind, w.Upsert, strings.SplitN(res.inflightOp, " ", 2)[0]), "the accepted in-flight write"}
	}
	if variant != "waste" {
		icpt := sc.Icpt
		if icpt == "" {
			icpt = "id"
		}
		qs = append(qs, modelQ{Line: "icpt " + icpt})
		if len(sc.IDs) <= 8 {
			// the construction itself, route by route: initial records, then the creation API, then the deletions
			qs = append(qs, modelQ{Line: "keys -"})
			for i, id := range sc.IDs {
				var line, route string
				switch {
				case i < sc.NInit:
					line, route = "sop initial "+hexID(id), "initial"
				case sc.RPC == "parent.ListChildren":
					line, route = "sop ensure "+hexID(id), "add-child"
				case sc.RPC == "hail.ListHails":
					line, route = "sop updm "+hexID(id)+" 1 n", "create-if-absent"
				default:
					line, route = "sop add "+hexID(id)+" -", "create"
				}
				qs = append(qs, modelQ{line, "ok " + hexID(id), sc.RPC + "|build|" + route, fmt.Sprintf("build %d", i)})
			}
			for i, d := range sc.Delete {
				qs = append(qs, modelQ{"sop delete " + hexID(d) + " 0", "ok " + hexID(d), sc.RPC + "|build|delete", fmt.Sprintf("build delete %d", i)})
			}
		} else {
			qs = append(qs, modelQ{Line: "keys " + hexList(res.base)})
		}
		for _, rr := range sc.Raw {
			qs = append(qs, modelQ{Line: "sop raw " + hexID(rr.SID) + " " + hexID(rr.Key)})
		}
		for i, op := range sc.Ops {
			qs = append(qs, modelQ{sc.opLine(op, res.gen[i]), res.ops[i], opKey(sc.RPC, "op", op, res.ops[i]), fmt.Sprintf("op %d", i)})
		}
		if res.pre != nil && res.inflightEarly {
			qs = append(qs, writeQ())
		}
		// Collection.List: the ids of the map, sorted
		if res.pre == nil {
			qs = append(qs, modelQ{"listing", hexList(res.full), fmt.Sprintf("%s|listing|%d", sc.RPC, len(res.full)), "listing"})
		} else {
			qs = append(qs, modelQ{"listing", hexList(res.pre.full), fmt.Sprintf("%s|listing|%d", sc.RPC, len(res.pre.full)), "listing while the accepted write is parked"})
		}
	}
	n := len(res.coll)
	if res.pre != nil {
		n = len(res.pre.coll)
	}
	for i, c := range res.warm {
		qs = append(qs, pageLine(n, c, "warm-up call", i))
	}
	if res.pre != nil {
		for i, c := range res.pre.calls {
			qs = append(qs, pageLine(n, c, "call while the accepted write is parked", i))
		}
		n = len(res.coll)
		if variant != "waste" {
			// the write commits: the same operation on the model, then Collection.List again
			if !res.inflightEarly {
				qs = append(qs, writeQ())
			}
			qs = append(qs, modelQ{"listing", hexList(res.full), fmt.Sprintf("%s|listing|%d", sc.RPC, len(res.full)), "listing after the in-flight write"})
		}
	}
	for p, calls := range res.passes {
		for i, c := range calls {
			qs = append(qs, pageLine(n, c, fmt.Sprintf("pass %d call", p), i))
		}
	}
	return qs
}

// opLine renders a store op for the Lean model (gen: the id the code reported for an add).
func (sc scenario) opLine(op storeOp, gen string) string {
	line := "sop " + op.Kind + " " + hexID(op.ID)
	switch op.Kind {
	case "ensure":
		if op.Alt {
			// AddChildTrait(name) is Update(name, {Name: name}, WithCreateIfAbsent())
			line = "sop updm " + hexID(op.ID) + " 1 n"
		}
	case "delete":
		if op.AllowMissing {
			line += " 1"
		} else {
			line += " 0"
		}
	case "add":
		line += " " + hexID(gen)
	case "update":
		if op.Via == "dispense" {
			// Update*(message, InterceptBefore(callback of DispenseInstantly)); gen: the units involved (oracle.hookOf)
			return "sop dispense " + hexID(op.ID) + " " + gen
		}
		up, mk := 0, "n"
		if op.Upsert {
			up = 1
		}
		switch op.Mask {
		case "key":
			mk = "k"
		case "nokey":
			mk = "x"
		case "empty":
			mk = "e"
		}
		if sc.RPC == "publication.ListPublications" {
			// the id is a separate argument: the message's own id travels too
			msgID := op.MsgID
			if msgID == "" && !op.Alt {
				msgID = op.ID
			}
			line = fmt.Sprintf("sop updi %s %s %d %s", hexID(op.ID), hexID(msgID), up, mk)
		} else {
			line = fmt.Sprintf("sop updm %s %d %s", hexID(op.ID), up, mk)
		}
	}
	return line
}

func opKey(rpcName, what string, op storeOp, out string) string {
	return fmt.Sprintf("%s|%s|%s|%v|%v|%v|%v|%s|%v|%s|%s", rpcName, what, op.Kind, op.ID == "", op.Alt, op.MsgID != "", op.Upsert, op.Mask, op.AllowMissing, op.Via+op.Unit, strings.SplitN(out, " ", 2)[0])
}

func maskShowsKey(rpcName string, mask []string) bool {
	r, _ := rpcByName(rpcName)
	return mask == nil || maskHas(mask, r.Key)
}

func capSize(s int32) int {
	if s == 0 {
		return 50
	}
	if s > 1000 {
		return 1000
	}
	return int(s)
}

// monitor evaluates the property's statement on the observed calls with an oracle that does not use
// the Lean model: sorted ids (bytewise) / reversed insertion order, filtered by the decoded token.
func (sc scenario) monitor(m *lib.Monitor, variant string, res runResult) {
	pre := "C15/" + sc.RPC + "/"
	for i, o := range res.ops {
		if strings.HasPrefix(o, "panic:") {
			m.Violate(pre+"op/"+sc.Ops[i].Kind+"/panic", "a creation / update / deletion API of the model panicked", sc, "a result or an error", o)
			return
		}
	}
	// the listing in its order
	order := func(coll []string) []string {
		var want []string
		if variant == "waste" {
			for i := len(coll) - 1; i >= 0; i-- {
				want = append(want, coll[i])
			}
		} else {
			want = append([]string(nil), coll...)
			sort.Strings(want)
		}
		return want
	}
	// the unpaged listing: no empty key, and the collection in listing order
	fullOK := func(full, coll, wantList []string, when string) bool {
		want := order(coll)
		for _, k := range full {
			if k == "" {
				m.Violate(pre+"empty-key", "the public API of the model produced a collection that lists an item with an empty key (a page ending on it mints a token that restarts the listing: endless token chain)"+when, sc, fmt.Sprintf("%q", want), fmt.Sprintf("%q", full))
				return false
			}
		}
		wantFull := want
		if variant != "waste" {
			wantFull = wantList // Collection.List: by storage id (the intercepted id), each item in its own spelling
		}
		if strings.Join(full, "\x00") != strings.Join(wantFull, "\x00") || len(full) != len(wantFull) {
			m.Violate(pre+"full-list", "the model's unpaged listing is not the collection in listing order"+when, sc, fmt.Sprintf("%q", wantFull), fmt.Sprintf("%q", full))
			return false
		}
		return true
	}
	for i, c := range res.warm {
		if c.Out == "panic" {
			m.Violate(pre+"panic", "a List call panicked", sc, "a response or an error status", fmt.Sprintf("warm-up call %d: panic: %s", i, c.Panic))
			return
		}
	}
	if res.pre != nil {
		// an ACCEPTED write was parked in its expected check: nothing was committed, the contents were those before it
		if !fullOK(res.pre.full, res.pre.coll, res.pre.wantList, " (taken while an accepted write was parked before its commit)") {
			return
		}
		if !sc.monitorPass(m, variant, order(res.pre.coll), -1, res.pre.calls) {
			return
		}
		if sc.Inflight.Op != nil && res.inflightOp != "stuck" && !strings.HasPrefix(res.inflightOp, "panic:") {
			// a store op parked at a yield point: it returned, with whatever its own outcome is
		} else if sc.Inflight.Op == nil && (res.inflight == "parked+accepted" || (!strings.HasPrefix(res.inflight, "parked") && !strings.Contains(res.inflight, "panic"))) {
			// accepted, or returned before it ever asked the caller (e.g. NotFound)
		} else {
			m.Violate(pre+"inflight-write", "a write that nothing refuses did not complete after it was released", sc, "accepted", res.inflight+" "+res.inflightOp)
			return
		}
		if !fullOK(res.full, res.coll, res.wantList, " (taken after a write that was parked before its commit during earlier List calls had completed: the contents are fixed again)") {
			return
		}
	} else {
		if !fullOK(res.full, res.coll, res.wantList, "") {
			return
		}
		if res.inflight == "parked+accepted" || res.inflight == "accepted" || strings.Contains(res.inflight, "panic") || strings.Contains(res.inflight, "stuck") {
			m.Violate(pre+"inflight-write", "a write whose expected check refuses it did not end with an error", sc, "refused", res.inflight)
			return
		}
	}
	want := order(res.coll)
	full := res.full
	for p, calls := range res.passes {
		if !sc.monitorPass(m, variant, want, p, calls) {
			return
		}
	}
	if strings.Join(res.fullAfter, "\x00") != strings.Join(full, "\x00") || len(res.fullAfter) != len(full) {
		m.Violate(pre+"listing-changed", "List calls changed the model's listing (contents were held fixed)", sc, fmt.Sprintf("%q", full), fmt.Sprintf("%q", res.fullAfter))
	}
}

// monitorPass evaluates one paging pass; false = a violation was recorded.
func (sc scenario) monitorPass(m *lib.Monitor, variant string, want []string, pass int, calls []call) bool {
	pre := "C15/" + sc.RPC + "/"
	viol := func(sig, what string, input any, exp, obs string) bool {
		switch {
		case pass > 0:
			what += fmt.Sprintf(" (pass %d over the same, unmodified model)", pass+1)
		case pass < 0:
			what += " (chain made while an accepted write was parked before its commit - in its expected check or at a yield point of the resource layer: the contents are those before the write)"
		case sc.Inflight.accepting():
			what += " (chain made after a write that was parked before its commit during earlier List calls had completed: the contents are fixed again)"
		}
		m.Violate(sig, what, input, exp, obs)
		return false
	}
	// what the starting token asks for
	remaining := want
	expectTokenError := false
	first := tokClass(variant, sc.Token)
	switch {
	case first == "E":
	case first == "B":
		expectTokenError = true
	case variant == "waste":
		v, _ := decodeIndexToken(sc.Token)
		if v < 0 || v > int64(len(want)) {
			expectTokenError = true // an index outside the collection is a malformed token
		} else {
			remaining = want[len(want)-int(v):]
		}
	default:
		k, _ := decodeKeyToken(sc.Token)
		if k != "" {
			i := sort.SearchStrings(want, k)
			if i < len(want) && want[i] == k {
				i++
			}
			remaining = want[i:]
		}
	}
	var got []string
	ended := false
	for i, c := range calls {
		if c.Out == "panic" {
			cls := "panic"
			if c.Size < 0 {
				cls = "panic/negative-size"
			} else if c.Hostile {
				cls = "panic/token"
			}
			return viol(pre+cls, "the List call panicked", sc, "a response or an error status", "panic: "+c.Panic)
		}
		if c.Size < 0 {
			if c.Resp.Err == nil {
				return viol(pre+"negative-size/no-error", "a negative page size was answered without an error status", sc, "error status", c.Out)
			}
			return true
		}
		if i == 0 && expectTokenError {
			if c.Resp.Err == nil {
				return viol(pre+"bad-token/no-error", "a malformed page token was answered without an error status", sc, "error status", c.Out)
			}
			return true
		}
		if c.Resp.Err != nil {
			return viol(pre+"unexpected-error", "a well-formed List call failed", sc, "OK", c.Out)
		}
		if len(c.Resp.Keys) > capSize(c.Size) {
			return viol(pre+"page-too-large", "a page is larger than requested (default 50, cap 1000)", sc, fmt.Sprint("<= ", capSize(c.Size)), fmt.Sprint(len(c.Resp.Keys)))
		}
		if int(c.Resp.Total) != len(want) {
			return viol(pre+"total-size", "total_size is not the number of items", sc, fmt.Sprint(len(want)), fmt.Sprint(c.Resp.Total))
		}
		switch {
		case sc.keyVisible():
			got = append(got, c.Resp.Keys...)
		case sc.witVisible():
			got = append(got, c.Resp.Wits...) // the key is hidden by the read mask: identify items by the witness field
		default:
			for range c.Resp.Keys {
				got = append(got, "?")
			}
		}
		if c.Resp.Next == "" {
			ended = true
		}
	}
	if !ended {
		return viol(pre+"endless-chain", "the token chain did not reach the empty token within |items|+1 pages", sc, fmt.Sprint("<= ", len(remaining)+1, " pages"), fmt.Sprint(len(calls), " pages and still a token"))
	}
	if len(calls) > len(remaining)+1 {
		return viol(pre+"endless-chain", "the token chain took more than |items|+1 pages", sc, fmt.Sprint("<= ", len(remaining)+1, " pages"), fmt.Sprint(len(calls), " pages"))
	}
	if !sc.keyVisible() && !sc.witVisible() {
		// items cannot be told apart under this read mask: the count must still be right
		if len(got) != len(remaining) {
			return viol(pre+"enumerate/count", "the pages do not hold as many items as the listing", sc, fmt.Sprint(len(remaining)), fmt.Sprint(len(got)))
		}
		return true
	}
	if strings.Join(got, "\x00") != strings.Join(remaining, "\x00") || len(got) != len(remaining) {
		return viol(pre+"enumerate/concat", "the concatenated pages are not the listing (every item exactly once, in order)", sc, fmt.Sprint(remaining), fmt.Sprint(got))
	}
	return true
}

func (sc scenario) summary() map[string]any {
	ids := sc.IDs
	if len(ids) > 8 {
		ids = append(append([]string(nil), ids[:6]...), fmt.Sprintf("…(%d ids)", len(sc.IDs)))
	}
	out := map[string]any{"rpc": sc.RPC, "ids": ids, "delete": sc.Delete, "sizes": sc.Sizes, "token": sc.Token, "mask": sc.Mask, "class": sc.Class}
	if len(sc.Ops) > 0 {
		out["ops"] = sc.Ops
	}
	if len(sc.Warm) > 0 {
		out["warm"] = sc.Warm
	}
	if sc.Passes > 1 {
		out["passes"] = sc.Passes
	}
	if sc.NInit > 0 {
		out["ninit"] = sc.NInit
	}
	if sc.Icpt != "" {
		out["icpt"] = sc.Icpt
	}
	if sc.Inflight != nil {
		out["inflight"] = sc.Inflight
	}
	if len(sc.Raw) > 0 {
		out["raw"] = sc.Raw
	}
	return out
}
