package main

import (
	"encoding/base64"
	"encoding/hex"
	"fmt"
	"math/big"
	"regexp"
	"sort"
	"strconv"
	"strings"

	"google.golang.org/protobuf/proto"

	"github.com/smart-core-os/sc-api/go/types"
	"github.com/smart-core-os/sc-golang/verifharness/lib"
)

// scenario is one paging run on one RPC: build a collection, optionally delete some keys, then start
// at Token and follow next_page_token, asking for Sizes[i mod len] items on page i, until the token
// is empty, an error is returned, the call panics, or the page budget is exhausted.
type scenario struct {
	RPC    string   `json:"rpc"`
	IDs    []string `json:"ids"`              // collection ids (waste: record ids in insertion order)
	Delete []string `json:"delete,omitempty"` // ids deleted before paging starts (tokens may still name them)
	Sizes  []int32  `json:"sizes"`
	Token  string   `json:"token"`          // starting page token exactly as sent ("" = first page)
	Mask   []string `json:"mask,omitempty"` // read_mask paths sent with every call (nil = no read mask)
	Class  string   `json:"class"`          // generator class, for distributions only
}

// call is one List call of a scenario.
type call struct {
	Size    int32
	Token   string
	Tok     string // token as the model sees it: E | B | K<hex lastKey> | I<int>
	Out     string // canonical outcome of the real code
	Panic   string
	Resp    pageResp
	Hostile bool // the token was not minted by the previous call (first call with a non-empty Token)
}

func hexs(s string) string { return hex.EncodeToString([]byte(s)) }

func hexList(ks []string) string {
	if len(ks) == 0 {
		return "-"
	}
	out := make([]string, len(ks))
	for i, k := range ks {
		out[i] = hexs(k)
	}
	return strings.Join(out, ",")
}

// decodeKeyToken is the harness's own reading of a key token (base64 std of a types.PageToken).
func decodeKeyToken(tok string) (lastKey string, ok bool) {
	if tok == "" {
		return "", true
	}
	b, err := base64.StdEncoding.DecodeString(tok)
	if err != nil {
		return "", false
	}
	pt := &types.PageToken{}
	if err := proto.Unmarshal(b, pt); err != nil {
		return "", false
	}
	return pt.GetLastResourceName(), true
}

func encodeKeyToken(lastKey string) string {
	b, err := proto.Marshal(&types.PageToken{PageStart: &types.PageToken_LastResourceName{LastResourceName: lastKey}})
	if err != nil {
		panic(err)
	}
	return base64.StdEncoding.EncodeToString(b)
}

var intRe = regexp.MustCompile(`^[+-]?[0-9]+$`)

// decodeIndexToken is the harness's own reading of a waste token: a decimal machine integer.
func decodeIndexToken(tok string) (v int64, ok bool) {
	if !intRe.MatchString(tok) {
		return 0, false
	}
	b, good := new(big.Int).SetString(tok, 10)
	if !good || !b.IsInt64() {
		return 0, false
	}
	return b.Int64(), true
}

func tokClass(variant, tok string) string {
	if tok == "" {
		return "E"
	}
	if variant == "waste" {
		if v, ok := decodeIndexToken(tok); ok {
			return "I" + strconv.FormatInt(v, 10)
		}
		return "B"
	}
	if k, ok := decodeKeyToken(tok); ok {
		return "K" + hexs(k)
	}
	return "B"
}

// canonical outcome, same text as the Lean driver prints
func canon(variant string, idx map[string]int, p pageResp) string {
	if p.Err != nil {
		return "err " + codeName(p.Err)
	}
	next := "N"
	if p.Next != "" {
		c := tokClass(variant, p.Next)
		switch {
		case strings.HasPrefix(c, "K"):
			next = "T" + c[1:]
		case strings.HasPrefix(c, "I"):
			next = "T" + c[1:]
		default:
			next = "T?" + hexs(p.Next)
		}
	}
	items := "-"
	if len(p.Keys) > 0 {
		xs := make([]string, len(p.Keys))
		for i, k := range p.Keys {
			if variant == "waste" {
				if j, ok := idx[k]; ok {
					xs[i] = strconv.Itoa(j)
				} else {
					xs[i] = "?" + hexs(k)
				}
			} else {
				xs[i] = hexs(k)
			}
		}
		items = strings.Join(xs, ",")
	}
	return fmt.Sprintf("ok %s %s %d", items, next, p.Total)
}

func maskHas(mask []string, path string) bool {
	for _, p := range mask {
		if p == path {
			return true
		}
	}
	return false
}

// keyVisible: does the read mask leave the key field in the returned items? (waste ignores read masks)
func (sc scenario) keyVisible() bool {
	r, _ := rpcByName(sc.RPC)
	return sc.Mask == nil || r.Variant == "waste" || maskHas(sc.Mask, r.Key)
}

// witVisible: is the witness field (set to the item's id by the harness) in the returned items?
func (sc scenario) witVisible() bool {
	r, _ := rpcByName(sc.RPC)
	return r.Wit != "" && (sc.Mask == nil || r.Variant == "waste" || maskHas(sc.Mask, r.Wit))
}

// collection computes the ids present while paging.
func (sc scenario) collection() []string {
	del := map[string]bool{}
	for _, d := range sc.Delete {
		del[d] = true
	}
	var out []string
	for _, id := range sc.IDs {
		if !del[id] {
			out = append(out, id)
		}
	}
	return out
}

// run executes the scenario on the real code.
func (sc scenario) run() (calls []call, full []string, err error) {
	r, ok := rpcByName(sc.RPC)
	if !ok {
		return nil, nil, fmt.Errorf("unknown rpc %q", sc.RPC)
	}
	var inst *instance
	panicked, msg := lib.Catch(func() { inst, err = r.build(sc.IDs) })
	if panicked {
		return nil, nil, fmt.Errorf("building the collection panicked: %s", msg)
	}
	if err != nil {
		return nil, nil, err
	}
	for _, d := range sc.Delete {
		if e := inst.del(d); e != nil {
			return nil, nil, fmt.Errorf("delete %q: %v", d, e)
		}
	}
	full = inst.all()
	idx := map[string]int{}
	if r.Variant == "waste" {
		for i, id := range sc.IDs {
			idx[id] = i
		}
	}
	budget := len(full) + 3
	tok := sc.Token
	for i := 0; i < budget; i++ {
		size := sc.Sizes[i%len(sc.Sizes)]
		c := call{Size: size, Token: tok, Tok: tokClass(r.Variant, tok), Hostile: i == 0 && tok != ""}
		var resp pageResp
		p, m := lib.Catch(func() { resp = inst.list(size, tok, sc.Mask) })
		if p {
			c.Panic = m
			c.Out = "panic"
			calls = append(calls, c)
			break
		}
		c.Resp = resp
		c.Out = canon(r.Variant, idx, resp)
		calls = append(calls, c)
		if resp.Err != nil || resp.Next == "" {
			break
		}
		tok = resp.Next
	}
	return calls, full, nil
}

// driverLines renders the scenario's calls for the Lean model.
func (sc scenario) driverLines(variant string, calls []call) []string {
	coll := sc.collection()
	var lines []string
	if variant == "waste" {
		for _, c := range calls {
			lines = append(lines, fmt.Sprintf("waste %d %d %s", len(coll), c.Size, c.Tok))
		}
		return lines
	}
	sorted := append([]string(nil), coll...)
	sort.Strings(sorted)
	lines = append(lines, "keys "+hexList(sorted))
	vis := 1
	if !sc.keyVisible() {
		vis = 0
	}
	for _, c := range calls {
		lines = append(lines, fmt.Sprintf("page %s %d %s %d", variant, c.Size, c.Tok, vis))
	}
	return lines
}

func capSize(s int32) int {
	if s == 0 {
		return 50
	}
	if s > 1000 {
		return 1000
	}
	return int(s)
}

// monitor evaluates the property's statement on the observed calls with an oracle that does not use
// the Lean model: sorted ids (bytewise) / reversed insertion order, filtered by the decoded token.
func (sc scenario) monitor(m *lib.Monitor, variant string, calls []call, full []string) {
	coll := sc.collection()
	var want []string // the listing in its order
	if variant == "waste" {
		for i := len(coll) - 1; i >= 0; i-- {
			want = append(want, coll[i])
		}
	} else {
		want = append([]string(nil), coll...)
		sort.Strings(want)
	}
	pre := "C15/" + sc.RPC + "/"
	if strings.Join(full, "\x00") != strings.Join(want, "\x00") || len(full) != len(want) {
		m.Violate(pre+"full-list", "the model's unpaged listing is not the collection in listing order", sc, fmt.Sprint(len(want), " items in order"), fmt.Sprint(full))
		return
	}
	for _, k := range want {
		if k == "" {
			m.Violate(pre+"empty-key", "an item with an empty key is listed", sc, "no empty keys", "empty key present")
			return
		}
	}
	// what the starting token asks for
	remaining := want
	expectTokenError := false
	first := tokClass(variant, sc.Token)
	switch {
	case first == "E":
	case first == "B":
		expectTokenError = true
	case variant == "waste":
		v, _ := decodeIndexToken(sc.Token)
		if v < 0 || v > int64(len(want)) {
			expectTokenError = true // an index outside the collection is a malformed token
		} else {
			remaining = want[len(want)-int(v):]
		}
	default:
		k, _ := decodeKeyToken(sc.Token)
		if k != "" {
			i := sort.SearchStrings(want, k)
			if i < len(want) && want[i] == k {
				i++
			}
			remaining = want[i:]
		}
	}
	var got []string
	ended := false
	for i, c := range calls {
		if c.Out == "panic" {
			cls := "panic"
			if c.Size < 0 {
				cls = "panic/negative-size"
			} else if c.Hostile {
				cls = "panic/token"
			}
			m.Violate(pre+cls, "the List call panicked", sc, "a response or an error status", "panic: "+c.Panic)
			return
		}
		if c.Size < 0 {
			if c.Resp.Err == nil {
				m.Violate(pre+"negative-size/no-error", "a negative page size was answered without an error status", sc, "error status", c.Out)
			}
			return
		}
		if i == 0 && expectTokenError {
			if c.Resp.Err == nil {
				m.Violate(pre+"bad-token/no-error", "a malformed page token was answered without an error status", sc, "error status", c.Out)
			}
			return
		}
		if c.Resp.Err != nil {
			m.Violate(pre+"unexpected-error", "a well-formed List call failed", sc, "OK", c.Out)
			return
		}
		if len(c.Resp.Keys) > capSize(c.Size) {
			m.Violate(pre+"page-too-large", "a page is larger than requested (default 50, cap 1000)", sc, fmt.Sprint("<= ", capSize(c.Size)), fmt.Sprint(len(c.Resp.Keys)))
			return
		}
		if int(c.Resp.Total) != len(want) {
			m.Violate(pre+"total-size", "total_size is not the number of items", sc, fmt.Sprint(len(want)), fmt.Sprint(c.Resp.Total))
			return
		}
		switch {
		case sc.keyVisible():
			got = append(got, c.Resp.Keys...)
		case sc.witVisible():
			got = append(got, c.Resp.Wits...) // the key is hidden by the read mask: identify items by the witness field
		default:
			for range c.Resp.Keys {
				got = append(got, "?")
			}
		}
		if c.Resp.Next == "" {
			ended = true
		}
	}
	if !ended {
		m.Violate(pre+"endless-chain", "the token chain did not reach the empty token within |items|+1 pages", sc, fmt.Sprint("<= ", len(remaining)+1, " pages"), fmt.Sprint(len(calls), " pages and still a token"))
		return
	}
	if len(calls) > len(remaining)+1 {
		m.Violate(pre+"endless-chain", "the token chain took more than |items|+1 pages", sc, fmt.Sprint("<= ", len(remaining)+1, " pages"), fmt.Sprint(len(calls), " pages"))
		return
	}
	if !sc.keyVisible() && !sc.witVisible() {
		// items cannot be told apart under this read mask: the count must still be right
		if len(got) != len(remaining) {
			m.Violate(pre+"enumerate/count", "the pages do not hold as many items as the listing", sc, fmt.Sprint(len(remaining)), fmt.Sprint(len(got)))
		}
		return
	}
	if strings.Join(got, "\x00") != strings.Join(remaining, "\x00") || len(got) != len(remaining) {
		m.Violate(pre+"enumerate/concat", "the concatenated pages are not the listing (every item exactly once, in order)", sc, fmt.Sprint(remaining), fmt.Sprint(got))
	}
}

func (sc scenario) summary() map[string]any {
	ids := sc.IDs
	if len(ids) > 8 {
		ids = append(append([]string(nil), ids[:6]...), fmt.Sprintf("…(%d ids)", len(sc.IDs)))
	}
	return map[string]any{"rpc": sc.RPC, "ids": ids, "delete": sc.Delete, "sizes": sc.Sizes, "token": sc.Token, "mask": sc.Mask, "class": sc.Class}
}
