package main

import (
	"context"
	"fmt"
	"time"

	"google.golang.org/grpc/codes"
	"google.golang.org/grpc/status"
	"google.golang.org/protobuf/proto"
	"google.golang.org/protobuf/reflect/protoreflect"
	"google.golang.org/protobuf/types/known/fieldmaskpb"

	"github.com/smart-core-os/sc-api/go/traits"
	"github.com/smart-core-os/sc-golang/pkg/resource"
	"github.com/smart-core-os/sc-golang/pkg/trait"
	"github.com/smart-core-os/sc-golang/pkg/trait/electricpb"
	"github.com/smart-core-os/sc-golang/pkg/trait/hailpb"
	"github.com/smart-core-os/sc-golang/pkg/trait/parentpb"
	"github.com/smart-core-os/sc-golang/pkg/trait/publicationpb"
	"github.com/smart-core-os/sc-golang/pkg/trait/vendingpb"
	"github.com/smart-core-os/sc-golang/pkg/trait/wastepb"
)

// pageResp is what one List call showed, reduced to the paging observables.
type pageResp struct {
	Keys  []string // key() of each returned item, in response order (empty strings when the read mask hides the key)
	Wits  []string // a second field of each item that the harness set to the item's id ("" when hidden or not available)
	Next  string   // next_page_token as returned
	Total int32
	Err   error
}

// instance is one populated model behind one paged RPC.
type instance struct {
	list func(size int32, token string, mask []string) pageResp
	all  func() []string // the model's own full listing (keys), not paged
	del  func(id string) error
	// creation / update APIs of the model (nil where the model has none of that kind)
	add    func(id string) (string, error)  // Collection.Add(id, WithGenIDIfAbsent): "" = let the model invent the id; returns the id used
	ensure func(name string, viaTrait bool) // parent: AddChild / AddChildTrait
	// Update* of one item under op.ID. op.Alt: the written message does not carry the id; op.MsgID: it carries THIS id
	// (both only where the id is a separate argument: publication); op.Upsert: resource.WithCreateIfAbsent();
	// op.Mask: "" = no update mask, "key" = a mask naming the key field and others, "nokey" = a mask leaving the key out,
	// "empty" = a mask that is not nil and has no paths.
	update func(op storeOp) error
	// delAllow: Delete*(id, resource.WithAllowMissing(true)) (nil where the model's delete takes no options)
	delAllow func(id string) error
	// via runs op through the trait server's own RPC (op.Via); handled = false when the server has no such RPC
	via func(op storeOp) (handled bool, got string, err error)
	// guarded runs a write of the model with one more write option (the harness passes a WithExpectedCheck that
	// parks and then refuses): kind "update" (Update*, with create-if-absent when upsert), "delete", "add" (waste:
	// AddWasteRecord). handled = false where the API takes no write options.
	guarded func(kind, id string, upsert bool, opt resource.WriteOption) (handled bool, err error)
}

// updateMask is the update_mask field of an Update… request for op.
func (r rpc) updateMask(op storeOp) *fieldmaskpb.FieldMask {
	switch op.Mask {
	case "key":
		return &fieldmaskpb.FieldMask{Paths: append([]string{r.Key}, r.Upd...)}
	case "nokey":
		return &fieldmaskpb.FieldMask{Paths: append([]string{}, r.Upd...)}
	case "empty":
		return &fieldmaskpb.FieldMask{} // not nil, no paths
	}
	return nil
}

// writeOpts are the resource write options an update op asks for.
func (r rpc) writeOpts(op storeOp) []resource.WriteOption {
	var opts []resource.WriteOption
	switch op.Mask {
	case "key":
		opts = append(opts, resource.WithUpdatePaths(append([]string{r.Key}, r.Upd...)...))
	case "nokey":
		opts = append(opts, resource.WithUpdatePaths(r.Upd...))
	case "empty":
		// a mask that is not nil but names no path ("ensure it exists, change nothing"); drawn in both spellings
		opts = append(opts, resource.WithUpdateMask(&fieldmaskpb.FieldMask{}))
	}
	if op.Upsert {
		opts = append(opts, resource.WithCreateIfAbsent())
	}
	return opts
}

// rpc describes one of the seven paged List RPCs.
type rpc struct {
	Name    string
	Variant string   // "gt": search > lastKey; "ge": search >= lastKey then skip equal; "waste": index tokens
	Key     string   // read-mask path of the key field
	Wit     string   // read-mask path of the witness field ("" = none)
	Upd     []string // update-mask paths that leave the key field out (nil: the model's Update takes no options)
	// build populates a fresh model with the given ids and returns the server-level list call: the first ninit ids
	// are configured as initial records (the model's WithInitial… option; hail: resource.WithInitialRecord), the
	// others go through the trait's creation API. For waste the ids are the record ids in insertion order.
	build func(r rpc, ids []string, ninit int, ropts []resource.Option) (*instance, error)
	// Payload: what the records carry besides their key (scenario.Payload); set per scenario before build is called
	Payload int
}

var ctx = context.Background()

func rpcs() []rpc {
	return []rpc{
		{"electric.ListModes", "gt", "id", "title", []string{"title", "description"}, buildElectric, 0},
		{"hail.ListHails", "gt", "id", "origin", []string{"origin", "destination"}, buildHail, 0},
		{"parent.ListChildren", "ge", "name", "parent", nil, buildParent, 0},
		{"publication.ListPublications", "gt", "id", "media_type", []string{"body", "media_type"}, buildPublication, 0},
		{"vending.ListConsumables", "gt", "name", "title", []string{"title", "display_name"}, buildConsumables, 0},
		{"vending.ListInventory", "gt", "consumable", "", []string{"dispensing"}, buildInventory, 0},
		{"waste.ListWasteRecords", "waste", "id", "area", nil, buildWaste, 0},
	}
}

// rawInit is the raw resource option that configures one initial record of the collection behind r: stored under
// rr.SID, carrying rr.Key in its key field (and in the witness field).
func (r rpc) rawInit(rr rawRec) resource.Option {
	switch r.Name {
	case "electric.ListModes":
		return electricpb.WithModeOption(resource.WithInitialRecord(rr.SID, rich(r, &traits.ElectricMode{Id: rr.Key, Title: rr.Key})))
	case "hail.ListHails":
		return resource.WithInitialRecord(rr.SID, rich(r, &traits.Hail{Id: rr.Key, Origin: &traits.Hail_Location{Name: rr.Key}}))
	case "parent.ListChildren":
		return parentpb.WithChildrenOption(resource.WithInitialRecord(rr.SID, rich(r, &traits.Child{Name: rr.Key, Parent: rr.Key})))
	case "publication.ListPublications":
		return publicationpb.WithPublicationOption(resource.WithInitialRecord(rr.SID, rich(r, &traits.Publication{Id: rr.Key, Body: []byte("b" + rr.Key), MediaType: rr.Key})))
	case "vending.ListConsumables":
		return vendingpb.WithConsumablesOption(resource.WithInitialRecord(rr.SID, rich(r, &traits.Consumable{Name: rr.Key, Title: rr.Key})))
	case "vending.ListInventory":
		return vendingpb.WithInventoryOption(resource.WithInitialRecord(rr.SID, r.stock(rr.Key)))
	}
	panic("no raw initial records on " + r.Name)
}

func rpcByName(n string) (rpc, bool) {
	for _, r := range rpcs() {
		if r.Name == n {
			return r, true
		}
	}
	return rpc{}, false
}

func buildElectric(r rpc, ids []string, ninit int, ropts []resource.Option) (*instance, error) {
	var initial []*traits.ElectricMode
	for _, id := range ids[:ninit] {
		initial = append(initial, rich(r, &traits.ElectricMode{Id: id, Title: id}))
	}
	m := electricpb.NewModel(append([]resource.Option{electricpb.WithInitialMode(initial...)}, ropts...)...)
	for _, id := range ids[ninit:] {
		if err := m.AddMode(rich(r, &traits.ElectricMode{Id: id, Title: id})); err != nil {
			return nil, fmt.Errorf("AddMode(%q): %v", id, err)
		}
	}
	s := electricpb.NewModelServer(m)
	return &instance{
		list: func(size int32, token string, mask []string) pageResp {
			r, err := s.ListModes(ctx, &traits.ListModesRequest{PageSize: size, PageToken: token, ReadMask: fm(mask)})
			if err != nil {
				return pageResp{Err: err}
			}
			p := pageResp{Next: r.NextPageToken, Total: r.TotalSize}
			for _, x := range r.Modes {
				p.Keys = append(p.Keys, x.Id)
				p.Wits = append(p.Wits, x.Title)
			}
			return p
		},
		all: func() []string {
			var ks []string
			for _, x := range m.Modes() {
				ks = append(ks, x.Id)
			}
			return ks
		},
		del:      func(id string) error { return m.DeleteMode(id) },
		delAllow: func(id string) error { return m.DeleteMode(id, resource.WithAllowMissing(true)) },
		add: func(id string) (string, error) {
			if id == "" {
				mode, err := m.CreateMode(&traits.ElectricMode{Title: "generated"})
				return mode.GetId(), err
			}
			return id, m.AddMode(rich(r, &traits.ElectricMode{Id: id, Title: id}))
		},
		update: func(op storeOp) error {
			_, err := m.UpdateMode(&traits.ElectricMode{Id: op.ID, Title: op.ID, Description: "updated"}, r.writeOpts(op)...)
			return err
		},
		guarded: func(kind, id string, upsert bool, opt resource.WriteOption) (bool, error) {
			switch kind {
			case "update":
				_, err := m.UpdateMode(&traits.ElectricMode{Id: id, Title: id, Description: "guarded"}, guardOpts(upsert, opt)...)
				return true, err
			case "delete":
				return true, m.DeleteMode(id, opt)
			}
			return false, nil
		},
	}, nil
}

func buildHail(r rpc, ids []string, ninit int, ropts []resource.Option) (*instance, error) {
	// hail ids are always generated by CreateHail; chosen ids come in as initial records or are upserted
	opts := []resource.Option{hailpb.WithKeepAlive(-1 * time.Second)}
	for _, id := range ids[:ninit] {
		opts = append(opts, resource.WithInitialRecord(id, rich(r, &traits.Hail{Id: id, Origin: &traits.Hail_Location{Name: id}})))
	}
	m := hailpb.NewModel(append(opts, ropts...)...)
	for _, id := range ids[ninit:] {
		if _, err := m.UpdateHail(rich(r, &traits.Hail{Id: id, Origin: &traits.Hail_Location{Name: id}}), resource.WithCreateIfAbsent()); err != nil {
			return nil, fmt.Errorf("UpdateHail(%q, WithCreateIfAbsent): %v", id, err)
		}
	}
	s := hailpb.NewModelServer(m)
	return &instance{
		list: func(size int32, token string, mask []string) pageResp {
			r, err := s.ListHails(ctx, &traits.ListHailsRequest{PageSize: size, PageToken: token, ReadMask: fm(mask)})
			if err != nil {
				return pageResp{Err: err}
			}
			p := pageResp{Next: r.NextPageToken, Total: r.TotalSize}
			for _, x := range r.Hails {
				p.Keys = append(p.Keys, x.Id)
				p.Wits = append(p.Wits, x.GetOrigin().GetName())
			}
			return p
		},
		all: func() []string {
			var ks []string
			for _, x := range m.ListHails() {
				ks = append(ks, x.Id)
			}
			return ks
		},
		del:      func(id string) error { _, err := m.DeleteHail(id); return err },
		delAllow: func(id string) error { _, err := m.DeleteHail(id, resource.WithAllowMissing(true)); return err },
		via: func(op storeOp) (bool, string, error) {
			switch {
			case op.Via == "rpc" && op.Kind == "add":
				h, err := s.CreateHail(ctx, &traits.CreateHailRequest{Hail: &traits.Hail{Origin: &traits.Hail_Location{Name: "generated"}}})
				return true, h.GetId(), err
			case op.Via == "rpc" && op.Kind == "update":
				_, err := s.UpdateHail(ctx, &traits.UpdateHailRequest{UpdateMask: r.updateMask(op),
					Hail: &traits.Hail{Id: op.ID, Origin: &traits.Hail_Location{Name: op.ID}, Destination: &traits.Hail_Location{Name: "updated"}}})
				return true, op.ID, err
			case op.Via == "rpc" && op.Kind == "delete":
				_, err := s.DeleteHail(ctx, &traits.DeleteHailRequest{Id: op.ID, AllowMissing: op.AllowMissing})
				return true, op.ID, err
			}
			return false, "", nil
		},
		add: func(id string) (string, error) {
			// CreateHail always invents the id
			h, err := m.CreateHail(&traits.Hail{Origin: &traits.Hail_Location{Name: "generated"}})
			return h.GetId(), err
		},
		update: func(op storeOp) error {
			_, err := m.UpdateHail(&traits.Hail{Id: op.ID, Origin: &traits.Hail_Location{Name: op.ID}, Destination: &traits.Hail_Location{Name: "updated"}}, r.writeOpts(op)...)
			return err
		},
		guarded: func(kind, id string, upsert bool, opt resource.WriteOption) (bool, error) {
			switch kind {
			case "update":
				_, err := m.UpdateHail(&traits.Hail{Id: id, Origin: &traits.Hail_Location{Name: id}, Destination: &traits.Hail_Location{Name: "guarded"}}, guardOpts(upsert, opt)...)
				return true, err
			case "delete":
				_, err := m.DeleteHail(id, opt)
				return true, err
			}
			return false, nil
		},
	}, nil
}

func buildParent(r rpc, ids []string, ninit int, ropts []resource.Option) (*instance, error) {
	var initial []*traits.Child
	for _, id := range ids[:ninit] {
		initial = append(initial, rich(r, &traits.Child{Name: id, Parent: id}))
	}
	m := parentpb.NewModel(append([]resource.Option{parentpb.WithInitialChildren(initial...)}, ropts...)...)
	for _, id := range ids[ninit:] {
		m.AddChild(rich(r, &traits.Child{Name: id, Parent: id}))
	}
	s := parentpb.NewModelServer(m)
	return &instance{
		list: func(size int32, token string, mask []string) pageResp {
			r, err := s.ListChildren(ctx, &traits.ListChildrenRequest{PageSize: size, PageToken: token, ReadMask: fm(mask)})
			if err != nil {
				return pageResp{Err: err}
			}
			p := pageResp{Next: r.NextPageToken, Total: r.TotalSize}
			for _, x := range r.Children {
				p.Keys = append(p.Keys, x.Name)
				p.Wits = append(p.Wits, x.Parent)
			}
			return p
		},
		all: func() []string {
			var ks []string
			for _, x := range m.ListChildren() {
				ks = append(ks, x.Name)
			}
			return ks
		},
		del:      func(id string) error { _, err := m.RemoveChildByName(id); return err },
		delAllow: func(id string) error { _, err := m.RemoveChildByName(id, resource.WithAllowMissing(true)); return err },
		ensure: func(name string, viaTrait bool) {
			if viaTrait {
				m.AddChildTrait(name, trait.OnOff)
			} else {
				m.AddChild(rich(r, &traits.Child{Name: name, Parent: name}))
			}
		},
		update: func(op storeOp) error {
			if m.RemoveChildTrait(op.ID, trait.Light) == nil {
				return status.Error(codes.NotFound, "no such child")
			}
			return nil
		},
		guarded: func(kind, id string, upsert bool, opt resource.WriteOption) (bool, error) {
			if kind == "delete" {
				_, err := m.RemoveChildByName(id, opt)
				return true, err
			}
			return false, nil
		},
	}, nil
}

func buildPublication(r rpc, ids []string, ninit int, ropts []resource.Option) (*instance, error) {
	var initial []*traits.Publication
	for _, id := range ids[:ninit] {
		initial = append(initial, rich(r, &traits.Publication{Id: id, Body: []byte("b" + id), MediaType: id}))
	}
	m := publicationpb.NewModel(append([]resource.Option{publicationpb.WithInitialPublication(initial...)}, ropts...)...)
	for _, id := range ids[ninit:] {
		if _, err := m.CreatePublication(rich(r, &traits.Publication{Id: id, Body: []byte("b" + id), MediaType: id})); err != nil {
			return nil, fmt.Errorf("CreatePublication(%q): %v", id, err)
		}
	}
	s := publicationpb.NewModelServer(m)
	return &instance{
		list: func(size int32, token string, mask []string) pageResp {
			r, err := s.ListPublications(ctx, &traits.ListPublicationsRequest{PageSize: size, PageToken: token, ReadMask: fm(mask)})
			if err != nil {
				return pageResp{Err: err}
			}
			p := pageResp{Next: r.NextPageToken, Total: r.TotalSize}
			for _, x := range r.Publications {
				p.Keys = append(p.Keys, x.Id)
				p.Wits = append(p.Wits, x.MediaType)
			}
			return p
		},
		all: func() []string {
			var ks []string
			for _, x := range m.ListPublications() {
				ks = append(ks, x.Id)
			}
			return ks
		},
		del:      func(id string) error { _, err := m.DeletePublication(id); return err },
		delAllow: func(id string) error { _, err := m.DeletePublication(id, resource.WithAllowMissing(true)); return err },
		via: func(op storeOp) (bool, string, error) {
			switch {
			case op.Via == "rpc" && op.Kind == "add":
				p, err := s.CreatePublication(ctx, &traits.CreatePublicationRequest{Publication: &traits.Publication{Id: op.ID, Body: []byte("b"), MediaType: op.ID}})
				return true, p.GetId(), err
			case op.Via == "rpc" && op.Kind == "update":
				_, err := s.UpdatePublication(ctx, &traits.UpdatePublicationRequest{UpdateMask: r.updateMask(op),
					Publication: &traits.Publication{Id: op.ID, Body: []byte("updated"), MediaType: op.ID}})
				return true, op.ID, err
			case op.Via == "ack" && op.Kind == "update":
				version := "none"
				if p, ok := m.GetPublication(op.ID); ok {
					if p.Version == "" {
						// only a publication with a version can be acknowledged: give it one (a masked update, too)
						if _, err := m.UpdatePublication(op.ID, &traits.Publication{}, resource.WithUpdatePaths("media_type"), publicationpb.WithNewVersion()); err != nil {
							return true, "", err
						}
						p, _ = m.GetPublication(op.ID)
					}
					version = p.Version
				}
				_, err := s.AcknowledgePublication(ctx, &traits.AcknowledgePublicationRequest{Id: op.ID, Version: version,
					Receipt: traits.Publication_Audience_ACCEPTED, AllowAcknowledged: true})
				return true, op.ID, err
			case op.Via == "rpc" && op.Kind == "delete":
				_, err := s.DeletePublication(ctx, &traits.DeletePublicationRequest{Id: op.ID, AllowMissing: op.AllowMissing})
				return true, op.ID, err
			}
			return false, "", nil
		},
		add: func(id string) (string, error) {
			p, err := m.CreatePublication(rich(r, &traits.Publication{Id: id, Body: []byte("b"), MediaType: id}))
			return p.GetId(), err
		},
		update: func(op storeOp) error {
			// the id is a separate argument of UpdatePublication: the server's own AcknowledgePublication passes a
			// message without Id, and nothing makes a caller pass the same id twice
			p := &traits.Publication{Id: op.ID, Body: []byte("updated"), MediaType: op.ID}
			if op.Alt {
				p.Id = ""
			} else if op.MsgID != "" {
				p.Id = op.MsgID
			}
			_, err := m.UpdatePublication(op.ID, p, r.writeOpts(op)...)
			return err
		},
		guarded: func(kind, id string, upsert bool, opt resource.WriteOption) (bool, error) {
			switch kind {
			case "update":
				_, err := m.UpdatePublication(id, &traits.Publication{Id: id, Body: []byte("guarded"), MediaType: id}, guardOpts(upsert, opt)...)
				return true, err
			case "delete":
				_, err := m.DeletePublication(id, opt)
				return true, err
			}
			return false, nil
		},
	}, nil
}

func buildConsumables(r rpc, ids []string, ninit int, ropts []resource.Option) (*instance, error) {
	var initial []*traits.Consumable
	for _, id := range ids[:ninit] {
		initial = append(initial, rich(r, &traits.Consumable{Name: id, Title: id}))
	}
	m := vendingpb.NewModel(append([]resource.Option{vendingpb.WithInitialConsumable(initial...)}, ropts...)...)
	for _, id := range ids[ninit:] {
		if _, err := m.CreateConsumable(rich(r, &traits.Consumable{Name: id, Title: id})); err != nil {
			return nil, fmt.Errorf("CreateConsumable(%q): %v", id, err)
		}
	}
	s := vendingpb.NewModelServer(m)
	return &instance{
		list: func(size int32, token string, mask []string) pageResp {
			r, err := s.ListConsumables(ctx, &traits.ListConsumablesRequest{PageSize: size, PageToken: token, ReadMask: fm(mask)})
			if err != nil {
				return pageResp{Err: err}
			}
			p := pageResp{Next: r.NextPageToken, Total: r.TotalSize}
			for _, x := range r.Consumables {
				p.Keys = append(p.Keys, x.Name)
				p.Wits = append(p.Wits, x.Title)
			}
			return p
		},
		all: func() []string {
			var ks []string
			for _, x := range m.ListConsumables() {
				ks = append(ks, x.Name)
			}
			return ks
		},
		del:      func(id string) error { _, err := m.DeleteConsumable(id); return err },
		delAllow: func(id string) error { _, err := m.DeleteConsumable(id, resource.WithAllowMissing(true)); return err },
		add: func(id string) (string, error) {
			c, err := m.CreateConsumable(rich(r, &traits.Consumable{Name: id, Title: id}))
			return c.GetName(), err
		},
		update: func(op storeOp) error {
			_, err := m.UpdateConsumable(&traits.Consumable{Name: op.ID, Title: op.ID, DisplayName: "updated"}, r.writeOpts(op)...)
			return err
		},
		guarded: func(kind, id string, upsert bool, opt resource.WriteOption) (bool, error) {
			switch kind {
			case "update":
				_, err := m.UpdateConsumable(&traits.Consumable{Name: id, Title: id, DisplayName: "guarded"}, guardOpts(upsert, opt)...)
				return true, err
			case "delete":
				_, err := m.DeleteConsumable(id, opt)
				return true, err
			}
			return false, nil
		},
	}, nil
}

// stock is a stock record of the consumable id carrying the scenario's payload: quantities kept in units of one
// category (1: used and remaining in litres; 3: remaining in kilograms only) or of two (2: used in litres, remaining
// in kilograms - no quantity converts into both). What a Dispense does, and whether it fails half-way, depends on them.
func (r rpc) stock(id string) *traits.Consumable_Stock {
	q := func(v float32, u traits.Consumable_Unit) *traits.Consumable_Quantity {
		return &traits.Consumable_Quantity{Amount: v, Unit: u}
	}
	st := &traits.Consumable_Stock{Consumable: id}
	switch r.Payload {
	case 1:
		st.Used, st.Remaining = q(1, traits.Consumable_LITER), q(5, traits.Consumable_LITER)
	case 2:
		st.Used, st.Remaining = q(1, traits.Consumable_LITER), q(5, traits.Consumable_KILOGRAM)
	case 3:
		st.Remaining = q(5, traits.Consumable_KILOGRAM)
	}
	return rich(r, st)
}

// richPayload is the payload variant "every field": each field of a record that the harness leaves unset (everything
// but the key and the witness field) is filled in by reflection - strings, numbers, booleans, enums (first named
// value), nested messages (two levels), one element per repeated field - so that write paths which look at, carry
// over or rebuild the stored message work on full records.
const richPayload = 4

// richSkip: fields the rich payload leaves alone because the models' documented rules make them exclusive.
var richSkip = map[string]bool{
	"smartcore.traits.ElectricMode.normal": true, // a model holds one normal mode: AddMode refuses a second (AlreadyExists)
}

func rich[T proto.Message](r rpc, m T) T {
	if r.Payload == richPayload {
		fillUnset(m.ProtoReflect(), 2, r.Key)
	}
	return m
}

// fillUnset fills the unset fields of m (skip: the key field, which stays as the harness set it - empty means "the
// model invents the id").
func fillUnset(m protoreflect.Message, depth int, skip string) {
	fds := m.Descriptor().Fields()
	for i := 0; i < fds.Len(); i++ {
		fd := fds.Get(i)
		if m.Has(fd) || fd.IsMap() || string(fd.Name()) == skip || richSkip[string(fd.FullName())] {
			continue
		}
		if oo := fd.ContainingOneof(); oo != nil && m.WhichOneof(oo) != nil {
			continue
		}
		var v protoreflect.Value
		switch fd.Kind() {
		case protoreflect.StringKind:
			v = protoreflect.ValueOfString("payload-" + string(fd.Name()))
		case protoreflect.BytesKind:
			v = protoreflect.ValueOfBytes([]byte("payload"))
		case protoreflect.BoolKind:
			v = protoreflect.ValueOfBool(true)
		case protoreflect.EnumKind:
			if fd.Enum().Values().Len() < 2 {
				continue
			}
			v = protoreflect.ValueOfEnum(fd.Enum().Values().Get(1).Number())
		case protoreflect.Int32Kind, protoreflect.Sint32Kind, protoreflect.Sfixed32Kind:
			v = protoreflect.ValueOfInt32(3)
		case protoreflect.Int64Kind, protoreflect.Sint64Kind, protoreflect.Sfixed64Kind:
			v = protoreflect.ValueOfInt64(3)
		case protoreflect.Uint32Kind, protoreflect.Fixed32Kind:
			v = protoreflect.ValueOfUint32(3)
		case protoreflect.Uint64Kind, protoreflect.Fixed64Kind:
			v = protoreflect.ValueOfUint64(3)
		case protoreflect.FloatKind:
			v = protoreflect.ValueOfFloat32(2.5)
		case protoreflect.DoubleKind:
			v = protoreflect.ValueOfFloat64(2.5)
		case protoreflect.MessageKind:
			if depth == 0 {
				continue
			}
			var sub protoreflect.Message
			if fd.IsList() {
				sub = m.NewField(fd).List().NewElement().Message()
			} else {
				sub = m.NewField(fd).Message()
			}
			fillUnset(sub, depth-1, "")
			v = protoreflect.ValueOfMessage(sub)
		default:
			continue
		}
		if fd.IsList() {
			l := m.Mutable(fd).List()
			l.Append(v)
			continue
		}
		m.Set(fd, v)
	}
}

func dispenseUnit(u string) traits.Consumable_Unit {
	switch u {
	case "l":
		return traits.Consumable_LITER
	case "kg":
		return traits.Consumable_KILOGRAM
	case "m3":
		return traits.Consumable_CUBIC_METER
	case "none":
		return traits.Consumable_NO_UNIT
	}
	return traits.Consumable_UNIT_UNSPECIFIED
}

// payloadUnits: the units (enum numbers, "-" = the quantity is not kept) a stock carrying payload pay keeps Used and
// Remaining in: what the Lean model of DispenseInstantly's callback needs to know about the stored record.
func payloadUnits(pay int) (used, remaining string) {
	switch pay {
	case 1:
		return "3", "3"
	case 2:
		return "3", "6"
	case 3:
		return "-", "6"
	case richPayload:
		return "1", "1" // the enum's first named value: NO_UNIT
	}
	return "-", "-"
}

func buildInventory(r rpc, ids []string, ninit int, ropts []resource.Option) (*instance, error) {
	var initial []*traits.Consumable_Stock
	for _, id := range ids[:ninit] {
		initial = append(initial, r.stock(id))
	}
	m := vendingpb.NewModel(append([]resource.Option{vendingpb.WithInitialStock(initial...)}, ropts...)...)
	for _, id := range ids[ninit:] {
		if _, err := m.CreateStock(r.stock(id)); err != nil {
			return nil, fmt.Errorf("CreateStock(%q): %v", id, err)
		}
	}
	s := vendingpb.NewModelServer(m)
	return &instance{
		list: func(size int32, token string, mask []string) pageResp {
			r, err := s.ListInventory(ctx, &traits.ListInventoryRequest{PageSize: size, PageToken: token, ReadMask: fm(mask)})
			if err != nil {
				return pageResp{Err: err}
			}
			p := pageResp{Next: r.NextPageToken, Total: r.TotalSize}
			for _, x := range r.Inventory {
				p.Keys = append(p.Keys, x.Consumable)
				p.Wits = append(p.Wits, "")
			}
			return p
		},
		all: func() []string {
			var ks []string
			for _, x := range m.ListInventory() {
				ks = append(ks, x.Consumable)
			}
			return ks
		},
		del:      func(id string) error { _, err := m.DeleteStock(id); return err },
		delAllow: func(id string) error { _, err := m.DeleteStock(id, resource.WithAllowMissing(true)); return err },
		via: func(op storeOp) (bool, string, error) {
			switch {
			case op.Via == "rpc" && op.Kind == "update":
				_, err := s.UpdateStock(ctx, &traits.UpdateStockRequest{UpdateMask: r.updateMask(op), Stock: &traits.Consumable_Stock{Consumable: op.ID, Dispensing: true}})
				return true, op.ID, err
			case op.Via == "dispense" && op.Kind == "update":
				_, err := s.Dispense(ctx, &traits.DispenseRequest{Consumable: op.ID, Quantity: &traits.Consumable_Quantity{Amount: 1, Unit: dispenseUnit(op.Unit)}})
				return true, op.ID, err
			}
			return false, "", nil
		},
		add: func(id string) (string, error) {
			st, err := m.CreateStock(r.stock(id))
			return st.GetConsumable(), err
		},
		update: func(op storeOp) error {
			_, err := m.UpdateStock(&traits.Consumable_Stock{Consumable: op.ID, Dispensing: true}, r.writeOpts(op)...)
			return err
		},
		guarded: func(kind, id string, upsert bool, opt resource.WriteOption) (bool, error) {
			switch kind {
			case "update":
				_, err := m.UpdateStock(&traits.Consumable_Stock{Consumable: id, Dispensing: true}, guardOpts(upsert, opt)...)
				return true, err
			case "delete":
				_, err := m.DeleteStock(id, opt)
				return true, err
			}
			return false, nil
		},
	}, nil
}

func buildWaste(r rpc, ids []string, ninit int, ropts []resource.Option) (*instance, error) {
	m := wastepb.NewModel(ropts...)
	wastepb.VerifSetRecords(m, nil) // NewModel pre-generates 100 records
	for _, id := range ids {
		if _, err := m.AddWasteRecord(&traits.WasteRecord{Id: id, Area: id}); err != nil {
			return nil, fmt.Errorf("AddWasteRecord(%q): %v", id, err)
		}
	}
	s := wastepb.NewModelServer(m)
	return &instance{
		list: func(size int32, token string, mask []string) pageResp {
			r, err := s.ListWasteRecords(ctx, &traits.ListWasteRecordsRequest{PageSize: size, PageToken: token, ReadMask: fm(mask)})
			if err != nil {
				return pageResp{Err: err}
			}
			p := pageResp{Next: r.NextPageToken, Total: r.TotalSize}
			for _, x := range r.WasteRecords {
				p.Keys = append(p.Keys, x.Id)
				p.Wits = append(p.Wits, x.Area)
			}
			return p
		},
		all: func() []string {
			// the listing's order is newest first
			n := m.GetWasteRecordCount()
			var ks []string
			for _, x := range m.ListWasteRecords(n, n+1) {
				ks = append(ks, x.Id)
			}
			return ks
		},
		del: func(id string) error { return fmt.Errorf("waste records cannot be deleted") },
		add: func(id string) (string, error) {
			wr, err := m.AddWasteRecord(&traits.WasteRecord{Id: id, Area: id})
			return wr.GetId(), err
		},
		guarded: func(kind, id string, upsert bool, opt resource.WriteOption) (bool, error) {
			if kind == "add" {
				_, err := m.AddWasteRecord(&traits.WasteRecord{Id: id, Area: id}, opt)
				return true, err
			}
			return false, nil
		},
	}, nil
}

func guardOpts(upsert bool, opt resource.WriteOption) []resource.WriteOption {
	if upsert {
		return []resource.WriteOption{resource.WithCreateIfAbsent(), opt}
	}
	return []resource.WriteOption{opt}
}

// The closed family of id interceptors (shared with the Lean driver: `asciiLower`, `asciiUpper` of Icpt.lean):
// byte-wise, so that they are the same function as Lean's `String.map Char.toLower` on every valid UTF-8 string.
func asciiLower(s string) string {
	b := []byte(s)
	for i, c := range b {
		if 'A' <= c && c <= 'Z' {
			b[i] = c + 32
		}
	}
	return string(b)
}

func asciiUpper(s string) string {
	b := []byte(s)
	for i, c := range b {
		if 'a' <= c && c <= 'z' {
			b[i] = c - 32
		}
	}
	return string(b)
}

// icptFn returns the interceptor named name ("" = none: the identity).
func icptFn(name string) func(string) string {
	switch name {
	case "lower":
		return asciiLower
	case "upper":
		return asciiUpper
	case "ns":
		// an interceptor that turns the EMPTY id into a key of its own (and is the identity otherwise): whether an
		// id was provided must be decided before it runs
		return func(s string) string {
			if s == "" {
				return "ns/"
			}
			return s
		}
	}
	return func(s string) string { return s }
}

// icptOpts are the resource options of a model whose collections use the named interceptor.
func icptOpts(name string) []resource.Option {
	if name == "" {
		return nil
	}
	return []resource.Option{resource.WithIDInterceptor(icptFn(name))}
}

func fm(mask []string) *fieldmaskpb.FieldMask {
	if mask == nil {
		return nil
	}
	return &fieldmaskpb.FieldMask{Paths: append([]string{}, mask...)}
}

// codeName canonicalises an error to its gRPC code name (a non-status error is what gRPC reports as Unknown).
func codeName(err error) string {
	if err == nil {
		return "OK"
	}
	if s, ok := status.FromError(err); ok {
		return s.Code().String()
	}
	return codes.Unknown.String()
}
