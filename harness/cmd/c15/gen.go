package main

import (
	"encoding/base64"
	"fmt"
	"math/rand"
	"strconv"
)

// symbols ids are built from: many ids are prefixes of each other; multi-byte runes check that the
// model's string order is the code's byte order.
var symbols = []string{"a", "b", "ab", "a/", "a0", "0", "-", "_", "A", "z", "~", "é", "ÿ", "߿", "￿", "𝄞", ".", "aa"}

func genID(r *rand.Rand) string {
	n := 1 + r.Intn(4)
	s := ""
	for i := 0; i < n; i++ {
		s += symbols[r.Intn(len(symbols))]
	}
	return s
}

// genIDs returns n distinct non-empty ids in random (insertion) order.
func genIDs(r *rand.Rand, n int) []string {
	seen := map[string]bool{}
	var ids []string
	if n > 200 || r.Intn(4) == 0 {
		// sequential ids with a shared prefix, shuffled
		w := 1 + r.Intn(4)
		for i := 0; i < n; i++ {
			ids = append(ids, fmt.Sprintf("id-%0*d", w, i))
		}
		r.Shuffle(len(ids), func(i, j int) { ids[i], ids[j] = ids[j], ids[i] })
		return ids
	}
	for len(ids) < n {
		id := genID(r)
		if len(seen) > 3 && r.Intn(3) == 0 {
			// extend an existing id: prefix relation
			id = ids[r.Intn(len(ids))] + symbols[r.Intn(len(symbols))]
		}
		if !seen[id] {
			seen[id] = true
			ids = append(ids, id)
		}
	}
	return ids
}

var pageSizes = []int32{0, 1, 2, 3, 7, 50, 1000, 5000}

func genPageSize(r *rand.Rand) int32 {
	switch r.Intn(10) {
	case 0:
		return int32(r.Intn(70))
	case 1:
		return int32(900 + r.Intn(300))
	case 2:
		return int32(r.Int31())
	default:
		return pageSizes[r.Intn(len(pageSizes))]
	}
}

// corruptToken derives a hostile token from a valid one.
func corruptToken(r *rand.Rand, variant, valid string, ids []string) (string, string) {
	if variant == "waste" {
		switch r.Intn(9) {
		case 0:
			return strconv.Itoa(len(ids) + 1 + r.Intn(5)), "index>n"
		case 1:
			return strconv.Itoa(len(ids) + 99898), "index>>n"
		case 2:
			return strconv.Itoa(-1 - r.Intn(5)), "index<0"
		case 3:
			return "99999999999999999999", "overflow"
		case 4:
			return valid + "x", "garbage"
		case 5:
			return "+" + strconv.Itoa(r.Intn(len(ids)+1)), "plus-sign"
		case 6:
			return " " + valid, "space"
		case 7:
			return strconv.Itoa(r.Intn(len(ids) + 1)), "index-in-range"
		default:
			return "0x10", "hex"
		}
	}
	b := []byte(valid)
	switch r.Intn(8) {
	case 0: // bit flip in the base64 text
		if len(b) > 0 {
			i := r.Intn(len(b))
			b[i] ^= 1 << uint(r.Intn(7))
		}
		return string(b), "bitflip-text"
	case 1: // bit flip in the decoded bytes
		raw, _ := base64.StdEncoding.DecodeString(valid)
		if len(raw) > 0 {
			i := r.Intn(len(raw))
			raw[i] ^= 1 << uint(r.Intn(8))
		}
		return base64.StdEncoding.EncodeToString(raw), "bitflip-bytes"
	case 2: // truncation of the text
		if len(b) > 1 {
			b = b[:1+r.Intn(len(b)-1)]
		}
		return string(b), "truncate-text"
	case 3: // truncation of the bytes
		raw, _ := base64.StdEncoding.DecodeString(valid)
		if len(raw) > 1 {
			raw = raw[:1+r.Intn(len(raw)-1)]
		}
		return base64.StdEncoding.EncodeToString(raw), "truncate-bytes"
	case 4: // valid base64 of random bytes
		raw := make([]byte, 1+r.Intn(12))
		r.Read(raw)
		return base64.StdEncoding.EncodeToString(raw), "random-bytes"
	case 5: // a well-formed token naming a key that is not in the collection
		return encodeKeyToken(genID(r)), "absent-key"
	case 6: // a well-formed token with an empty last key
		return encodeKeyToken(""), "empty-last-key"
	default:
		return "not base64 !", "not-base64"
	}
}
