package main

import (
	"encoding/base64"
	"fmt"
	"math/rand"
	"strconv"

	"google.golang.org/protobuf/proto"

	"github.com/smart-core-os/sc-api/go/types"
)

// symbols ids are built from: many ids are prefixes of each other; multi-byte runes check that the
// model's string order is the code's byte order.
var symbols = []string{"a", "b", "ab", "a/", "a0", "0", "-", "_", "A", "z", "~", "é", "ÿ", "߿", "￿", "𝄞", ".", "aa",
	// characters that mean something to base64, URLs, shells and line protocols
	" ", "\n", "\x00", "+", "=", "%", "\"", "\\", ",", "\t", "\x7f", "?", "#"}

func genID(r *rand.Rand) string {
	n := 1 + r.Intn(4)
	switch r.Intn(12) {
	case 0:
		n = 12 + r.Intn(30) // longer than any id a model generates itself (at most 20 characters)
	case 1:
		n = 60 + r.Intn(200)
	}
	s := ""
	for i := 0; i < n; i++ {
		s += symbols[r.Intn(len(symbols))]
	}
	return s
}

var longPrefixes = []string{"site-7/lobby/lift-bank-A/hail-", "urn:smartcore:building/floor 3/zone+7=", "ééééééééééééééééé/"}

// genIDs returns n distinct non-empty ids in random (insertion) order.
func genIDs(r *rand.Rand, n int) []string {
	seen := map[string]bool{}
	var ids []string
	if n > 200 || r.Intn(4) == 0 {
		// sequential ids with a shared prefix, shuffled
		w := 1 + r.Intn(4)
		prefix := "id-"
		if r.Intn(3) == 0 {
			prefix = longPrefixes[r.Intn(len(longPrefixes))]
		}
		for i := 0; i < n; i++ {
			ids = append(ids, fmt.Sprintf("%s%0*d", prefix, w, i))
		}
		r.Shuffle(len(ids), func(i, j int) { ids[i], ids[j] = ids[j], ids[i] })
		return ids
	}
	prefix := ""
	if r.Intn(6) == 0 {
		prefix = longPrefixes[r.Intn(len(longPrefixes))] // hierarchical names: every id is long
	}
	for len(ids) < n {
		id := prefix + genID(r)
		if len(seen) > 3 && r.Intn(3) == 0 {
			// extend an existing id: prefix relation
			id = ids[r.Intn(len(ids))] + symbols[r.Intn(len(symbols))]
		}
		if !seen[id] {
			seen[id] = true
			ids = append(ids, id)
		}
	}
	return ids
}

// genCaseIDs returns n non-empty ids of mixed case that are distinct under ASCII case folding, from each other and
// from those in avoid: under a case-mapping id interceptor they are n different items whose storage-id order is
// not the order of their spellings ('B' < '_' < 'a').
func genCaseIDs(r *rand.Rand, n int, avoid []string) []string {
	letters := []string{"a", "A", "b", "B", "c", "C", "z", "Z", "_", "-", "/", "0", "é", "É"}
	seen := map[string]bool{}
	for _, a := range avoid {
		seen[asciiLower(a)] = true
	}
	var ids []string
	for len(ids) < n {
		id := ""
		for j := 0; j < 1+r.Intn(4); j++ {
			id += letters[r.Intn(len(letters))]
		}
		if len(ids) > 2 && r.Intn(3) == 0 {
			id = respell(r, ids[r.Intn(len(ids))]) + letters[r.Intn(len(letters))]
		}
		if !seen[asciiLower(id)] {
			seen[asciiLower(id)] = true
			ids = append(ids, id)
		}
	}
	return ids
}

// respell changes the case of some ASCII letters of id.
func respell(r *rand.Rand, id string) string {
	b := []byte(id)
	for i, c := range b {
		if r.Intn(2) == 0 {
			switch {
			case 'a' <= c && c <= 'z':
				b[i] = c - 32
			case 'A' <= c && c <= 'Z':
				b[i] = c + 32
			}
		}
	}
	return string(b)
}

var pageSizes = []int32{0, 1, 2, 3, 7, 50, 1000, 5000}

func genPageSize(r *rand.Rand) int32 {
	switch r.Intn(10) {
	case 0:
		return int32(r.Intn(70))
	case 1:
		return int32(900 + r.Intn(300))
	case 2:
		return int32(r.Int31())
	default:
		return pageSizes[r.Intn(len(pageSizes))]
	}
}

// corruptToken derives a hostile token from a valid one.
func corruptToken(r *rand.Rand, variant, valid string, ids []string) (string, string) {
	if variant == "waste" {
		switch r.Intn(10) {
		case 0:
			return strconv.Itoa(len(ids) + 1 + r.Intn(5)), "index>n"
		case 1:
			return strconv.Itoa(len(ids) + 99898), "index>>n"
		case 2:
			return strconv.Itoa(-1 - r.Intn(5)), "index<0"
		case 3:
			return "99999999999999999999", "overflow"
		case 4:
			return valid + "x", "garbage"
		case 5:
			return "+" + strconv.Itoa(r.Intn(len(ids)+1)), "plus-sign"
		case 6:
			return " " + valid, "space"
		case 7:
			return strconv.Itoa(r.Intn(len(ids) + 1)), "index-in-range"
		case 8: // a token of the OTHER kind of lister: base64 of a PageToken
			return encodeKeyToken(genID(r)), "key-token"
		default:
			return []string{"0x10", "1e2", "1_0", "٣", "", "0 ", "-0", "007"}[r.Intn(8)], "odd-number"
		}
	}
	b := []byte(valid)
	if r.Intn(3) == 0 {
		// well-formed or nearly well-formed protobuf / base64 variations
		raw, _ := base64.StdEncoding.DecodeString(valid)
		switch r.Intn(9) {
		case 0: // the other member of the oneof: decodes, no last_resource_name
			pb, _ := proto.Marshal(&types.PageToken{PageStart: &types.PageToken_LastOffset{LastOffset: int32(r.Intn(100))}})
			return base64.StdEncoding.EncodeToString(pb), "oneof-last-offset"
		case 1: // unknown fields after the key (skipped by proto.Unmarshal)
			extra := [][]byte{{0x18, 0x07}, {0x22, 0x02, 'h', 'i'}, {0x2d, 1, 2, 3, 4}, {0x31, 1, 2, 3, 4, 5, 6, 7, 8}}[r.Intn(4)]
			return base64.StdEncoding.EncodeToString(append(append([]byte{}, raw...), extra...)), "unknown-field"
		case 2: // the key field twice: the last one wins
			k2, _ := proto.Marshal(&types.PageToken{PageStart: &types.PageToken_LastResourceName{LastResourceName: genID(r)}})
			return base64.StdEncoding.EncodeToString(append(append([]byte{}, raw...), k2...)), "repeated-field"
		case 3: // key then last_offset: the oneof now holds the offset
			k2, _ := proto.Marshal(&types.PageToken{PageStart: &types.PageToken_LastOffset{LastOffset: 3}})
			return base64.StdEncoding.EncodeToString(append(append([]byte{}, raw...), k2...)), "oneof-overwritten"
		case 4: // a token of the OTHER kind of lister: a decimal index
			return strconv.Itoa(r.Intn(2000)), "index-token"
		case 5: // URL-safe alphabet
			return base64.URLEncoding.EncodeToString(raw), "url-alphabet"
		case 6: // no padding
			return base64.RawStdEncoding.EncodeToString(raw), "raw-no-padding"
		case 7: // line breaks inside the text (Go's decoder ignores \r and \n)
			if len(valid) > 2 {
				i := 1 + r.Intn(len(valid)-1)
				return valid[:i] + "\n" + valid[i:], "embedded-newline"
			}
			return valid + "\r\n", "embedded-newline"
		default: // the key is not valid UTF-8: proto.Unmarshal refuses a string field like that
			bad := append([]byte{0x12, 2}, 0xff, 0xfe)
			return base64.StdEncoding.EncodeToString(bad), "non-utf8-key"
		}
	}
	switch r.Intn(8) {
	case 0: // bit flip in the base64 text
		if len(b) > 0 {
			i := r.Intn(len(b))
			b[i] ^= 1 << uint(r.Intn(7))
		}
		return string(b), "bitflip-text"
	case 1: // bit flip in the decoded bytes
		raw, _ := base64.StdEncoding.DecodeString(valid)
		if len(raw) > 0 {
			i := r.Intn(len(raw))
			raw[i] ^= 1 << uint(r.Intn(8))
		}
		return base64.StdEncoding.EncodeToString(raw), "bitflip-bytes"
	case 2: // truncation of the text
		if len(b) > 1 {
			b = b[:1+r.Intn(len(b)-1)]
		}
		return string(b), "truncate-text"
	case 3: // truncation of the bytes
		raw, _ := base64.StdEncoding.DecodeString(valid)
		if len(raw) > 1 {
			raw = raw[:1+r.Intn(len(raw)-1)]
		}
		return base64.StdEncoding.EncodeToString(raw), "truncate-bytes"
	case 4: // valid base64 of random bytes
		raw := make([]byte, 1+r.Intn(12))
		r.Read(raw)
		return base64.StdEncoding.EncodeToString(raw), "random-bytes"
	case 5: // a well-formed token naming a key that is not in the collection
		return encodeKeyToken(genID(r)), "absent-key"
	case 6: // a well-formed token with an empty last key
		return encodeKeyToken(""), "empty-last-key"
	default:
		return "not base64 !", "not-base64"
	}
}
