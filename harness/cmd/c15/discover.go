package main

import (
	"fmt"
	"go/ast"
	"go/parser"
	"go/token"
	"io/fs"
	"path/filepath"
	"sort"
	"strings"

	"google.golang.org/protobuf/reflect/protoreflect"
	"google.golang.org/protobuf/reflect/protoregistry"

	_ "github.com/smart-core-os/sc-api/go/traits" // registers the request / response descriptors

	"github.com/smart-core-os/sc-golang/verifharness/lib"
)

// Paged listers are discovered from the working tree on every run, so that a new one cannot go undriven:
// every hand-written (not *.pb.go, not _test.go) method `List…(ctx, *XRequest) (*XResponse, error)` under pkg/
// whose request message has a `page_token` field and whose response has `next_page_token` (by the compiled
// protobuf descriptors, not by how the body is written). Each must be in the harness's table.

// listers that take a page token but never page, with the reason they are not driven
var singlePage = map[string]string{}

// tableNames maps "<package dir>.<Method>" to the harness's rpc name.
func tableNames() map[string]string {
	out := map[string]string{}
	for _, r := range rpcs() {
		parts := strings.SplitN(r.Name, ".", 2)
		out[parts[0]+"pb."+parts[1]] = r.Name
	}
	return out
}

func hasField(msgName, field string) bool {
	found := false
	protoregistry.GlobalFiles.RangeFiles(func(fd protoreflect.FileDescriptor) bool {
		msgs := fd.Messages()
		for i := 0; i < msgs.Len(); i++ {
			m := msgs.Get(i)
			if string(m.Name()) == msgName && m.Fields().ByName(protoreflect.Name(field)) != nil {
				found = true
				return false
			}
		}
		return true
	})
	return found
}

func typeName(e ast.Expr) string {
	if s, ok := e.(*ast.StarExpr); ok {
		e = s.X
	}
	switch t := e.(type) {
	case *ast.SelectorExpr:
		return t.Sel.Name
	case *ast.Ident:
		return t.Name
	}
	return ""
}

func discoverListers() ([]string, error) {
	root := filepath.Join(lib.RepoRoot(), "pkg")
	var found []string
	fset := token.NewFileSet()
	err := filepath.WalkDir(root, func(path string, d fs.DirEntry, err error) error {
		if err != nil {
			return err
		}
		if d.IsDir() || !strings.HasSuffix(path, ".go") || strings.HasSuffix(path, ".pb.go") || strings.HasSuffix(path, "_test.go") {
			return nil
		}
		f, err := parser.ParseFile(fset, path, nil, parser.SkipObjectResolution)
		if err != nil {
			return nil // a file that does not parse breaks the harness build anyway
		}
		for _, decl := range f.Decls {
			fn, ok := decl.(*ast.FuncDecl)
			if !ok || fn.Recv == nil || fn.Body == nil || !strings.HasPrefix(fn.Name.Name, "List") {
				continue
			}
			if fn.Type.Params == nil || fn.Type.Results == nil || fn.Type.Params.NumFields() != 2 || fn.Type.Results.NumFields() != 2 {
				continue
			}
			req := typeName(fn.Type.Params.List[len(fn.Type.Params.List)-1].Type)
			resp := typeName(fn.Type.Results.List[0].Type)
			if req == "" || resp == "" || !hasField(req, "page_token") || !hasField(resp, "next_page_token") {
				continue
			}
			found = append(found, filepath.Base(filepath.Dir(path))+"."+fn.Name.Name)
		}
		return nil
	})
	sort.Strings(found)
	return found, err
}

// discovery records one tie case per discovered lister: the table says how it is driven.
func discovery(tie *lib.Tie) {
	found, err := discoverListers()
	if err != nil {
		tie.Fail(err)
		return
	}
	table := tableNames()
	seen := map[string]bool{}
	for _, name := range found {
		if seen[name] {
			continue // several receivers in one package (e.g. a model server and a wrapper written by hand)
		}
		seen[name] = true
		model := "not in the harness table: this paged lister is not driven"
		if rn, ok := table[name]; ok {
			model = "driven as " + rn
		} else if why, ok := singlePage[name]; ok {
			model = "single page: " + why
		}
		code := "paged lister in the tree"
		if strings.HasPrefix(model, "driven") || strings.HasPrefix(model, "single") {
			code = model
		}
		tie.Count("lister:" + name)
		tie.Record(name, true, map[string]string{"lister": name}, model, code)
	}
	for name, rn := range table {
		if !seen[name] {
			// the table drives something the source scan does not see (renamed / moved): the tie must say so
			tie.Record(name, true, map[string]string{"lister": name}, "driven as "+rn, "no such List method found under pkg/")
		}
	}
	if len(found) == 0 {
		tie.Fail(fmt.Errorf("no paged lister found under %s/pkg", lib.RepoRoot()))
	}
}
