package main

import (
	"encoding/hex"
	"fmt"
	"math/rand"
	"unicode/utf8"

	"github.com/smart-core-os/sc-golang/verifharness/lib"
)

// codecCase: a one-item collection whose key is an arbitrary byte string (possibly not UTF-8). The
// first page (size 1) mints a token from that key; the second call uses it.
type codecCase struct {
	RPC  string `json:"rpc"`
	Key  string `json:"key_hex"`
	Init int    `json:"ninit,omitempty"` // 1: the item is an initial record, 0: it comes from the creation API
}

var codecEdge = []string{
	"\x00", "a", "\x7f", "\xc2\x80", "\xdf\xbf", "\xe0\xa0\x80", "\xef\xbf\xbf", "\xef\xbb\xbfa", "\xf0\x90\x80\x80", "\xf4\x8f\xbf\xbf",
	// not UTF-8: lone continuation, overlong forms, surrogates, beyond U+10FFFF, truncated sequences
	"abcdefghijklmnopqrstuvw", "site-7/lobby/lift-bank-A/hail-0001", "\x00\x00\x00\x00\x00\x00\x00\x00\x00\x00\x00\x00\x00\x00\x00\x00\x00\x00\x00\x00\x00\x00\x00\x00\x00\x00\x00\x00\x00\x00",
	"\x80", "\xff", "\xc0\xaf", "\xc1\xbf", "\xe0\x80\x80", "\xed\xa0\x80", "\xed\xbf\xbf", "\xf4\x90\x80\x80", "\xf8\x88\x80\x80\x80", "\xe2\x82", "a\xf0\x9f\x98", "ab\xc3",
}

func genBytes(r *rand.Rand) string {
	if r.Intn(6) == 0 {
		// long keys (a generated id has at most 20 characters): valid or not
		s := ""
		for n := 21 + r.Intn(300); len(s) < n; {
			s += genBytes(r)
		}
		return s
	}
	switch r.Intn(3) {
	case 0:
		return codecEdge[r.Intn(len(codecEdge))]
	case 1: // valid: random runes
		n := 1 + r.Intn(5)
		s := ""
		for i := 0; i < n; i++ {
			var c rune
			switch r.Intn(4) {
			case 0:
				c = rune(r.Intn(0x80))
			case 1:
				c = rune(0x80 + r.Intn(0x800-0x80))
			case 2:
				c = rune(0x800 + r.Intn(0x10000-0x800))
				if c >= 0xd800 && c <= 0xdfff {
					c = 0xe000
				}
			default:
				c = rune(0x10000 + r.Intn(0x110000-0x10000))
			}
			s += string(c)
		}
		return s
	default: // arbitrary bytes
		b := make([]byte, 1+r.Intn(8))
		r.Read(b)
		return string(b)
	}
}

// ownTokenRejected: the last codecCase.run saw the server refuse the token it had just issued.
var ownTokenRejected bool

func (c codecCase) run() (out string, panicMsg string) {
	ownTokenRejected = false
	r, _ := rpcByName(c.RPC)
	kb, _ := hex.DecodeString(c.Key)
	key := string(kb)
	var res string
	p, msg := lib.Catch(func() {
		inst, err := r.build(r, []string{key}, c.Init, nil)
		if err != nil {
			res = "build-error: " + err.Error()
			return
		}
		first := inst.list(1, "", nil)
		if first.Err != nil {
			if codeName(first.Err) == "Unknown" {
				res = "invalid"
			} else {
				res = "err " + codeName(first.Err)
			}
			return
		}
		second := inst.list(1, first.Next, nil)
		res = canon(r.Variant, nil, first) + " | " + canon(r.Variant, nil, second)
		if first.Next != "" && second.Err != nil {
			ownTokenRejected = true
		}
	})
	if p {
		return "panic", msg
	}
	return res, ""
}

func (rn *runner) codec(r *rand.Rand, tie *lib.Tie, n int) {
	var cases []codecCase
	var lines []string
	add := func(rp rpc, key string) {
		cases = append(cases, codecCase{RPC: rp.Name, Key: hex.EncodeToString([]byte(key)), Init: len(cases) % 2})
		lines = append(lines, "codec "+rp.Variant+" "+hex.EncodeToString([]byte(key)))
	}
	for _, rp := range rpcs() {
		if rp.Variant == "waste" {
			continue // integer tokens: strconv round trip is exercised by every waste chain
		}
		for _, k := range codecEdge {
			add(rp, k)
		}
		for i := 0; i < n; i++ {
			add(rp, genBytes(r))
		}
	}
	var ans []string
	if rn.drv != nil {
		var err error
		ans, err = rn.drv.Batch(lines)
		if err != nil {
			tie.Fail(err)
			return
		}
	}
	for i, c := range cases {
		out, pmsg := c.run()
		kb, _ := hex.DecodeString(c.Key)
		valid := utf8.Valid(kb)
		tie.Count(fmt.Sprintf("utf8-valid=%v", valid))
		rn.mon.Eval("codec|"+c.RPC+"|"+c.Key, true, nil)
		rn.mon.Count("class:codec")
		if out == "panic" {
			rn.mon.Violate("C15/"+c.RPC+"/codec/panic", "listing a collection whose key is an arbitrary byte string panicked", c, "a response or an error status", "panic: "+pmsg)
		} else if valid && out == "invalid" {
			rn.mon.Violate("C15/"+c.RPC+"/codec/valid-key-rejected", "a page token could not be minted from a valid UTF-8 key", c, "a token that decodes to the key", out)
		} else if ownTokenRejected {
			rn.mon.Violate("C15/"+c.RPC+"/codec/own-token-rejected", "the server answered the next_page_token it had just issued with an error", c, "the page after the key", out)
		}
		if ans != nil {
			tie.Record(c.RPC+"|"+c.Key, true, c, ans[i], out)
		}
	}
}
