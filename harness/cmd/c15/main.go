// Harness for C15 (paged List RPCs enumerate every item exactly once): runs paging scenarios on the
// seven real List RPCs, compares every call with the Lean model (driverC15) and evaluates the
// property directly with an independent oracle.
package main

import (
	"encoding/hex"
	"encoding/json"
	"fmt"
	"math/rand"
	"os"
	"strings"
	"unicode/utf8"

	"github.com/smart-core-os/sc-golang/verifharness/lib"
)

type runner struct {
	f     lib.Flags
	drv   *lib.Driver
	tie   *lib.Tie
	small *lib.Tie
	mon   *lib.Monitor
	// pending model queries
	lines []string
	pend  []pending
}

type pending struct {
	sc    scenario
	tie   *lib.Tie
	calls []call
	first int // index of the first answer line of this scenario (after the optional keys line)
}

func (rn *runner) do(sc scenario, tie *lib.Tie) {
	r, _ := rpcByName(sc.RPC)
	calls, full, err := sc.run()
	if err != nil {
		rn.mon.Error = err.Error()
		return
	}
	nontrivial := len(calls) > 1 || len(sc.collection()) > 0
	key := fmt.Sprintf("%s|%d|%v|%s|%v|%v", sc.RPC, len(sc.IDs), sc.Sizes, sc.Token, sc.Delete, sc.Mask)
	rn.mon.Eval(key, nontrivial, sc.summary())
	rn.mon.Count("class:" + sc.Class)
	if sc.Mask != nil {
		rn.mon.Count(fmt.Sprintf("read-mask:key-visible=%v,witness-visible=%v", sc.keyVisible(), sc.witVisible()))
	}
	sc.monitor(rn.mon, r.Variant, calls, full)
	tie.Count("class:" + sc.Class)
	tie.Count("rpc:" + sc.RPC)
	for _, c := range calls {
		o := c.Out
		if i := strings.IndexByte(o, ' '); i > 0 && strings.HasPrefix(o, "ok") {
			o = "ok"
		}
		tie.Count("outcome:" + o)
	}
	if rn.drv == nil {
		return
	}
	lines := sc.driverLines(r.Variant, calls)
	first := len(rn.lines)
	if r.Variant != "waste" {
		first++
	}
	rn.lines = append(rn.lines, lines...)
	rn.pend = append(rn.pend, pending{sc: sc, tie: tie, calls: calls, first: first})
	if len(rn.lines) > 4000 {
		rn.flush()
	}
}

func (rn *runner) flush() {
	if rn.drv == nil || len(rn.lines) == 0 {
		return
	}
	ans, err := rn.drv.Batch(rn.lines)
	if err != nil {
		rn.tie.Fail(err)
		rn.lines, rn.pend = nil, nil
		return
	}
	for _, p := range rn.pend {
		for i, c := range p.calls {
			key := fmt.Sprintf("%s|%d|%d|%s|%v", p.sc.RPC, len(p.sc.IDs), c.Size, c.Tok, p.sc.keyVisible())
			in := map[string]any{"scenario": p.sc.summary(), "call": i, "size": c.Size, "token": c.Token, "model_request": rn.lines[p.first+i]}
			p.tie.Record(key, true, in, ans[p.first+i], c.Out)
		}
	}
	rn.lines, rn.pend = nil, nil
}

func main() {
	f := lib.ParseFlags()
	if f.Replay != "" {
		os.Exit(replay(f))
	}
	res := lib.NewResult("C15", f)
	rn := &runner{f: f}
	rn.small = res.Tie("paging-small-exhaustive", "K2",
		"every collection over the id pool {a,ab,b} (waste: 0..3 records) x page size {-2,-1,0,1,2,3} x starting token {empty, last key in {'',a,aa,ab,b,c}, undecodable text, undecodable bytes} (waste: {empty,0..4,-1,text,overflow}) on each of the seven RPCs, chain followed to its end; every call compared with the Lean model; distinct = (rpc, |ids|, size, decoded token)")
	rn.small.Exhaustive = true
	rn.tie = res.Tie("paging-scenarios", "K1",
		"structured random paging scenarios from one PRNG: collection sizes 0-60/49,50,51/999-1001, page sizes {-5..0,1,2,3,7,50,1000,5000,random} fixed or varying per page, prefix-related and multi-byte ids, hostile tokens (bit flips, truncation, base64 of random bytes, tokens for deleted/absent keys, out-of-range indices); every List call compared with the Lean model; distinct = (rpc, |ids|, size, decoded token)")
	rn.mon = res.Monitor("paging-property",
		"per scenario, oracle = ids sorted bytewise (waste: reverse insertion order) filtered by the harness's own decoding of the starting token: no panic; negative size and malformed token answered by an error; otherwise no error, |page| <= min(size or 50, 1000), total_size = |items|, empty token reached within |items|+1 pages, concatenation = listing; non-trivial = non-empty collection or more than one page")
	codecTie := res.Tie("token-codec", "K1",
		"token encode/decode identity on the six key-token RPCs: a one-item collection whose key is an ARBITRARY byte string (22 edge cases: NUL, 1-4 byte runes, BOM, overlong forms, surrogates, > U+10FFFF, truncated sequences; random runes; random bytes); page 1 mints a token from the key, the harness decodes it with its own base64(std)+proto reader, call 2 uses it. Model: the key is a String (valid UTF-8) and the token carries it unchanged, or the bytes are not a String ('invalid': proto.Marshal refuses the token, the RPC answers Unknown); distinct = (rpc, bytes)")
	if f.Driver != "" {
		d, err := lib.StartDriver(f.Driver)
		if err != nil {
			rn.tie.Fail(err)
			rn.small.Fail(err)
			codecTie.Fail(err)
		} else {
			rn.drv = d
			defer d.Close()
		}
	} else {
		rn.tie.Fail(fmt.Errorf("no driver given"))
		rn.small.Fail(fmt.Errorf("no driver given"))
		codecTie.Fail(fmt.Errorf("no driver given"))
	}
	rng := lib.NewRand(f.Seed)
	rn.codec(rng, codecTie, f.N(40, 2000))
	rn.smallExhaustive()
	rn.flush()
	rn.random(rng)
	rn.flush()
	if err := res.Write(f.Out); err != nil {
		lib.Fatal(err)
	}
}

func (rn *runner) smallExhaustive() {
	pool := []string{"a", "ab", "b"}
	sizes := []int32{-2, -1, 0, 1, 2, 3}
	keyToks := []string{"", encodeKeyToken(""), encodeKeyToken("a"), encodeKeyToken("aa"), encodeKeyToken("ab"), encodeKeyToken("b"), encodeKeyToken("c"), "!!!", "/w=="}
	wasteToks := []string{"", "0", "1", "2", "3", "4", "-1", "x", "99999999999999999999"}
	for _, r := range rpcs() {
		if r.Variant == "waste" {
			for n := 0; n <= 3; n++ {
				ids := []string{"r0", "r1", "r2"}[:n]
				for _, s := range sizes {
					for _, t := range wasteToks {
						rn.do(scenario{RPC: r.Name, IDs: ids, Sizes: []int32{s}, Token: t, Class: "small"}, rn.small)
					}
				}
			}
			continue
		}
		for mask := 0; mask < 8; mask++ {
			var ids []string
			for i, p := range pool {
				if mask&(1<<i) != 0 {
					ids = append(ids, p)
				}
			}
			for _, s := range sizes {
				for _, t := range keyToks {
					rn.do(scenario{RPC: r.Name, IDs: ids, Sizes: []int32{s}, Token: t, Class: "small"}, rn.small)
					// the same with a read mask that hides the key field
					rn.do(scenario{RPC: r.Name, IDs: ids, Sizes: []int32{s}, Token: t, Mask: hideKey(r), Class: "small-masked"}, rn.small)
				}
			}
		}
	}
}

// hideKey is a valid read mask that does not mention the key field.
func hideKey(r rpc) []string {
	if r.Wit != "" {
		return []string{r.Wit}
	}
	return []string{"dispensing"} // Consumable_Stock has no second string field
}

// genMask draws a read mask: none, key only, witness only (key hidden), both.
func genMask(r *rand.Rand, rp rpc) []string {
	switch r.Intn(8) {
	case 0:
		return []string{rp.Key}
	case 1, 2:
		return hideKey(rp)
	case 3:
		if rp.Wit != "" {
			return []string{rp.Key, rp.Wit}
		}
		return []string{rp.Key}
	}
	return nil
}

func (rn *runner) random(r *rand.Rand) {
	all := rpcs()
	collSizes := []int{}
	for n := 0; n <= 60; n++ {
		collSizes = append(collSizes, n)
	}
	big := []int{999, 1000, 1001}
	// 1. enumeration with a fixed page size
	if rn.f.Thorough() {
		for _, rp := range all {
			for _, n := range append(append([]int{}, collSizes...), big...) {
				ids := genIDs(r, n)
				for _, s := range append(append([]int32{}, pageSizes...), genPageSize(r)) {
					if n > 900 && s > 0 && s < 3 && rp.Name != "electric.ListModes" && rp.Name != "waste.ListWasteRecords" {
						continue // one-item pages over ~1000 items cost ~1 s per RPC; two RPC shapes are enough
					}
					rn.do(scenario{RPC: rp.Name, IDs: ids, Sizes: []int32{s}, Mask: genMask(r, rp), Class: "enumerate"}, rn.tie)
				}
			}
		}
	} else {
		for i := 0; i < 260; i++ {
			rp := all[r.Intn(len(all))]
			n := collSizes[r.Intn(len(collSizes))]
			if i%4 == 0 {
				n = []int{49, 50, 51, 100, 150}[r.Intn(5)]
			}
			rn.do(scenario{RPC: rp.Name, IDs: genIDs(r, n), Sizes: []int32{genPageSize(r)}, Mask: genMask(r, rp), Class: "enumerate"}, rn.tie)
		}
		for i, rp := range all {
			n := big[(i+int(rn.f.Seed))%3]
			s := []int32{0, 7, 50, 1000, 5000, 999, 1001}[r.Intn(7)]
			rn.do(scenario{RPC: rp.Name, IDs: genIDs(r, n), Sizes: []int32{s}, Class: "enumerate-big"}, rn.tie)
			// the 1000 cap is only visible with more than 1000 items and a larger request
			rn.do(scenario{RPC: rp.Name, IDs: genIDs(r, 1001+r.Intn(3)), Sizes: []int32{[]int32{5000, 1001, int32(1002 + r.Intn(1<<20))}[r.Intn(3)]}, Class: "enumerate-big"}, rn.tie)
		}
	}
	// 2. page size varying per page
	for i := 0; i < rn.f.N(150, 1500); i++ {
		rp := all[r.Intn(len(all))]
		n := r.Intn(61)
		var ss []int32
		for j := 0; j < 1+r.Intn(5); j++ {
			ss = append(ss, genPageSize(r)%70)
		}
		rn.do(scenario{RPC: rp.Name, IDs: genIDs(r, n), Sizes: ss, Mask: genMask(r, rp), Class: "varying"}, rn.tie)
	}
	// 3. negative sizes, on the first page or later in the chain
	for i := 0; i < rn.f.N(150, 1500); i++ {
		rp := all[r.Intn(len(all))]
		n := r.Intn(30)
		if i%7 == 0 {
			n = 0
		}
		neg := int32(-1 - r.Intn(5))
		if r.Intn(10) == 0 {
			neg = -int32(r.Int31()) - 1
		}
		var ss []int32
		for j := 0; j < r.Intn(3); j++ {
			ss = append(ss, int32(1+r.Intn(4)))
		}
		ss = append(ss, neg)
		rn.do(scenario{RPC: rp.Name, IDs: genIDs(r, n), Sizes: ss, Class: "negative"}, rn.tie)
	}
	// 4. hostile tokens
	for i := 0; i < rn.f.N(400, 6000); i++ {
		rp := all[r.Intn(len(all))]
		n := r.Intn(25)
		if i%10 == 0 {
			n = 100 + r.Intn(3)
		}
		ids := genIDs(r, n)
		// a valid token minted for this collection
		valid := ""
		if n > 0 {
			if rp.Variant == "waste" {
				valid = fmt.Sprint(1 + r.Intn(n))
			} else {
				valid = encodeKeyToken(ids[r.Intn(n)])
			}
		} else if rp.Variant == "waste" {
			valid = "0"
		} else {
			valid = encodeKeyToken("a")
		}
		sc := scenario{RPC: rp.Name, IDs: ids, Sizes: []int32{genPageSize(r) % 9}}
		switch {
		case r.Intn(5) == 0 && n > 0 && rp.Variant != "waste":
			// a valid token whose key has since been deleted
			k := ids[r.Intn(n)]
			sc.Delete = []string{k}
			sc.Token = encodeKeyToken(k)
			sc.Class = "token:deleted-key"
		case r.Intn(6) == 0:
			sc.Token = valid
			sc.Class = "token:valid"
		default:
			var cls string
			sc.Token, cls = corruptToken(r, rp.Variant, valid, ids)
			sc.Class = "token:" + cls
		}
		sc.Mask = genMask(r, rp)
		if r.Intn(12) == 0 {
			sc.Sizes = []int32{-1 - int32(r.Intn(5))}
			sc.Class += "+negative"
		}
		rn.do(sc, rn.tie)
	}
}

func replay(f lib.Flags) int {
	rp, err := lib.ReadReplay(f.Replay)
	if err != nil {
		lib.Fatal(err)
	}
	b, _ := json.Marshal(rp.Input)
	var cc codecCase
	if err := json.Unmarshal(b, &cc); err == nil && cc.RPC != "" && cc.Key != "" {
		out, pmsg := cc.run()
		fmt.Printf("codec case %s key=%s -> %s %s\n", cc.RPC, cc.Key, out, pmsg)
		kb, _ := hex.DecodeString(cc.Key)
		if out == "panic" || (utf8.Valid(kb) && out == "invalid") {
			fmt.Println("STILL FAILS C15/" + cc.RPC + "/codec: " + out)
			return 1
		}
		fmt.Println("replay: property holds on this input now")
		return 0
	}
	var sc scenario
	if err := json.Unmarshal(b, &sc); err != nil || sc.RPC == "" || len(sc.Sizes) == 0 {
		fmt.Println("replay: no concrete scenario in file (", rp.Kind, rp.Broken, ")")
		return 2
	}
	r, ok := rpcByName(sc.RPC)
	if !ok {
		fmt.Println("replay: unknown rpc", sc.RPC)
		return 2
	}
	calls, full, err := sc.run()
	if err != nil {
		fmt.Println("replay: cannot run scenario:", err)
		return 2
	}
	m := lib.NewMonitor("replay", "")
	sc.monitor(m, r.Variant, calls, full)
	for i, c := range calls {
		fmt.Printf("call %d: %s page_size=%d page_token=%q -> %s %s\n", i, sc.RPC, c.Size, c.Token, c.Out, c.Panic)
	}
	if len(m.Violations) > 0 {
		for _, v := range m.Violations {
			fmt.Printf("STILL FAILS %s: %s (expected %s, observed %s)\n", v.Signature, v.What, v.Expected, v.Observed)
		}
		return 1
	}
	fmt.Println("replay: property holds on this input now")
	return 0
}
