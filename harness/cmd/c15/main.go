// Harness for C15 (paged List RPCs enumerate every item exactly once): runs paging scenarios on the
// seven real List RPCs, compares every call with the Lean model (driverC15) and evaluates the
// property directly with an independent oracle.
package main

import (
	"encoding/hex"
	"encoding/json"
	"fmt"
	"math/rand"
	"os"
	"strings"
	"unicode/utf8"

	"github.com/smart-core-os/sc-golang/verifharness/lib"
)

type runner struct {
	f     lib.Flags
	drv   *lib.Driver
	tie   *lib.Tie
	small *lib.Tie
	mon   *lib.Monitor
	rng   *rand.Rand // set while the random families run: draws the creation route of each scenario
	// pending model queries
	lines []string
	pend  []pending
}

type pending struct {
	sc  scenario
	tie *lib.Tie
	qs  []modelQ
	at  int // index of the first line of this scenario in rn.lines
}

func (rn *runner) do(sc scenario, tie *lib.Tie) {
	r, _ := rpcByName(sc.RPC)
	if rn.rng != nil && r.Variant != "waste" {
		sc.NInit = pickInit(rn.rng, len(sc.IDs))
	}
	// (initial records are configured in the spelling drawn: since 215ba16 NewCollection keeps them under the
	// interceptor's image of their id, like every other creation route)
	res, err := sc.run()
	if err != nil {
		rn.mon.Error = err.Error()
		return
	}
	ncalls := len(res.warm)
	for _, p := range res.passes {
		ncalls += len(p)
	}
	if res.pre != nil {
		ncalls += len(res.pre.calls)
	}
	nontrivial := ncalls > 1 || len(res.coll) > 0
	key := fmt.Sprintf("%s|%d|%v|%s|%v|%v|%v|%v|%d|%d|%s|%v", sc.RPC, len(sc.IDs), sc.Sizes, sc.Token, sc.Delete, sc.Mask, sc.Ops, sc.Warm, sc.Passes, sc.NInit, sc.Icpt, inflightKey(sc.Inflight))
	if len(sc.Raw) > 0 {
		key += fmt.Sprintf("|raw=%v", sc.Raw)
		tie.Count(fmt.Sprintf("raw-initial-records:%d", len(sc.Raw)))
	}
	if sc.Icpt != "" {
		key += "|" + strings.Join(sc.IDs, "\x00")
		tie.Count("interceptor:" + sc.Icpt)
	}
	if sc.Inflight != nil {
		if sc.Inflight.Op != nil {
			tie.Count("inflight-hooked:" + sc.Inflight.Op.Kind + "@" + sc.Inflight.Point + ":" + res.inflight)
		} else if sc.Inflight.Accept {
			tie.Count("inflight-accepting:" + sc.Inflight.Kind + ":" + res.inflight)
		} else {
			tie.Count("inflight:" + sc.Inflight.Kind + ":" + res.inflight)
		}
	}
	rn.mon.Eval(key, nontrivial, sc.summary())
	rn.mon.Count("class:" + sc.Class)
	if sc.Mask != nil {
		rn.mon.Count(fmt.Sprintf("read-mask:key-visible=%v,witness-visible=%v", sc.keyVisible(), sc.witVisible()))
	}
	sc.monitor(rn.mon, r.Variant, res)
	tie.Count("class:" + sc.Class)
	tie.Count("rpc:" + sc.RPC)
	for i, o := range res.ops {
		op := sc.Ops[i]
		kind := op.Kind
		if op.Upsert {
			kind += "+create-if-absent"
		}
		if op.Mask != "" {
			kind += "+mask-" + op.Mask
		}
		if op.MsgID != "" {
			kind += "+foreign-id"
		}
		if op.AllowMissing {
			kind += "+allow-missing"
		}
		if op.Via != "" {
			kind += "+via-" + op.Via
		}
		tie.Count("op:" + kind + ":" + strings.SplitN(o, " ", 2)[0])
	}
	if len(sc.IDs) > 0 && r.Variant != "waste" {
		switch sc.NInit {
		case 0:
			tie.Count("route:creation-api")
		case len(sc.IDs):
			tie.Count("route:initial-records")
		default:
			tie.Count("route:mixed")
		}
	}
	for _, id := range sc.IDs {
		if len(id) > 22 {
			tie.Count("ids:longer-than-22-bytes")
			break
		}
	}
	count := func(c call) {
		o := c.Out
		if i := strings.IndexByte(o, ' '); i > 0 && strings.HasPrefix(o, "ok") {
			o = "ok"
		}
		tie.Count("outcome:" + o)
	}
	for _, c := range res.warm {
		count(c)
	}
	if res.pre != nil {
		for _, c := range res.pre.calls {
			count(c)
		}
	}
	for _, p := range res.passes {
		for _, c := range p {
			count(c)
		}
	}
	if rn.drv == nil {
		return
	}
	qs := sc.driverLines(r.Variant, res)
	at := len(rn.lines)
	for _, q := range qs {
		rn.lines = append(rn.lines, q.Line)
	}
	rn.pend = append(rn.pend, pending{sc: sc, tie: tie, qs: qs, at: at})
	if len(rn.lines) > 4000 {
		rn.flush()
	}
}

func inflightKey(w *guardedWrite) string {
	if w == nil {
		return ""
	}
	b, _ := json.Marshal(w)
	return string(b)
}

func (rn *runner) flush() {
	if rn.drv == nil || len(rn.lines) == 0 {
		return
	}
	ans, err := rn.drv.Batch(rn.lines)
	if err != nil {
		rn.tie.Fail(err)
		rn.lines, rn.pend = nil, nil
		return
	}
	for _, p := range rn.pend {
		for i, q := range p.qs {
			if q.Key == "" {
				continue // state-setting line, nothing to compare
			}
			in := map[string]any{"scenario": p.sc.summary(), "step": q.What, "model_request": q.Line}
			p.tie.Record(q.Key, true, in, ans[p.at+i], q.Code)
		}
	}
	rn.lines, rn.pend = nil, nil
}

func main() {
	f := lib.ParseFlags()
	if f.Replay != "" {
		os.Exit(replay(f))
	}
	res := lib.NewResult("C15", f)
	rn := &runner{f: f}
	rn.small = res.Tie("paging-small-exhaustive", "K2",
		"every collection over the id pool {a,ab,b} (waste: 0..3 records), built through the creation API and as initial records, x page size {-2,-1,0,1,2,3} x starting token {empty, last key in {'',a,aa,ab,b,c}, undecodable text, undecodable bytes} (waste: {empty,0..4,-1,text,overflow}) on each of the seven RPCs, with and without a read mask hiding the key, chain followed to its end; plus every sequence of <= 2 store operations over the full alphabet (ids a, b, empty; generated ids; parent AddChild/AddChildTrait; Update* with create-if-absent, with update masks naming / leaving out the key field / without any path; publication updates with the id in the message, without it, and with a FOREIGN id; deletes with and without allow-missing; the trait servers' own Create/Update/Delete/AcknowledgePublication/Dispense RPCs) on a collection {a}, then two passes of one-item pages (default-size pages too for every single op and a quarter of the pairs); plus every non-empty collection over 5 long / odd ids (35, 35, 304, 40 bytes; control, base64 and URL characters) through every creation route (initial records, creation API, create-if-absent updates, AddChild/AddChildTrait), one- and two-item pages from the start and from a token; plus records configured through the RAW option resource.WithInitialRecord(storage id, message) whose key field is not the storage id ({zz->ab}, {0->c}; with a lower-casing interceptor {ZZ->Ab}, {0->C}) next to every collection within {a,b}, x page size {1,2,0} x 5 tokens, and every single store op over {a, zz} on top; plus models built with resource.WithIDInterceptor (ASCII lower / upper casing): every non-empty collection over {a, B, Ab} (storage-id order differs from spelling order) through the creation API and as (normalised) initial records x page size {1,2,0} x tokens for every spelling, and every sequence of <= 2 store ops over the spellings {a, B} on a collection {A}; plus a REFUSED write (Update* of an existing / absent id with and without create-if-absent, Delete*, waste AddWasteRecord) parked in its WithExpectedCheck callback during the unpaged listing and every List call of two passes; plus the same writes ACCEPTED (the callback parks, then returns nil): unpaged listing + one chain while the write is parked (judged against the contents BEFORE it), then the write completes and the listing + two passes are taken again (judged against the contents AFTER it); plus EVERY store op of the alphabet over {a, c} (update masks without paths included; the APIs without write options - parent AddChild/AddChildTrait/RemoveChildTrait, Create*, the servers' RPCs - too) parked at a yield point of the resource layer (gau.beforeLock / gau.afterRead / coll.delete.afterRead: after the verdict, before the write lock) on {a} and {a,b}, listed and paged while parked and again after it was let through; plus, on the model whose write paths depend on what the stored records carry besides their key (vending inventory: quantities kept in litres / in litres and kilograms / in kilograms only), for every such payload: every single op and every pair of ops with a Dispense (in an unspecified unit, litres, kilograms: succeeds, fails at once, fails half-way - the write interceptor then makes the write a copy of the stored record and the RPC reports the error -, absent stock) before and after updates that keep / replace the payload, deletes and re-creations, on initial, raw and created records, and every Dispense parked at a yield point of the resource layer; every construction step, op outcome, the listing (key fields in Collection.List order vs rlisting) and every List call compared with the Lean model; distinct = (rpc, |ids|, size, decoded token, key visible) / (rpc, op kind and options, outcome)")
	rn.small.Exhaustive = true
	rn.tie = res.Tie("paging-scenarios", "K1",
		"structured random paging scenarios from one PRNG: collection sizes 0-60/49,50,51/999-1001, page sizes {-5..0,1,2,3,7,50,1000,5000,random} fixed or varying per page, prefix-related and multi-byte ids, hostile tokens (bit flips, truncation, base64 of random bytes, tokens for deleted/absent keys, other oneof member, unknown fields, repeated field, other listers' tokens, URL/raw alphabets, embedded newlines, out-of-range indices), long ids (to ~600 bytes, shared long prefixes) and ids with control/base64/URL characters, each collection built through a random split of initial records and creation API, collections built by random histories of the models' creation/update/deletion APIs and the servers' CRUD RPCs (create-if-absent, update masks incl. non-nil masks without paths, foreign ids, allow-missing), 2-3 passes over one model, arbitrary warm-up List calls before the chain, half of these with a write in flight (refused throughout; or accepted / any store op parked at a yield point: one chain while it is parked, all passes after it completed); models with a case-mapping id interceptor and mixed-case ids (distinct under the interceptor), histories over re-spellings of them, tokens in other spellings; every op outcome, listing and List call compared with the Lean model; distinct = (rpc, |ids|, size, decoded token, key visible)")
	rn.mon = res.Monitor("paging-property",
		"per scenario, oracle = ids sorted bytewise (waste: reverse insertion order) filtered by the harness's own decoding of the starting token: the collection expected after the store ops comes from the harness's own set oracle (with an id interceptor: a map from intercepted id to the key field as last written; the unpaged listing must be those fields in intercepted-id order, the pages those fields in bytewise order); a refused write in flight during the List calls must end refused and leave the listing as it was; an accepted write parked before its commit (in its expected check or at a yield point) is invisible to the listing and the chain taken meanwhile, completes when released, and the listing and every pass taken afterwards show exactly the contents after it; no listed key is empty; unpaged listing = oracle; no panic; negative size and malformed token answered by an error; otherwise no error, |page| <= min(size or 50, 1000), total_size = |items| on every page (the trailing empty one included), empty token reached within |items|+1 pages, concatenation = listing, on EVERY pass over the same model; the listing is unchanged after all List calls; non-trivial = non-empty collection or more than one call")
	codecTie := res.Tie("token-codec", "K1",
		"token encode/decode identity on the six key-token RPCs: a one-item collection whose key is an ARBITRARY byte string (22 edge cases: NUL, 1-4 byte runes, BOM, overlong forms, surrogates, > U+10FFFF, truncated sequences; random runes; random bytes); page 1 mints a token from the key, the harness decodes it with its own base64(std)+proto reader, call 2 uses it (keys of 1-8 bytes and of 21-320 bytes; the item comes from the creation API or is an initial record; the monitor requires that the server accepts the token it has just issued). Model: the key is a String (valid UTF-8) and the token carries it unchanged, or the bytes are not a String ('invalid': proto.Marshal refuses the token, the RPC answers Unknown); distinct = (rpc, bytes)")
	discTie := res.Tie("lister-discovery", "K3",
		"every hand-written method List…(ctx, *XRequest) (*XResponse, error) under /repo/pkg (not *.pb.go, not tests) whose request message has page_token and whose response has next_page_token according to the compiled protobuf descriptors, found by go/parser on every run; each must be one the harness drives (a lister that is not is a disagreement), and each driven lister must still exist")
	discTie.Exhaustive = true
	discovery(discTie)
	if f.Driver != "" {
		d, err := lib.StartDriver(f.Driver)
		if err != nil {
			rn.tie.Fail(err)
			rn.small.Fail(err)
			codecTie.Fail(err)
		} else {
			rn.drv = d
			defer d.Close()
		}
	} else {
		rn.tie.Fail(fmt.Errorf("no driver given"))
		rn.small.Fail(fmt.Errorf("no driver given"))
		codecTie.Fail(fmt.Errorf("no driver given"))
	}
	rng := lib.NewRand(f.Seed)
	rn.codec(rng, codecTie, f.N(40, 2000))
	rn.smallExhaustive()
	rn.smallOps()
	rn.smallLong()
	rn.smallIcpt()
	rn.smallInflight()
	rn.smallHooked()
	rn.smallRaw()
	rn.smallPayload()
	rn.flush()
	rn.rng = rng
	rn.random(rng)
	rn.rng = nil
	rn.flush()
	if err := res.Write(f.Out); err != nil {
		lib.Fatal(err)
	}
}

func (rn *runner) smallExhaustive() {
	pool := []string{"a", "ab", "b"}
	sizes := []int32{-2, -1, 0, 1, 2, 3}
	keyToks := []string{"", encodeKeyToken(""), encodeKeyToken("a"), encodeKeyToken("aa"), encodeKeyToken("ab"), encodeKeyToken("b"), encodeKeyToken("c"), "!!!", "/w=="}
	wasteToks := []string{"", "0", "1", "2", "3", "4", "-1", "x", "99999999999999999999"}
	for _, r := range rpcs() {
		if r.Variant == "waste" {
			for n := 0; n <= 3; n++ {
				ids := []string{"r0", "r1", "r2"}[:n]
				for _, s := range sizes {
					for _, t := range wasteToks {
						rn.do(scenario{RPC: r.Name, IDs: ids, Sizes: []int32{s}, Token: t, Class: "small"}, rn.small)
					}
				}
			}
			continue
		}
		for mask := 0; mask < 8; mask++ {
			var ids []string
			for i, p := range pool {
				if mask&(1<<i) != 0 {
					ids = append(ids, p)
				}
			}
			for _, s := range sizes {
				for _, t := range keyToks {
					// the items come from the creation API, or are configured as initial records
					for _, ninit := range []int{0, len(ids)} {
						rn.do(scenario{RPC: r.Name, IDs: ids, NInit: ninit, Sizes: []int32{s}, Token: t, Class: "small"}, rn.small)
						// the same with a read mask that hides the key field
						rn.do(scenario{RPC: r.Name, IDs: ids, NInit: ninit, Sizes: []int32{s}, Token: t, Mask: hideKey(r), Class: "small-masked"}, rn.small)
						if len(ids) == 0 {
							break
						}
					}
				}
			}
		}
	}
}

// opAlphabet lists the store ops the model behind rp offers, over the given ids. foreign are ids a written message
// may carry where the API takes the id as a separate argument.
func opAlphabet(rp rpc, ids []string, foreign []string) []storeOp {
	var ops []storeOp
	switch {
	case rp.Variant == "waste":
		return nil
	case rp.Name == "parent.ListChildren":
		for _, id := range append([]string{""}, ids...) {
			ops = append(ops, storeOp{Kind: "ensure", ID: id}, storeOp{Kind: "ensure", ID: id, Alt: true})
		}
	case rp.Name == "hail.ListHails":
		ops = append(ops, storeOp{Kind: "add", ID: ""}) // CreateHail always invents the id
	default:
		for _, id := range append([]string{""}, ids...) {
			ops = append(ops, storeOp{Kind: "add", ID: id})
		}
	}
	idArg := rp.Name == "publication.ListPublications" // UpdatePublication(id, message)
	upd := func(id string) {
		ops = append(ops, storeOp{Kind: "update", ID: id})
		if rp.Upd != nil {
			// Update* takes resource write options: create-if-absent, update masks with and without the key field
			ops = append(ops,
				storeOp{Kind: "update", ID: id, Upsert: true},
				storeOp{Kind: "update", ID: id, Upsert: true, Mask: "nokey"},
				storeOp{Kind: "update", ID: id, Upsert: true, Mask: "key"},
				storeOp{Kind: "update", ID: id, Upsert: true, Mask: "empty"},
				storeOp{Kind: "update", ID: id, Mask: "nokey"},
				storeOp{Kind: "update", ID: id, Mask: "empty"})
		}
		if idArg {
			ops = append(ops, storeOp{Kind: "update", ID: id, Alt: true}, storeOp{Kind: "update", ID: id, Alt: true, Upsert: true})
			for _, f := range foreign {
				if f != id && f != "" {
					ops = append(ops,
						storeOp{Kind: "update", ID: id, MsgID: f},
						storeOp{Kind: "update", ID: id, MsgID: f, Mask: "key"},
						storeOp{Kind: "update", ID: id, MsgID: f, Upsert: true})
				}
			}
		}
	}
	// the trait server's own Create… / Update… / Delete… RPCs, where it has them
	hasRPC := map[string]bool{"hail.ListHails": true, "publication.ListPublications": true}
	for _, id := range ids {
		upd(id)
		ops = append(ops, storeOp{Kind: "delete", ID: id}, storeOp{Kind: "delete", ID: id, AllowMissing: true})
		if hasRPC[rp.Name] {
			ops = append(ops, storeOp{Kind: "delete", ID: id, Via: "rpc"}, storeOp{Kind: "delete", ID: id, AllowMissing: true, Via: "rpc"})
		}
		if hasRPC[rp.Name] || rp.Name == "vending.ListInventory" {
			for _, mk := range []string{"", "key", "nokey", "empty"} {
				ops = append(ops, storeOp{Kind: "update", ID: id, Mask: mk, Via: "rpc"})
			}
		}
		switch rp.Name {
		case "publication.ListPublications":
			ops = append(ops, storeOp{Kind: "add", ID: id, Via: "rpc"}, storeOp{Kind: "update", ID: id, Via: "ack"})
		case "vending.ListInventory":
			// Dispense: an update through a write interceptor; what it does depends on the units the stock is kept in
			for _, u := range dispenseUnits {
				ops = append(ops, storeOp{Kind: "update", ID: id, Via: "dispense", Unit: u})
			}
		}
	}
	if hasRPC[rp.Name] {
		ops = append(ops, storeOp{Kind: "add", ID: "", Via: "rpc"}, storeOp{Kind: "update", ID: "", Via: "rpc"})
	}
	if rp.Upd != nil {
		upd("") // the empty id names no item, with or without create-if-absent
	}
	return ops
}

var dispenseUnits = []string{"", "l", "kg", "m3", "none"}

// payloads: the payload variants the records behind rp can carry (scenario.Payload); 0 = nothing but the key.
func payloads(rp rpc) []int {
	switch {
	case rp.Name == "vending.ListInventory":
		return []int{0, 1, 2, 3, richPayload}
	case rp.Variant == "waste":
		return []int{0}
	}
	return []int{0, richPayload}
}

// genPayload draws a payload variant for a scenario on rp.
func genPayload(r *rand.Rand, rp rpc) int {
	if ps := payloads(rp); len(ps) > 1 {
		return ps[r.Intn(len(ps))]
	}
	return 0
}

// payloadDependent: does what op writes depend on what the stored record carries (a write interceptor of the model)?
func payloadDependent(op storeOp) bool { return op.Via == "dispense" }

// smallPayload: on the models whose records carry a payload that write paths depend on, for every payload variant:
// every single op of the alphabet over {a, b} and every pair of ops of which at least one depends on the payload
// (Dispense in every unit class: succeeds, fails at once, fails half-way, names an absent stock; before and after
// updates with and without mask - which keep / replace the payload -, deletes and re-creations), on {a} built as an
// initial record and through the creation API and on {a, b}; then two passes of one-item pages (default size for
// every single op and a quarter of the pairs).
func (rn *runner) smallPayload() {
	for _, rp := range rpcs() {
		for _, pay := range payloads(rp)[1:] {
			alpha := opAlphabet(rp, []string{"a", "b"}, []string{"c"})
			var seqs [][]storeOp
			for _, o1 := range alpha {
				seqs = append(seqs, []storeOp{o1})
			}
			for _, o1 := range alpha {
				for _, o2 := range alpha {
					if payloadDependent(o1) || payloadDependent(o2) {
						seqs = append(seqs, []storeOp{o1, o2})
					}
				}
			}
			for k, ops := range seqs {
				ids, ninit := []string{"a"}, k%2
				if k%3 == 2 {
					ids, ninit = []string{"a", "b"}, 1
				}
				for _, s := range []int32{1, 0} {
					if s == 0 && len(ops) == 2 && k%4 != 0 {
						continue
					}
					rn.do(scenario{RPC: rp.Name, IDs: ids, NInit: ninit, Payload: pay, Ops: ops, Sizes: []int32{s}, Passes: 2, Class: "small-payload-ops"}, rn.small)
				}
			}
			// raw initial records carry the payload too
			for _, op := range alpha {
				if payloadDependent(op) {
					rn.do(scenario{RPC: rp.Name, IDs: []string{"b"}, Raw: []rawRec{{"a", "ab"}}, Payload: pay, Ops: []storeOp{op}, Sizes: []int32{1}, Passes: 2, Class: "small-payload-ops"}, rn.small)
				}
			}
		}
	}
}

// keyMasks: nil, or read masks that keep the key (op scenarios create items whose witness field is not their id).
func keyMask(r *rand.Rand, rp rpc) []string {
	switch r.Intn(4) {
	case 0:
		return []string{rp.Key}
	case 1:
		if rp.Wit != "" {
			return []string{rp.Key, rp.Wit}
		}
	}
	return nil
}

// smallOps: every sequence of at most two store ops over the ids {a, b} (and the empty id where the API takes
// one) on a collection holding {a}, then a chain of one-item pages, twice over the same model.
func (rn *runner) smallOps() {
	for _, rp := range rpcs() {
		alpha := opAlphabet(rp, []string{"a", "b"}, []string{"b", "c"})
		if alpha == nil {
			continue
		}
		var seqs [][]storeOp
		for _, o1 := range alpha {
			seqs = append(seqs, []storeOp{o1})
		}
		for _, o1 := range alpha {
			for _, o2 := range alpha {
				seqs = append(seqs, []storeOp{o1, o2})
			}
		}
		for k, ops := range seqs {
			for _, s := range []int32{1, 0} {
				if s == 0 && len(ops) == 2 && k%4 != 0 {
					continue // default-size pages over <= 3 items are one page: every single op and a quarter of the pairs
				}
				rn.do(scenario{RPC: rp.Name, IDs: []string{"a"}, Ops: ops, Sizes: []int32{s}, Passes: 2, Class: "small-ops"}, rn.small)
			}
		}
	}
}

// longPool: ids no generator of the models would invent: longer than a generated id (CreateHail & co: 8-20
// characters), much longer, multi-byte, and with characters that mean something to base64 / URLs / text protocols.
var longPool = []string{
	"site-7/lobby/lift-bank-A/hail-0001",
	"site-7/lobby/lift-bank-A/hail-0002",
	strings.Repeat("0123456789abcdef", 19),
	" \n\t\x00+=/%\"\\,;&?#",
	strings.Repeat("é", 20),
}

// smallLong: every collection over longPool, through every creation route of the model (initial records, the
// creation API, create-if-absent updates, parent AddChild / AddChildTrait), paged with one- and two-item pages
// from the first page and from a token naming the first id.
func (rn *runner) smallLong() {
	for _, rp := range rpcs() {
		if rp.Variant == "waste" {
			continue // record ids do not travel in waste's tokens
		}
		for mask := 1; mask < 1<<len(longPool); mask++ {
			var ids []string
			for i, p := range longPool {
				if mask&(1<<i) != 0 {
					ids = append(ids, p)
				}
			}
			var scs []scenario
			scs = append(scs, scenario{RPC: rp.Name, IDs: ids, NInit: len(ids)}, scenario{RPC: rp.Name, IDs: ids})
			// through store ops on an empty model
			var adds, ups []storeOp
			for i, id := range ids {
				switch {
				case rp.Name == "parent.ListChildren":
					adds = append(adds, storeOp{Kind: "ensure", ID: id, Alt: i%2 == 1})
				case rp.Name != "hail.ListHails":
					adds = append(adds, storeOp{Kind: "add", ID: id})
				}
				if rp.Upd != nil {
					ups = append(ups, storeOp{Kind: "update", ID: id, Upsert: true, Mask: []string{"", "key", "nokey", "empty"}[i%4]})
				}
			}
			if adds != nil {
				scs = append(scs, scenario{RPC: rp.Name, Ops: adds})
			}
			if ups != nil {
				scs = append(scs, scenario{RPC: rp.Name, Ops: ups})
			}
			for _, sc := range scs {
				for _, s := range []int32{1, 2} {
					sc.Sizes = []int32{s}
					sc.Class = "small-long-ids"
					rn.do(sc, rn.small)
				}
				sc.Sizes = []int32{1}
				sc.Token = encodeKeyToken(ids[0])
				rn.do(sc, rn.small)
			}
		}
	}
}

// smallIcpt: collections with an id interceptor (ASCII lower / upper casing). Every collection over the pool
// {a, B, Ab} - storage-id order (a, ab, b) and key-field order (Ab, B, a) differ - through every creation route,
// paged from the start and from a token for every spelling; and every sequence of <= 2 store ops over the
// spellings {a, B} on a collection holding {A}.
func (rn *runner) smallIcpt() {
	pool := []string{"a", "B", "Ab"}
	toks := []string{"", encodeKeyToken("a"), encodeKeyToken("B"), encodeKeyToken("Ab"), encodeKeyToken("b"), encodeKeyToken("AB")}
	for _, rp := range rpcs() {
		if rp.Variant == "waste" {
			continue
		}
		for _, icpt := range []string{"lower", "upper"} {
			for mask := 1; mask < 8; mask++ {
				var ids []string
				for i, p := range pool {
					if mask&(1<<i) != 0 {
						ids = append(ids, p)
					}
				}
				for _, s := range []int32{1, 2, 0} {
					for _, t := range toks {
						for _, ninit := range []int{0, len(ids)} {
							rn.do(scenario{RPC: rp.Name, IDs: ids, NInit: ninit, Sizes: []int32{s}, Token: t, Icpt: icpt, Class: "small-interceptor"}, rn.small)
						}
					}
				}
			}
		}
		alpha := opAlphabet(rp, []string{"a", "B"}, []string{"B", "c"})
		var seqs [][]storeOp
		for _, o1 := range alpha {
			seqs = append(seqs, []storeOp{o1})
			for _, o2 := range alpha {
				seqs = append(seqs, []storeOp{o1, o2})
			}
		}
		for _, ops := range seqs {
			rn.do(scenario{RPC: rp.Name, IDs: []string{"A"}, Ops: ops, Sizes: []int32{1}, Passes: 2, Icpt: "lower", Class: "small-interceptor-ops"}, rn.small)
		}
		// an interceptor that maps the EMPTY id to a key of its own ("ns/"): creations without an id still get a
		// generated one; every single op, and every pair that starts with a creation without an id
		// (the key "ns/" itself is not used as an id: electric's active-mode guard looks the EMPTY active mode id up
		// through the interceptor and then refuses to delete the mode stored under "ns/" - not a paging matter)
		alphaNS := opAlphabet(rp, []string{"a", "b"}, []string{"c"})
		for _, o1 := range alphaNS {
			for _, ids := range [][]string{{"a"}, {"a", "b"}} {
				rn.do(scenario{RPC: rp.Name, IDs: ids, NInit: len(ids) - 1, Ops: []storeOp{o1}, Sizes: []int32{1}, Passes: 2, Icpt: "ns", Class: "small-interceptor-empty-id"}, rn.small)
			}
			if o1.Kind == "add" && o1.ID == "" {
				for _, o2 := range alphaNS {
					rn.do(scenario{RPC: rp.Name, IDs: []string{"a"}, Ops: []storeOp{o1, o2}, Sizes: []int32{1}, Passes: 2, Icpt: "ns", Class: "small-interceptor-empty-id"}, rn.small)
				}
			}
		}
	}
}

// smallInflight: a refused write parked in its expected-check callback while the client pages: waste
// AddWasteRecord over 0..3 records; the Update* (existing id, absent id with and without create-if-absent) and
// Delete* of the other models over every collection within {a, b}.
func (rn *runner) smallInflight() {
	for _, rp := range rpcs() {
		if rp.Variant == "waste" {
			for n := 0; n <= 3; n++ {
				for _, s := range []int32{1, 2, 0} {
					for _, t := range []string{"", "1", "2"} {
						rn.do(scenario{RPC: rp.Name, IDs: []string{"r0", "r1", "r2"}[:n], Sizes: []int32{s}, Token: t, Passes: 2,
							Inflight: &guardedWrite{Kind: "add", ID: "never-added"}, Class: "small-inflight"}, rn.small)
						rn.do(scenario{RPC: rp.Name, IDs: []string{"r0", "r1", "r2"}[:n], Sizes: []int32{s}, Token: t, Passes: 2,
							Inflight: &guardedWrite{Kind: "add", ID: "added-meanwhile", Accept: true}, Class: "small-inflight-accepted"}, rn.small)
					}
				}
			}
			continue
		}
		for _, ids := range [][]string{{}, {"a"}, {"b"}, {"a", "b"}} {
			ws := []guardedWrite{{Kind: "delete", ID: "a"}, {Kind: "delete", ID: "c"}}
			if rp.Upd != nil {
				ws = append(ws, guardedWrite{Kind: "update", ID: "a"}, guardedWrite{Kind: "update", ID: "c"},
					guardedWrite{Kind: "update", ID: "a", Upsert: true}, guardedWrite{Kind: "update", ID: "c", Upsert: true},
					guardedWrite{Kind: "update", ID: "0", Upsert: true})
			}
			for _, w := range ws {
				w := w
				for _, s := range []int32{1, 0} {
					rn.do(scenario{RPC: rp.Name, IDs: ids, Sizes: []int32{s}, Passes: 2, Inflight: &w, Class: "small-inflight"}, rn.small)
				}
				// the same write ACCEPTED: listed while it is parked (contents before it), then paged after it completed
				a := w
				a.Accept = true
				for _, s := range []int32{1, 0} {
					rn.do(scenario{RPC: rp.Name, IDs: ids, Sizes: []int32{s}, Passes: 2, Inflight: &a, Class: "small-inflight-accepted"}, rn.small)
				}
				// a first page meanwhile (warm-up call), then chains that START from a token
				rn.do(scenario{RPC: rp.Name, IDs: ids, Sizes: []int32{1}, Token: encodeKeyToken("a"), Warm: []warmCall{{Size: 0}}, Passes: 2, Inflight: &a, Class: "small-inflight-accepted"}, rn.small)
			}
		}
	}
}

// hookPoint: where a store op is parked - after its verdict, before it takes the write lock.
func hookPoint(op storeOp, alt bool) string {
	switch {
	case op.Kind == "delete":
		return "coll.delete.afterRead"
	case alt:
		return "gau.afterRead"
	}
	return "gau.beforeLock"
}

// smallHooked: every store op of the model's alphabet over {a, c} (the APIs without write options and the trait
// servers' own RPCs included) parked at a yield point of the resource layer before it commits, on the collections
// {a} and {a, b}: the listing and a chain of List calls while it is parked (contents before the op), then the op is
// let through and the listing and two passes are taken again (contents after it). waste: AddWasteRecord.
func (rn *runner) smallHooked() {
	for _, rp := range rpcs() {
		if rp.Variant == "waste" {
			for n := 0; n <= 2; n++ {
				for _, s := range []int32{1, 0} {
					rn.do(scenario{RPC: rp.Name, IDs: []string{"r0", "r1"}[:n], Sizes: []int32{s}, Passes: 2,
						Inflight: &guardedWrite{Kind: "hooked", Op: &storeOp{Kind: "add", ID: "added-meanwhile"}, Point: "gau.beforeLock"}, Class: "small-inflight-hooked"}, rn.small)
					rn.do(scenario{RPC: rp.Name, IDs: []string{"r0", "r1"}[:n], Sizes: []int32{s}, Token: "1", Warm: []warmCall{{Size: 0}}, Passes: 2,
						Inflight: &guardedWrite{Kind: "hooked", Op: &storeOp{Kind: "add", ID: "added-meanwhile"}, Point: "gau.afterRead"}, Class: "small-inflight-hooked"}, rn.small)
				}
			}
			continue
		}
		for _, ids := range [][]string{{"a"}, {"a", "b"}} {
			for i, op := range opAlphabet(rp, []string{"a", "c"}, []string{"b"}) {
				op := op
				for _, s := range []int32{1, 0} {
					rn.do(scenario{RPC: rp.Name, IDs: ids, Sizes: []int32{s}, Passes: 2,
						Inflight: &guardedWrite{Kind: "hooked", Op: &op, Point: hookPoint(op, (i+int(s))%3 == 0)}, Class: "small-inflight-hooked"}, rn.small)
				}
				// a first page meanwhile (warm-up call), then chains that START from a token
				rn.do(scenario{RPC: rp.Name, IDs: ids, Sizes: []int32{1}, Token: encodeKeyToken("a"), Warm: []warmCall{{Size: 0}}, Passes: 2,
					Inflight: &guardedWrite{Kind: "hooked", Op: &op, Point: hookPoint(op, i%3 == 1)}, Class: "small-inflight-hooked"}, rn.small)
				// writes whose effect depends on the stored payload: parked too, for every payload variant
				if payloadDependent(op) {
					for _, pay := range payloads(rp)[1:] {
						rn.do(scenario{RPC: rp.Name, IDs: ids, NInit: pay % 2, Payload: pay, Sizes: []int32{1}, Passes: 2,
							Inflight: &guardedWrite{Kind: "hooked", Op: &op, Point: hookPoint(op, (i+pay)%3 == 0)}, Class: "small-inflight-hooked-payload"}, rn.small)
					}
				}
			}
		}
	}
}

// smallRaw: records configured through the raw option resource.WithInitialRecord(storage id, message) with a key
// field that is NOT the storage id ({zz -> ab}, {0 -> c}: storage order and key order differ), next to every
// collection within {a, b} built through the model's own routes; paged from the start and from tokens; then every
// single store op over the ids {a, zz} (zz names the raw record: updates re-spell its key field, deletes remove
// it); with and without a lower-casing interceptor (raw record {ZZ -> Ab}).
func (rn *runner) smallRaw() {
	for _, rp := range rpcs() {
		if rp.Variant == "waste" {
			continue
		}
		for _, icpt := range []string{"", "lower"} {
			raws := [][]rawRec{{{"zz", "ab"}}, {{"0", "c"}}, {{"zz", "ab"}, {"0", "c"}}}
			if icpt != "" {
				raws = [][]rawRec{{{"ZZ", "Ab"}}, {{"ZZ", "Ab"}, {"0", "C"}}}
			}
			for _, raw := range raws {
				for _, ids := range [][]string{{}, {"a"}, {"b"}, {"a", "b"}} {
					for _, s := range []int32{1, 2, 0} {
						for _, t := range []string{"", encodeKeyToken("a"), encodeKeyToken("ab"), encodeKeyToken("Ab"), encodeKeyToken("zz")} {
							for _, ninit := range []int{0, len(ids)} {
								rn.do(scenario{RPC: rp.Name, IDs: ids, NInit: ninit, Raw: raw, Sizes: []int32{s}, Token: t, Icpt: icpt, Class: "small-raw-initial"}, rn.small)
								if len(ids) == 0 {
									break
								}
							}
						}
					}
				}
				for _, op := range opAlphabet(rp, []string{"a", "zz"}, []string{"q"}) {
					rn.do(scenario{RPC: rp.Name, IDs: []string{"a"}, Raw: raw, Ops: []storeOp{op}, Sizes: []int32{1}, Passes: 2, Icpt: icpt, Class: "small-raw-initial-ops"}, rn.small)
				}
			}
		}
	}
}

// hideKey is a valid read mask that does not mention the key field.
func hideKey(r rpc) []string {
	if r.Wit != "" {
		return []string{r.Wit}
	}
	return []string{"dispensing"} // Consumable_Stock has no second string field
}

// genMask draws a read mask: none, key only, witness only (key hidden), both.
func genMask(r *rand.Rand, rp rpc) []string {
	switch r.Intn(8) {
	case 0:
		return []string{rp.Key}
	case 1, 2:
		return hideKey(rp)
	case 3:
		if rp.Wit != "" {
			return []string{rp.Key, rp.Wit}
		}
		return []string{rp.Key}
	}
	return nil
}

// pickInit draws how many of n ids are configured as initial records: none, all, or a random split.
func pickInit(r *rand.Rand, n int) int {
	switch r.Intn(3) {
	case 0:
		return 0
	case 1:
		return n
	}
	return r.Intn(n + 1)
}

func (rn *runner) random(r *rand.Rand) {
	all := rpcs()
	collSizes := []int{}
	for n := 0; n <= 60; n++ {
		collSizes = append(collSizes, n)
	}
	big := []int{999, 1000, 1001}
	// 1. enumeration with a fixed page size
	if rn.f.Thorough() {
		for _, rp := range all {
			for _, n := range append(append([]int{}, collSizes...), big...) {
				ids := genIDs(r, n)
				for _, s := range append(append([]int32{}, pageSizes...), genPageSize(r)) {
					if n > 900 && s > 0 && s < 3 && rp.Name != "electric.ListModes" && rp.Name != "waste.ListWasteRecords" {
						continue // one-item pages over ~1000 items cost ~1 s per RPC; two RPC shapes are enough
					}
					rn.do(scenario{RPC: rp.Name, IDs: ids, Sizes: []int32{s}, Mask: genMask(r, rp), Class: "enumerate"}, rn.tie)
				}
			}
		}
	} else {
		for i := 0; i < 260; i++ {
			rp := all[r.Intn(len(all))]
			n := collSizes[r.Intn(len(collSizes))]
			if i%4 == 0 {
				n = []int{49, 50, 51, 100, 150}[r.Intn(5)]
			}
			rn.do(scenario{RPC: rp.Name, IDs: genIDs(r, n), Sizes: []int32{genPageSize(r)}, Mask: genMask(r, rp), Class: "enumerate"}, rn.tie)
		}
		for i, rp := range all {
			n := big[(i+int(rn.f.Seed))%3]
			s := []int32{0, 7, 50, 1000, 5000, 999, 1001}[r.Intn(7)]
			rn.do(scenario{RPC: rp.Name, IDs: genIDs(r, n), Sizes: []int32{s}, Class: "enumerate-big"}, rn.tie)
			// the 1000 cap is only visible with more than 1000 items and a larger request
			rn.do(scenario{RPC: rp.Name, IDs: genIDs(r, 1001+r.Intn(3)), Sizes: []int32{[]int32{5000, 1001, int32(1002 + r.Intn(1<<20))}[r.Intn(3)]}, Class: "enumerate-big"}, rn.tie)
		}
	}
	// 2. page size varying per page
	for i := 0; i < rn.f.N(150, 1500); i++ {
		rp := all[r.Intn(len(all))]
		n := r.Intn(61)
		var ss []int32
		for j := 0; j < 1+r.Intn(5); j++ {
			ss = append(ss, genPageSize(r)%70)
		}
		rn.do(scenario{RPC: rp.Name, IDs: genIDs(r, n), Sizes: ss, Mask: genMask(r, rp), Class: "varying"}, rn.tie)
	}
	// 3. negative sizes, on the first page or later in the chain
	for i := 0; i < rn.f.N(150, 1500); i++ {
		rp := all[r.Intn(len(all))]
		n := r.Intn(30)
		if i%7 == 0 {
			n = 0
		}
		neg := int32(-1 - r.Intn(5))
		if r.Intn(10) == 0 {
			neg = -int32(r.Int31()) - 1
		}
		var ss []int32
		for j := 0; j < r.Intn(3); j++ {
			ss = append(ss, int32(1+r.Intn(4)))
		}
		ss = append(ss, neg)
		rn.do(scenario{RPC: rp.Name, IDs: genIDs(r, n), Sizes: ss, Class: "negative"}, rn.tie)
	}
	// 4. hostile tokens
	for i := 0; i < rn.f.N(400, 6000); i++ {
		rp := all[r.Intn(len(all))]
		n := r.Intn(25)
		if i%10 == 0 {
			n = 100 + r.Intn(3)
		}
		ids := genIDs(r, n)
		// a valid token minted for this collection
		valid := ""
		if n > 0 {
			if rp.Variant == "waste" {
				valid = fmt.Sprint(1 + r.Intn(n))
			} else {
				valid = encodeKeyToken(ids[r.Intn(n)])
			}
		} else if rp.Variant == "waste" {
			valid = "0"
		} else {
			valid = encodeKeyToken("a")
		}
		sc := scenario{RPC: rp.Name, IDs: ids, Sizes: []int32{genPageSize(r) % 9}}
		switch {
		case r.Intn(5) == 0 && n > 0 && rp.Variant != "waste":
			// a valid token whose key has since been deleted
			k := ids[r.Intn(n)]
			sc.Delete = []string{k}
			sc.Token = encodeKeyToken(k)
			sc.Class = "token:deleted-key"
		case r.Intn(6) == 0:
			sc.Token = valid
			sc.Class = "token:valid"
		default:
			var cls string
			sc.Token, cls = corruptToken(r, rp.Variant, valid, ids)
			sc.Class = "token:" + cls
		}
		sc.Mask = genMask(r, rp)
		if r.Intn(12) == 0 {
			sc.Sizes = []int32{-1 - int32(r.Intn(5))}
			sc.Class += "+negative"
		}
		rn.do(sc, rn.tie)
	}
	// 5. collections built by a history of the model's own creation / update / deletion APIs
	for i := 0; i < rn.f.N(250, 3000); i++ {
		rp := all[r.Intn(len(all))]
		if rp.Variant == "waste" {
			continue
		}
		base := genIDs(r, r.Intn(8))
		pool := append(append([]string(nil), base...), genIDs(r, 1+r.Intn(6))...)
		alpha := opAlphabet(rp, pool, append(genIDs(r, 2), pool[r.Intn(len(pool))]))
		var ops []storeOp
		for j := 0; j < 1+r.Intn(12); j++ {
			ops = append(ops, alpha[r.Intn(len(alpha))])
		}
		sc := scenario{RPC: rp.Name, IDs: base, Ops: ops, Sizes: []int32{genPageSize(r) % 6}, Mask: keyMask(r, rp), Payload: genPayload(r, rp), NInit: pickInit(r, len(base)), Class: "store-ops"}
		if r.Intn(3) == 0 {
			sc.Passes = 2
		}
		rn.do(sc, rn.tie)
	}
	// 6. several passes over the same model, and arbitrary List calls before the monitored chain
	for i := 0; i < rn.f.N(200, 2500); i++ {
		rp := all[r.Intn(len(all))]
		n := r.Intn(40)
		ids := genIDs(r, n)
		var ss []int32
		for j := 0; j < 1+r.Intn(3); j++ {
			ss = append(ss, genPageSize(r)%12)
		}
		sc := scenario{RPC: rp.Name, IDs: ids, Sizes: ss, Mask: genMask(r, rp), Passes: 2 + r.Intn(2), Payload: genPayload(r, rp), Class: "passes"}
		for j := 0; j < r.Intn(4); j++ {
			w := warmCall{Size: genPageSize(r)%12 - int32(r.Intn(2)), Mask: genMask(r, rp)}
			switch {
			case n > 0 && rp.Variant == "waste":
				w.Token = fmt.Sprint(r.Intn(n + 3))
			case n > 0 && r.Intn(3) > 0:
				w.Token = encodeKeyToken(ids[r.Intn(n)])
			case r.Intn(2) == 0:
				w.Token, _ = corruptToken(r, rp.Variant, encodeKeyToken("a"), ids)
			}
			sc.Warm = append(sc.Warm, w)
			sc.Class = "passes+warm-up"
		}
		if r.Intn(2) == 0 {
			// a write in flight during all of it (refused, accepted, or any store op parked at a yield point)
			w := guardedWrite{Kind: "delete", ID: genID(r)}
			if n > 0 && r.Intn(2) == 0 {
				w.ID = ids[r.Intn(n)]
			}
			switch {
			case rp.Variant == "waste":
				w.Kind = "add"
			case rp.Upd != nil && r.Intn(3) > 0:
				w.Kind, w.Upsert = "update", r.Intn(2) == 0
			}
			sc.Inflight = &w
			sc.Class += "+inflight"
			if r.Intn(2) == 0 {
				// the same write ACCEPTED: listed while it is parked, paged again after it completed
				w.Accept = true
				sc.Class += "-accepted"
				if rp.Variant == "waste" {
					// records are told apart by their id: the one added meanwhile gets an id no other record has
					for fresh := false; !fresh; {
						w.ID = "meanwhile-" + genID(r)
						fresh = true
						for _, id := range ids {
							fresh = fresh && id != w.ID
						}
					}
				}
			}
			if alpha := opAlphabet(rp, append(genIDs(r, 2), ids[:min(n, 3)]...), genIDs(r, 1)); alpha != nil && r.Intn(3) == 0 {
				// any store op of the model, parked at a yield point before it commits
				op := alpha[r.Intn(len(alpha))]
				sc.Inflight = &guardedWrite{Kind: "hooked", Op: &op, Point: hookPoint(op, r.Intn(3) == 0)}
				sc.Mask = keyMask(r, rp) // store ops create items whose witness field is not their id
				sc.Class = "passes+inflight-hooked"
			}
		}
		rn.do(sc, rn.tie)
	}
	// 7. collections with an id interceptor: mixed-case ids (distinct under the interceptor), histories of the
	// creation / update / deletion APIs over re-spellings of them
	for i := 0; i < rn.f.N(300, 3000); i++ {
		rp := all[r.Intn(len(all))]
		if rp.Variant == "waste" {
			continue
		}
		icpt := []string{"lower", "upper"}[r.Intn(2)]
		n := r.Intn(14)
		if i%5 == 0 {
			n = 40 + r.Intn(25)
		}
		base := genCaseIDs(r, n, nil)
		sc := scenario{RPC: rp.Name, IDs: base, Icpt: icpt, Sizes: []int32{1 + genPageSize(r)%5}, Mask: keyMask(r, rp), Payload: genPayload(r, rp), Class: "interceptor"}
		if r.Intn(2) == 0 {
			pool := genCaseIDs(r, 1+r.Intn(5), base)
			for _, id := range base {
				if r.Intn(2) == 0 {
					pool = append(pool, respell(r, id))
				}
			}
			alpha := opAlphabet(rp, pool, append(genCaseIDs(r, 2, nil), pool[r.Intn(len(pool))]))
			for j := 0; j < 1+r.Intn(10); j++ {
				sc.Ops = append(sc.Ops, alpha[r.Intn(len(alpha))])
			}
			sc.Class = "interceptor+store-ops"
		}
		switch {
		case n > 0 && r.Intn(3) == 0:
			sc.Token = encodeKeyToken(respell(r, base[r.Intn(n)]))
		case n > 0 && r.Intn(3) == 0:
			sc.Token = encodeKeyToken(base[r.Intn(n)])
		}
		if r.Intn(3) == 0 {
			sc.Passes = 2
		}
		rn.do(sc, rn.tie)
	}
}

func replay(f lib.Flags) int {
	rp, err := lib.ReadReplay(f.Replay)
	if err != nil {
		lib.Fatal(err)
	}
	b, _ := json.Marshal(rp.Input)
	var cc codecCase
	if err := json.Unmarshal(b, &cc); err == nil && cc.RPC != "" && cc.Key != "" {
		out, pmsg := cc.run()
		fmt.Printf("codec case %s key=%s -> %s %s\n", cc.RPC, cc.Key, out, pmsg)
		kb, _ := hex.DecodeString(cc.Key)
		if out == "panic" || (utf8.Valid(kb) && out == "invalid") || ownTokenRejected {
			fmt.Println("STILL FAILS C15/" + cc.RPC + "/codec: " + out)
			return 1
		}
		fmt.Println("replay: property holds on this input now")
		return 0
	}
	var sc scenario
	if err := json.Unmarshal(b, &sc); err != nil || sc.RPC == "" || len(sc.Sizes) == 0 {
		fmt.Println("replay: no concrete scenario in file (", rp.Kind, rp.Broken, ")")
		return 2
	}
	r, ok := rpcByName(sc.RPC)
	if !ok {
		fmt.Println("replay: unknown rpc", sc.RPC)
		return 2
	}
	res, err := sc.run()
	if err != nil {
		fmt.Println("replay: cannot run scenario:", err)
		return 2
	}
	m := lib.NewMonitor("replay", "")
	sc.monitor(m, r.Variant, res)
	for i, o := range res.ops {
		fmt.Printf("op %d: %s %q alt=%v -> %s\n", i, sc.Ops[i].Kind, sc.Ops[i].ID, sc.Ops[i].Alt, o)
	}
	fmt.Printf("listing: %q\n", res.full)
	if res.pre != nil {
		fmt.Printf("listing while the write is in flight: %q\n", res.pre.full)
		for i, c := range res.pre.calls {
			fmt.Printf("call %d while the write is in flight: %s page_size=%d page_token=%q -> %s %s\n", i, sc.RPC, c.Size, c.Token, c.Out, c.Panic)
		}
		fmt.Printf("in-flight write: %s -> %s\n", res.inflight, res.inflightOp)
	}
	for i, c := range res.warm {
		fmt.Printf("warm-up call %d: %s page_size=%d page_token=%q -> %s %s\n", i, sc.RPC, c.Size, c.Token, c.Out, c.Panic)
	}
	for p, calls := range res.passes {
		for i, c := range calls {
			fmt.Printf("pass %d call %d: %s page_size=%d page_token=%q -> %s %s\n", p, i, sc.RPC, c.Size, c.Token, c.Out, c.Panic)
		}
	}
	if len(m.Violations) > 0 {
		for _, v := range m.Violations {
			fmt.Printf("STILL FAILS %s: %s (expected %s, observed %s)\n", v.Signature, v.What, v.Expected, v.Observed)
		}
		return 1
	}
	fmt.Println("replay: property holds on this input now")
	return 0
}
