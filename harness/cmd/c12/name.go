package main

import (
	"context"
	"fmt"
	"hash/fnv"
	"io"
	"sort"
	"strings"

	"google.golang.org/grpc"
	"google.golang.org/grpc/metadata"
	"google.golang.org/protobuf/proto"
	"google.golang.org/protobuf/reflect/protoreflect"
	"google.golang.org/protobuf/reflect/protoregistry"

	namemw "github.com/smart-core-os/sc-golang/pkg/middleware/name"
	"github.com/smart-core-os/sc-golang/verifharness/lib"
)

// nameCase: the default-name interceptor on one request message (replay input).
type nameCase struct {
	Kind    string `json:"kind"` // "name"
	Message string `json:"message"`
	Default string `json:"default"` // the real strings (JSON-escaped)
	Name    string `json:"name"`
	Stream  bool   `json:"stream_interceptor"`
	MsgSeed int64  `json:"msg_seed"`
}

func fieldTok(m protoreflect.Message, fd protoreflect.FieldDescriptor) string {
	if fd.Kind() == protoreflect.StringKind && !fd.IsList() && !fd.IsMap() {
		return fmt.Sprintf("%s:S:%s", fd.TextName(), escTok(m.Get(fd).String()))
	}
	// any other field: a hash of its value (deterministic marshalling of a one-field copy)
	h := fnv.New32a()
	if m.Has(fd) {
		c := m.New()
		c.Set(fd, m.Get(fd))
		b, _ := proto.MarshalOptions{Deterministic: true}.Marshal(c.Interface())
		h.Write(b)
	}
	return fmt.Sprintf("%s:O:%d", fd.TextName(), h.Sum32())
}

func safeTok(s string) string {
	r := strings.NewReplacer(" ", "_", ",", "_", ":", "_", "\n", "_")
	return r.Replace(s)
}

func msgTok(m proto.Message) string {
	var fs []string
	fds := m.ProtoReflect().Descriptor().Fields()
	for i := 0; i < fds.Len(); i++ {
		fs = append(fs, fieldTok(m.ProtoReflect(), fds.Get(i)))
	}
	return commaList(fs)
}

type oneShotStream struct {
	req proto.Message
	got bool
}

func (s *oneShotStream) SetHeader(metadata.MD) error  { return nil }
func (s *oneShotStream) SendHeader(metadata.MD) error { return nil }
func (s *oneShotStream) SetTrailer(metadata.MD)       {}
func (s *oneShotStream) Context() context.Context     { return context.Background() }
func (s *oneShotStream) SendMsg(any) error            { return nil }
func (s *oneShotStream) RecvMsg(m any) error {
	if s.got {
		return io.EOF
	}
	s.got = true
	proto.Merge(m.(proto.Message), s.req)
	return nil
}

// runNameCase returns (model input fields, code's resulting fields, before, after).
func runNameCase(c nameCase) (string, string, proto.Message, proto.Message, error) {
	rng := lib.NewRand(c.MsgSeed)
	req, err := randomMessage(rng, protoreflect.FullName(c.Message))
	if err != nil {
		return "", "", nil, nil, err
	}
	setName(req, c.Name)
	before := proto.Clone(req)
	in := msgTok(req)
	var seen proto.Message
	if c.Stream {
		ic := namemw.IfAbsentStreamInterceptor(c.Default)
		err = ic(nil, &oneShotStream{req: req}, &grpc.StreamServerInfo{}, func(srv any, ss grpc.ServerStream) error {
			m, _ := newMessage(protoreflect.FullName(c.Message))
			if e := ss.RecvMsg(m); e != nil {
				return e
			}
			seen = m
			return nil
		})
	} else {
		ic := namemw.IfAbsentUnaryInterceptor(c.Default)
		_, err = ic(context.Background(), req, &grpc.UnaryServerInfo{}, func(ctx context.Context, r any) (any, error) {
			seen, _ = r.(proto.Message)
			return nil, nil
		})
	}
	if err != nil || seen == nil {
		return in, fmt.Sprintf("error:%v", err), before, nil, nil
	}
	return in, msgTok(seen), before, seen, nil
}

func monitorName(mon *lib.Monitor, c nameCase, before, after proto.Message) {
	sig := func(class string) string { return "C12/name.IfAbsent/" + class }
	if after == nil {
		mon.Violate(sig("handler-not-called"), "the interceptor must hand the request to the handler", c, "handler called", "not called / error")
		return
	}
	want := proto.Clone(before)
	if c.Name == "" {
		setName(want, c.Default)
	}
	if !proto.Equal(want, after) {
		class := "other-field-changed"
		fd := before.ProtoReflect().Descriptor().Fields().ByTextName("name")
		if fd != nil && fd.Kind() == protoreflect.StringKind && !fd.IsList() {
			if after.ProtoReflect().Get(fd).String() != want.ProtoReflect().Get(fd).String() {
				class = "name-wrong"
			}
		}
		mon.Violate(sig(class), "the interceptor fills in only empty names and changes nothing else", c, fmt.Sprint(want), fmt.Sprint(after))
	}
}

// randName: a non-empty name of 1-12 characters (also blank-looking and path-like ones).
func randName(rng interface{ Intn(int) int }) string {
	const al = "abz09_-./AZ"
	n := 1 + rng.Intn(12)
	b := make([]byte, n)
	for i := range b {
		b[i] = al[rng.Intn(len(al))]
	}
	if string(b) == "-" || string(b) == "~" {
		return "n"
	}
	return string(b)
}

func runName(f lib.Flags, res *lib.Result, drv *lib.Driver) {
	tie := res.Tie("default-name", "K1", "name.IfAbsentUnaryInterceptor and IfAbsentStreamInterceptor on every request message type of every routed service, plus every message in the compiled descriptors that has no `name` field or a non-string / repeated one (up to 40), x name in {empty, ordinary, random, whitespace-only (space, tab, newline, mixed, NBSP, EM SPACE), leading/trailing blanks, case variants, containing / or NUL, non-ASCII, 5000 characters} x default in {empty, non-empty, blank} x random other content; the message the handler sees, field by field (strings through an injective escaping, other fields by a hash of their encoding), compared with the Lean replaceEmptyName; distinct = (message type, name empty?, default empty?, interceptor kind)")
	mon := res.Monitor("default-name", "the handler sees the request with name = default iff it was empty, proto.Equal otherwise")
	rng := lib.NewRand(f.Seed + 3)
	types := map[string]bool{}
	for _, e := range tables {
		sd, err := methodsOf(e)
		if err != nil {
			tie.Fail(err)
			return
		}
		for i := 0; i < sd.Methods().Len(); i++ {
			types[string(sd.Methods().Get(i).Input().FullName())] = true
		}
	}
	odd := 0
	protoregistry.GlobalFiles.RangeFiles(func(fd protoreflect.FileDescriptor) bool {
		ms := fd.Messages()
		for i := 0; i < ms.Len(); i++ {
			nf := ms.Get(i).Fields().ByTextName("name")
			if (nf == nil || nf.Kind() != protoreflect.StringKind || nf.IsList()) && odd < 40 {
				if _, err := protoregistry.GlobalTypes.FindMessageByName(ms.Get(i).FullName()); err == nil && !types[string(ms.Get(i).FullName())] {
					types[string(ms.Get(i).FullName())] = true
					odd++
				}
			}
		}
		return true
	})
	var names []string
	for t := range types {
		names = append(names, t)
	}
	sort.Strings(names)
	reps := f.N(1, 6)
	var cases []nameCase
	var lines, answers []string
	for ti, t := range names {
		nms := []string{"", "dev1", randName(rng)}
		// unusual non-empty names: each message type gets the blank ones and a rotating share of the rest
		nms = append(nms, " ", "\t", "\n", " \t\r\n ", "\u00a0", "\u2003")
		for k := 0; k < 3; k++ {
			nms = append(nms, unusualNames[(ti*3+k)%len(unusualNames)].real)
		}
		for _, nm := range nms {
			for _, d := range []string{"", "thisnode", " "} {
				if d == " " && nm != "" && nm != " " {
					continue
				}
				for _, st := range []bool{false, true} {
					for r := 0; r < reps; r++ {
						c := nameCase{"name", t, d, nm, st, rng.Int63() >> 12}
						var in, out string
						var before, after proto.Message
						var err error
						panicked, msg := lib.Catch(func() { in, out, before, after, err = runNameCase(c) })
						if panicked {
							mon.Violate("C12/name.IfAbsent/panic", "the interceptor panicked", c, "no panic", msg)
							out = "panic"
						} else if err != nil {
							tie.Fail(err)
							return
						} else {
							monitorName(mon, c, before, after)
						}
						mon.Eval(fmt.Sprintf("%s/%s/%s/%v", t, nm, d, st), true, nil)
						cases = append(cases, c)
						answers = append(answers, out)
						lines = append(lines, fmt.Sprintf("name %s %s", escTok(d), in))
					}
				}
			}
		}
	}
	ans, err := drv.Batch(lines)
	if err != nil {
		tie.Fail(err)
		return
	}
	for i, c := range cases {
		tie.Record(fmt.Sprintf("%s/%s/%s/%v", c.Message, c.Name, c.Default, c.Stream), true, c, ans[i], answers[i])
		switch {
		case c.Name == "":
			tie.Count("empty-name")
		case strings.TrimSpace(c.Name) == "":
			tie.Count("blank-name")
		case c.Name != strings.TrimSpace(c.Name) || len(c.Name) > 100 || strings.ContainsAny(c.Name, "/\x00") || c.Name != strings.ToLower(c.Name):
			tie.Count("unusual-name")
		default:
			tie.Count("given-name")
		}
	}
	res.Extra["request_types"] = len(names)
}
