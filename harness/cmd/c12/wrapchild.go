package main

// Children that are REAL wrapped servers. The clients a router normally holds are not remote connections
// but generated wrappers (`xxxpb.WrapApi(server)`): pkg/wrap's in-process stream sits between the router
// and the server's handler. Here every child is Wrap<X>(server) where the server is a second generated
// router of the same service (a genuine <X>Server implementation, it exists for every service) whose only
// client is a scripted DEVICE. Seen from the wrapper the handler is "inner forwarder + device": it stages
// metadata on its context (grpc.SetHeader / grpc.SetTrailer: staged, not sent), sends the header or fails
// before it, sends k messages, RE-USES every message once Send has returned (a handler may: gRPC has
// serialised it by then), and ends with OK or a status.
//
//   A (streams): caller -> outer router's handler -> wrapper client -> [pkg/wrap stream] -> inner router -> device
//   B (unary)  : typed call ON THE WRAPPER (the way users call it) with grpc.Header / grpc.Trailer options
//
// The processor count is 1 while family A runs: with the hand-over channel of pkg/wrap unbuffered and the
// receiver already waiting, the sending goroutine keeps the processor after a hand-over, so "the handler
// touches its message right after Send returned" is a forced interleaving, not a lucky one.

import (
	"context"
	"fmt"
	"io"
	"math/rand"
	"reflect"
	"runtime"
	"strconv"
	"strings"

	"google.golang.org/grpc"
	"google.golang.org/grpc/codes"
	"google.golang.org/grpc/metadata"
	"google.golang.org/grpc/status"
	"google.golang.org/protobuf/proto"
	"google.golang.org/protobuf/reflect/protoreflect"

	"github.com/smart-core-os/sc-golang/pkg/router"
	"github.com/smart-core-os/sc-golang/verifharness/lib"
)

type wrapCase struct {
	Kind      string `json:"kind"` // "wrapchild"
	Pkg       string `json:"pkg"`
	Router    string `json:"router"`
	Method    string `json:"method"`
	Streaming bool   `json:"streaming"`
	Fb        string `json:"fallback,omitempty"` // A: fallback / factory kinds of the outer router (their products are wrapped servers too)
	Fac       string `json:"factory,omitempty"`
	Ops       string `json:"ops,omitempty"`  // A: registry history of the outer router (every client is a wrapped server)
	Name      string `json:"name,omitempty"` // A: name token of the request
	// A: device script  stagedHeader:stagedTrailer:open:headerErr:header:msgs:final:trailer:reuse(r|f)
	// B: device script  stagedHeader:sentHeader:stagedTrailer:out(m3|e<tok>)
	Dev     string `json:"device_script"`
	Caller  string `json:"caller_script,omitempty"` // A: sendHeaderErr:failAt:sendErr
	MsgSeed int64  `json:"msg_seed"`
}

const mdKey = "k"

func tokMD1(tok int) metadata.MD { return metadata.MD{mdKey: []string{strconv.Itoa(tok)}} }

// mdList renders metadata made of tokMD1 pieces: the values under the one key, in order (`-`: none).
func mdList(md metadata.MD) string {
	if len(md) == 0 {
		return "-"
	}
	if v, ok := md[mdKey]; ok && len(md) == 1 {
		return strings.Join(v, "+")
	}
	return "?" + strings.ReplaceAll(fmt.Sprint(md), " ", "_")
}

func optMD(s string) (metadata.MD, bool) {
	if t, ok := parseOptTok(s); ok {
		return tokMD1(t), true
	}
	return nil, false
}

func joinToks(xs ...string) string {
	var out []string
	for _, x := range xs {
		if x != "-" && x != "" {
			out = append(out, x)
		}
	}
	if len(out) == 0 {
		return "-"
	}
	return strings.Join(out, "+")
}

type wrapOutcome struct {
	answer string
	calls  []call
	req    proto.Message
	plan   *childPlan
	ss     *fakeServerStream
	err    error
	full   string
	// B
	resp   proto.Message
	header metadata.MD
	trail  metadata.MD
}

// runWrapStream: family A on the real generated router and wrapper.
func runWrapStream(e entry, c wrapCase) (out wrapOutcome, err error) {
	if e.Wrap == nil {
		return out, fmt.Errorf("%s has no wrapper", e.id())
	}
	if c.Fb == "" {
		c.Fb = "none"
	}
	if c.Fac == "" {
		c.Fac = "none"
	}
	g := newRig(e, c.Fb, c.Fac, true)
	g.chain = true
	if err = g.applyOps(c.Ops); err != nil {
		return
	}
	g.pool[unTilde(c.Name)] = true
	reg := &captureRegistrar{}
	g.r.Register(reg)
	if reg.desc == nil {
		return out, fmt.Errorf("%s: Register registered nothing", e.id())
	}
	sd, err := serviceOf(reg.desc)
	if err != nil {
		return
	}
	md := sd.Methods().ByName(protoreflect.Name(c.Method))
	if md == nil {
		return out, fmt.Errorf("%s has no method %s", sd.FullName(), c.Method)
	}
	out.full = "/" + string(sd.FullName()) + "/" + c.Method
	rng := rand.New(rand.NewSource(c.MsgSeed))
	req, err := randomMessage(rng, md.Input().FullName())
	if err != nil {
		return
	}
	setName(req, unTilde(c.Name))
	out.req = proto.Clone(req)
	ctx, cancelAll := context.WithCancel(context.WithValue(context.Background(), ctxKey{}, "marker"))
	defer cancelAll()
	plan := &childPlan{Yield: true}
	out.plan = plan
	g.rec.plan = plan
	dp := strings.Split(c.Dev, ":")
	kp := strings.Split(c.Caller, ":")
	if len(dp) != 9 || len(kp) != 3 {
		return out, fmt.Errorf("bad scripts %q %q", c.Dev, c.Caller)
	}
	plan.Staged, _ = optMD(dp[0])
	plan.StagedTrailer, _ = optMD(dp[1])
	if t, ok := parseOptTok(dp[2]); ok {
		plan.OpenErr = tokErr(t, rng)
	}
	if t, ok := parseOptTok(dp[3]); ok {
		plan.HeaderErr = tokErr(t, rng)
	}
	plan.Header, _ = optMD(dp[4])
	for range splitList(dp[5], ".") {
		m, e2 := randomMessage(rng, md.Output().FullName())
		if e2 != nil {
			return out, e2
		}
		plan.Msgs = append(plan.Msgs, m)
	}
	if dp[6] == "eof" {
		plan.Final = io.EOF
	} else {
		t, _ := strconv.Atoi(dp[6][1:])
		plan.Final = tokErr(t, rng)
	}
	plan.Trailer, _ = optMD(dp[7])
	plan.Reuse = dp[8] == "r"
	if plan.Reuse {
		plan.Scribble, _ = randomMessage(rng, md.Output().FullName())
	}
	ss := &fakeServerStream{ctx: ctx, req: req, failAt: -1, rec: g.rec}
	if t, ok := parseOptTok(kp[0]); ok {
		ss.sendHeaderErr = tokErr(t, rng)
	}
	if t, ok := parseOptTok(kp[1]); ok {
		ss.failAt = t
	}
	st, _ := strconv.Atoi(kp[2])
	ss.sendErr = tokErr(st, rng)
	out.ss = ss
	var h grpc.StreamHandler
	for _, s := range reg.desc.Streams {
		if s.StreamName == c.Method {
			h = s.Handler
		}
	}
	if h == nil {
		return out, fmt.Errorf("%s: ServiceDesc has no stream %s", e.id(), c.Method)
	}
	rerr := h(reg.impl, ss)
	cancelAll()
	g.rec.mu.Lock()
	out.calls = append([]call(nil), g.rec.calls...)
	g.rec.mu.Unlock()
	out.err = rerr
	hdr := "none"
	if ss.headerCalled {
		hdr = mdList(ss.header)
	}
	if len(ss.setHeader) > 0 {
		hdr += "+SetHeader"
	}
	var sent []string
	for i, m := range ss.sent {
		tok := "0"
		if i < len(plan.Msgs) && proto.Equal(m, plan.Msgs[i]) {
			tok = strconv.Itoa(i + 1)
		}
		sent = append(sent, tok)
	}
	tr := "-"
	if ss.trailerSet {
		tr = mdList(ss.trailer)
	}
	out.answer = fmt.Sprintf("calls=%s hdr=%s sent=%s sends=%d tr=%s st=%s %s",
		showCalls(sd, out.calls, out.req), hdr, commaList(sent), ss.sends, tr, errTok(rerr, unTilde(c.Name)), g.stateString())
	return
}

func (c wrapCase) modelLine(midx int) string {
	if c.Streaming {
		dp := strings.Split(c.Dev, ":")
		if len(dp) != 9 {
			return "bad-case"
		}
		return fmt.Sprintf("wroute %s %s %s %s %d 5 %s %s %s %s %s", orNone(c.Fb), orNone(c.Fac), tildeList(c.Ops), c.Name, midx, dp[0], dp[1], strings.Join(dp[2:8], ":"), dp[8], c.Caller)
	}
	dp := strings.Split(c.Dev, ":")
	if len(dp) != 4 {
		return "bad-case"
	}
	return fmt.Sprintf("wcall %d 5 %s %s %s %s", midx, dp[0], dp[1], dp[2], dp[3])
}

// monitorWrapStream: the property's statement for a routed stream whose registered client is a wrapped server,
// with the DEVICE's script as the reference (plain Go, no model): what the device staged/sent/returned is what
// the caller must receive.
func monitorWrapStream(mon *lib.Monitor, e entry, c wrapCase, o wrapOutcome) {
	sig := func(class string) string { return "C12/" + e.id() + "+wrapped-child/" + c.Method + "/" + class }
	viol := func(class, what, exp, obs string) { mon.Violate(sig(class), what, c, exp, obs) }
	target, ok := oracleTarget(routeCase{Fb: orNone(c.Fb), Fac: orNone(c.Fac), Ops: c.Ops, Name: c.Name})
	ss, p := o.ss, o.plan
	if !ok {
		if len(o.calls) != 0 {
			viol("notfound-touched-client", "a name with no client must touch no client", "no device call", fmt.Sprintf("%d device calls", len(o.calls)))
		}
		if status.Code(o.err) != codes.NotFound {
			viol("notfound-wrong-status", "a name with no client must yield NotFound", "NotFound", fmt.Sprint(o.err))
		}
		if len(ss.sent) > 0 || ss.headerCalled || ss.trailerSet {
			viol("notfound-sent-something", "a name with no client must send nothing", "nothing sent", "header/messages/trailer sent")
		}
		return
	}
	if len(o.calls) != 1 {
		viol("not-forwarded-once", "the request must reach the wrapped server registered under its name exactly once", "1 device call", fmt.Sprintf("%d device calls; caller got %v", len(o.calls), o.err))
		if len(o.calls) == 0 {
			return
		}
	}
	k := o.calls[0]
	if k.Client != target {
		viol("wrong-client", "the request reached a server other than the one registered under its name", fmt.Sprint(target), fmt.Sprint(k.Client))
	}
	if k.Method != o.full {
		viol("wrong-method", "the request was forwarded to a different method", o.full, k.Method)
	}
	if k.Req == nil || !proto.Equal(k.Req, o.req) {
		viol("request-altered", "the request must pass through unaltered", fmt.Sprint(o.req), fmt.Sprint(k.Req))
	}
	dp := strings.Split(c.Dev, ":")
	failedEarly := p.OpenErr != nil || p.HeaderErr != nil
	// header: everything the server attached to the call before its first message or its return
	expHdr := joinToks(dp[0], dp[4])
	if failedEarly {
		expHdr = joinToks(dp[0])
	}
	gotHdr := "not sent"
	if ss.headerCalled {
		gotHdr = mdList(ss.header)
	}
	if gotHdr != expHdr {
		viol("header-altered", "the header the wrapped server attached to the stream (staged with SetHeader and/or sent) must reach the caller unaltered, whether the call then succeeds, fails, or carries no message", expHdr, gotHdr)
	}
	if ss.sendHeaderErr != nil {
		if !sameStatus(o.err, ss.sendHeaderErr) {
			viol("status-altered", "the caller's SendHeader error must be returned", fmt.Sprint(ss.sendHeaderErr), fmt.Sprint(o.err))
		}
		return
	}
	msgs := p.Msgs
	if failedEarly {
		msgs = nil
	}
	expN := len(msgs)
	callerFailed := ss.failAt >= 0 && ss.failAt < len(msgs)
	if callerFailed {
		expN = ss.failAt
	}
	if len(ss.sent) != expN {
		viol("messages-altered", "the caller must receive exactly the server's messages (up to its own failing Send)", fmt.Sprint(expN), fmt.Sprint(len(ss.sent)))
	}
	for i, m := range ss.sent {
		if i >= len(msgs) || !proto.Equal(m, msgs[i]) {
			exp := "no such message"
			if i < len(msgs) {
				exp = fmt.Sprint(msgs[i])
			}
			viol("messages-altered", "the caller must receive each response as it was when the server sent it (a handler may re-use its message once Send has returned)", exp, fmt.Sprint(m))
			break
		}
	}
	if callerFailed {
		if !sameStatus(o.err, ss.sendErr) {
			viol("status-altered", "the caller's Send error must be returned", fmt.Sprint(ss.sendErr), fmt.Sprint(o.err))
		}
		return
	}
	expErr := p.Final
	switch {
	case p.OpenErr != nil:
		expErr = p.OpenErr
	case p.HeaderErr != nil:
		expErr = p.HeaderErr
	}
	if expErr == io.EOF {
		if o.err != nil {
			viol("status-altered", "a server that returns OK must end the call with OK", "nil", fmt.Sprint(o.err))
		}
	} else if !sameStatus(o.err, expErr) {
		viol("status-altered", "the server's final status must pass through unaltered", fmt.Sprint(expErr), fmt.Sprint(o.err))
	}
	expTr := joinToks(dp[1], dp[7])
	if failedEarly {
		expTr = joinToks(dp[1])
	}
	gotTr := "-"
	if ss.trailerSet {
		gotTr = mdList(ss.trailer)
	}
	if gotTr != expTr {
		viol("trailer-altered", "the trailer the wrapped server attached must reach the caller unaltered", expTr, gotTr)
	}
}

// runWrapCall: family B — a unary method called ON the generated wrapper, as its users do, asking for the
// response metadata with the grpc.Header / grpc.Trailer call options.
func runWrapCall(e entry, c wrapCase) (out wrapOutcome, err error) {
	if e.Wrap == nil {
		return out, fmt.Errorf("%s has no wrapper", e.id())
	}
	rec := &recorder{}
	dev := e.NewClient(&fakeConn{id: 1, rec: rec})
	inner := e.New(router.WithFallback(func(string) (any, error) { return dev, nil }))
	w := e.Wrap(inner)
	sd, err := methodsOf(e)
	if err != nil {
		return
	}
	md := sd.Methods().ByName(protoreflect.Name(c.Method))
	if md == nil {
		return out, fmt.Errorf("%s has no method %s", sd.FullName(), c.Method)
	}
	out.full = "/" + string(sd.FullName()) + "/" + c.Method
	rng := rand.New(rand.NewSource(c.MsgSeed))
	req, err := randomMessage(rng, md.Input().FullName())
	if err != nil {
		return
	}
	setName(req, "x")
	out.req = proto.Clone(req)
	plan := &childPlan{}
	out.plan = plan
	rec.plan = plan
	dp := strings.Split(c.Dev, ":")
	if len(dp) != 4 {
		return out, fmt.Errorf("bad script %q", c.Dev)
	}
	plan.Staged, _ = optMD(dp[0])
	plan.USent, _ = optMD(dp[1])
	plan.StagedTrailer, _ = optMD(dp[2])
	if strings.HasPrefix(dp[3], "m") {
		if plan.Resp, err = randomMessage(rng, md.Output().FullName()); err != nil {
			return
		}
	} else {
		t, _ := strconv.Atoi(dp[3][1:])
		plan.Err = tokErr(t, rng)
	}
	fn := reflect.ValueOf(w).MethodByName(c.Method)
	if !fn.IsValid() {
		return out, fmt.Errorf("%s: the wrapper has no method %s", e.id(), c.Method)
	}
	ctx := context.WithValue(context.Background(), ctxKey{}, "marker")
	var hdr, tr metadata.MD
	rs := fn.Call([]reflect.Value{reflect.ValueOf(ctx), reflect.ValueOf(req), reflect.ValueOf(grpc.Header(&hdr)), reflect.ValueOf(grpc.Trailer(&tr))})
	if len(rs) != 2 {
		return out, fmt.Errorf("%s.%s: unexpected result arity", e.id(), c.Method)
	}
	if !rs[1].IsNil() {
		out.err, _ = rs[1].Interface().(error)
	}
	if !rs[0].IsNil() {
		out.resp, _ = rs[0].Interface().(proto.Message)
	}
	out.header, out.trail = hdr, tr
	out.calls = rec.calls
	o := "m0"
	if out.err != nil {
		o = "e" + errTok(out.err, "x")
	} else if out.resp != nil && plan.Resp != nil && proto.Equal(out.resp, plan.Resp) {
		o = "m3"
	}
	out.answer = fmt.Sprintf("calls=%s hdr=%s tr=%s out=%s", showCalls(sd, out.calls, out.req), mdList(hdr), mdList(tr), o)
	return
}

func monitorWrapCall(mon *lib.Monitor, e entry, c wrapCase, o wrapOutcome) {
	sig := func(class string) string { return "C12/" + e.id() + "+wrapper/call/" + class }
	viol := func(class, what, exp, obs string) { mon.Violate(sig(class), what, c, exp, obs) }
	p := o.plan
	if len(o.calls) != 1 {
		viol("not-reaching-server", "a call on the generated wrapper must reach the wrapped server exactly once", "1 call", fmt.Sprint(len(o.calls)))
		if len(o.calls) == 0 {
			return
		}
	}
	k := o.calls[0]
	if k.Method != o.full {
		viol("wrong-method", "the call reached a different method of the wrapped server", o.full, k.Method)
	}
	if k.Req == nil || !proto.Equal(k.Req, o.req) {
		viol("request-altered", "the request must pass through unaltered", fmt.Sprint(o.req), fmt.Sprint(k.Req))
	}
	if !k.CtxOK {
		viol("context-lost", "the caller's context must reach the server", "context values visible", "not visible")
	}
	dp := strings.Split(c.Dev, ":")
	if exp, got := joinToks(dp[0], dp[1]), mdList(o.header); exp != got {
		viol("header-lost", "the header the server attached to the call (grpc.SetHeader / grpc.SendHeader) must reach a caller that passes grpc.Header, on success and on failure", exp, got)
	}
	if exp, got := joinToks(dp[2]), mdList(o.trail); exp != got {
		viol("trailer-lost", "the trailer the server attached to the call (grpc.SetTrailer) must reach a caller that passes grpc.Trailer, on success and on failure", exp, got)
	}
	if p.Err != nil {
		if !sameStatus(o.err, p.Err) {
			viol("error-altered", "the server's error status must pass through unaltered", fmt.Sprint(p.Err), fmt.Sprint(o.err))
		}
		return
	}
	if o.err != nil {
		viol("error-invented", "the server succeeded but the caller got an error", "nil", fmt.Sprint(o.err))
		return
	}
	if o.resp == nil || !proto.Equal(o.resp, p.Resp) {
		viol("response-altered", "the server's response must pass through unaltered", fmt.Sprint(p.Resp), fmt.Sprint(o.resp))
	}
}

func randDevStream(rng *rand.Rand) (string, string) {
	opt := func(p int, tok int) string {
		if rng.Intn(100) < p {
			return strconv.Itoa(tok)
		}
		return "-"
	}
	n := rng.Intn(4)
	var ms []string
	for i := 1; i <= n; i++ {
		ms = append(ms, strconv.Itoa(i))
	}
	final := "eof"
	if rng.Intn(2) == 0 {
		final = "e" + strconv.Itoa(20+rng.Intn(10))
	}
	reuse := "f"
	if rng.Intn(3) > 0 {
		reuse = "r"
	}
	dev := fmt.Sprintf("%s:%s:%s:%s:%s:%s:%s:%s:%s", opt(60, 7), opt(40, 6), opt(15, 11), opt(25, 12), opt(60, 9), commaDot(ms), final, opt(60, 4), reuse)
	failAt := "-"
	if rng.Intn(3) == 0 {
		failAt = strconv.Itoa(rng.Intn(n + 2))
	}
	return dev, fmt.Sprintf("%s:%s:%d", opt(6, 13), failAt, 77)
}

func orNone(s string) string {
	if s == "" {
		return "none"
	}
	return s
}

func commaDot(xs []string) string {
	if len(xs) == 0 {
		return "-"
	}
	return strings.Join(xs, ".")
}

// wrapCasesFor: fixed small cases first (they become the replays), then random ones.
func wrapCasesFor(rng *rand.Rand, e entry, method string, streaming bool, n int) []wrapCase {
	base := wrapCase{Kind: "wrapchild", Pkg: e.Pkg, Router: e.Router, Method: method, Streaming: streaming}
	var out []wrapCase
	add := func(c wrapCase) {
		c.MsgSeed = rng.Int63() >> 12
		out = append(out, c)
	}
	if streaming {
		c := base
		c.Ops, c.Name, c.Caller = "a:x:1,a:y:2", "y", "-:-:77"
		for _, dev := range []string{
			"-:-:-:-:9:1.2:eof:4:r",   // the handler re-uses each message after Send
			"7:-:-:21:-:-:eof:-:f",    // header STAGED, no message, the handler fails
			"7:-:-:-:9:-:eof:-:f",     // staged and sent, no message, OK
			"7:6:-:-:9:1:e22:4:r",     // staged header and trailer, one message, error status
			"7:6:11:-:9:1:eof:4:f",    // fails when the request arrives
			"-:-:-:-:-:-:eof:-:f",     // nothing attached at all
			"-:-:-:-:9:1.2.3:e23:-:r", // plain
			"-:-:-:26:-:-:eof:-:f",    // nothing attached, no message, the handler fails
			"-:6:11:-:-:-:eof:-:f",    // only a trailer staged, fails when the request arrives
		} {
			c.Dev = dev
			add(c)
		}
		c.Dev, c.Caller = "7:-:-:-:9:1.2.3:eof:4:r", "-:1:77" // the caller fails in the middle
		add(c)
		c.Name, c.Caller = "z", "-:-:77" // unknown name
		add(c)
		c.Fac, c.Ops, c.Dev = "new", "-", "7:-:-:-:9:1.2:e24:4:r" // the wrapped server is made by the factory
		add(c)
		for len(out) < n {
			c = base
			c.Fb, c.Fac = facKinds[rng.Intn(len(facKinds))], facKinds[rng.Intn(len(facKinds))]
			c.Ops = randOps(rng, 3)
			c.Name = namePool[rng.Intn(len(namePool))]
			c.Dev, c.Caller = randDevStream(rng)
			add(c)
		}
		return out
	}
	for _, dev := range []string{"7:9:6:m3", "7:-:6:e21", "-:9:-:m3", "-:-:-:m3", "7:-:-:m3", "-:9:6:e22"} {
		c := base
		c.Dev = dev
		add(c)
		if len(out) >= n {
			break
		}
	}
	return out
}

func runWrapCase(e entry, c wrapCase) (wrapOutcome, error) {
	if c.Streaming {
		return runWrapStream(e, c)
	}
	return runWrapCall(e, c)
}

func checkWrapCase(mon *lib.Monitor, e entry, c wrapCase) wrapOutcome {
	var o wrapOutcome
	var rerr error
	panicked, msg := lib.Catch(func() { o, rerr = runWrapCase(e, c) })
	switch {
	case panicked:
		o.answer = "panic:" + strings.ReplaceAll(msg, " ", "_")
		mon.Violate("C12/"+e.id()+"+wrapped-child/"+c.Method+"/panic", "a call through a wrapped server panicked", c, "no panic", msg)
	case rerr != nil:
		o.answer = "harness-error:" + strings.ReplaceAll(rerr.Error(), " ", "_")
	case c.Streaming:
		monitorWrapStream(mon, e, c, o)
	default:
		monitorWrapCall(mon, e, c, o)
	}
	return o
}

func runWrapChild(f lib.Flags, res *lib.Result, drv *lib.Driver) {
	tie := res.Tie("wrapped-children", "K1", "every generated router that has a generated wrapper x every method of its service: (A, server-streaming methods) the outer router's real stream handler with every registered client = Wrap<X>(inner generated router -> scripted device): fixed scripts (message re-used after Send; header staged + no message + error status; staged and sent; staged header and trailer + message + error; failure on arrival; nothing attached; caller failing in the middle; unknown name) then random registry histories, names and device scripts (staged header/trailer present or not x open error x header error x sent header x 0-3 messages x EOF/status x trailer x re-use x caller SendHeader/Send failure), processor count 1 so that the device's re-use of a message directly follows the hand-over; (B, unary methods) the method called on the generated wrapper itself by reflection with grpc.Header and grpc.Trailer options, device staging / sending header, setting trailer, answering or failing; compared with the Lean model Router ∘ Wrap ∘ Router (Wrapped.lean: pkg/wrap's stream as the fold of the handler's calls, composed with the forwarder models); distinct = (router, method, scripts)")
	mon := res.Monitor("wrapped-children-faithful", "property statement on the same executions with the DEVICE's script as the reference (plain Go): one call on the server registered under the name with an equal request; the caller receives exactly the metadata the server attached (staged or sent; header also when the call fails without a message), each message as it was when sent (even though the server overwrites it afterwards), the server's status and trailer; an unknown name touches nothing; a unary call on the wrapper with grpc.Header/grpc.Trailer returns the server's header and trailer, response and status")
	rng := lib.NewRand(f.Seed + 7777)
	nS, nU := f.N(14, 150), f.N(4, 6)
	type pending struct {
		e    entry
		c    wrapCase
		o    wrapOutcome
		line string
	}
	var batch []pending
	old := runtime.GOMAXPROCS(1)
	defer runtime.GOMAXPROCS(old)
	for _, e := range tables {
		if e.Wrap == nil {
			continue
		}
		sd, err := methodsOf(e)
		if err != nil {
			tie.Fail(err)
			return
		}
		ms := sd.Methods()
		for i := 0; i < ms.Len(); i++ {
			md := ms.Get(i)
			if md.IsStreamingClient() {
				continue
			}
			n := nU
			if md.IsStreamingServer() {
				n = nS
			}
			for _, c := range wrapCasesFor(rng, e, string(md.Name()), md.IsStreamingServer(), n) {
				o := checkWrapCase(mon, e, c)
				if c.Streaming {
					tie.Count("stream")
					if strings.HasSuffix(c.Dev, ":r") {
						tie.Count("stream/message-reused-after-send")
					}
					dp := strings.Split(c.Dev, ":")
					if dp[0] != "-" && (dp[2] != "-" || dp[3] != "-") {
						tie.Count("stream/staged-header+no-message+error")
					}
				} else {
					tie.Count("unary-on-wrapper")
				}
				mon.Eval(e.id()+"/"+c.Method+"/"+c.Fb+"/"+c.Fac+"/"+c.Ops+"/"+c.Name+"/"+c.Dev+"/"+c.Caller, true, nil)
				batch = append(batch, pending{e, c, o, c.modelLine(md.Index())})
			}
		}
	}
	runtime.GOMAXPROCS(old)
	lines := make([]string, len(batch))
	for i, p := range batch {
		lines[i] = p.line
	}
	ans, err := drv.Batch(lines)
	if err != nil {
		tie.Fail(err)
		return
	}
	for i, p := range batch {
		tie.Record(p.e.id()+"/"+p.c.Method+"/"+p.c.Fb+"/"+p.c.Fac+"/"+p.c.Ops+"/"+p.c.Name+"/"+p.c.Dev+"/"+p.c.Caller, true, p.c, ans[i], p.o.answer)
	}
}
