package main

import (
	"fmt"
	"sync"
	"sync/atomic"

	"github.com/smart-core-os/sc-golang/pkg/router"
	"github.com/smart-core-os/sc-golang/verifharness/lib"
)

// runStress: free-running concurrent first Gets (no hooks): supports the K4 tie where the forced
// schedules cannot reach (interleavings inside what the model treats as one atomic section).
// The property must hold on every run, so any failure is a genuine violation; passing proves nothing.
func runStress(f lib.Flags, res *lib.Result) {
	mon := res.Monitor("single-commit-stress", "R rounds of G goroutines released together, each calling Get of the same absent name on a router with a fresh-client factory (no yield points used): exactly one Auto change, every Get returns the client of that change")
	rounds, g := f.N(1500, 20000), 8
	for i := 0; i < rounds; i++ {
		var next atomic.Int64
		var mu sync.Mutex
		var autos []any
		r := router.NewRouter(
			router.WithFactory(func(string) (any, error) { return int(1000 + next.Add(1)), nil }),
			router.WithOnChange(func(c router.Change) {
				if c.Auto {
					mu.Lock()
					autos = append(autos, c.New)
					mu.Unlock()
				}
			}))
		start := make(chan struct{})
		got := make([]any, g)
		var wg sync.WaitGroup
		for k := 0; k < g; k++ {
			wg.Add(1)
			go func(k int) {
				defer wg.Done()
				<-start
				c, err := r.Get("n")
				if err == nil {
					got[k] = c
				}
			}(k)
		}
		close(start)
		wg.Wait()
		mon.Eval(fmt.Sprint(i), true, nil)
		in := map[string]any{"kind": "stress", "goroutines": g, "rounds": rounds}
		if len(autos) != 1 {
			mon.Violate("C12/router.Get/concurrent/double-commit", "concurrent first Gets must commit a single factory client (one Auto change)", in, "1 Auto change", fmt.Sprint(autos))
			continue
		}
		for _, c := range got {
			if c != autos[0] {
				mon.Violate("C12/router.Get/concurrent/returned-uncommitted-client", "every Get must return the committed client", in, fmt.Sprint(autos[0]), fmt.Sprint(got))
				break
			}
		}
	}
}
