// Harness for C17 (group execution honours each strategy's contract).
//
// Tie (K4+K1): the members handed to pkg/group are gated by channels which the harness releases in a
// chosen completion order, waiting for quiescence (see quiet.go) between releases, so that the
// completion order - the schedule - is an input.  The same (strategy, member behaviours, order,
// caller-cancel point) goes to the Lean model (driverC17), which runs its thread-level model under the
// corresponding schedule; the answers are compared as strings.
// Monitor: the strategy contracts written independently in Go (oracle.go), recovered panics and
// leftover goroutines.
package main

import (
	"encoding/json"
	"fmt"
	"math/rand"
	"os"
	"runtime"
	"time"

	"github.com/smart-core-os/sc-golang/verifharness/lib"
)

func main() {
	f := lib.ParseFlags()
	if f.Replay != "" {
		os.Exit(replay(f))
	}
	res := lib.NewResult("C17", f)

	exh := res.Tie("group-exhaustive", "K4",
		"EXHAUSTIVE: member counts 0..4 (thorough: 0..5) x every ok/fail assignment x every completion order (permutation) x every strategy "+
			"through group.Execute (Unspecified, All, Most, Any, One, Fast, Race, an out-of-range value) and through the strategies' own functions "+
			"(ExecuteAll/Most/Any/One/Fast/Race, ExecuteUpTo with every allowedErrors in -1..n); members are gated and released in the chosen order; "+
			"and, for 1..3 members through group.Execute with the six strategies, the same with the failing members' errors taken from each of 9 further error classes "+
			"(context.Canceled / DeadlineExceeded of the member's own, wrapped ones, gRPC status Canceled/DeadlineExceeded/Unavailable, a net.Error-like timeout, io.EOF) while the group's context is alive; "+
			"compared: result slice or (msg,index,error), which error, the point at which the call returned, the members' context state after each completion, "+
			"what each member saw, which members were started, goroutines left. non-trivial = n >= 1; distinct by full input")
	exh.Exhaustive = true
	rnd := res.Tie("group-random", "K1",
		"random from the seeded PRNG: 0..8 members; each returns (msg|nil, err|nil) in all four combinations with repeated ids; half of the errors are plain, the others of a random class "+
			"(the member's own context.Canceled/DeadlineExceeded, wrapped, gRPC status, net timeout, io.EOF); "+
			"~40% are cancellation-aware (return a different response when they find their context cancelled); the caller's context is cancelled after a random "+
			"number of completions in ~25% of cases; random completion order, strategy, API and allowedErrors in -2..n+1. non-trivial = n >= 2; distinct by full input")
	mon := res.Monitor("strategy-contracts",
		"every tie case is also judged by the contracts written in Go from the doc comments: error presence by failure count vs budget, error identity = first failure in completion order, "+
			"results[i] identical to member i's message, single result at its own index, One tries in index order, return point, context cancelled exactly when decided, no panic, no goroutine left")

	var cases []tcase
	var isExh []bool
	for _, c := range exhaustiveCases(f) {
		cases = append(cases, c)
		isExh = append(isExh, true)
	}
	rng := lib.NewRand(f.Seed)
	for i := 0; i < f.N(3000, 60000); i++ {
		cases = append(cases, randomCase(rng))
		isExh = append(isExh, false)
	}

	var answers []string
	drv, err := lib.StartDriver(f.Driver)
	if err == nil {
		defer drv.Close()
		lines := make([]string, len(cases))
		for i, c := range cases {
			lines[i] = c.line()
		}
		answers, err = drv.Batch(lines)
	}
	if err != nil {
		exh.Fail(err)
		rnd.Fail(err)
		answers = nil
	}

	// Scheduling of the harness process.  Every observation is made at a point of quiescence found by
	// stop-the-world goroutine dumps (quiet.go); with many Ps on a loaded machine each dump costs a
	// world-stop across all of them (measured: 13.6k cases take 6 s on one P and 35-65 s on 4-16 Ps while
	// other checks run).  The schedules the harness realises are serial by construction (release one
	// member, wait until nothing can move), so the bulk runs on one P; the last tenth of the random cases
	// runs on 4 Ps so that the goroutines of executeEach also really run in parallel.
	prevProcs := runtime.GOMAXPROCS(1)
	defer runtime.GOMAXPROCS(prevProcs)
	parallelFrom := len(cases) - f.N(300, 6000)
	t0 := time.Now()
	leaks := map[string]int{}
	for i, c := range cases {
		if i == parallelFrom {
			runtime.GOMAXPROCS(4)
		}
		if leaks[c.fn()] >= 25 {
			// every leaked goroutine stays in all later snapshots; after 25 leaking cases of one entry
			// point (the run has failed on it anyway) its remaining cases are skipped to keep the run short
			mon.Count("skipped-after-25-leaking-cases:" + c.fn())
			continue
		}
		o := runCase(c)
		// self-confirming, as for the adapters: report only what reproduces in 3 more executions
		suspicious := func(o obs) bool {
			return (answers != nil && answers[i] != o.canon(c)) || len(contract(c, o)) > 0
		}
		if suspicious(o) {
			mon.Count("retried-cases")
			for k := 0; k < 3; k++ {
				if o2 := runCase(c); !suspicious(o2) {
					mon.Count("retried-and-vanished")
					mon.Count("retried-and-vanished:" + c.line() + " first=" + o.canon(c))
					o = o2
					break
				}
			}
		}
		if len(o.Left) > 0 {
			leaks[c.fn()]++
		}
		code := o.canon(c)
		t := rnd
		nontrivial := c.n() >= 2
		if isExh[i] {
			t = exh
			nontrivial = c.n() >= 1
		}
		if answers != nil {
			t.Record(c.key(), nontrivial, c, answers[i], code)
		}
		t.Count("strategy:" + c.API + "/" + c.Strat)
		t.Count(fmt.Sprintf("n=%d", c.n()))
		for _, b := range c.Behs {
			if b.Normal.Err != 0 {
				t.Count("member-error-class:" + errClassOf(b.Normal.Err))
			}
		}
		switch {
		case o.Panic != "":
			t.Count("outcome:panic")
		case o.Err != "-":
			t.Count("outcome:error")
		default:
			t.Count("outcome:ok")
		}
		for _, s := range o.Seen {
			if s == 1 {
				t.Count("member-saw-cancelled-context")
				break
			}
		}
		monitorCase(mon, c, o)
	}
	if answers == nil {
		drv = nil
	}
	fmt.Fprintf(os.Stderr, "c17: %d gated pkg/group cases in %v\n", len(cases), time.Since(t0).Round(time.Millisecond))
	t0 = time.Now()
	runtime.GOMAXPROCS(1)
	runGatedAdapters(f, res, drv, rng)
	fmt.Fprintf(os.Stderr, "c17: Group adapters (gated members) in %v\n", time.Since(t0).Round(time.Millisecond))
	t0 = time.Now()
	runPullLoops(f, res, drv, rng)
	fmt.Fprintf(os.Stderr, "c17: Group Pull loops in %v\n", time.Since(t0).Round(time.Millisecond))
	t0 = time.Now()
	runtime.GOMAXPROCS(4)
	runAdapters(f, res, drv)
	fmt.Fprintf(os.Stderr, "c17: Group adapters (model servers) in %v\n", time.Since(t0).Round(time.Millisecond))
	if err := res.Write(f.Out); err != nil {
		lib.Fatal(err)
	}
}

func perms(n int) [][]int {
	if n == 0 {
		return [][]int{{}}
	}
	var out [][]int
	for _, p := range perms(n - 1) {
		for pos := 0; pos <= len(p); pos++ {
			q := make([]int, 0, n)
			q = append(q, p[:pos]...)
			q = append(q, n-1)
			q = append(q, p[pos:]...)
			out = append(out, q)
		}
	}
	return out
}

func exhaustiveCases(f lib.Flags) []tcase {
	type as struct {
		api, strat string
		maxN       int
	}
	combos := []as{{"x", "all", 4}, {"x", "most", 4}, {"x", "any", 4}, {"x", "one", 4}, {"x", "fast", 4}, {"x", "race", 4},
		{"x", "unspec", 3}, {"x", "other", 3},
		{"d", "all", 4}, {"d", "most", 4}, {"d", "any", 4}, {"d", "one", 4}, {"d", "fast", 4}, {"d", "race", 4}, {"d", "upto", 4}}
	var out []tcase
	top := 4
	if f.Thorough() {
		top = 5 // thorough: 5 members as well (except the ExecuteUpTo budget sweep and the aliases of All)
	}
	for n := 0; n <= top; n++ { // small cases first: the first input per signature becomes the replay
		for _, cb := range combos {
			maxN := cb.maxN
			if f.Thorough() && cb.strat != "upto" && cb.strat != "unspec" && cb.strat != "other" {
				maxN = 5
			}
			if n > maxN {
				continue
			}
			alloweds := []int{0}
			if cb.strat == "upto" {
				alloweds = nil
				for a := -1; a <= n; a++ {
					alloweds = append(alloweds, a)
				}
			}
			for _, a := range alloweds {
				for bits := 0; bits < 1<<n; bits++ {
					behs := make([]beh, n)
					for i := range behs {
						if bits>>i&1 == 1 {
							behs[i] = beh{Normal: resp{Err: i + 1}}
						} else {
							behs[i] = beh{Normal: resp{Msg: i + 1}}
						}
					}
					for _, p := range perms(n) {
						out = append(out, tcase{API: cb.api, Strat: cb.strat, Allowed: a, Behs: behs, Order: p, PCancel: -1})
					}
				}
			}
		}
	}
	// every class of member error x every strategy: failing members fail with an error of the class (their own
	// context errors, wrapped, status, timeout, EOF) while the group's context is alive
	for n := 1; n <= 3; n++ {
		for _, st := range []string{"all", "most", "any", "one", "fast", "race"} {
			for class := 1; class < ecCount; class++ {
				for bits := 1; bits < 1<<n; bits++ {
					behs := make([]beh, n)
					for i := range behs {
						if bits>>i&1 == 1 {
							behs[i] = beh{Normal: resp{Err: errNum(class, i+1)}}
						} else {
							behs[i] = beh{Normal: resp{Msg: i + 1}}
						}
					}
					for _, p := range perms(n) {
						out = append(out, tcase{API: "x", Strat: st, Behs: behs, Order: p, PCancel: -1})
					}
				}
			}
		}
	}
	return out
}

// randomErr: an error of a random class (half of them plain, the others spread over every class of
// makeErr: the members' own context errors, wrapped ones, status errors, timeouts, io.EOF).
func randomErr(r *rand.Rand, ids int) int {
	class := ecPlain
	if r.Intn(2) == 0 {
		class = 1 + r.Intn(ecCount-1)
	}
	return errNum(class, 1+r.Intn(ids))
}

func randomResp(r *rand.Rand, ids int) resp {
	switch x := r.Intn(100); {
	case x < 42:
		return resp{Msg: 1 + r.Intn(ids)}
	case x < 80:
		return resp{Err: randomErr(r, ids)}
	case x < 90:
		return resp{Msg: 1 + r.Intn(ids), Err: randomErr(r, ids)}
	default:
		return resp{}
	}
}

func randomCase(r *rand.Rand) tcase {
	n := r.Intn(9)
	if r.Intn(4) == 0 {
		n = 2 + r.Intn(3)
	}
	ids := 1 + r.Intn(n+2) // few ids => repeated messages/errors across members
	c := tcase{PCancel: -1, Behs: make([]beh, n), Order: r.Perm(n)}
	failBias := r.Intn(3)
	for i := range c.Behs {
		b := beh{Normal: randomResp(r, ids)}
		if failBias == 0 && r.Intn(2) == 0 {
			b.Normal = resp{Err: randomErr(r, ids)}
		}
		if failBias == 1 && r.Intn(2) == 0 {
			b.Normal = resp{Msg: 1 + r.Intn(ids)}
		}
		if r.Intn(100) < 40 {
			b.Aware = true
			switch x := r.Intn(8); {
			case x < 2:
				b.OnCancel = randomResp(r, ids+3)
			case x < 5:
				b.OnCancel = resp{Err: errNum(ecCanceled, 0)} // what a real member does: return ctx.Err()
			default:
				b.OnCancel = resp{Err: ids + 1 + r.Intn(3)}
			}
		}
		c.Behs[i] = b
	}
	strats := []string{"all", "most", "any", "one", "fast", "race", "upto", "upto", "unspec", "other"}
	c.Strat = strats[r.Intn(len(strats))]
	c.API = "x"
	if c.Strat == "upto" || (c.Strat != "unspec" && c.Strat != "other" && r.Intn(2) == 0) {
		c.API = "d"
	}
	if c.Strat == "upto" {
		c.Allowed = r.Intn(n+4) - 2
	}
	if n > 0 && r.Intn(4) == 0 {
		c.PCancel = r.Intn(n)
	}
	return c
}

func replay(f lib.Flags) int {
	rp, err := lib.ReadReplay(f.Replay)
	if err != nil {
		lib.Fatal(err)
	}
	b, err := json.Marshal(rp.Input)
	if err != nil || rp.Input == nil {
		fmt.Println("replay: no concrete input in file (", rp.Kind, rp.Broken, ")")
		return 2
	}
	var probe struct {
		Trait string `json:"trait"`
		Gated bool   `json:"gated"`
	}
	var probeLoop struct {
		PullLoop bool `json:"pull_loop"`
	}
	if json.Unmarshal(b, &probeLoop) == nil && probeLoop.PullLoop {
		var pc pcase
		if err := json.Unmarshal(b, &pc); err != nil {
			fmt.Println("replay: input is not a C17 pull-loop case:", string(b))
			return 2
		}
		code := runPullLoop(pc)
		fmt.Printf("replay %s\n  -> %s\n", pc.line(), code)
		m := lib.NewMonitor("replay", "")
		pullLoopMonitor(m, pc, code)
		for _, v := range m.Violations {
			fmt.Printf("STILL FAILS %s: %s (expected %s, observed %s)\n", v.Signature, v.What, v.Expected, v.Observed)
		}
		if len(m.Violations) > 0 {
			return 1
		}
		fmt.Println("replay: property holds on this input now")
		return 0
	}
	if json.Unmarshal(b, &probe) == nil && probe.Gated {
		g := gcase{PCancel: -1}
		if err := json.Unmarshal(b, &g); err != nil || len(g.Order) != len(g.Behs) {
			fmt.Println("replay: input is not a gated C17 adapter case:", string(b))
			return 2
		}
		t := g.tcase()
		o := runCase(t)
		fmt.Printf("replay %s\n  -> %s\n", g.line(), o.canon(t))
		m := lib.NewMonitor("replay", "")
		gadapterMonitor(m, g, o)
		for _, v := range m.Violations {
			fmt.Printf("STILL FAILS %s: %s (expected %s, observed %s)\n", v.Signature, v.What, v.Expected, v.Observed)
		}
		if len(m.Violations) > 0 {
			return 1
		}
		fmt.Println("replay: property holds on this input now")
		return 0
	}
	if json.Unmarshal(b, &probe) == nil && probe.Trait != "" {
		var ac acase
		if err := json.Unmarshal(b, &ac); err != nil {
			fmt.Println("replay: input is not a C17 adapter case:", string(b))
			return 2
		}
		o := runAdapter(ac)
		fmt.Printf("replay %s\n  -> %s %s\n", ac.key(), o.Verdict, o.Value)
		m := lib.NewMonitor("replay", "")
		adapterMonitor(m, ac, o)
		for _, v := range m.Violations {
			fmt.Printf("STILL FAILS %s: %s (expected %s, observed %s)\n", v.Signature, v.What, v.Expected, v.Observed)
		}
		if len(m.Violations) > 0 {
			return 1
		}
		fmt.Println("replay: property holds on this input now")
		return 0
	}
	c := tcase{PCancel: -1}
	if err := json.Unmarshal(b, &c); err != nil || len(c.Order) != len(c.Behs) {
		fmt.Println("replay: input is not a C17 case:", string(b))
		return 2
	}
	o := runCase(c)
	fmt.Printf("replay %s\n  -> %s\n", c.line(), o.canon(c))
	fs := contract(c, o)
	for _, v := range fs {
		fmt.Printf("STILL FAILS C17/%s/%s: %s (expected %s, observed %s)\n", c.fn(), v.class, v.what, v.expected, v.observed)
	}
	if len(fs) > 0 {
		return 1
	}
	fmt.Println("replay: property holds on this input now")
	return 0
}
