package main

// The Group subscriptions (PullOnOff / PullBrightness) over REAL in-process clients, with a subscriber that
// does not keep up: what is started on behalf of the members must end once the subscription has ended.
//
// A Group's members are calls on its `impl`; the client the library provides for that (WrapApi =
// wrap.ServerToClient) starts a handler goroutine per member stream, which meets the member closure on an
// unbuffered channel.  "Every goroutine it starts ends once its members return" therefore includes those
// handlers (and, with a router and model servers in between, the forwarding handlers and the Pull adapters
// behind them): only the cancellation of the member's context can end them, and it has to reach a handler
// wherever it is parked - in particular inside SendMsg while its member is itself stuck handing the previous
// report to a group loop that is parked in server.Send to a slow subscriber.
//
// A case is a script of environment actions (a device reports a value / fails, the subscriber's parked Send
// returns nil / an error, the subscriber cancels); after each action the harness waits for whole-process
// quiescence (quiet.go) and observes: per device whether its handler waits, is inside server.Send or has
// returned, and how many of its Sends returned nil; whether PullX is inside the subscriber's Send or has
// returned; the values forwarded.  Topologies:
//   direct - Group over WrapApi(scripted devices): tied to the Lean pipeline model (driver op `pipe`), which
//            answers with EVERY point of quiescence its internal steps can reach (the scheduler decides e.g. which
//            of two members hands over first); the observation must be one of them (K4, set-valued);
//   routed - Group over WrapApi(router) whose clients are WrapApi(scripted devices): monitor only;
//   models - Group over WrapApi(router) over WrapApi(model servers), reports made by updating the member's model:
//            monitor only.
// Monitor (oracle written here, independent of the model): PullX returns exactly when the outcome is decided
// (failed Send, cancelled subscriber, more failed devices than the strategy tolerates) and the subscriber's Send
// is not holding it; with the Send error when a Send failed; and once it has returned, at quiescence, NO goroutine
// that did not exist before the case exists any more (whole-process census).

import (
	"context"
	"fmt"
	"math/rand"
	"runtime"
	"strconv"
	"strings"
	"sync/atomic"

	"google.golang.org/grpc"
	"google.golang.org/grpc/codes"
	"google.golang.org/grpc/status"

	"github.com/smart-core-os/sc-api/go/traits"
	"github.com/smart-core-os/sc-golang/pkg/trait/lightpb"
	"github.com/smart-core-os/sc-golang/pkg/trait/onoffpb"
	"github.com/smart-core-os/sc-golang/verifharness/lib"
)

type plcase struct {
	Pipeline bool     `json:"pipeline"` // always true (tells a replay file of this kind from the others)
	Trait    string   `json:"trait"`    // onoff | light
	Topology string   `json:"topology"` // direct | routed | models
	Strat    string   `json:"read_execution"`
	N        int      `json:"members"`
	Ops      []string `json:"ops"` // p<i>:<k> device i reports value code k (onoff: state k-1; light: level 24*(k-1)); p<i>:x it fails; ok | sf: the parked Send returns nil | an error; cc: the subscriber cancels
	Procs    int      `json:"gomaxprocs"`
	Names    []string `json:"names,omitempty"` // the member names the Group is built with = the devices' names (naming.go; distinct; direct / routed only); none: m0, m1, ...
}

func (p plcase) fn() string { return acase{Trait: p.Trait, RPC: "Pull"}.fn() }
func (p plcase) key() string {
	k := fmt.Sprintf("%s/%s %s n=%d %s", p.Trait, p.Topology, p.Strat, p.N, dash(strings.Join(p.Ops, ",")))
	if p.Names != nil {
		k += " names=" + quoteNames(p.Names)
	}
	return k
}

// the strategy as the pipeline model's parameters: Execute cancels when more than `allowed` members have failed and
// returns once `retAfter` members have returned (a Pull member never succeeds: Fast waits for all of them)
func (p plcase) params() (allowed, retAfter int) {
	n := p.N
	switch p.Strat {
	case "all":
		return 0, n
	case "most":
		return n / 2, n
	case "any":
		if n == 0 {
			return 0, 0
		}
		return n - 1, n
	case "fast":
		return n, n
	case "race":
		if n == 0 {
			return 0, 0
		}
		return n, 1
	case "one": // members one after the other; never cancels; returns when the last one has failed
		return n, n
	}
	return 0, n
}

// ---- scripted devices

type scriptDev struct {
	cmd   chan int     // value codes; -1: fail
	state atomic.Int32 // 0 waiting, 1 inside server.Send, 2 returned - or never called (strategy One: the member's turn has not come / came after the cancellation)
	acc   atomic.Int32 // Sends that returned nil
	took  atomic.Int32 // a failure instruction was taken
}

func (d *scriptDev) obs() string {
	return string("ise"[d.state.Load()]) + strconv.Itoa(int(d.acc.Load()))
}

func (d *scriptDev) serve(ctx context.Context, send func(k int) error) error {
	d.state.Store(0)
	defer d.state.Store(2)
	for {
		select {
		case k := <-d.cmd:
			if k < 0 {
				d.took.Store(1)
				return errBroken
			}
			d.state.Store(1)
			if err := send(k); err != nil {
				return err
			}
			d.acc.Add(1)
			d.state.Store(0)
		case <-ctx.Done():
			return ctx.Err()
		}
	}
}

type scriptedOnOff struct {
	traits.UnimplementedOnOffApiServer
	devs map[string]*scriptDev
}

func (s *scriptedOnOff) PullOnOff(req *traits.PullOnOffRequest, server traits.OnOffApi_PullOnOffServer) error {
	d := s.devs[req.Name]
	if d == nil {
		return status.Error(codes.NotFound, "no such device")
	}
	return d.serve(server.Context(), func(k int) error {
		return server.Send(&traits.PullOnOffResponse{Changes: []*traits.PullOnOffResponse_Change{
			{Name: req.Name, OnOff: &traits.OnOff{State: traits.OnOff_State(k - 1)}}}})
	})
}

type scriptedLight struct {
	traits.UnimplementedLightApiServer
	devs map[string]*scriptDev
}

func (s *scriptedLight) PullBrightness(req *traits.PullBrightnessRequest, server traits.LightApi_PullBrightnessServer) error {
	d := s.devs[req.Name]
	if d == nil {
		return status.Error(codes.NotFound, "no such device")
	}
	return d.serve(server.Context(), func(k int) error {
		return server.Send(&traits.PullBrightnessResponse{Changes: []*traits.PullBrightnessResponse_Change{
			{Name: req.Name, Brightness: &traits.Brightness{LevelPercent: lightLevel(k)}}}})
	})
}

// ---- the subscriber: every Send parks until the harness answers it

type gateSub struct {
	grpc.ServerStream
	ctx    context.Context
	inSend atomic.Bool
	gate   chan error
	got    []string // written only inside Send, read only at quiescence
}

func (s *gateSub) Context() context.Context { return s.ctx }
func (s *gateSub) take(v string) error {
	s.got = append(s.got, v)
	s.inSend.Store(true)
	err := <-s.gate
	s.inSend.Store(false)
	return err
}

type gateOnOffSub struct{ *gateSub }

func (s gateOnOffSub) Send(r *traits.PullOnOffResponse) error {
	for _, ch := range r.Changes {
		v := "nil"
		if ch.GetOnOff() != nil {
			v = onoffName(ch.GetOnOff().GetState())
		}
		if err := s.take(v); err != nil {
			return err
		}
	}
	return nil
}

type gateLightSub struct{ *gateSub }

func (s gateLightSub) Send(r *traits.PullBrightnessResponse) error {
	for _, ch := range r.Changes {
		v := "nil"
		if ch.GetBrightness() != nil {
			v = fmtLevel(ch.GetBrightness().GetLevelPercent())
		}
		if err := s.take(v); err != nil {
			return err
		}
	}
	return nil
}

// ---- one case

type plobs struct {
	Steps    []string // executed ops as `<op>=<observation>` (the request to the driver)
	Problem  string   // "" or stalled:… / panic:…
	Returned bool
	ErrClass string
	Verdicts []string // oracle complaints (signature suffix + detail)
	Left     []string // goroutines left at the end (top frames)
}

func (o plobs) code() string {
	if o.Problem != "" {
		return "!" + o.Problem
	}
	return "ok left=" + strconv.Itoa(len(o.Left))
}

func runPipeline(p plcase) (o plobs) {
	if p.Procs > 0 {
		prev := runtime.GOMAXPROCS(p.Procs)
		defer runtime.GOMAXPROCS(prev)
	}
	base := goroutineIDs()
	names := defaultNames(p.N)
	if p.Topology != "models" {
		names = namesOr(p.Names, p.N)
	}
	devs := map[string]*scriptDev{}
	for i := range names {
		devs[names[i]] = &scriptDev{cmd: make(chan int, 64)}
		devs[names[i]].state.Store(2)
	}
	ctx, cancel := context.WithCancel(context.Background())
	defer cancel()
	sub := &gateSub{ctx: ctx, gate: make(chan error)}
	var pull func() error
	var poke func(i, k int) // models topology: update the member's model
	pokeCtx, pokeCancel := context.WithCancel(context.Background())
	defer pokeCancel()
	switch p.Trait {
	case "onoff":
		var impl traits.OnOffApiClient
		switch p.Topology {
		case "direct":
			impl = onoffpb.WrapApi(&scriptedOnOff{devs: devs})
		case "routed":
			inner := onoffpb.WrapApi(&scriptedOnOff{devs: devs})
			impl = onoffpb.WrapApi(onoffpb.NewApiRouter(onoffpb.WithOnOffApiClientFactory(func(string) (traits.OnOffApiClient, error) { return inner, nil })))
		default:
			impl = onoffpb.WrapApi(onoffpb.NewApiRouter(onoffpb.WithOnOffApiClientFactory(func(string) (traits.OnOffApiClient, error) {
				return onoffpb.WrapApi(onoffpb.NewModelServer(onoffpb.NewModel(onoffpb.WithInitialOnOff(&traits.OnOff{State: traits.OnOff_OFF})))), nil
			})))
			poke = func(i, k int) {
				_, _ = impl.UpdateOnOff(pokeCtx, &traits.UpdateOnOffRequest{Name: memberName(i), OnOff: &traits.OnOff{State: traits.OnOff_State(k - 1)}})
			}
		}
		g := onoffpb.NewGroup(impl, names...)
		g.ReadExecution = strategyConst[p.Strat]
		pull = func() error { return g.PullOnOff(&traits.PullOnOffRequest{Name: "G"}, gateOnOffSub{sub}) }
	default:
		var impl traits.LightApiClient
		switch p.Topology {
		case "direct":
			impl = lightpb.WrapApi(&scriptedLight{devs: devs})
		case "routed":
			inner := lightpb.WrapApi(&scriptedLight{devs: devs})
			impl = lightpb.WrapApi(lightpb.NewApiRouter(lightpb.WithLightApiClientFactory(func(string) (traits.LightApiClient, error) { return inner, nil })))
		default:
			impl = lightpb.WrapApi(lightpb.NewApiRouter(lightpb.WithLightApiClientFactory(func(string) (traits.LightApiClient, error) {
				return lightpb.WrapApi(lightpb.NewModelServer(lightpb.NewModel(lightpb.WithInitialBrightness(&traits.Brightness{LevelPercent: 24})))), nil
			})))
			poke = func(i, k int) {
				_, _ = impl.UpdateBrightness(pokeCtx, &traits.UpdateBrightnessRequest{Name: memberName(i), Brightness: &traits.Brightness{LevelPercent: lightLevel(k)}})
			}
		}
		g := lightpb.NewGroup(impl, names...)
		g.ReadExecution = strategyConst[p.Strat]
		pull = func() error { return g.PullBrightness(&traits.PullBrightnessRequest{Name: "G"}, gateLightSub{sub}) }
	}

	returned := make(chan error, 1)
	go func() {
		defer func() {
			if r := recover(); r != nil {
				returned <- fmt.Errorf("panic: %v", r)
			}
		}()
		returned <- pull()
	}()

	// the oracle's bookkeeping
	allowed, retAfter := p.params()
	sendFailed, cancelled := false, false
	var retErr error
	failedDevices := func() int {
		k := 0
		for _, d := range devs {
			if d.took.Load() == 1 {
				k++
			}
		}
		return k
	}
	observe := func(op string) bool {
		if !waitQuietAll(base) {
			o.Problem = "stalled:no-quiescence-after-" + op
			return false
		}
		if !o.Returned {
			select {
			case retErr = <-returned:
				o.Returned = true
				o.ErrClass = plErrClass(retErr)
				if strings.HasPrefix(o.ErrClass, "panic") {
					o.Problem = o.ErrClass
					return false
				}
			default:
			}
		}
		lanes := make([]string, p.N)
		for i, nm := range names {
			lanes[i] = devs[nm].obs()
		}
		loop := "run"
		if o.Returned {
			loop = "ret"
		} else if sub.inSend.Load() {
			loop = "send"
		}
		o.Steps = append(o.Steps, op+"="+dash(strings.Join(lanes, "."))+";"+loop+";"+dash(strings.Join(sub.got, ".")))
		// the oracle: returned exactly when decided and not held by the subscriber's Send
		f := failedDevices()
		decided := sendFailed || cancelled || p.N == 0 || f > allowed || f >= retAfter
		switch {
		case o.Returned && !decided:
			o.Verdicts = append(o.Verdicts, "returned-undecided|after "+op+": PullX returned ("+o.ErrClass+") although no Send failed, the subscriber did not cancel and only "+strconv.Itoa(f)+" device(s) failed")
		case !o.Returned && decided && loop != "send":
			o.Verdicts = append(o.Verdicts, "not-returned|after "+op+": the outcome is decided and the subscriber's Send is not holding the loop, but PullX has not returned")
		}
		return true
	}
	if !observe("start") {
		return o
	}
	ops := append([]string(nil), p.Ops...)
	ops = append(ops, "end") // forced ending: cancel, and fail the parked Send if there is one
	for _, op := range ops {
		if o.Returned && op != "end" && !strings.HasPrefix(op, "p") {
			continue
		}
		switch {
		case op == "ok" || op == "sf":
			if !sub.inSend.Load() {
				continue
			}
			if op == "sf" {
				sendFailed = true
				sub.gate <- errSubscriberGone
			} else {
				sub.gate <- nil
			}
		case op == "cc":
			cancelled = true
			cancel()
		case op == "end":
			if o.Returned {
				continue
			}
			if !cancelled {
				cancelled = true
				cancel()
				if !observe("cc") {
					return o
				}
			}
			if !o.Returned && sub.inSend.Load() {
				sendFailed = true
				sub.gate <- errSubscriberGone
				if !observe("sf") {
					return o
				}
			}
			continue
		default: // p<i>:<k|x>
			var i int
			var v string
			if _, err := fmt.Sscanf(strings.Replace(op, ":", " ", 1), "p%d %s", &i, &v); err != nil || i >= p.N {
				continue
			}
			k := -1
			if v != "x" {
				k, _ = strconv.Atoi(v)
			}
			if poke != nil {
				if k < 0 {
					continue
				}
				go poke(i, k)
			} else {
				d := devs[names[i]]
				if len(d.cmd) == cap(d.cmd) {
					continue
				}
				d.cmd <- k
			}
		}
		if !observe(op) {
			return o
		}
	}
	if !o.Returned {
		o.Problem = "stalled:subscription-does-not-end"
		return o
	}
	// error class
	switch {
	case sendFailed && o.ErrClass != "senderr":
		o.Verdicts = append(o.Verdicts, "error|a server.Send failed: PullX must return that error, it returned "+o.ErrClass)
	case !sendFailed && p.N > 0 && failedDevices() == 0 && o.ErrClass != "cancelled":
		o.Verdicts = append(o.Verdicts, "error|the subscriber cancelled and no device failed: PullX must end as cancelled, it returned "+o.ErrClass)
	case !sendFailed && !cancelled && failedDevices() > 0 && o.ErrClass != "member":
		o.Verdicts = append(o.Verdicts, "error|devices failed and nothing else happened: PullX must return a device's error, it returned "+o.ErrClass)
	}
	// the census: nothing that was started for this subscription exists any more
	pokeCancel()
	cancel()
	if !waitQuietAll(base) {
		o.Problem = "stalled:no-quiescence-at-the-end"
		return o
	}
	for _, g := range allGoroutinesText() {
		if _, in := base[g.ID]; in {
			continue
		}
		o.Left = append(o.Left, topFrames(g))
	}
	if p.Topology != "models" {
		for i, nm := range names {
			if devs[nm].state.Load() != 2 {
				o.Verdicts = append(o.Verdicts, "device-handler-not-released|the handler serving member "+strconv.Itoa(i)+" has not returned although the subscription has ended and its member was cancelled")
			}
		}
	}
	return o
}

func plErrClass(err error) string {
	switch {
	case err == nil:
		return "nil"
	case err == errSubscriberGone:
		return "senderr"
	case strings.HasPrefix(err.Error(), "panic: "):
		return "panic:" + strings.ReplaceAll(strings.TrimPrefix(err.Error(), "panic: "), " ", "_")
	case err == context.Canceled || status.Code(err) == codes.Canceled:
		return "cancelled"
	case status.Code(err) == codes.Unavailable:
		return "member"
	case err.Error() == "no members returned a response":
		return "noresp"
	}
	return "?" + strings.ReplaceAll(err.Error(), " ", "_")
}

// topFrames: state + the first function frames of a goroutine, for reports.
func topFrames(g gor) string {
	lines := strings.Split(g.Text, "\n")
	var fns []string
	for i := 1; i < len(lines) && len(fns) < 4; i += 2 {
		fn := lines[i]
		if j := strings.LastIndex(fn, "("); j > 0 {
			fn = fn[:j]
		}
		if j := strings.LastIndex(fn, "/"); j >= 0 {
			fn = fn[j+1:]
		}
		if strings.HasPrefix(fn, "runtime.") || fn == "" {
			continue
		}
		fns = append(fns, fn)
	}
	return "[" + g.State + "] " + strings.Join(fns, " <- ")
}

func (p plcase) line(o plobs) string {
	// the model's parameters (when Execute cancels / returns) are computed by the driver from the strategy
	// (Lean: execParams, proved against the thread model of exec.go); params() below serves the Go oracle only
	return fmt.Sprintf("pipe %s %d %s %s", p.Trait, p.N, p.Strat, strings.Join(o.Steps, ","))
}

func pipelineMonitor(mon *lib.Monitor, p plcase, o plobs) {
	mon.Eval(p.key(), p.N >= 1 && len(p.Ops) >= 2, nil)
	sig := "C17/" + p.fn() + "/" + p.Topology + "/"
	if strings.HasPrefix(o.Problem, "panic") {
		mon.Violate(sig+"panic", "the subscription panicked", p, "no panic", o.Problem)
		return
	}
	if o.Problem != "" {
		mon.Violate(sig+"stalled", "the subscription neither reached a point of quiescence nor ended when its subscriber cancelled and its Send failed", p, "ends", o.Problem+" after "+strings.Join(o.Steps, ","))
		return
	}
	for _, v := range o.Verdicts {
		parts := strings.SplitN(v, "|", 2)
		mon.Violate(sig+parts[0], parts[1], p, "PullX returns exactly when its outcome is decided; then everything started for its members ends", strings.Join(o.Steps, ","))
	}
	if len(o.Left) > 0 {
		mon.Violate(sig+"goroutines-left-after-subscription-ended",
			"PullX has returned, its members were cancelled and have returned, the process is quiescent - and goroutines started for this subscription still exist (parked for ever)",
			p, "no goroutine left", strconv.Itoa(len(o.Left))+" left: "+strings.Join(o.Left, " ; "))
	}
}

func (o plobs) bad() bool { return o.Problem != "" || len(o.Verdicts) > 0 || len(o.Left) > 0 }

// ---- generation

var plStrats = []string{"all", "most", "any", "fast", "race", "one"}

func plValue(trait string, r *rand.Rand) int {
	if trait == "onoff" {
		return 2 + r.Intn(2)
	}
	return 1 + r.Intn(5)
}

// stallCases: the pipeline filled to the brim behind a parked Send (per device: one report at the loop / the member,
// one more inside SendMsg, one more waiting), then each way the subscription can end.
func stallCases() []plcase {
	var out []plcase
	endings := [][]string{{"sf"}, {"cc", "sf"}, {"cc", "ok"}, {"ok", "sf"}, {"cc"}}
	for _, topo := range []string{"direct", "routed", "models"} {
		for _, tr := range []string{"onoff", "light"} {
			for n := 1; n <= 3; n++ {
				for si, st := range plStrats {
					var ops []string
					for round := 0; round < 3; round++ {
						for i := 0; i < n; i++ {
							k := 2 + (round+i)%2
							ops = append(ops, fmt.Sprintf("p%d:%d", i, k))
						}
					}
					e := endings[(si+n)%len(endings)]
					if topo != "models" && n >= 2 {
						// the member list is any list of strings (naming.go): the same stall with each device's name blank in turn / names that look like another device's
						for k, names := range nameSchemes(n, false) {
							if (k+si)%n == 0 || topo == "direct" {
								out = append(out, plcase{Pipeline: true, Trait: tr, Topology: topo, Strat: st, N: n, Ops: append(append([]string(nil), ops...), e...), Names: names})
							}
						}
					}
					if topo == "direct" || n == 2 {
						for _, e := range endings {
							out = append(out, plcase{Pipeline: true, Trait: tr, Topology: topo, Strat: st, N: n, Ops: append(append([]string(nil), ops...), e...)})
						}
						continue
					}
					out = append(out, plcase{Pipeline: true, Trait: tr, Topology: topo, Strat: st, N: n, Ops: append(ops, e...)})
				}
			}
		}
	}
	return out
}

// smallScripts: EVERY script of up to `maxLen` actions over the whole alphabet for up to two devices, per strategy
// (onoff, direct topology): device i reports ON / OFF / fails, the parked Send returns nil / an error, the subscriber cancels.
func smallScripts(maxLen int) []plcase {
	var out []plcase
	for n := 0; n <= 2; n++ {
		alphabet := []string{"ok", "sf", "cc"}
		for i := 0; i < n; i++ {
			alphabet = append(alphabet, fmt.Sprintf("p%d:2", i), fmt.Sprintf("p%d:3", i), fmt.Sprintf("p%d:x", i))
		}
		var scripts [][]string
		layer := [][]string{nil}
		for l := 1; l <= maxLen; l++ {
			var next [][]string
			for _, pre := range layer {
				for _, a := range alphabet {
					if (a == "ok" || a == "sf") && len(pre) == 0 {
						continue // no Send can be parked before the first report
					}
					next = append(next, append(append([]string(nil), pre...), a))
				}
			}
			scripts = append(scripts, next...)
			layer = next
		}
		for _, st := range plStrats {
			for _, sc := range scripts {
				out = append(out, plcase{Pipeline: true, Trait: "onoff", Topology: "direct", Strat: st, N: n, Ops: sc})
			}
		}
	}
	return out
}

func randomPipeline(r *rand.Rand) plcase {
	p := plcase{Pipeline: true, Trait: []string{"onoff", "light"}[r.Intn(2)], Strat: plStrats[r.Intn(len(plStrats))], N: r.Intn(4)}
	switch x := r.Intn(10); {
	case x < 6:
		p.Topology = "direct"
	case x < 8:
		p.Topology = "routed"
	default:
		p.Topology = "models"
	}
	if p.Topology != "models" {
		p.Names = randomNames(p.N, false, r)
	}
	for k := r.Intn(11); k > 0; k-- {
		switch x := r.Intn(20); {
		case x < 11 && p.N > 0:
			p.Ops = append(p.Ops, fmt.Sprintf("p%d:%d", r.Intn(p.N), plValue(p.Trait, r)))
		case x < 13 && p.N > 0:
			p.Ops = append(p.Ops, fmt.Sprintf("p%d:x", r.Intn(p.N)))
		case x < 17:
			p.Ops = append(p.Ops, "ok")
		case x < 18:
			p.Ops = append(p.Ops, "sf")
		case x < 19:
			p.Ops = append(p.Ops, "cc")
		default:
			p.Ops = append(p.Ops, "ok")
		}
	}
	return p
}

func runPipelines(f lib.Flags, res *lib.Result, drv *lib.Driver, rng *rand.Rand) {
	tie := res.Tie("group-pull-pipeline", "K4",
		"onoffpb.Group / lightpb.Group PullX over WrapApi(scripted devices) with a subscriber whose every Send parks until the harness answers it; x {All, Most, Any, Fast, Race, One} x 0..3 devices; "+
			"scripts of environment actions (device i reports a value / fails, the parked Send returns nil / an error, the subscriber cancels): EVERY script of up to 2 (thorough: 3) actions for 0..2 onoff devices per strategy; the stall family (every device's lane filled: one report at the loop or held by the member closure, one inside SendMsg, one waiting; then each of 5 endings) and random scripts of up to 10 actions, every script ending with cancel + failed Send if the subscription still runs; the devices' NAMES (= the Group's member list) are an input the model does not have: the stall family for 2..3 devices also under each name blank in turn and names that look like another device's, half of the random direct / routed scripts under distinct odd names; "+
			"after every action, at whole-process quiescence: per device handler waiting / inside server.Send / returned and its count of Sends that returned nil, PullX running / inside the subscriber's Send / returned, the values forwarded. "+
			"model = the Lean pipeline model (handler - wrap stream - member closure - loop; Pipe.step), asked for EVERY point of quiescence its internal steps can reach after the same action from the states compatible with the earlier observations; the observation must be one of them, and at the end the model's count of threads left (0) must equal the census of goroutines left. non-trivial = at least one device and two actions; distinct by script")
	mon := res.Monitor("group-pull-pipeline-contract",
		"the same runs, and the same scripts over WrapApi(router) -> WrapApi(scripted devices) and over WrapApi(router) -> WrapApi(model servers) (reports made by updating the member's model), judged by an oracle written in Go: "+
			"PullX returns exactly when its outcome is decided (a Send failed, the subscriber cancelled, more devices failed than the strategy tolerates) and the subscriber's Send is not holding it; with the Send's error when a Send failed, as cancelled when only the subscriber cancelled; "+
			"and once it has returned and the process is quiescent NO goroutine that did not exist before the case exists any more - the member closures, the goroutines of Execute, and everything started on behalf of the members behind the in-process client (device handlers, router forwarders, model Pull adapters)")
	cases := stallCases()
	cases = append(cases, smallScripts(f.N(2, 3))...)
	for i := 0; i < f.N(500, 6000); i++ {
		cases = append(cases, randomPipeline(rng))
	}
	// small first among the random ones does not matter: the stall family comes first and is ordered by size
	for i := range cases {
		cases[i].Procs = 1
		if i%4 == 3 {
			cases[i].Procs = 4
		}
	}
	bad := 0
	for _, c := range cases {
		if crashedStrategy(crashedFns, c.Strat) {
			mon.Count("skipped-crashing-entry-point")
			continue
		}
		if bad >= 6 {
			// a failing subscription leaves its goroutines behind; the run has failed already
			mon.Count("skipped-after-6-failing-cases")
			continue
		}
		ask := func(o plobs) string {
			if c.Topology != "direct" || drv == nil {
				return ""
			}
			if o.Problem != "" {
				return "ok left=0"
			}
			a, err := drv.Ask(c.line(o))
			if err != nil {
				return "!driver:" + err.Error()
			}
			return a
		}
		// A Group's Pull runs group.Execute in a goroutine of its own: a panic there cannot be recovered and would take the
		// whole harness down (and with it every finding made so far).  So first see whether Execute panics for this
		// strategy and member count with members that answer at once (as gadapters.go does); if so that is the outcome.
		if msg := executePanicsAnyPattern(c.Strat, c.N); msg != "" {
			mon.Count("execute-panics-not-run")
			pipelineMonitor(mon, c, plobs{Problem: "panic:" + strings.ReplaceAll(msg, " ", "_")})
			continue
		}
		o := runPipeline(c)
		model := ask(o)
		suspicious := func(o plobs, model string) bool { return o.bad() || (model != "" && model != o.code()) }
		if suspicious(o, model) {
			tie.Count("retried-cases")
			for k := 0; k < 2; k++ {
				o2 := runPipeline(c)
				m2 := ask(o2)
				if !suspicious(o2, m2) {
					tie.Count("retried-and-vanished")
					mon.Count("retried-and-vanished:" + c.key() + " first=" + o.code() + " " + strings.Join(o.Verdicts, ";"))
					o, model = o2, m2
					break
				}
			}
		}
		if suspicious(o, model) {
			bad++
		}
		if model != "" {
			tie.Record(c.key(), c.N >= 1 && len(c.Ops) >= 2, map[string]any{"case": c, "request": c.line(o)}, model, o.code())
			tie.Count("strategy:" + c.Strat)
			tie.Count(fmt.Sprintf("devices:%d", c.N))
		}
		mon.Count("topology:" + c.Topology)
		mon.Count("ended-with:" + o.ErrClass)
		pipelineMonitor(mon, c, o)
	}
	if drv == nil {
		tie.Fail(fmt.Errorf("no driver"))
	}
}

// executePanicsAnyPattern: does group.Execute panic under this strategy for n members that all fail / all succeed at once?
func executePanicsAnyPattern(strat string, n int) string {
	allFail := make([]bool, n)
	for k := range allFail {
		allFail[k] = true
	}
	if msg := executePanics(strat, allFail); msg != "" {
		return msg
	}
	return executePanics(strat, make([]bool, n))
}
