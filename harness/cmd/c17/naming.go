package main

// The member NAMES a trait Group is built with.
//
// lightpb.NewGroup / onoffpb.NewGroup take any list of strings: nothing says a name is non-empty, unique
// or printable, and the property speaks of "any number of members" - every ENTRY of the list is a member
// with its own index, whatever it is called.  The scripted clients of the gated-adapter cases
// (gadapters.go) and of the Pull-loop cases (pullloop.go) therefore find the member a call belongs to
// through a nameTable built from the case's list of names instead of parsing an index out of the name:
// the k-th call made with name X belongs to the k-th entry of the list that is X.  With unique names
// (blank included) that is exact; with repeated names the entries that share a name are interchangeable
// for the Group (same request, and every reduction is symmetric in the members), so any assignment of
// the calls to those entries is the same execution - repeated names are only generated where the
// scripted behaviour of the entries that share a name is the same (Pull loops: the harness decides
// which entry speaks next, and the slot a value lands in does not change a symmetric reduction).
//
// The Lean models have no names: member i is member i.  The driver line of a case does not mention the
// names, i.e. the tie checks that the code's behaviour does not depend on them.

import (
	"math/rand"
	"sort"
	"strconv"
	"strings"
	"sync"
)

type nameTable struct {
	mu     sync.Mutex
	names  []string
	taken  []bool
	calls  []string // the names the Group called the client with, in call order
	strays []string // calls that belong to no entry (unknown name, or a name used more often than listed)
}

// defaultNames: m0, m1, ...
func defaultNames(n int) []string {
	out := make([]string, n)
	for i := range out {
		out[i] = memberName(i)
	}
	return out
}

// namesOr: the case's own list if it has one (of the right length), else the default names.
func namesOr(names []string, n int) []string {
	if len(names) == n && names != nil {
		return append([]string(nil), names...)
	}
	return defaultNames(n)
}

func newNameTable(names []string) *nameTable {
	return &nameTable{names: names, taken: make([]bool, len(names))}
}

// resolve: the index of the entry this call belongs to, -1 if there is none.
func (t *nameTable) resolve(name string) int {
	t.mu.Lock()
	defer t.mu.Unlock()
	t.calls = append(t.calls, name)
	for i, nm := range t.names {
		if nm == name && !t.taken[i] {
			t.taken[i] = true
			return i
		}
	}
	t.strays = append(t.strays, name)
	return -1
}

// claimed: has entry i been called?
func (t *nameTable) claimed(i int) bool {
	t.mu.Lock()
	defer t.mu.Unlock()
	return i >= 0 && i < len(t.taken) && t.taken[i]
}

// missing: the entries never called, as "index:name"; strayCalls: the calls that belong to no entry.
func (t *nameTable) missing() []string {
	t.mu.Lock()
	defer t.mu.Unlock()
	var out []string
	for i, ok := range t.taken {
		if !ok {
			out = append(out, strconv.Itoa(i)+":"+strconv.Quote(t.names[i]))
		}
	}
	return out
}

func (t *nameTable) strayCalls() []string {
	t.mu.Lock()
	defer t.mu.Unlock()
	out := make([]string, len(t.strays))
	for i, s := range t.strays {
		out[i] = strconv.Quote(s)
	}
	sort.Strings(out)
	return out
}

func quoteNames(names []string) string {
	q := make([]string, len(names))
	for i, s := range names {
		q[i] = strconv.Quote(s)
	}
	return "[" + strings.Join(q, ",") + "]"
}

// oddStrings: names nothing forbids.
var oddStrings = []string{"", " ", "/", "a/b", "m0 ", "M0", "ünï/çødé", "\x00", "*", "..", "group", "G", strings.Repeat("n", 300)}

// uniqueOddNames: n distinct names, entry `blank` (if in range) is the empty string, the others are drawn
// from oddStrings and the default names of OTHER indices (m(n-1-i): a name that looks like another member's).
func uniqueOddNames(n, blank int, rng *rand.Rand) []string {
	out := make([]string, n)
	used := map[string]bool{}
	if blank >= 0 && blank < n {
		used[""] = true
	}
	for i := range out {
		if i == blank {
			continue
		}
		for tries := 0; ; tries++ {
			var nm string
			switch {
			case tries > 20:
				nm = "u" + strconv.Itoa(i) + "-" + strconv.Itoa(tries)
			case rng == nil || rng.Intn(3) == 0:
				nm = memberName(n - 1 - i)
			default:
				nm = oddStrings[rng.Intn(len(oddStrings))]
			}
			if !used[nm] {
				used[nm] = true
				out[i] = nm
				break
			}
		}
	}
	return out
}

// nameSchemes: the systematic lists for n members: each single entry blank (the others default names),
// every name reversed (entry i is called m(n-1-i)); withRepeats adds: every entry blank, every entry the
// same name, entry 0's name repeated at the end.
func nameSchemes(n int, withRepeats bool) [][]string {
	var out [][]string
	for b := 0; b < n; b++ {
		nm := defaultNames(n)
		nm[b] = ""
		out = append(out, nm)
	}
	if n >= 2 {
		nm := make([]string, n)
		for i := range nm {
			nm[i] = memberName(n - 1 - i)
		}
		out = append(out, nm)
	}
	if withRepeats && n >= 2 {
		blank, same := make([]string, n), make([]string, n)
		for i := range same {
			same[i] = "m0"
		}
		out = append(out, blank, same)
		if n >= 3 {
			nm := defaultNames(n)
			nm[n-1] = nm[0]
			out = append(out, nm)
		}
	}
	return out
}

// randomNames: default names mostly (nil), else a unique odd list (a blank entry in half of them) or - withRepeats - a list with repeats.
func randomNames(n int, withRepeats bool, rng *rand.Rand) []string {
	switch k := rng.Intn(10); {
	case n == 0 || k < 5:
		return nil
	case k < 8 || !withRepeats:
		blank := -1
		if rng.Intn(2) == 0 {
			blank = rng.Intn(n)
		}
		return uniqueOddNames(n, blank, rng)
	default:
		pool := []string{"", "m0", "x"}
		out := make([]string, n)
		for i := range out {
			out[i] = pool[rng.Intn(len(pool))]
		}
		return out
	}
}
