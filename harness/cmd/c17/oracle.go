package main

// The property's own statement, evaluated on what the real code did.  Nothing here knows the Lean
// model: the contracts are written from the doc comments of pkg/group/exec.go and the property text,
// in terms of what each member really returned (Actual), the order in which members returned
// (Returned) and what was observed at each observation point.

import (
	"fmt"
	"strconv"
	"strings"

	"github.com/smart-core-os/sc-golang/verifharness/lib"
)

type finding struct{ class, what, expected, observed string }

func allowedFor(c tcase) (int, bool) {
	n := c.n()
	switch c.Strat {
	case "all", "unspec", "other":
		return 0, true
	case "most":
		return n / 2, true
	case "any":
		return n - 1, true
	case "upto":
		return c.Allowed, true
	}
	return 0, false
}

func contract(c tcase, o obs) []finding {
	var fs []finding
	bad := func(class, what, exp, got string) { fs = append(fs, finding{class, what, exp, got}) }
	n := c.n()

	if o.Stuck != "" && o.Ret < 0 {
		cls := "never-returns"
		if n == 0 {
			cls = "n=0/never-returns"
		}
		bad(cls, "the call did not return although every member returned (every goroutine of the call is parked: it never will)", "returns", o.Stuck)
	}
	if o.Panic != "" {
		cls := "panic"
		if n == 0 {
			cls = "n=0/panic"
		}
		bad(cls, "the call panicked", "no panic", "panic: "+o.Panic)
	}
	if len(o.Left) > 0 && !(o.Stuck != "" && o.Ret < 0) { // (a call that never returns is its own finding: its goroutines are parked because of it)
		bad("goroutine-leak", fmt.Sprintf("%d goroutine(s) started by the call are still alive (parked forever) after every member returned", len(o.Left)),
			"0 goroutines with pkg/group frames", strings.Join(o.Left, " || "))
	}
	if o.Panic != "" || o.Stuck != "" {
		return fs
	}

	// completion-order facts from what really happened
	fails := func(k int) int { // failures among the first k completions
		f := 0
		for _, i := range o.Returned[:k] {
			if o.Actual[i].Err != 0 {
				f++
			}
		}
		return f
	}
	firstErr, firstErrIdx := "-", -1
	firstOK := -1 // position in completion order
	for p, i := range o.Returned {
		if o.Actual[i].Err != 0 && firstErrIdx < 0 {
			firstErr, firstErrIdx = lab("e", o.Actual[i].Err), i
		}
		if o.Actual[i].Err == 0 && firstOK < 0 {
			firstOK = p
		}
	}
	parentCancelledAt := func(k int) bool { return c.PCancel >= 0 && c.PCancel < k }

	switch {
	case !c.parallel():
		// One: members are tried in index order, each only after the previous one failed, until one succeeds.
		for p, i := range o.Inv {
			if i != p {
				bad("order", "members were not tried in index order", "member "+strconv.Itoa(p), "member "+strconv.Itoa(i))
				break
			}
		}
		win := -1
		for i := 0; i < n; i++ {
			if i < len(o.Inv) && o.Seen[i] >= 0 && o.Actual[i].Err == 0 {
				win = i
				break
			}
		}
		wantInv := n
		if win >= 0 {
			wantInv = win + 1
		}
		if len(o.Inv) != wantInv {
			bad("tries", "wrong number of members tried", strconv.Itoa(wantInv), strconv.Itoa(len(o.Inv)))
		}
		wantMsg, wantIdx, wantErr := "-", 0, "-"
		if win >= 0 {
			wantMsg, wantIdx = lab("m", o.Actual[win].Msg), win
		} else if n > 0 {
			wantErr = lab("e", o.Actual[0].Err)
		}
		checkSingle(c, o, bad, wantMsg, wantIdx, wantErr, win >= 0)
		// the call returns as soon as the winner returned (all members 0..win released), or after all failed
		wantRet := 0
		pos := make([]int, n)
		for p, i := range c.Order {
			pos[i] = p
		}
		for i := 0; i < n && (win < 0 || i <= win); i++ {
			if pos[i]+1 > wantRet {
				wantRet = pos[i] + 1
			}
		}
		if o.Ret != wantRet {
			bad("return-point", "the call returned at the wrong moment", fmt.Sprintf("after %d releases", wantRet), fmt.Sprintf("after %d", o.Ret))
		}
		for k, cs := range o.Cancel {
			want := "0"
			if parentCancelledAt(k) {
				want = "1"
			}
			if c.group != nil && c.group.RPC == "Pull" && k >= wantRet {
				want = "1" // a Group's Pull runs Execute under a context of its own, cancelled when the subscription ends
			}
			if cs != "-" && cs != want {
				bad("cancel", "One must not cancel the caller's context", fmt.Sprintf("point %d: %s", k, want), cs)
				break
			}
		}

	case c.Strat == "fast" || c.Strat == "race":
		if len(o.Inv) != n {
			bad("starts", "not every member was started", strconv.Itoa(n), strconv.Itoa(len(o.Inv)))
			if len(o.Returned) != n {
				return fs // (the rest speaks of every member's return)
			}
		}
		wantMsg, wantIdx, wantErr, wantRet, placed := "-", 0, "noresp", 0, false
		if c.Strat == "race" && n > 0 {
			i := o.Returned[0]
			wantMsg, wantIdx, wantErr, wantRet, placed = lab("m", o.Actual[i].Msg), i, lab("e", o.Actual[i].Err), 1, true
		}
		if c.Strat == "fast" && n > 0 {
			if firstOK >= 0 {
				i := o.Returned[firstOK]
				wantMsg, wantIdx, wantErr, wantRet, placed = lab("m", o.Actual[i].Msg), i, "-", firstOK+1, true
			} else {
				wantMsg, wantIdx, wantErr, wantRet = "-", firstErrIdx, firstErr, n
			}
		}
		checkSingle(c, o, bad, wantMsg, wantIdx, wantErr, placed)
		if o.Ret != wantRet {
			bad("return-point", "the call returned at the wrong moment", fmt.Sprintf("after %d completions", wantRet), fmt.Sprintf("after %d", o.Ret))
		}
		for k, cs := range o.Cancel {
			want := "0"
			if k >= wantRet || parentCancelledAt(k) {
				want = "1" // decided: the remaining members' contexts are cancelled
			}
			if cs != "-" && cs != want {
				bad("cancel", "members' context cancelled at the wrong moment (must be: exactly once the outcome is decided)", fmt.Sprintf("point %d: %s", k, want), cs)
				break
			}
		}

	default:
		allowed, _ := allowedFor(c)
		if len(o.Inv) != n || len(o.Returned) != n {
			bad("starts", "not every member was started and awaited", strconv.Itoa(n), fmt.Sprintf("%d started, %d returned", len(o.Inv), len(o.Returned)))
			return fs
		}
		total := fails(n)
		wantErr := "-"
		if total > allowed {
			wantErr = firstErr // "-" when nothing failed (allowed < 0)
		}
		if o.Err != wantErr {
			cls := "error"
			if (o.Err == "-") != (wantErr == "-") {
				cls = "error-presence"
			}
			bad(cls, fmt.Sprintf("%d of %d members failed, %d failures allowed", total, n, allowed), "err="+wantErr, "err="+o.Err)
		}
		if c.group != nil {
			// a Group RPC: the slice is reduced by the adapter (judged in gadapters.go)
		} else if len(o.Res) != n {
			bad("results-length", "results slice has the wrong length", strconv.Itoa(n), strconv.Itoa(len(o.Res)))
		} else {
			for i := 0; i < n; i++ {
				if w := lab("m", o.Actual[i].Msg); o.Res[i] != w {
					bad("indexing", "results[i] is not member i's message", fmt.Sprintf("results[%d]=%s", i, w), o.Res[i])
					break
				}
			}
		}
		// waits for all: with n members the call may only have returned at the last observation point
		if o.Ret != n {
			bad("return-point", "the call must return exactly when every member has completed", fmt.Sprintf("after %d completions", n), fmt.Sprintf("after %d", o.Ret))
		}
		exceededBy := n + 1 // number of completions after which a failure first exceeded the budget ("cancelled on error")
		for k := 1; k <= n; k++ {
			if o.Actual[o.Returned[k-1]].Err != 0 && fails(k) > allowed {
				exceededBy = k
				break
			}
		}
		for k, cs := range o.Cancel {
			want := "0"
			if k >= exceededBy || parentCancelledAt(k) || (k >= n) {
				want = "1"
			}
			if cs != "-" && cs != want {
				bad("cancel", "members' context cancelled at the wrong moment (must be: exactly when the error budget is first exceeded)", fmt.Sprintf("point %d: %s", k, want), cs)
				break
			}
		}
	}
	return fs
}

// checkSingle checks the single-result strategies through either API.
func checkSingle(c tcase, o obs, bad func(class, what, exp, got string), wantMsg string, wantIdx int, wantErr string, placed bool) {
	n := c.n()
	if o.Err != wantErr {
		cls := "error"
		if (o.Err == "-") != (wantErr == "-") {
			cls = "error-presence"
		}
		bad(cls, "wrong error returned", "err="+wantErr, "err="+o.Err)
	}
	if c.group != nil {
		return // a Group RPC: the single result is reduced by the adapter (judged in gadapters.go)
	}
	if !o.Slice {
		if o.Msg != wantMsg {
			bad("result", "wrong message returned", wantMsg, o.Msg)
		}
		if o.Idx != wantIdx {
			bad("index", "wrong member index returned", strconv.Itoa(wantIdx), strconv.Itoa(o.Idx))
		}
		return
	}
	if len(o.Res) != n {
		bad("results-length", "results slice has the wrong length", strconv.Itoa(n), strconv.Itoa(len(o.Res)))
		return
	}
	for i := 0; i < n; i++ {
		w := "-"
		if placed && i == wantIdx {
			w = wantMsg
		}
		if o.Res[i] != w {
			bad("indexing", "the single result is not at the member's own index (all other slots nil)", fmt.Sprintf("results[%d]=%s", i, w), o.Res[i])
			break
		}
	}
}

// monitorCase runs the contract on one observed execution and records violations.
func monitorCase(m *lib.Monitor, c tcase, o obs) {
	m.Eval(c.key(), c.n() > 0, nil)
	for _, f := range contract(c, o) {
		m.Violate("C17/"+c.fn()+"/"+f.class, f.what, c, f.expected, f.observed)
	}
}
