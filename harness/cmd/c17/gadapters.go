package main

// The Group adapters (pkg/trait/lightpb.Group, pkg/trait/onoffpb.Group) over GATED, cancellation-aware
// members: the Group is given a scripted traits client whose per-member calls are the same gated member
// functions the pkg/group cases use (run.go), so the completion order, the caller's cancellation and the
// member's error class are inputs, and what each member's context looks like at every point of
// quiescence is observed - through the adapter's own member closures (which context do they hand to
// the device call?) and its reducers (what does each RPC do with Execute's results?).
//
//   Get / Update : member i answers with value v_i or fails with an error of some class; the RPC returns
//                  reduce(Execute(strategy, members)) or Execute's error.
//   Pull         : member i's stream delivers one initial value, then ends with an error when its gate is
//                  opened (a stream never ends "successfully": the member closure returns Recv's error);
//                  the RPC forwards the merge of the values received so far and returns Execute's error.
//
// Tie: the Lean model (driver op `group`): the thread-level model of Execute under the same serial
// schedule + the model of the adapter's reducer.  Monitor: the strategy contracts of oracle.go on the
// same observations + the reduction stated independently (onoff: ON if any answering member is ON,
// light: arithmetic mean of the answering members).

import (
	"context"
	"fmt"
	"math/rand"
	"strconv"
	"strings"
	"sync"

	"google.golang.org/grpc"
	"google.golang.org/protobuf/proto"

	"github.com/smart-core-os/sc-api/go/traits"
	"github.com/smart-core-os/sc-golang/pkg/group"
	"github.com/smart-core-os/sc-golang/pkg/trait/lightpb"
	"github.com/smart-core-os/sc-golang/pkg/trait/onoffpb"
	"github.com/smart-core-os/sc-golang/verifharness/lib"
)

// gcase: one gated Group-adapter case.  Member behaviours are those of tcase: Normal.Msg = k > 0 is the
// value code k (onoff: state k-1 of UNSPECIFIED/ON/OFF; light: level 24*(k-1) percent), Normal.Err the
// error number (class*100+id).  Pull members carry both (initial value, error that ends the stream).
type gcase struct {
	Gated   bool     `json:"gated"` // always true (tells a replay file of this kind from the others)
	Trait   string   `json:"trait"` // onoff | light
	RPC     string   `json:"rpc"`   // Get | Update | Pull
	Strat   string   `json:"strategy"`
	Behs    []beh    `json:"members"`
	Order   []int    `json:"order"`
	PCancel int      `json:"parent_cancel"`
	Names   []string `json:"names,omitempty"` // the member names the Group is built with (naming.go; distinct here); none: m0, m1, ...
}

// key: the full input (the driver's line has no names: the model's members are their indices).
func (g gcase) key() string {
	if g.Names == nil {
		return g.line()
	}
	return g.line() + " names=" + quoteNames(g.Names)
}

func (g gcase) fn() string {
	return acase{Trait: g.Trait, RPC: g.RPC}.fn()
}

// memberBehs: what the member FUNCTIONS of the Group return (the input of the strategy).
func (g gcase) memberBehs() []beh {
	if g.RPC != "Pull" {
		return g.Behs
	}
	out := make([]beh, len(g.Behs))
	for i, b := range g.Behs {
		out[i] = beh{Normal: resp{Err: b.Normal.Err}, Aware: b.Aware, OnCancel: resp{Err: b.OnCancel.Err}}
	}
	return out
}

func (g gcase) tcase() tcase {
	gg := g
	return tcase{API: "x", Strat: g.Strat, Behs: g.memberBehs(), Order: g.Order, PCancel: g.PCancel, group: &gg}
}

func (g gcase) line() string {
	t := g.tcase()
	rest := strings.TrimPrefix(t.line(), "exec x ")
	vals := "-"
	if g.RPC == "Pull" {
		vs := make([]string, len(g.Behs))
		for i, b := range g.Behs {
			vs[i] = strconv.Itoa(b.Normal.Msg)
		}
		vals = dash(strings.Join(vs, ","))
	}
	return fmt.Sprintf("group %s %s %s %s", g.Trait, g.RPC, rest, vals)
}

func lightLevel(k int) float32 { return float32(24 * (k - 1)) }

func fmtLevel(v float32) string { return strconv.FormatFloat(float64(v), 'f', -1, 32) }

var onoffNames = []string{"UNSPECIFIED", "ON", "OFF"}

func onoffName(s traits.OnOff_State) string {
	if int(s) >= 0 && int(s) < len(onoffNames) {
		return onoffNames[s]
	}
	return "?" + strconv.Itoa(int(s))
}

// errNoSuchMember: what a call that belongs to no entry of the member list is answered with.
var errNoSuchMember = fmt.Errorf("harness: the Group called a name that is not (or no longer) in its member list")

// ---- scripted clients: every per-member call is the gated member function of the run

type gatedLight struct {
	traits.LightApiClient
	r       *run
	members []group.Member
	tab     *nameTable
}

func (c *gatedLight) unary(ctx context.Context, name string) (*traits.Brightness, error) {
	i := c.tab.resolve(name)
	if i < 0 {
		c.r.noteStray(name)
		return nil, errNoSuchMember
	}
	m, err := c.members[i](ctx)
	if m == nil {
		return nil, err
	}
	return m.(*traits.Brightness), err
}
func (c *gatedLight) GetBrightness(ctx context.Context, in *traits.GetBrightnessRequest, _ ...grpc.CallOption) (*traits.Brightness, error) {
	return c.unary(ctx, in.Name)
}
func (c *gatedLight) UpdateBrightness(ctx context.Context, in *traits.UpdateBrightnessRequest, _ ...grpc.CallOption) (*traits.Brightness, error) {
	return c.unary(ctx, in.Name)
}
func (c *gatedLight) PullBrightness(ctx context.Context, in *traits.PullBrightnessRequest, _ ...grpc.CallOption) (grpc.ServerStreamingClient[traits.PullBrightnessResponse], error) {
	i := c.tab.resolve(in.Name)
	if i < 0 {
		c.r.noteStray(in.Name)
		return nil, errNoSuchMember
	}
	return &gatedLightStream{ctx: ctx, c: c, i: i, name: in.Name}, nil
}

type gatedLightStream struct {
	grpc.ClientStream
	ctx  context.Context
	c    *gatedLight
	i    int
	name string
	sent bool
}

func (s *gatedLightStream) Recv() (*traits.PullBrightnessResponse, error) {
	if !s.sent {
		s.sent = true
		v := lightLevel(s.c.r.c.group.Behs[s.i].Normal.Msg)
		return &traits.PullBrightnessResponse{Changes: []*traits.PullBrightnessResponse_Change{{Name: s.name, Brightness: &traits.Brightness{LevelPercent: v}}}}, nil
	}
	_, err := s.c.members[s.i](s.ctx)
	if err == nil {
		err = fmt.Errorf("harness: a gated stream must end with an error")
	}
	return nil, err
}

type gatedOnOff struct {
	traits.OnOffApiClient
	r       *run
	members []group.Member
	tab     *nameTable
}

func (c *gatedOnOff) unary(ctx context.Context, name string) (*traits.OnOff, error) {
	i := c.tab.resolve(name)
	if i < 0 {
		c.r.noteStray(name)
		return nil, errNoSuchMember
	}
	m, err := c.members[i](ctx)
	if m == nil {
		return nil, err
	}
	return m.(*traits.OnOff), err
}
func (c *gatedOnOff) GetOnOff(ctx context.Context, in *traits.GetOnOffRequest, _ ...grpc.CallOption) (*traits.OnOff, error) {
	return c.unary(ctx, in.Name)
}
func (c *gatedOnOff) UpdateOnOff(ctx context.Context, in *traits.UpdateOnOffRequest, _ ...grpc.CallOption) (*traits.OnOff, error) {
	return c.unary(ctx, in.Name)
}
func (c *gatedOnOff) PullOnOff(ctx context.Context, in *traits.PullOnOffRequest, _ ...grpc.CallOption) (grpc.ServerStreamingClient[traits.PullOnOffResponse], error) {
	i := c.tab.resolve(in.Name)
	if i < 0 {
		c.r.noteStray(in.Name)
		return nil, errNoSuchMember
	}
	return &gatedOnOffStream{ctx: ctx, c: c, i: i, name: in.Name}, nil
}

type gatedOnOffStream struct {
	grpc.ClientStream
	ctx  context.Context
	c    *gatedOnOff
	i    int
	name string
	sent bool
}

func (s *gatedOnOffStream) Recv() (*traits.PullOnOffResponse, error) {
	if !s.sent {
		s.sent = true
		st := traits.OnOff_State(s.c.r.c.group.Behs[s.i].Normal.Msg - 1)
		return &traits.PullOnOffResponse{Changes: []*traits.PullOnOffResponse_Change{{Name: s.name, OnOff: &traits.OnOff{State: st}}}}, nil
	}
	_, err := s.c.members[s.i](s.ctx)
	if err == nil {
		err = fmt.Errorf("harness: a gated stream must end with an error")
	}
	return nil, err
}

// recording servers for Pull: the last value forwarded by the Group
type lastSent struct {
	mu  sync.Mutex
	val string
}

func (l *lastSent) set(v string) { l.mu.Lock(); l.val = v; l.mu.Unlock() }
func (l *lastSent) get() string  { l.mu.Lock(); defer l.mu.Unlock(); return l.val }

type gLightServer struct {
	grpc.ServerStream
	ctx  context.Context
	last *lastSent
}

func (s *gLightServer) Context() context.Context { return s.ctx }
func (s *gLightServer) Send(r *traits.PullBrightnessResponse) error {
	for _, ch := range r.Changes {
		if ch.GetBrightness() == nil {
			s.last.set("nil")
		} else {
			s.last.set(fmtLevel(ch.GetBrightness().GetLevelPercent()))
		}
	}
	return nil
}

type gOnOffServer struct {
	grpc.ServerStream
	ctx  context.Context
	last *lastSent
}

func (s *gOnOffServer) Context() context.Context { return s.ctx }
func (s *gOnOffServer) Send(r *traits.PullOnOffResponse) error {
	for _, ch := range r.Changes {
		if ch.GetOnOff() == nil {
			s.last.set("nil")
		} else {
			s.last.set(onoffName(ch.GetOnOff().GetState()))
		}
	}
	return nil
}

// prepare installs the Group call into a run (see runCase).
func (g *gcase) prepare(r *run) {
	names := namesOr(g.Names, len(g.Behs))
	strat := strategyConst[g.Strat]
	// the field that does NOT govern this RPC gets a strategy with a different contract
	other := group.ExecutionStrategyAll
	if g.Strat == "all" {
		other = group.ExecutionStrategyRace
	}
	rd, wr := strat, other
	if governs[g.RPC] == "write" {
		rd, wr = other, strat
	}
	if g.Trait == "light" {
		r.mkMsg = func(k int) proto.Message { return &traits.Brightness{LevelPercent: lightLevel(k)} }
		r.call = func(r *run, ctx context.Context, members []group.Member) {
			grp := lightpb.NewGroup(&gatedLight{r: r, members: members, tab: newNameTable(names)}, names...)
			grp.ReadExecution, grp.WriteExecution = rd, wr
			var v *traits.Brightness
			switch g.RPC {
			case "Get":
				v, r.err = grp.GetBrightness(ctx, &traits.GetBrightnessRequest{Name: "G"})
			case "Update":
				v, r.err = grp.UpdateBrightness(ctx, &traits.UpdateBrightnessRequest{Name: "G", Brightness: &traits.Brightness{LevelPercent: 50}})
			case "Pull":
				last := &lastSent{}
				r.err = grp.PullBrightness(&traits.PullBrightnessRequest{Name: "G"}, &gLightServer{ctx: ctx, last: last})
				r.value = last.get()
				return
			}
			if v != nil {
				r.value = fmtLevel(v.GetLevelPercent())
			}
		}
		return
	}
	r.mkMsg = func(k int) proto.Message { return &traits.OnOff{State: traits.OnOff_State(k - 1)} }
	r.call = func(r *run, ctx context.Context, members []group.Member) {
		grp := onoffpb.NewGroup(&gatedOnOff{r: r, members: members, tab: newNameTable(names)}, names...)
		grp.ReadExecution, grp.WriteExecution = rd, wr
		var v *traits.OnOff
		switch g.RPC {
		case "Get":
			v, r.err = grp.GetOnOff(ctx, &traits.GetOnOffRequest{Name: "G"})
		case "Update":
			v, r.err = grp.UpdateOnOff(ctx, &traits.UpdateOnOffRequest{Name: "G", OnOff: &traits.OnOff{State: traits.OnOff_ON}})
		case "Pull":
			last := &lastSent{}
			r.err = grp.PullOnOff(&traits.PullOnOffRequest{Name: "G"}, &gOnOffServer{ctx: ctx, last: last})
			r.value = last.get()
			return
		}
		if v != nil {
			r.value = onoffName(v.GetState())
		}
	}
}

// ---- the reduction, stated independently of the Lean model and of the code

// answering: the members whose values the RPC's answer is the reduction of, from what really happened.
func (g gcase) answering(o obs) []int {
	var out []int
	if g.RPC == "Pull" {
		// every member that was started has delivered its initial value
		for i := range g.Behs {
			if i < len(o.Seen) && o.Seen[i] >= 0 {
				out = append(out, i)
			}
		}
		return out
	}
	switch g.Strat {
	case "one":
		for i := range g.Behs {
			if o.Seen[i] >= 0 && o.Actual[i].Err == 0 {
				return []int{i}
			}
		}
	case "fast":
		for _, i := range o.Returned {
			if o.Actual[i].Err == 0 {
				return []int{i}
			}
		}
	case "race":
		if len(o.Returned) > 0 {
			return []int{o.Returned[0]}
		}
	default:
		for i := range g.Behs {
			if o.Seen[i] >= 0 && o.Actual[i].Msg != 0 {
				out = append(out, i)
			}
		}
	}
	return out
}

// wantValue: "" = nothing to check.
func (g gcase) wantValue(o obs) (string, bool) {
	if o.Panic != "" || o.Stuck != "" {
		return "", false
	}
	if g.RPC != "Pull" && o.Err != "-" {
		return "", true // a failed unary call returns no value
	}
	ans := g.answering(o)
	val := func(i int) int {
		if g.RPC == "Pull" {
			return g.Behs[i].Normal.Msg
		}
		return o.Actual[i].Msg
	}
	if g.Trait == "onoff" {
		st := 0 // UNSPECIFIED; ON if any answering member is ON, else OFF if any is OFF
		for _, i := range ans {
			switch val(i) - 1 {
			case 1:
				st = 1
			case 2:
				if st == 0 {
					st = 2
				}
			}
		}
		if g.RPC == "Pull" && len(ans) == 0 {
			return "", true
		}
		return onoffNames[st], true
	}
	if len(ans) == 0 {
		if g.RPC == "Pull" {
			return "", true
		}
		return "0", true
	}
	sum := 0.0
	for _, i := range ans {
		if val(i) > 0 {
			sum += float64(24 * (val(i) - 1))
		}
	}
	return strconv.FormatFloat(sum/float64(len(ans)), 'f', -1, 64), true
}

func gadapterMonitor(mon *lib.Monitor, g gcase, o obs) {
	t := g.tcase()
	mon.Eval(g.key(), len(g.Behs) > 0, nil)
	sig := "C17/" + g.fn() + "/" + fnName(g.Strat) + "/"
	if len(o.Strays) > 0 {
		mon.Violate(sig+"member-names", "the Group called a name that belongs to no entry of its member list (every entry - whatever its name - is one member, called under its own name at most once per RPC)",
			g, "only calls to "+quoteNames(namesOr(g.Names, len(g.Behs))), "stray calls: "+strings.Join(o.Strays, ","))
	}
	for _, f := range contract(t, o) {
		mon.Violate(sig+f.class, f.what, g, f.expected, f.observed)
	}
	if want, ok := g.wantValue(o); ok && !sameValue(dashEmpty(o.Msg), dashEmpty(want)) {
		mon.Violate(sig+"reduce", "the value is not the documented reduction (onoff: ON if any is ON; light: the mean) of the answering members' values",
			g, dashEmpty(want), dashEmpty(o.Msg))
	}
}

func dashEmpty(s string) string {
	if s == "" {
		return "-"
	}
	return s
}

func fnName(strat string) string {
	return map[string]string{"all": "All", "most": "Most", "any": "Any", "one": "One", "fast": "Fast", "race": "Race"}[strat]
}

// ---- cases

func gbehOK(val int, aware bool) beh {
	b := beh{Normal: resp{Msg: val}}
	if aware {
		b.Aware, b.OnCancel = true, resp{Err: errNum(ecCanceled, 0)}
	}
	return b
}

func gbehFail(class, id int, aware bool) beh {
	b := beh{Normal: resp{Err: errNum(class, id)}}
	if aware {
		b.Aware, b.OnCancel = true, resp{Err: errNum(ecCanceled, 0)}
	}
	return b
}

// gadapterCases: exhaustive over 0..3 members (Pull with 3 members: thorough only) x trait x RPC x strategy x ok/fail vector x
// completion order x caller cancellation point (never / after k completions), every member
// cancellation-aware (it reports its context's error when it finds it cancelled, as a device call does);
// plus random cases with up to 4 members, mixed awareness, error classes and values.
func gadapterCases(f lib.Flags, rng *rand.Rand) []gcase {
	var out, named []gcase
	top := 3
	for n := 0; n <= top; n++ {
		for _, tr := range []string{"light", "onoff"} {
			for _, rpc := range []string{"Get", "Update", "Pull"} {
				if n == 3 && rpc == "Pull" && !f.Thorough() {
					continue
				}
				for _, st := range adapterStrats {
					for bits := 0; bits < 1<<n; bits++ {
						if rpc == "Pull" && bits != 1<<n-1 {
							continue // a stream only ever ends with an error
						}
						behs := make([]beh, n)
						for i := range behs {
							val := 2 + i%2 // light 24/48; onoff ON/OFF
							if tr == "light" {
								val = 2 + i
							}
							if bits>>i&1 == 1 {
								behs[i] = gbehFail(ecPlain, i+1, true)
								if rpc == "Pull" {
									behs[i].Normal.Msg = val
								}
							} else {
								behs[i] = gbehOK(val, true)
							}
						}
						for _, p := range perms(n) {
							for pc := -1; pc < n; pc++ {
								if pc >= 0 && rpc == "Pull" && st == "one" {
									// a Pull member started under an already cancelled context may or may not deliver its
									// first value (select between the send and ctx.Done()): not a schedule the gates control
									continue
								}
								out = append(out, gcase{Gated: true, Trait: tr, RPC: rpc, Strat: st, Behs: behs, Order: p, PCancel: pc})
								if pc == -1 && n >= 1 && (n <= 2 || f.Thorough()) {
									// the same case under every systematic list of distinct odd member names (naming.go): each
									// entry blank in turn, names that look like another member's
									for _, names := range nameSchemes(n, false) {
										named = append(named, gcase{Gated: true, Trait: tr, RPC: rpc, Strat: st, Behs: behs, Order: p, PCancel: pc, Names: names})
									}
								}
							}
						}
					}
				}
			}
		}
	}
	out = append(out, named...)
	for k := 0; k < f.N(600, 20000); k++ {
		n := 1 + rng.Intn(4)
		g := gcase{Gated: true, Trait: []string{"light", "onoff"}[rng.Intn(2)], RPC: []string{"Get", "Update", "Pull"}[rng.Intn(3)],
			Strat: adapterStrats[rng.Intn(len(adapterStrats))], Behs: make([]beh, n), Order: rng.Perm(n), PCancel: -1}
		if rng.Intn(4) == 0 && !(g.RPC == "Pull" && g.Strat == "one") {
			g.PCancel = rng.Intn(n)
		}
		vals := 5
		if g.Trait == "onoff" {
			vals = 3
		}
		for i := range g.Behs {
			aware := rng.Intn(10) < 7
			if g.RPC == "Pull" || rng.Intn(5) < 2 {
				g.Behs[i] = gbehFail(randomErr(rng, 3)/100, i+1, aware)
				if g.RPC == "Pull" {
					g.Behs[i].Normal.Msg = 1 + rng.Intn(vals)
				}
			} else {
				g.Behs[i] = gbehOK(1+rng.Intn(vals), aware)
			}
		}
		g.Names = randomNames(n, false, rng)
		out = append(out, g)
	}
	// large groups (last, see largeCases in main.go): 10 and 17 members under the single-result strategies (one
	// member's value is the answer, so the float32 mean stays exact; Pull members of a light group all hold the
	// same level for the same reason), winner first / winner last / a failing prefix
	for _, n := range []int{10, 17} {
		for _, tr := range []string{"light", "onoff"} {
			for _, rpc := range []string{"Get", "Update", "Pull"} {
				for _, st := range []string{"one", "fast", "race"} {
					for pat := 0; pat < 3; pat++ {
						g := gcase{Gated: true, Trait: tr, RPC: rpc, Strat: st, Behs: make([]beh, n), Order: make([]int, n), PCancel: -1}
						for i := range g.Behs {
							val := 2 + i%2
							if tr == "light" && rpc == "Pull" {
								val = 3
							}
							if rpc == "Pull" || (pat == 2 && i < n/2) {
								g.Behs[i] = gbehFail(ecPlain, i+1, true)
								if rpc == "Pull" {
									g.Behs[i].Normal.Msg = val
								}
							} else {
								g.Behs[i] = gbehOK(val, i%3 == 0)
							}
							g.Order[i] = i
							if pat == 1 {
								g.Order[i] = n - 1 - i
							}
						}
						out = append(out, g)
					}
				}
			}
		}
	}
	return out
}

func runGatedAdapters(f lib.Flags, res *lib.Result, drv *lib.Driver, rng *rand.Rand) {
	tie := res.Tie("group-adapters-gated", "K4",
		"lightpb.Group and onoffpb.Group x {Get, Update, Pull} x the six strategies over GATED members (a scripted traits client whose per-member call waits for its gate, "+
			"then answers or - being cancellation-aware - reports its context's error): EXHAUSTIVE for 0..3 members (Pull: 0..2, thorough 0..3) x every ok/fail vector (Pull: streams end with an error) "+
			"x every completion order x caller cancellation never / after each number of completions; MEMBER NAMES are an input of the code the model does not have (its members are their indices): every exhaustive case without caller cancellation of 1..2 (thorough 3) members is repeated under every systematic list of distinct odd names (each entry blank in turn, names that look like another member's), half of the random cases draw distinct odd names (blank, non-printable, 300 characters); the scripted client assigns a call to the entry of the list it names; plus random cases with 1..4 members, mixed awareness, every error class, random values; plus groups of 10 and 17 members under One/Fast/Race (winner first, winner last, a failing first half). "+
			"model = driver op `group`: the thread-level model of Execute under the same serial schedule + the Lean model of the adapter's reducer; compared: value returned (Pull: last value forwarded), "+
			"which error, return point, the members' context state at every observation point (x = members of one call run under different contexts), what each member saw, which were started, goroutines left. "+
			"non-trivial = n >= 1; distinct by full input")
	mon := res.Monitor("group-adapters-gated-contract",
		"the same executions judged by the strategy contracts of oracle.go (error by failure count, first error observed, return point, members' context cancelled exactly when the outcome is decided, "+
			"One in index order, no panic, no goroutine left, no call under a name that is no entry of the member list) and by the reduction stated independently: onoff = ON if any answering member is ON (else OFF if any is OFF), light = arithmetic mean of the answering members")
	cases := gadapterCases(f, rng)
	var answers []string
	if drv != nil {
		lines := make([]string, len(cases))
		for i, g := range cases {
			lines[i] = g.line()
		}
		var err error
		answers, err = drv.Batch(lines)
		if err != nil {
			tie.Fail(err)
			answers = nil
		}
	} else {
		tie.Fail(fmt.Errorf("no driver"))
	}
	exhaustiveUpTo := len(cases) - f.N(600, 20000) - 2*2*3*3*3
	leaks, hangs := 0, map[string]int{}
	var thin thinner
	for i, g := range cases {
		if leaks >= 12 || hangs[g.fn()] >= 2 {
			// (as for the pkg/group cases: what a leaking / hanging case leaves behind is paid for by every later snapshot)
			mon.Count("skipped-after-leaking-cases")
			continue
		}
		if crashedStrategy(crashedFns, g.Strat) {
			// Execute with this strategy kills the process
			mon.Count("skipped-crashing-entry-point")
			continue
		}
		if thin.skip(i, fmt.Sprint(g.fn(), "/", g.Strat, "/n=", len(g.Behs))) {
			mon.Count("thinned-after-leaks")
			continue
		}
		t := g.tcase()
		suspicious := func(o obs) bool {
			if answers != nil && answers[i] != o.canon(t) {
				return true
			}
			probe := lib.NewMonitor("probe", "")
			gadapterMonitor(probe, g, o)
			return len(probe.Violations) > 0
		}
		// A Group's Pull runs group.Execute in a goroutine of its own: a panic there cannot be recovered and would
		// take the whole harness down (and with it every finding made so far).  So first see whether Execute
		// panics for this strategy and member count with members that answer at once; if so that is the outcome.
		if g.RPC == "Pull" {
			allFail := make([]bool, len(g.Behs))
			for k := range allFail {
				allFail[k] = true
			}
			msg := executePanics(g.Strat, allFail)
			if msg == "" {
				msg = executePanics(g.Strat, make([]bool, len(g.Behs)))
			}
			if msg != "" {
				o := obs{Panic: msg, Ret: -1}
				if answers != nil {
					tie.Record(g.key(), len(g.Behs) >= 1, g, answers[i], o.canon(t))
				}
				gadapterMonitor(mon, g, o)
				continue
			}
		}
		o := runCase(t)
		if suspicious(o) {
			mon.Count("retried-cases")
			retries := 3
			if o.Stuck != "" || len(o.Left) > 0 {
				retries = 1
			}
			for k := 0; k < retries; k++ {
				if o2 := runCase(t); !suspicious(o2) {
					mon.Count("retried-and-vanished")
					mon.Count("retried-and-vanished:" + g.key() + " first=" + o.canon(t))
					o = o2
					break
				}
			}
		}
		if len(o.Left) > 0 {
			leaks++
		}
		if o.Stuck != "" && o.Ret < 0 {
			hangs[g.fn()]++
		}
		if answers != nil {
			tie.Record(g.key(), len(g.Behs) >= 1, g, answers[i], o.canon(t))
		}
		kind := "random"
		if i < exhaustiveUpTo {
			kind = "exhaustive"
		}
		tie.Count(kind)
		tie.Count(g.Trait + "/" + g.RPC + "/" + g.Strat)
		if g.PCancel >= 0 {
			tie.Count("caller-cancels")
		}
		for _, s := range o.Seen {
			if s == 1 {
				tie.Count("member-saw-cancelled-context")
				break
			}
		}
		gadapterMonitor(mon, g, o)
	}
}
