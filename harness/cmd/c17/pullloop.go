package main

// The subscription loop of a Group's PullX fed with member messages in a harness-chosen order.
//
// Every member's stream is scripted: Recv blocks until the harness hands it the next message (a list of
// changes, possibly empty) or the context is done.  The harness delivers one message at a time, waits
// for whole-process quiescence (quiet.go), and finally cancels the subscription; the values the Group
// forwarded (server.Send) are the observation.
// Tie: driver op `pull` (Lean model of the loop: slots, reduction, dedup against the last value sent).
// Monitor: the same stated independently: after each non-empty message the group's value is the
// reduction (light: mean, onoff: ON wins) of the members' latest values; it is forwarded iff it differs
// from the value forwarded last.

import (
	"context"
	"fmt"
	"math/rand"
	"strconv"
	"strings"
	"sync"

	"google.golang.org/grpc"

	"github.com/smart-core-os/sc-api/go/traits"
	"github.com/smart-core-os/sc-golang/pkg/trait/lightpb"
	"github.com/smart-core-os/sc-golang/pkg/trait/onoffpb"
	"github.com/smart-core-os/sc-golang/verifharness/lib"
)

type pevent struct {
	Member int   `json:"member"`
	Vals   []int `json:"values"` // value codes (light: level 24*(k-1); onoff: state k-1); empty: a message without changes
}

type pcase struct {
	PullLoop bool     `json:"pull_loop"` // always true (tells a replay file of this kind from the others)
	Trait    string   `json:"trait"`
	N        int      `json:"n"`
	Events   []pevent `json:"events"`
	FailSend int      `json:"fail_send,omitempty"` // k > 0: the k-th server.Send fails (the subscriber has gone)
	Names    []string `json:"names,omitempty"`     // the member names the Group is built with (naming.go); none: m0, m1, ...
}

// key: the full input (the driver's line has no names: the model's members are their indices).
func (p pcase) key() string {
	if p.Names == nil {
		return p.line()
	}
	return p.line() + " names=" + quoteNames(p.Names)
}

func (p pcase) line() string {
	evs := make([]string, len(p.Events))
	for i, e := range p.Events {
		vs := make([]string, len(e.Vals))
		for j, v := range e.Vals {
			vs[j] = strconv.Itoa(v)
		}
		evs[i] = strconv.Itoa(e.Member) + ":" + strings.Join(vs, ".")
	}
	return fmt.Sprintf("pull %s %d %s %d", p.Trait, p.N, dash(strings.Join(evs, ",")), p.FailSend)
}

func (p pcase) fn() string { return acase{Trait: p.Trait, RPC: "Pull"}.fn() }

type fwdRecorder struct {
	mu     sync.Mutex
	all    []string
	failAt int // the failAt-th Send fails (0: never)
}

var errSubscriberGone = fmt.Errorf("subscriber has gone")

// add records a value the Group tried to forward; the error is what server.Send returns for it.
func (f *fwdRecorder) add(v string) error {
	f.mu.Lock()
	defer f.mu.Unlock()
	f.all = append(f.all, v)
	if f.failAt > 0 && len(f.all) == f.failAt {
		return errSubscriberGone
	}
	return nil
}
func (f *fwdRecorder) list() []string {
	f.mu.Lock()
	defer f.mu.Unlock()
	return append([]string(nil), f.all...)
}

type fedLightClient struct {
	traits.LightApiClient
	ch   []chan []int
	ctxs *ctxLog
	tab  *nameTable
}

// strayFeed: what a call that belongs to no entry of the member list is given: a stream that never speaks.
func strayFeed(tab *nameTable, ch []chan []int, name string) chan []int {
	if i := tab.resolve(name); i >= 0 {
		return ch[i]
	}
	return make(chan []int)
}

func (c *fedLightClient) PullBrightness(ctx context.Context, in *traits.PullBrightnessRequest, _ ...grpc.CallOption) (grpc.ServerStreamingClient[traits.PullBrightnessResponse], error) {
	c.ctxs.add(ctx)
	return &fedLightStream{ctx: ctx, ch: strayFeed(c.tab, c.ch, in.Name), name: in.Name}, nil
}

type fedLightStream struct {
	grpc.ClientStream
	ctx  context.Context
	ch   chan []int
	name string
}

func (s *fedLightStream) Recv() (*traits.PullBrightnessResponse, error) {
	select {
	case vs := <-s.ch:
		r := &traits.PullBrightnessResponse{}
		for _, v := range vs {
			r.Changes = append(r.Changes, &traits.PullBrightnessResponse_Change{Name: s.name, Brightness: &traits.Brightness{LevelPercent: lightLevel(v)}})
		}
		return r, nil
	case <-s.ctx.Done():
		return nil, s.ctx.Err()
	}
}

type fwdLightServer struct {
	grpc.ServerStream
	ctx context.Context
	rec *fwdRecorder
}

func (s *fwdLightServer) Context() context.Context { return s.ctx }
func (s *fwdLightServer) Send(r *traits.PullBrightnessResponse) error {
	for _, ch := range r.Changes {
		v := "nil"
		if ch.GetBrightness() != nil {
			v = fmtLevel(ch.GetBrightness().GetLevelPercent())
		}
		if err := s.rec.add(v); err != nil {
			return err
		}
	}
	return nil
}

type fedOnOffClient struct {
	traits.OnOffApiClient
	ch   []chan []int
	ctxs *ctxLog
	tab  *nameTable
}

// ctxLog: the contexts the member streams were opened with.
type ctxLog struct {
	mu  sync.Mutex
	all []context.Context
}

func (l *ctxLog) add(ctx context.Context) { l.mu.Lock(); l.all = append(l.all, ctx); l.mu.Unlock() }

// state: "1" every member context is cancelled, "0" none is, "x" mixed, "-" no member
func (l *ctxLog) state() string {
	l.mu.Lock()
	defer l.mu.Unlock()
	st := "-"
	for _, ctx := range l.all {
		s := "0"
		if ctx.Err() != nil {
			s = "1"
		}
		if st != "-" && st != s {
			return "x"
		}
		st = s
	}
	return st
}

func (c *fedOnOffClient) PullOnOff(ctx context.Context, in *traits.PullOnOffRequest, _ ...grpc.CallOption) (grpc.ServerStreamingClient[traits.PullOnOffResponse], error) {
	c.ctxs.add(ctx)
	return &fedOnOffStream{ctx: ctx, ch: strayFeed(c.tab, c.ch, in.Name), name: in.Name}, nil
}

type fedOnOffStream struct {
	grpc.ClientStream
	ctx  context.Context
	ch   chan []int
	name string
}

func (s *fedOnOffStream) Recv() (*traits.PullOnOffResponse, error) {
	select {
	case vs := <-s.ch:
		r := &traits.PullOnOffResponse{}
		for _, v := range vs {
			r.Changes = append(r.Changes, &traits.PullOnOffResponse_Change{Name: s.name, OnOff: &traits.OnOff{State: traits.OnOff_State(v - 1)}})
		}
		return r, nil
	case <-s.ctx.Done():
		return nil, s.ctx.Err()
	}
}

type fwdOnOffServer struct {
	grpc.ServerStream
	ctx context.Context
	rec *fwdRecorder
}

func (s *fwdOnOffServer) Context() context.Context { return s.ctx }
func (s *fwdOnOffServer) Send(r *traits.PullOnOffResponse) error {
	for _, ch := range r.Changes {
		v := "nil"
		if ch.GetOnOff() != nil {
			v = onoffName(ch.GetOnOff().GetState())
		}
		if err := s.rec.add(v); err != nil {
			return err
		}
	}
	return nil
}

// runPullLoop returns the code's answer in the driver's format ("fwd=…"), or "!…" for a harness problem / panic.
func runPullLoop(p pcase) (out string) {
	defer func() {
		if r := recover(); r != nil {
			out = "panic:" + strings.ReplaceAll(fmt.Sprint(r), " ", "_")
		}
	}()
	base := goroutineIDs()
	names := namesOr(p.Names, p.N)
	tab := newNameTable(names)
	chs := make([]chan []int, p.N)
	for i := range chs {
		chs[i] = make(chan []int)
	}
	ctx, cancel := context.WithCancel(context.Background())
	defer cancel()
	rec := &fwdRecorder{failAt: p.FailSend}
	ctxs := &ctxLog{}
	done := make(chan error, 1)
	go func() {
		// PullX runs its loop on this goroutine: a panic there (a slot out of range, say) is an outcome, not the end of the harness
		defer func() {
			if r := recover(); r != nil {
				done <- loopPanic{strings.ReplaceAll(fmt.Sprint(r), " ", "_")}
			}
		}()
		if p.Trait == "light" {
			done <- lightpb.NewGroup(&fedLightClient{ch: chs, ctxs: ctxs, tab: tab}, names...).PullBrightness(&traits.PullBrightnessRequest{Name: "G"}, &fwdLightServer{ctx: ctx, rec: rec})
		} else {
			done <- onoffpb.NewGroup(&fedOnOffClient{ch: chs, ctxs: ctxs, tab: tab}, names...).PullOnOff(&traits.PullOnOffRequest{Name: "G"}, &fwdOnOffServer{ctx: ctx, rec: rec})
		}
	}()
	// ended: the subscription has returned by itself after k messages (the harness has not cancelled anything):
	// which error, and are the members' contexts cancelled (the remaining members are cancelled once the outcome is decided)
	ended := func(err error, k int) string {
		if lp, ok := err.(loopPanic); ok {
			return "panic:" + lp.msg
		}
		class := "?" + errClassCode(err)
		switch {
		case err == errSubscriberGone:
			class = "senderr"
		case err == nil:
			class = "nil"
		}
		return fmt.Sprintf("fwd=%s end=%s after=%d ctx=%s", dash(strings.Join(rec.list(), ",")), class, k, ctxs.state())
	}
	if _, ok := waitQuietOutside(base); !ok {
		return "!stuck:start"
	}
	// every entry of the member list has been subscribed to, once, under its own name (the strategy is All and no
	// member has failed); an entry left out is only reported when the script wants to hear from it (below)
	namesOff := func() string {
		return fmt.Sprintf("!names:not-called=%s;stray-calls=%s", dash(strings.Join(tab.missing(), ",")), dash(strings.Join(tab.strayCalls(), ",")))
	}
	if len(tab.strayCalls()) > 0 {
		return namesOff()
	}
	if p.N == 0 {
		// no members: All over nothing returns at once, there is nobody to deliver a message
		// (the process is quiescent here: a subscription that has not returned by now never will)
		if !await(base, func() bool {
			select {
			case <-done:
				return true
			default:
				return false
			}
		}) {
			return "!stuck:empty-group-does-not-return"
		}
		return "fwd=" + dash(strings.Join(rec.list(), ",")) + " end=harness"
	}
	for k, e := range p.Events {
		var endErr error
		took, over := false, false
		if !tab.claimed(e.Member) {
			return namesOff()
		}
		if !await(base, func() bool {
			select {
			case chs[e.Member] <- e.Vals:
				took = true
				return true
			case endErr = <-done:
				over = true
				return true
			default:
				return false
			}
		}) {
			return fmt.Sprintf("!stuck:member-not-receiving-at-event-%d", k)
		}
		if over && !took {
			return ended(endErr, k)
		}
		if _, ok := waitQuietOutside(base); !ok {
			return fmt.Sprintf("!stuck:event-%d", k)
		}
		select {
		case err := <-done:
			return ended(err, k+1)
		default:
		}
	}
	cancel()
	var endErr error
	if !await(base, func() bool {
		select {
		case endErr = <-done:
			return true
		default:
			return false
		}
	}) {
		return "!stuck:does-not-end-on-cancel"
	}
	waitQuietOutside(base)
	if lp, ok := endErr.(loopPanic); ok {
		return "panic:" + lp.msg
	}
	if len(tab.missing()) > 0 {
		return namesOff()
	}
	return "fwd=" + dash(strings.Join(rec.list(), ",")) + " end=harness"
}

type loopPanic struct{ msg string }

func (l loopPanic) Error() string { return "panic: " + l.msg }

// pullSpec: the forwarded sequence by the property's own words.
func pullSpec(p pcase) string {
	latest := make([]int, p.N) // 0: nothing yet
	var fwd []string
	last := ""
	for k, e := range p.Events {
		if len(e.Vals) == 0 {
			continue
		}
		latest[e.Member] = e.Vals[len(e.Vals)-1]
		cur := ""
		if p.Trait == "light" {
			sum, cnt := 0.0, 0
			for _, v := range latest {
				if v > 0 {
					sum += float64(24 * (v - 1))
					cnt++
				}
			}
			cur = strconv.FormatFloat(sum/float64(cnt), 'f', -1, 64)
		} else {
			st := 0
			for _, v := range latest {
				switch v - 1 {
				case 1:
					st = 1
				case 2:
					if st == 0 {
						st = 2
					}
				}
			}
			cur = onoffNames[st]
		}
		if cur != last {
			fwd = append(fwd, cur)
			last = cur
			if p.FailSend > 0 && len(fwd) == p.FailSend {
				// the subscriber has gone: the subscription ends with Send's error once every member has been cancelled
				return fmt.Sprintf("fwd=%s end=senderr after=%d ctx=1", strings.Join(fwd, ","), k+1)
			}
		}
	}
	return "fwd=" + dash(strings.Join(fwd, ",")) + " end=harness"
}

func sameFwd(a, b string) bool {
	if a == b {
		return true
	}
	fa, fb := strings.Fields(a), strings.Fields(b)
	if len(fa) != len(fb) || len(fa) == 0 || !strings.HasPrefix(fa[0], "fwd=") || !strings.HasPrefix(fb[0], "fwd=") {
		return false
	}
	for i := 1; i < len(fa); i++ {
		if fa[i] != fb[i] {
			return false
		}
	}
	x, y := strings.Split(strings.TrimPrefix(fa[0], "fwd="), ","), strings.Split(strings.TrimPrefix(fb[0], "fwd="), ",")
	if len(x) != len(y) {
		return false
	}
	for i := range x {
		if !sameValue(x[i], y[i]) {
			return false
		}
	}
	return true
}

func pullLoopMonitor(mon *lib.Monitor, p pcase, code string) {
	mon.Eval(p.key(), len(p.Events) > 0, nil)
	sig := "C17/" + p.fn() + "/loop/"
	switch {
	case strings.HasPrefix(code, "panic"):
		mon.Violate(sig+"panic", "the subscription panicked", p, "no panic", code)
	case strings.HasPrefix(code, "!names"):
		mon.Violate(sig+"member-names", "not: every entry of the Group's member list - whatever its name: blank, repeated, odd - is subscribed to exactly once under its own name",
			p, "every entry of "+quoteNames(namesOr(p.Names, p.N))+" called once", code)
	case strings.HasPrefix(code, "!"):
		mon.Violate(sig+"stalled", "the subscription did not take a member's message / did not end", p, pullSpec(p), code)
	case !sameFwd(code, pullSpec(p)):
		mon.Violate(sig+"forwarded", "not: after each member message the reduction of the members' latest values is forwarded whenever it differs from the last one forwarded; when a Send fails the subscription ends by itself with that error and every member's context cancelled",
			p, pullSpec(p), code)
	}
}

func pullLoopCases(f lib.Flags, rng *rand.Rand) []pcase {
	var out []pcase
	valSets := [][]int{{}, {2}, {3}, {2, 3}}
	for _, tr := range []string{"light", "onoff"} {
		out = append(out, pcase{PullLoop: true, Trait: tr, N: 0})
		for n := 1; n <= 2; n++ {
			var evs []pevent
			for m := 0; m < n; m++ {
				for _, vs := range valSets {
					evs = append(evs, pevent{Member: m, Vals: vs})
				}
			}
			out = append(out, pcase{PullLoop: true, Trait: tr, N: n})
			for fail := 0; fail <= 2; fail++ {
				for _, a := range evs {
					out = append(out, pcase{PullLoop: true, Trait: tr, N: n, Events: []pevent{a}, FailSend: fail})
					for _, b := range evs {
						out = append(out, pcase{PullLoop: true, Trait: tr, N: n, Events: []pevent{a, b}, FailSend: fail})
					}
				}
			}
		}
	}
	// the member list is any list of strings (naming.go): each entry blank in turn, names that look like another
	// member's, every entry blank / the same name, a name repeated at the end x every member speaking first x every
	// member speaking second
	for _, tr := range []string{"light", "onoff"} {
		for n := 1; n <= 3; n++ {
			for _, names := range nameSchemes(n, true) {
				for a := 0; a < n; a++ {
					out = append(out, pcase{PullLoop: true, Trait: tr, N: n, Names: names, Events: []pevent{{Member: a, Vals: []int{2}}}})
					for b := 0; b < n; b++ {
						out = append(out, pcase{PullLoop: true, Trait: tr, N: n, Names: names, Events: []pevent{{Member: a, Vals: []int{2}}, {Member: b, Vals: []int{3}}}, FailSend: (a + b) % 3})
					}
				}
			}
		}
	}
	for k := 0; k < f.N(300, 10000); k++ {
		p := pcase{PullLoop: true, Trait: []string{"light", "onoff"}[rng.Intn(2)], N: 1 + rng.Intn(4)}
		p.Names = randomNames(p.N, true, rng)
		vals := 2 + rng.Intn(4) // few distinct values: repeated group values (dedup) are frequent
		if p.Trait == "onoff" {
			vals = 3
		}
		for e := rng.Intn(9); e > 0; e-- {
			ev := pevent{Member: rng.Intn(p.N)}
			for c := []int{0, 1, 1, 1, 2, 3}[rng.Intn(6)]; c > 0; c-- {
				ev.Vals = append(ev.Vals, 1+rng.Intn(vals))
			}
			p.Events = append(p.Events, ev)
		}
		if rng.Intn(3) == 0 {
			p.FailSend = 1 + rng.Intn(3)
		}
		out = append(out, p)
	}
	return out
}

func runPullLoops(f lib.Flags, res *lib.Result, drv *lib.Driver, rng *rand.Rand) {
	tie := res.Tie("group-pull-loop", "K4",
		"the subscription loop of lightpb.Group.PullBrightness / onoffpb.Group.PullOnOff over scripted member streams fed by the harness one message at a time (whole-process quiescence between messages): "+
			"EXHAUSTIVE for 0..2 members x every sequence of at most 2 messages x message content {no change, one change, another, two changes} x {no Send fails, the 1st, the 2nd}; random: 1..4 members, 0..8 messages of 0..3 changes over few distinct values, a failing k-th Send (k<=3) in a third of them. "+
			"MEMBER NAMES are an input of the code the model does not have (its members are their indices): 1..3 members x {each entry blank in turn, names that look like another member's, every entry blank, every entry the same name, a name repeated} x every first / second speaker, and half of the random cases draw odd names (blank, repeated, non-printable, 300 characters); the scripted client assigns a call to the entry of the list it names. "+
			"model = driver op `pull` (slots, reduction, dedup against the last value forwarded, end of the loop on a Send error); compared: the sequence of values forwarded, and whether the subscription ended by itself: after which message, with which error, members' contexts cancelled. non-trivial = at least one message; distinct by full input")
	mon := res.Monitor("group-pull-loop-contract",
		"the same executions against the loop's contract stated independently: after each member message with changes the group's value is the reduction (light: mean, onoff: ON wins) of the members' latest values, "+
			"and it is forwarded exactly when it differs from the value forwarded last; the subscription takes every message and ends on cancellation; when a Send fails it ends by itself with Send's error after cancelling every member; every entry of the member list - blank, repeated or odd names included - is subscribed to exactly once under its own name, and nothing else is; no panic")
	cases := pullLoopCases(f, rng)
	var answers []string
	if drv != nil {
		lines := make([]string, len(cases))
		for i, p := range cases {
			lines[i] = p.line()
		}
		var err error
		if answers, err = drv.Batch(lines); err != nil {
			tie.Fail(err)
			answers = nil
		}
	} else {
		tie.Fail(fmt.Errorf("no driver"))
	}
	stalled := 0
	for i, p := range cases {
		if crashedStrategy(crashedFns, "all") {
			mon.Count("skipped-crashing-entry-point") // the Groups here run Execute with All
			continue
		}
		if stalled >= 2 {
			// a subscription that does not take a message / does not end costs a full wait (and leaves its goroutines
			// behind): after two such cases (the run has failed on them anyway) the remaining ones are skipped
			mon.Count("skipped-after-2-stalled-cases")
			continue
		}
		suspicious := func(code string) bool {
			return (answers != nil && answers[i] != code) || !sameFwd(code, pullSpec(p))
		}
		code := runPullLoop(p)
		if suspicious(code) {
			mon.Count("retried-cases")
			retries := 3
			if strings.HasPrefix(code, "!stuck") {
				retries = 1
			}
			for k := 0; k < retries; k++ {
				if c2 := runPullLoop(p); !suspicious(c2) {
					mon.Count("retried-and-vanished")
					mon.Count("retried-and-vanished:" + p.key() + " first=" + code)
					code = c2
					break
				}
			}
		}
		if answers != nil {
			tie.Record(p.key(), len(p.Events) > 0, p, answers[i], code)
		}
		if strings.HasPrefix(code, "!stuck") {
			stalled++
		}
		tie.Count(p.Trait)
		tie.Count(fmt.Sprintf("n=%d", p.N))
		if p.Names != nil {
			tie.Count("odd-member-names")
		}
		if strings.Contains(code, "end=senderr") {
			tie.Count("ended-by-send-error")
		}
		pullLoopMonitor(mon, p, code)
	}
}
