package main

// Running one case on the real pkg/group code under a harness-chosen completion order.

import (
	"context"
	"errors"
	"fmt"
	"io"
	"math"
	"runtime/debug"
	"sort"
	"strconv"
	"strings"
	"sync"
	"time"

	"google.golang.org/grpc/codes"
	"google.golang.org/grpc/status"
	"google.golang.org/protobuf/proto"
	"google.golang.org/protobuf/types/known/wrapperspb"

	"github.com/smart-core-os/sc-golang/pkg/group"
)

// resp is what a member returns: Msg 0 = nil message, k>0 = message m<k>; Err 0 = nil error, k>0 = error e<k>
// (k = class*100 + id, see makeErr).
type resp struct {
	Msg int `json:"msg"`
	Err int `json:"err"`
}

func (r resp) String() string { return lab("m", r.Msg) + "." + lab("e", r.Err) }

func lab(p string, k int) string {
	if k == 0 {
		return "-"
	}
	return p + strconv.Itoa(k)
}

// beh is a member's behaviour: it waits for its gate, then returns Normal, or - if it is
// cancellation-aware and finds its context cancelled at that moment - OnCancel.
type beh struct {
	Normal   resp `json:"normal"`
	Aware    bool `json:"aware,omitempty"`
	OnCancel resp `json:"on_cancel,omitempty"`
}

func (b beh) String() string {
	if b.Aware {
		return b.Normal.String() + "/" + b.OnCancel.String()
	}
	return b.Normal.String()
}

type tcase struct {
	API     string `json:"api"`      // "x" = group.Execute(strategy), "d" = the strategy's own function
	Strat   string `json:"strategy"` // unspec all most any one fast race upto other
	Allowed int    `json:"allowed"`  // upto only
	Behs    []beh  `json:"members"`
	Order   []int  `json:"order"`                     // completion order: a permutation of 0..n-1 (the schedule)
	PCancel int    `json:"parent_cancel"`             // -1: never; k: the caller's context is cancelled after k completions
	Burst   bool   `json:"burst,omitempty"`           // burst.go: every member is released at once (Order unused; PCancel 0 = the caller cancels just before)
	PExpire bool   `json:"parent_deadline,omitempty"` // the caller's context ends by its DEADLINE at that point (Err() = context.DeadlineExceeded) instead of a cancel

	// set for the gated Group-adapter cases (gadapters.go): the call is a Group RPC, which returns a reduced
	// value instead of the result slice
	group *gcase
}

func (c tcase) n() int { return len(c.Behs) }

func (c tcase) key() string {
	if c.PExpire {
		return c.line() + " (deadline)"
	}
	return c.line()
}

// line is the driver request for this case.
func (c tcase) line() string {
	bs := make([]string, len(c.Behs))
	for i, b := range c.Behs {
		bs[i] = b.String()
	}
	os := make([]string, len(c.Order))
	for i, o := range c.Order {
		os[i] = strconv.Itoa(o)
	}
	pc := "-"
	if c.PCancel >= 0 {
		pc = strconv.Itoa(c.PCancel)
	}
	return fmt.Sprintf("exec %s %s %d %d %s %s %s", c.API, c.Strat, c.Allowed, c.n(), dash(strings.Join(bs, ",")), dash(strings.Join(os, ",")), pc)
}

func dash(s string) string {
	if s == "" {
		return "-"
	}
	return s
}

// fn names the entry point for signatures.
func (c tcase) fn() string {
	name := map[string]string{"unspec": "Unspecified", "all": "All", "most": "Most", "any": "Any", "one": "One",
		"fast": "Fast", "race": "Race", "upto": "UpTo", "other": "Other"}[c.Strat]
	if c.API == "x" {
		return "Execute/" + name
	}
	return "Execute" + name
}

// parallel: does the strategy run the members in goroutines of executeEach?
func (c tcase) parallel() bool { return c.Strat != "one" }

// obs is everything observed about one execution.
type obs struct {
	Panic    string // "" if none
	Slice    bool   // result is a slice (Execute / UpTo family) rather than (msg, idx, err)
	Res      []string
	Msg      string
	Idx      int
	Err      string
	Ret      int      // first observation point (number of completions) at which the call had returned; -1 never
	Cancel   []string // per observation point 0..n: "0"/"1" members' context cancelled, "-" no member invoked yet
	Seen     []int    // per member: -1 never ran, 0 ran with a live context, 1 ran with a cancelled context
	Inv      []int    // members in invocation order
	Actual   []resp   // what each member really returned (valid where Seen >= 0)
	Returned []int    // members in the order their functions returned
	Left     []string // goroutines of pkg/group still alive after every released member returned (group frames only)
	Stuck    string   // harness problem (quiescence not reached)
	Strays   []string // Group-adapter cases: calls the Group made with a name that belongs to no entry of its member list (naming.go)
}

type run struct {
	c       tcase
	mu      sync.Mutex
	gates   []chan struct{}
	ctxs    []context.Context
	seen    []int
	inv     []int
	actual  []resp
	ret     []int
	msgs    map[int]proto.Message
	errs    map[int]error
	started chan struct{}
	done    chan struct{}

	mkMsg func(k int) proto.Message                                 // nil: wrapperspb strings
	call  func(r *run, ctx context.Context, members []group.Member) // nil: pkg/group directly
	value string                                                    // call != nil: the reduced value returned / last sent

	strays   []string
	panicMsg string
	slice    []proto.Message
	msg      proto.Message
	idx      int
	err      error
}

func (r *run) noteStray(name string) {
	r.mu.Lock()
	r.strays = append(r.strays, strconv.Quote(name))
	r.mu.Unlock()
}

func (r *run) msgOf(k int) proto.Message {
	if k == 0 {
		return nil
	}
	r.mu.Lock()
	defer r.mu.Unlock()
	if m, ok := r.msgs[k]; ok {
		return m
	}
	var m proto.Message = wrapperspb.String("m" + strconv.Itoa(k))
	if r.mkMsg != nil {
		m = r.mkMsg(k)
	}
	r.msgs[k] = m
	return m
}

func (r *run) errOf(k int) error {
	if k == 0 {
		return nil
	}
	r.mu.Lock()
	defer r.mu.Unlock()
	if e, ok := r.errs[k]; ok {
		return e
	}
	e := makeErr(k)
	r.errs[k] = e
	return e
}

// Error classes.  An error number k is class*100 + id: the strategies' contracts speak of "a member
// fails" = its error is non-nil, whatever the error IS, so the members fail with every kind of error
// value a real member produces - in particular with context errors of their OWN (a private deadline or
// cancellation while the group's context is alive), wrapped ones, gRPC status errors of the same
// meaning, net.Error-like timeouts and io.EOF.  The bare sentinels exist once (id 0).
const (
	ecPlain = iota
	ecCanceled
	ecDeadline
	ecWrapCanceled
	ecWrapDeadline
	ecStatusCanceled
	ecStatusDeadline
	ecStatusUnavailable
	ecTimeout
	ecEOF
	ecCount
)

var errClassName = [ecCount]string{"plain", "context.Canceled", "context.DeadlineExceeded", "wrapped-Canceled", "wrapped-DeadlineExceeded",
	"status-Canceled", "status-DeadlineExceeded", "status-Unavailable", "net-timeout", "io.EOF"}

func errSentinel(class int) bool { return class == ecCanceled || class == ecDeadline || class == ecEOF }

// errNum builds the error number of a class; sentinels have the single id 0.
func errNum(class, id int) int {
	if errSentinel(class) {
		return class * 100
	}
	return class*100 + 1 + (id-1)%99
}

type timeoutErr struct{ s string }

func (e *timeoutErr) Error() string   { return e.s }
func (e *timeoutErr) Timeout() bool   { return true }
func (e *timeoutErr) Temporary() bool { return true }

func makeErr(k int) error {
	name := "e" + strconv.Itoa(k)
	switch k / 100 {
	case ecCanceled:
		return context.Canceled
	case ecDeadline:
		return context.DeadlineExceeded
	case ecWrapCanceled:
		return fmt.Errorf("member gave up (%s): %w", name, context.Canceled)
	case ecWrapDeadline:
		return fmt.Errorf("member's own deadline (%s): %w", name, context.DeadlineExceeded)
	case ecStatusCanceled:
		return status.Error(codes.Canceled, name)
	case ecStatusDeadline:
		return status.Error(codes.DeadlineExceeded, name)
	case ecStatusUnavailable:
		return status.Error(codes.Unavailable, name)
	case ecTimeout:
		return &timeoutErr{name}
	case ecEOF:
		return io.EOF
	}
	return errors.New(name)
}

func errClassOf(k int) string {
	if c := k / 100; c >= 0 && c < ecCount {
		return errClassName[c]
	}
	return "plain"
}

// labels by identity: the contract is about *the* message/error a member returned, not an equal one.
func (r *run) msgLabel(m proto.Message) string {
	if m == nil {
		return "-"
	}
	r.mu.Lock()
	defer r.mu.Unlock()
	for k, x := range r.msgs {
		if x == m {
			return "m" + strconv.Itoa(k)
		}
	}
	return "?msg"
}

func (r *run) errLabel(e error) string {
	if e == nil {
		return "-"
	}
	r.mu.Lock()
	defer r.mu.Unlock()
	for k, x := range r.errs {
		if x == e {
			return "e" + strconv.Itoa(k)
		}
	}
	if e.Error() == "no members returned a response" {
		return "noresp"
	}
	return "?" + strings.ReplaceAll(e.Error(), " ", "_")
}

func (r *run) member(i int) group.Member {
	return func(ctx context.Context) (proto.Message, error) {
		r.mu.Lock()
		r.ctxs[i] = ctx
		r.inv = append(r.inv, i)
		r.mu.Unlock()
		<-r.gates[i]
		cancelled := ctx.Err() != nil
		b := r.c.Behs[i]
		out := b.Normal
		if cancelled && b.Aware {
			out = b.OnCancel
		}
		m, e := r.msgOf(out.Msg), r.errOf(out.Err)
		r.mu.Lock()
		if cancelled {
			r.seen[i] = 1
		} else {
			r.seen[i] = 0
		}
		r.actual[i] = out
		r.ret = append(r.ret, i)
		r.mu.Unlock()
		return m, e
	}
}

var strategyConst = map[string]group.ExecutionStrategy{
	"unspec": group.ExecutionStrategyUnspecified, "all": group.ExecutionStrategyAll, "most": group.ExecutionStrategyMost,
	"any": group.ExecutionStrategyAny, "one": group.ExecutionStrategyOne, "fast": group.ExecutionStrategyFast,
	"race": group.ExecutionStrategyRace, "other": group.ExecutionStrategy(99),
}

func (c tcase) sliceAPI() bool {
	if c.API == "x" {
		return true
	}
	switch c.Strat {
	case "one", "fast", "race":
		return false
	}
	return true
}

// consumerMain is the goroutine that calls into pkg/group (its name is matched in goroutine dumps).
func consumerMain(r *run, ctx context.Context, members []group.Member) {
	defer close(r.done)
	defer func() {
		if p := recover(); p != nil {
			r.panicMsg = fmt.Sprint(p)
			_ = debug.Stack
		}
	}()
	close(r.started)
	c := r.c
	if r.call != nil {
		r.call(r, ctx, members)
		return
	}
	if c.API == "x" {
		st := strategyConst[c.Strat]
		if c.Strat == "other" {
			// any value outside the enum is "the implementation chooses" = All: the first value past the enum, a negative
			// one, a large one, chosen by the shape of the case
			st = []group.ExecutionStrategy{group.ExecutionStrategyRace + 1, -1, 99, group.ExecutionStrategy(math.MaxInt32)}[(c.n()+len(c.line()))%4]
		}
		r.slice, r.err = group.Execute(ctx, st, members)
		return
	}
	switch c.Strat {
	case "all":
		r.slice, r.err = group.ExecuteAll(ctx, members)
	case "most":
		r.slice, r.err = group.ExecuteMost(ctx, members)
	case "any":
		r.slice, r.err = group.ExecuteAny(ctx, members)
	case "upto":
		r.slice, r.err = group.ExecuteUpTo(ctx, c.Allowed, members)
	case "one":
		r.msg, r.idx, r.err = group.ExecuteOne(ctx, members)
	case "fast":
		r.msg, r.idx, r.err = group.ExecuteFast(ctx, members)
	case "race":
		r.msg, r.idx, r.err = group.ExecuteRace(ctx, members)
	default:
		panic("harness: bad direct strategy " + c.Strat)
	}
}

// deadlineCtx is a caller's context that ends when the harness says its deadline has passed.  It implements
// AfterFunc, so contexts derived from it are cancelled synchronously inside expire() (as a cancel of a standard
// context does) rather than by a watcher goroutine some time later: the schedule stays the harness' own.
type deadlineCtx struct {
	context.Context
	mu    sync.Mutex
	done  chan struct{}
	err   error
	at    time.Time
	after map[int]func()
	next  int
}

func newDeadlineCtx() *deadlineCtx {
	return &deadlineCtx{Context: context.Background(), done: make(chan struct{}), at: time.Now().Add(time.Hour), after: map[int]func(){}}
}
func (d *deadlineCtx) Deadline() (time.Time, bool) { return d.at, true }
func (d *deadlineCtx) Done() <-chan struct{}       { return d.done }
func (d *deadlineCtx) Err() error {
	d.mu.Lock()
	defer d.mu.Unlock()
	return d.err
}
func (d *deadlineCtx) AfterFunc(f func()) (stop func() bool) {
	d.mu.Lock()
	if d.err != nil {
		d.mu.Unlock()
		go f()
		return func() bool { return false }
	}
	id := d.next
	d.next++
	d.after[id] = f
	d.mu.Unlock()
	return func() bool {
		d.mu.Lock()
		defer d.mu.Unlock()
		_, ok := d.after[id]
		delete(d.after, id)
		return ok
	}
}
func (d *deadlineCtx) expire() {
	d.mu.Lock()
	if d.err != nil {
		d.mu.Unlock()
		return
	}
	d.err = context.DeadlineExceeded
	close(d.done)
	fs := make([]func(), 0, len(d.after))
	for id := 0; id < d.next; id++ {
		if f, ok := d.after[id]; ok {
			fs = append(fs, f)
		}
	}
	d.after = map[int]func(){}
	d.mu.Unlock()
	for _, f := range fs {
		f()
	}
}

// leakedBase holds goroutines leaked by earlier cases (they never go away), so that each case is
// judged on its own goroutines only.
var leakedBase = map[int64]struct{}{}

func runCase(c tcase) obs {
	n := c.n()
	r := &run{c: c, gates: make([]chan struct{}, n), ctxs: make([]context.Context, n), seen: make([]int, n),
		actual: make([]resp, n), msgs: map[int]proto.Message{}, errs: map[int]error{},
		started: make(chan struct{}), done: make(chan struct{})}
	if c.group != nil {
		c.group.prepare(r)
	}
	members := make([]group.Member, n)
	for i := range members {
		r.gates[i] = make(chan struct{})
		r.seen[i] = -1
		members[i] = r.member(i)
	}
	parent, pcancel := context.WithCancel(context.Background())
	defer pcancel()
	if c.PExpire {
		// a caller whose context ends by its deadline: same Done(), but Err() is context.DeadlineExceeded and
		// Deadline() is set - for the strategies the caller's context ending is one event, whatever its reason
		dc := newDeadlineCtx()
		parent, pcancel = dc, dc.expire
		defer pcancel()
	}
	o := obs{Ret: -1, Slice: c.sliceAPI()}

	quiet := func() ([]gor, bool) { return waitQuiet(leakedBase) }
	if c.group != nil {
		base := goroutineIDs() // everything that exists before the case (incl. goroutines leaked by earlier cases)
		quiet = func() ([]gor, bool) { return waitQuietOutside(base) }
	}
	go consumerMain(r, parent, members)
	<-r.started
	var last []gor
	for k := 0; k <= n; k++ {
		gs, ok := quiet()
		last = gs
		if !ok {
			o.Stuck = fmt.Sprintf("no quiescence at point %d: %d goroutines", k, len(gs))
			break
		}
		select {
		case <-r.done:
			if o.Ret < 0 {
				o.Ret = k
			}
		default:
		}
		o.Cancel = append(o.Cancel, r.cancelState())
		if k == n {
			break
		}
		if c.PCancel == k {
			pcancel()
		}
		close(r.gates[c.Order[k]])
	}
	// release anything still gated (only after a harness problem) so that nothing of ours lingers
	for i := range r.gates {
		select {
		case <-r.gates[i]:
		default:
			close(r.gates[i])
		}
	}
	for _, g := range last {
		o.Left = append(o.Left, groupFramesOnly(g))
		leakedBase[g.ID] = struct{}{}
	}
	sort.Strings(o.Left)

	select {
	case <-r.done:
	default:
		// the call never returned although every member did: nothing to read
		r.mu.Lock()
		o.Seen = append([]int(nil), r.seen...)
		o.Inv = append([]int(nil), r.inv...)
		o.Actual = append([]resp(nil), r.actual...)
		o.Returned = append([]int(nil), r.ret...)
		o.Strays = append([]string(nil), r.strays...)
		r.mu.Unlock()
		if o.Stuck == "" {
			o.Stuck = "call did not return after every member returned"
		}
		return o
	}
	o.Panic = r.panicMsg
	if c.group != nil {
		o.Msg = r.value
	} else if o.Slice {
		for _, m := range r.slice {
			o.Res = append(o.Res, r.msgLabel(m))
		}
		if r.slice == nil && o.Panic == "" {
			o.Res = nil
		}
	} else {
		o.Msg, o.Idx = r.msgLabel(r.msg), r.idx
	}
	o.Err = r.errLabel(r.err)
	r.mu.Lock()
	o.Seen = append([]int(nil), r.seen...)
	o.Inv = append([]int(nil), r.inv...)
	o.Actual = append([]resp(nil), r.actual...)
	o.Returned = append([]int(nil), r.ret...)
	o.Strays = append([]string(nil), r.strays...)
	r.mu.Unlock()
	return o
}

func (r *run) cancelState() string {
	r.mu.Lock()
	defer r.mu.Unlock()
	// every member of one call is handed the same context: "x" if the contexts of the members invoked so far
	// disagree (a member run under some other context than the one the call cancels)
	st := "-"
	for _, ctx := range r.ctxs {
		if ctx != nil {
			s := "0"
			if ctx.Err() != nil {
				s = "1"
			}
			if st != "-" && st != s {
				return "x"
			}
			st = s
		}
	}
	return st
}

// canon is the code's answer in the driver's format.
func (o obs) canon(c tcase) string {
	if o.Stuck != "" {
		return "!stuck:" + strings.ReplaceAll(o.Stuck, " ", "_")
	}
	var out string
	switch {
	case o.Panic != "":
		out = "panic"
	case c.group != nil:
		out = "val=" + dash(o.Msg) + " err=" + o.Err
	case o.Slice:
		out = "res=[" + strings.Join(o.Res, ",") + "] err=" + o.Err
	default:
		out = "msg=" + o.Msg + " idx=" + strconv.Itoa(o.Idx) + " err=" + o.Err
	}
	seen := make([]string, len(o.Seen))
	for i, s := range o.Seen {
		seen[i] = map[int]string{-1: "-", 0: "0", 1: "1"}[s]
	}
	inv := append([]int(nil), o.Inv...)
	if c.parallel() {
		sort.Ints(inv)
	}
	is := make([]string, len(inv))
	for i, v := range inv {
		is[i] = strconv.Itoa(v)
	}
	ret := "-"
	if o.Ret >= 0 {
		ret = strconv.Itoa(o.Ret)
	}
	return fmt.Sprintf("%s ret=%s cancel=%s seen=%s inv=%s left=%d", out, ret, dash(strings.Join(o.Cancel, "")),
		dash(strings.Join(seen, "")), dash(strings.Join(is, ",")), len(o.Left))
}
