package main

// Quiescence detection by consistent goroutine snapshots.
//
// runtime.Stack(buf, true) stops the world, so one dump is a consistent snapshot of every goroutine.
// A goroutine is "of interest" when its dump mentions pkg/group (a frame of the package or a
// "created by …/pkg/group.executeEach" line) or the harness' consumer entry function.  If in one
// snapshot every goroutine of interest is parked on a channel / select / WaitGroup, none of them can
// move again before the harness itself does something (the code under test uses no timers), which is
// exactly the point at which the harness observes the state and releases the next member.  No sleeps,
// no timeouts are involved in deciding; the deadline below only guards the harness against hanging.

import (
	"bytes"
	"fmt"
	"runtime"
	"strconv"
	"strings"
	"time"
)

const (
	groupMark    = "sc-golang/pkg/group."
	consumerMark = "main.consumerMain"
)

type gor struct {
	ID     int64
	State  string
	Text   string
	Parked bool
}

// isParked decides from a goroutine's dump block whether it is parked on something only another goroutine
// of the program can release: a channel operation, a select, or sync.WaitGroup.Wait.
//
// The wait reason "semacquire" needs care: sync.WaitGroup.Wait reports it, but so do the runtime's own
// semaphores.  In particular a goroutine whose allocation wants to start a GC cycle blocks on the
// world-stop semaphore while THIS harness holds it for runtime.Stack(all) - it shows "[semacquire]" with
// an ordinary user frame on top (the runtime frames are hidden), and it continues by itself as soon as
// the dump ends.  Counting it as parked made a snapshot look quiescent while the program was in the
// middle of its work (seen about once in 5000 subscriptions under machine load).  So "semacquire" only
// counts when the blocking frames are sync.runtime_Semacquire <- sync.(*WaitGroup).Wait.
func isParked(state string, blk []byte) bool {
	switch state {
	case "chan receive", "chan send", "select", "chan receive (nil chan)", "chan send (nil chan)", "select (no cases)",
		"sync.WaitGroup.Wait":
		return true
	case "semacquire":
		lines := bytes.Split(blk, []byte("\n"))
		// lines: header, func, \tfile:line, func, \tfile:line, ...
		return len(lines) >= 4 && bytes.HasPrefix(lines[1], []byte("sync.runtime_Semacquire(")) &&
			bytes.HasPrefix(lines[3], []byte("sync.(*WaitGroup).Wait("))
	}
	return false
}

var stackBuf = make([]byte, 1<<16)

func dumpAll() []byte {
	for {
		n := runtime.Stack(stackBuf, true)
		if n < len(stackBuf) {
			return stackBuf[:n]
		}
		stackBuf = make([]byte, 2*len(stackBuf))
	}
}

// interesting returns the goroutines of interest that are not in the baseline set.
func interesting(base map[int64]struct{}) []gor {
	var out []gor
	for _, blk := range bytes.Split(dumpAll(), []byte("\n\n")) {
		if !bytes.HasPrefix(blk, []byte("goroutine ")) {
			continue
		}
		if !bytes.Contains(blk, []byte(groupMark)) && !bytes.Contains(blk, []byte(consumerMark)) {
			continue
		}
		s := string(blk)
		nl := strings.IndexByte(s, '\n')
		if nl < 0 {
			nl = len(s)
		}
		head := s[:nl] // goroutine 12 [chan receive, 2 minutes]:
		rest := strings.TrimPrefix(head, "goroutine ")
		sp := strings.IndexByte(rest, ' ')
		if sp < 0 {
			continue
		}
		id, err := strconv.ParseInt(rest[:sp], 10, 64)
		if err != nil {
			continue
		}
		if _, ok := base[id]; ok {
			continue
		}
		st := rest[sp+1:]
		st = strings.TrimPrefix(st, "[")
		if i := strings.IndexAny(st, ",]"); i >= 0 {
			st = st[:i]
		}
		out = append(out, gor{ID: id, State: st, Text: s, Parked: isParked(st, blk)})
	}
	return out
}

// waitQuiet polls until every goroutine of interest (outside base) is parked and returns them.
// ok=false only if the deadline passed (never expected; reported as a harness error).
func waitQuiet(base map[int64]struct{}) (gs []gor, ok bool) {
	deadline := time.Now().Add(20 * time.Second)
	for spin := 0; ; spin++ {
		gs = interesting(base)
		quiet := true
		for _, g := range gs {
			if !g.Parked {
				quiet = false
				break
			}
		}
		if quiet {
			return gs, true
		}
		if time.Now().After(deadline) {
			return gs, false
		}
		if spin < 50 {
			runtime.Gosched()
		} else {
			time.Sleep(20 * time.Microsecond)
		}
	}
}

// groupFramesOnly trims a goroutine dump to its header and the pkg/group lines (for reports).
func groupFramesOnly(g gor) string {
	var keep []string
	for i, l := range strings.Split(g.Text, "\n") {
		if i == 0 || strings.Contains(l, groupMark) {
			keep = append(keep, strings.TrimSpace(l))
		}
	}
	return strings.Join(keep, " | ")
}

// ---- whole-process quiescence (used for the Group adapters, whose activity runs through goroutines of
// pkg/wrap, the routers and the resource models as well)

// allGoroutines parses one stop-the-world dump into (id, state) of every goroutine except the caller
// (always the first block of the dump).
func allGoroutines() []gor {
	var out []gor
	for k, blk := range bytes.Split(dumpAll(), []byte("\n\n")) {
		if k == 0 || !bytes.HasPrefix(blk, []byte("goroutine ")) {
			continue
		}
		nl := bytes.IndexByte(blk, '\n')
		if nl < 0 {
			nl = len(blk)
		}
		rest := strings.TrimPrefix(string(blk[:nl]), "goroutine ")
		sp := strings.IndexByte(rest, ' ')
		if sp < 0 {
			continue
		}
		id, err := strconv.ParseInt(rest[:sp], 10, 64)
		if err != nil {
			continue
		}
		st := strings.TrimPrefix(rest[sp+1:], "[")
		if i := strings.IndexAny(st, ",]"); i >= 0 {
			st = st[:i]
		}
		out = append(out, gor{ID: id, State: st, Parked: isParked(st, blk)})
	}
	return out
}

// allGoroutinesText is allGoroutines with each goroutine's dump text kept (for reports).
func allGoroutinesText() []gor {
	var out []gor
	for k, blk := range bytes.Split(dumpAll(), []byte("\n\n")) {
		if k == 0 || !bytes.HasPrefix(blk, []byte("goroutine ")) {
			continue
		}
		nl := bytes.IndexByte(blk, '\n')
		if nl < 0 {
			nl = len(blk)
		}
		rest := strings.TrimPrefix(string(blk[:nl]), "goroutine ")
		sp := strings.IndexByte(rest, ' ')
		if sp < 0 {
			continue
		}
		id, err := strconv.ParseInt(rest[:sp], 10, 64)
		if err != nil {
			continue
		}
		st := strings.TrimPrefix(rest[sp+1:], "[")
		if i := strings.IndexAny(st, ",]"); i >= 0 {
			st = st[:i]
		}
		out = append(out, gor{ID: id, State: st, Text: string(blk), Parked: isParked(st, blk)})
	}
	return out
}

// waitQuietOutside is waitQuietAll returning the goroutines outside base at the moment of quiescence.
// Used for the gated Group-adapter cases: a Group's Pull runs Execute in a goroutine of the adapter,
// which has no pkg/group frame between Execute's return and its send of the result - judging only the
// goroutines "of interest" would take that moment for quiescence.
func waitQuietOutside(base map[int64]struct{}) (gs []gor, ok bool) {
	deadline := time.Now().Add(20 * time.Second)
	for spin := 0; ; spin++ {
		gs = gs[:0]
		quiet := true
		for _, g := range allGoroutinesText() {
			if _, in := base[g.ID]; in {
				continue
			}
			gs = append(gs, g)
			if !g.Parked {
				quiet = false
			}
		}
		if quiet {
			return gs, true
		}
		if time.Now().After(deadline) {
			return gs, false
		}
		if spin < 50 {
			runtime.Gosched()
		} else {
			time.Sleep(20 * time.Microsecond)
		}
	}
}

func goroutineIDs() map[int64]struct{} {
	m := map[int64]struct{}{}
	for _, g := range allGoroutines() {
		m[g.ID] = struct{}{}
	}
	return m
}

// waitQuietAll waits until every goroutine that is not in base (and is not the caller) is parked on a
// channel, select, or WaitGroup: then nothing in the process can move before the caller acts.
func waitQuietAll(base map[int64]struct{}) bool {
	deadline := time.Now().Add(20 * time.Second)
	for spin := 0; ; spin++ {
		quiet := true
		for _, g := range allGoroutines() {
			if _, ok := base[g.ID]; ok {
				continue
			}
			if !g.Parked {
				quiet = false
				break
			}
		}
		if quiet {
			return true
		}
		if time.Now().After(deadline) {
			return false
		}
		if spin < 50 {
			runtime.Gosched()
		} else {
			time.Sleep(20 * time.Microsecond)
		}
	}
}

// ---- bounded calls into the code under test
//
// A call into the code under test may never return (an empty group whose response channel nobody closes).
// Nothing the harness does may wait for such a call unconditionally: a harness that hangs reports nothing.
// "Never returns" is decided the same way as everything else here: at whole-process quiescence - every
// goroutine that did not exist before the call is parked on a channel / select / WaitGroup and the harness
// itself is only watching - nothing can move any more, so a call that has not returned by then never will.
// After the quiescent snapshot the harness still waits quietGrace for the call (only ever paid on a tree
// whose call hangs), so that a wake-up by a timer of the code under test (none exists today) is not
// mistaken for a hang.

const quietGrace = 250 * time.Millisecond

// quiescentOutside: one snapshot; is every goroutine outside base (and other than the caller) parked?
func quiescentOutside(base map[int64]struct{}) bool {
	for _, g := range allGoroutines() {
		if _, in := base[g.ID]; in {
			continue
		}
		if !g.Parked {
			return false
		}
	}
	return true
}

// await polls try() until it succeeds.  It gives up (false) when the process is quiescent outside base and
// try() still fails after quietGrace more, or after adapterWait.
func await(base map[int64]struct{}, try func() bool) bool {
	deadline := time.Now().Add(adapterWait)
	for spin := 0; ; spin++ {
		if try() {
			return true
		}
		if quiescentOutside(base) {
			end := time.Now().Add(quietGrace)
			for time.Now().Before(end) {
				if try() {
					return true
				}
				time.Sleep(200 * time.Microsecond)
			}
			return try()
		}
		if time.Now().After(deadline) {
			return false
		}
		if spin < 50 {
			runtime.Gosched()
		} else {
			time.Sleep(20 * time.Microsecond)
		}
	}
}

// callBounded runs fn in a goroutine of its own and reports whether it returned (and the recovered panic,
// if it panicked).  returned=false: the call is parked for ever (its goroutine stays behind).
func callBounded(fn func()) (returned bool, panicMsg string) {
	return callBoundedFrom(goroutineIDs(), fn)
}

// callBoundedFrom: callBounded with the set of goroutines that existed before (and are not part of) the call
// already known.
func callBoundedFrom(base map[int64]struct{}, fn func()) (returned bool, panicMsg string) {
	done := make(chan string, 1)
	go func() {
		defer func() {
			if p := recover(); p != nil {
				done <- "panic: " + fmt.Sprint(p)
			}
		}()
		fn()
		done <- ""
	}()
	// the usual case: the call returns at once (no snapshot needed)
	select {
	case panicMsg = <-done:
		return true, panicMsg
	case <-time.After(2 * time.Millisecond):
	}
	ok := await(base, func() bool {
		select {
		case panicMsg = <-done:
			return true
		default:
			return false
		}
	})
	return ok, panicMsg
}
