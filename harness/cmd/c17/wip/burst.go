package main

// Bursts: every member of a group released at the same moment, on several Ps.
//
// The gated cases (run.go) realise serial schedules: one member completes, everything settles, the next one
// completes.  Here nothing is serialised: all the member functions return at once, the goroutines of
// executeEach race for the response channel, the closer and the collector run among them.  The completion
// order is not an input any more, so the execution is judged only on what holds for EVERY order (no tie
// with the model - the theorems over all schedules cover the interleavings; this shows the real scheduler
// the same code): the call returns, does not panic, leaves no goroutine behind once every member has
// returned; the result slice has one slot per member holding that member's own message; the error is
// present exactly by the strategy's rule on the failure count and is one of the failing members' errors;
// a single result is some member's own response, reported at that member's index.

import (
	"context"
	"fmt"
	"math/rand"
	"sort"
	"strconv"
	"strings"

	"google.golang.org/protobuf/proto"

	"github.com/smart-core-os/sc-golang/pkg/group"
	"github.com/smart-core-os/sc-golang/verifharness/lib"
)

func runBurst(c tcase) obs {
	n := c.n()
	r := &run{c: c, gates: make([]chan struct{}, n), ctxs: make([]context.Context, n), seen: make([]int, n),
		actual: make([]resp, n), msgs: map[int]proto.Message{}, errs: map[int]error{},
		started: make(chan struct{}), done: make(chan struct{})}
	members := make([]group.Member, n)
	gate := make(chan struct{})
	for i := range members {
		r.gates[i] = gate // one gate for all
		r.seen[i] = -1
		members[i] = r.member(i)
	}
	parent, pcancel := context.WithCancel(context.Background())
	defer pcancel()
	o := obs{Ret: -1, Slice: c.sliceAPI()}
	go consumerMain(r, parent, members)
	<-r.started
	if _, ok := waitQuiet(leakedBase); !ok {
		o.Stuck = "no quiescence before the release"
	}
	if c.PCancel >= 0 {
		pcancel() // the caller has cancelled before any member returns
	}
	close(gate)
	gs, ok := waitQuiet(leakedBase)
	if !ok && o.Stuck == "" {
		o.Stuck = fmt.Sprintf("no quiescence after the release: %d goroutines", len(gs))
	}
	for _, g := range gs {
		o.Left = append(o.Left, groupFramesOnly(g))
		leakedBase[g.ID] = struct{}{}
	}
	sort.Strings(o.Left)
	r.mu.Lock()
	o.Seen = append([]int(nil), r.seen...)
	o.Inv = append([]int(nil), r.inv...)
	o.Actual = append([]resp(nil), r.actual...)
	o.Returned = append([]int(nil), r.ret...)
	r.mu.Unlock()
	select {
	case <-r.done:
		o.Ret = n
	default:
		if o.Stuck == "" {
			o.Stuck = "call did not return after every member returned"
		}
		return o
	}
	o.Panic = r.panicMsg
	if o.Slice {
		for _, m := range r.slice {
			o.Res = append(o.Res, r.msgLabel(m))
		}
	} else {
		o.Msg, o.Idx = r.msgLabel(r.msg), r.idx
	}
	o.Err = r.errLabel(r.err)
	return o
}

// burstContract: the order-independent part of the strategies' contracts.
func burstContract(c tcase, o obs) []finding {
	var fs []finding
	bad := func(class, what, exp, got string) { fs = append(fs, finding{class, what, exp, got}) }
	n := c.n()
	if o.Stuck != "" && o.Ret < 0 {
		cls := "never-returns"
		if n == 0 {
			cls = "n=0/never-returns"
		}
		bad(cls, "the call did not return although every member returned (every goroutine of the call is parked: it never will)", "returns", o.Stuck)
		return fs
	}
	if o.Stuck != "" {
		return fs // harness problem: nothing to judge (never expected; shows as a stuck count)
	}
	if o.Panic != "" {
		cls := "panic"
		if n == 0 {
			cls = "n=0/panic"
		}
		bad(cls, "the call panicked", "no panic", "panic: "+o.Panic)
		return fs
	}
	if len(o.Left) > 0 {
		bad("goroutine-leak", fmt.Sprintf("%d goroutine(s) started by the call are still alive (parked forever) after every member returned", len(o.Left)),
			"0 goroutines with pkg/group frames", strings.Join(o.Left[:min(len(o.Left), 3)], " || "))
	}
	failing := map[string]bool{}
	total := 0
	for _, i := range o.Returned {
		if o.Actual[i].Err != 0 {
			total++
			failing[lab("e", o.Actual[i].Err)] = true
		}
	}
	// singleAs: is the observation what the call reports when member i is the one reported?
	singleAs := func(i int, msg, err string) bool {
		if o.Err != err {
			return false
		}
		if !o.Slice {
			return o.Msg == msg && o.Idx == i
		}
		if len(o.Res) != n {
			return false
		}
		for j, x := range o.Res {
			w := "-"
			if j == i {
				w = msg
			}
			if x != w {
				return false
			}
		}
		return true
	}
	describe := func() string {
		if o.Slice {
			return "res=[" + strings.Join(o.Res, ",") + "] err=" + o.Err
		}
		return "msg=" + o.Msg + " idx=" + strconv.Itoa(o.Idx) + " err=" + o.Err
	}
	switch c.Strat {
	case "one":
		win := -1
		for i := 0; i < len(o.Inv) && i < n; i++ {
			if o.Seen[i] >= 0 && o.Actual[i].Err == 0 {
				win = i
				break
			}
		}
		wantInv := n
		if win >= 0 {
			wantInv = win + 1
		}
		for p, i := range o.Inv {
			if i != p {
				bad("order", "members were not tried in index order", "member "+strconv.Itoa(p), "member "+strconv.Itoa(i))
				break
			}
		}
		if len(o.Inv) != wantInv {
			bad("tries", "wrong number of members tried", strconv.Itoa(wantInv), strconv.Itoa(len(o.Inv)))
			return fs
		}
		switch {
		case win >= 0:
			if !singleAs(win, lab("m", o.Actual[win].Msg), "-") {
				bad("result", "One must report the first member (in index order) that succeeds, at its index", fmt.Sprintf("member %d's message, no error", win), describe())
			}
		case n > 0:
			if !singleAs(0, "-", lab("e", o.Actual[0].Err)) {
				bad("result", "One with every member failing must report the first error", "err="+lab("e", o.Actual[0].Err), describe())
			}
		default:
			if !singleAs(0, "-", "-") {
				bad("result", "One over no members", "nothing, no error", describe())
			}
		}
	case "fast", "race":
		if len(o.Inv) != n || len(o.Returned) != n {
			bad("starts", "not every member was started", strconv.Itoa(n), fmt.Sprintf("%d started, %d returned", len(o.Inv), len(o.Returned)))
			return fs
		}
		okFound := false
		for i := 0; i < n && !okFound; i++ {
			a := o.Actual[i]
			switch {
			case c.Strat == "race":
				okFound = singleAs(i, lab("m", a.Msg), lab("e", a.Err))
			case total < n: // Fast with a success: some succeeding member's response
				okFound = a.Err == 0 && singleAs(i, lab("m", a.Msg), "-")
			default: // Fast, all fail: some member's error at its index, no message
				okFound = singleAs(i, "-", lab("e", a.Err))
			}
		}
		if n == 0 {
			okFound = singleAs(0, "-", "noresp")
		}
		if !okFound {
			what := "Race must report one member's own response (message and error) at that member's index"
			if c.Strat == "fast" {
				what = "Fast must report a succeeding member's message at its index without error, or - when all fail - one member's error"
			}
			bad("result", what, fmt.Sprintf("a member's own response (%d of %d failed)", total, n), describe())
		}
	default:
		allowed, _ := allowedFor(c)
		if len(o.Inv) != n || len(o.Returned) != n {
			bad("starts", "not every member was started and awaited", strconv.Itoa(n), fmt.Sprintf("%d started, %d returned", len(o.Inv), len(o.Returned)))
			return fs
		}
		wantErr := total > allowed && total > 0
		if (o.Err != "-") != wantErr {
			bad("error-presence", fmt.Sprintf("%d of %d members failed, %d failures allowed", total, n, allowed), fmt.Sprintf("error present: %v", wantErr), "err="+o.Err)
		} else if wantErr && !failing[o.Err] {
			bad("error", "the error returned is not the error of any failing member", "one of the members' errors", "err="+o.Err)
		}
		if len(o.Res) != n {
			bad("results-length", "results slice has the wrong length", strconv.Itoa(n), strconv.Itoa(len(o.Res)))
		} else {
			for i := 0; i < n; i++ {
				if w := lab("m", o.Actual[i].Msg); o.Res[i] != w {
					bad("indexing", "results[i] is not member i's message", fmt.Sprintf("results[%d]=%s", i, w), o.Res[i])
					break
				}
			}
		}
	}
	return fs
}

func burstCases(f lib.Flags, r *rand.Rand) []tcase {
	sizes := []int{0, 1, 2, 3, 5, 8, 9, 10, 16, 17, 33, 65, 100, 257}
	reps := 1
	if f.Thorough() {
		sizes = append(sizes, 4, 6, 7, 11, 12, 32, 64, 66, 128, 129, 130, 500)
		sort.Ints(sizes)
		reps = 8
	}
	type as struct{ api, strat string }
	combos := []as{{"x", "all"}, {"x", "most"}, {"x", "any"}, {"x", "one"}, {"x", "fast"}, {"x", "race"}, {"x", "unspec"},
		{"d", "all"}, {"d", "most"}, {"d", "any"}, {"d", "one"}, {"d", "fast"}, {"d", "race"}, {"d", "upto"}}
	var out []tcase
	for _, n := range sizes {
		for _, cb := range combos {
			for rep := 0; rep < reps; rep++ {
				for pat := 0; pat < 6; pat++ {
					if n == 0 && pat > 0 {
						continue
					}
					c := tcase{Burst: true, API: cb.api, Strat: cb.strat, Behs: make([]beh, n), Order: []int{}, PCancel: -1}
					// pat 3..5: exactly n/2, n/2+1, n-1 failing members at random positions, nobody watching its context
					// (the thresholds of Most and Any at this size)
					failAt := map[int]bool{}
					if pat >= 3 {
						k := []int{n / 2, n/2 + 1, n - 1}[pat-3]
						for i, pos := range r.Perm(n) {
							if i < k {
								failAt[pos] = true
							}
						}
					}
					for i := range c.Behs {
						fail := pat == 1 || (pat == 2 && r.Intn(3) == 0) || failAt[i]
						if fail {
							c.Behs[i] = beh{Normal: resp{Err: errNum(ecPlain, i+1)}}
						} else {
							c.Behs[i] = beh{Normal: resp{Msg: i + 1}}
						}
						if pat == 2 && r.Intn(3) == 0 {
							c.Behs[i].Aware, c.Behs[i].OnCancel = true, resp{Err: errNum(ecCanceled, 0)}
						}
					}
					if cb.strat == "upto" {
						c.Allowed = []int{-1, 0, 1, n / 2, n - 1, n}[r.Intn(6)]
						if pat >= 3 {
							c.Allowed = len(failAt) - r.Intn(2)
						}
					}
					if pat == 2 && r.Intn(6) == 0 {
						c.PCancel = 0
					}
					out = append(out, c)
				}
			}
		}
	}
	return out
}

func runBursts(f lib.Flags, mon *lib.Monitor, r *rand.Rand) {
	leaks := map[string]int{}
	leakedGors := map[string]int{}
	hangs := map[string]int{}
	for _, c := range burstCases(f, r) {
		if leaks[c.fn()] >= 4 || leakedGors[c.fn()] >= 40 || hangs[c.fn()] >= 2 {
			mon.Count("skipped-after-leaking-cases:" + c.fn())
			continue
		}
		if crashedFns[c.fn()] {
			mon.Count("skipped-crashing-entry-point:" + c.fn())
			continue
		}
		o := runBurst(c)
		if len(burstContract(c, o)) > 0 {
			mon.Count("retried-cases")
			// an order-independent contract: a violation must show again under whatever order the second run takes
			leakedGors[c.fn()] += len(o.Left)
			if o2 := runBurst(c); len(burstContract(c, o2)) == 0 {
				mon.Count("retried-and-vanished")
				mon.Count("retried-and-vanished:" + c.line())
				o = o2
			} else {
				o = o2
			}
		}
		if len(o.Left) > 0 {
			leaks[c.fn()]++
			leakedGors[c.fn()] += len(o.Left)
		}
		if o.Stuck != "" && o.Ret < 0 {
			hangs[c.fn()]++
		}
		if o.Stuck != "" && o.Ret >= 0 {
			mon.Count("harness-stuck")
		}
		mon.Eval("burst "+c.line(), c.n() >= 2, nil)
		mon.Count("strategy:" + c.API + "/" + c.Strat)
		// how far from a serial order the scheduler took it: did the members return in index order?
		inOrder := sort.IntsAreSorted(o.Returned)
		if c.n() >= 2 {
			if inOrder {
				mon.Count("members-returned-in-index-order")
			} else {
				mon.Count("members-returned-out-of-index-order")
			}
		}
		for _, fd := range burstContract(c, o) {
			mon.Violate("C17/"+c.fn()+"/burst/"+fd.class, fd.what, c, fd.expected, fd.observed)
		}
	}
}
