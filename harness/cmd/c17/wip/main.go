// Harness for C17 (group execution honours each strategy's contract).
//
// Tie (K4+K1): the members handed to pkg/group are gated by channels which the harness releases in a
// chosen completion order, waiting for quiescence (see quiet.go) between releases, so that the
// completion order - the schedule - is an input.  The same (strategy, member behaviours, order,
// caller-cancel point) goes to the Lean model (driverC17), which runs its thread-level model under the
// corresponding schedule; the answers are compared as strings.
// Monitor: the strategy contracts written independently in Go (oracle.go), recovered panics and
// leftover goroutines.
package main

import (
	"encoding/json"
	"fmt"
	"math/rand"
	"os"
	"runtime"
	"sort"
	"strings"
	"time"

	"github.com/smart-core-os/sc-golang/verifharness/lib"
)

// crashedFns: entry points whose probe cases killed a child process (crash.go); their in-process cases are skipped.
var crashedFns = map[string]bool{}

func main() {
	if os.Getenv(childEnv) == "cases" {
		childMain()
		return
	}
	f := lib.ParseFlags()
	if f.Replay != "" {
		os.Exit(replay(f))
	}
	res := lib.NewResult("C17", f)
	crashedFns = crashProbe(res)

	exh := res.Tie("group-exhaustive", "K4",
		"EXHAUSTIVE: member counts 0..4 (thorough: 0..5) x every ok/fail assignment x every completion order (permutation) x every strategy "+
			"through group.Execute (Unspecified, All, Most, Any, One, Fast, Race, an out-of-range value) and through the strategies' own functions "+
			"(ExecuteAll/Most/Any/One/Fast/Race, ExecuteUpTo with every allowedErrors in -1..n); members are gated and released in the chosen order; "+
			"and, for 1..3 members through group.Execute with the six strategies, the same with the failing members' errors taken from each of 9 further error classes "+
			"(context.Canceled / DeadlineExceeded of the member's own, wrapped ones, gRPC status Canceled/DeadlineExceeded/Unavailable, a net.Error-like timeout, io.EOF) while the group's context is alive; "+
			"and, for 1..3 members (thorough: 1..4) through Execute with the six strategies and ExecuteUpTo with every budget 0..n-1, members that all watch their context x every ok/fail vector x every order x the caller's context ending after each number of completions 0..n-1 x by cancellation / by its deadline; "+
			"compared: result slice or (msg,index,error), which error, the point at which the call returned, the members' context state after each completion, "+
			"what each member saw, which members were started, goroutines left. non-trivial = n >= 1; distinct by full input")
	exh.Exhaustive = true
	rnd := res.Tie("group-random", "K1",
		"random from the seeded PRNG: 0..8 members; each returns (msg|nil, err|nil) in all four combinations with repeated ids; half of the errors are plain, the others of a random class "+
			"(the member's own context.Canceled/DeadlineExceeded, wrapped, gRPC status, net timeout, io.EOF); "+
			"~40% are cancellation-aware (return a different response when they find their context cancelled); the caller's context is cancelled after a random "+
			"number of completions in ~25% of cases; random completion order, strategy, API and allowedErrors in -2..n+1. non-trivial = n >= 2; distinct by full input")
	large := res.Tie("group-large", "K1",
		"LARGE groups, run last: 9, 10, 16, 17, 33, 65, 100 members (thorough: 19 sizes up to 257, on both sides of 8/16/32/64/128/256) x every strategy through both APIs; Fast and Race: all succeed released in index order, "+
			"all succeed released in reverse order (the winner is the last index), all fail in random order, and a random mix in random order; the draining strategies and One: a random mix in random order "+
			"(1 in 2..5 members fails, a quarter cancellation-aware, ExecuteUpTo with a budget from {-1, 0, 1, n/2, n-1, n}), the draining strategies also with exactly n/2, n/2+1 and n-1 failing members (the thresholds of Most and Any at that size; ExecuteUpTo with the budget met exactly or exceeded by one); plus random cases with 10..24 members. Same serial schedule, same comparison as group-random; "+
			"what only a large group shows: anything sized by a constant instead of len(members) (a bounded response buffer: losers of Fast/Race parked for ever in their send). non-trivial = all; distinct by full input")
	mon := res.Monitor("strategy-contracts",
		"every tie case is also judged by the contracts written in Go from the doc comments: error presence by failure count vs budget, error identity = first failure in completion order, "+
			"results[i] identical to member i's message, single result at its own index, One tries in index order, return point, context cancelled exactly when decided, no panic, no goroutine left")

	var cases []tcase
	var isExh []bool
	for _, c := range exhaustiveCases(f) {
		cases = append(cases, c)
		isExh = append(isExh, true)
	}
	rng := lib.NewRand(f.Seed)
	for i := 0; i < f.N(3000, 60000); i++ {
		cases = append(cases, randomCase(rng))
		isExh = append(isExh, false)
	}

	drv, err := lib.StartDriver(f.Driver)
	if err != nil {
		exh.Fail(err)
		rnd.Fail(err)
		large.Fail(err)
		drv = nil
	} else {
		defer drv.Close()
	}

	// Scheduling of the harness process.  Every observation is made at a point of quiescence found by
	// stop-the-world goroutine dumps (quiet.go); with many Ps on a loaded machine each dump costs a
	// world-stop across all of them (measured: 13.6k cases take 6 s on one P and 35-65 s on 4-16 Ps while
	// other checks run).  The schedules the harness realises are serial by construction (release one
	// member, wait until nothing can move), so the bulk runs on one P; the last tenth of the random cases
	// runs on 4 Ps so that the goroutines of executeEach also really run in parallel.
	baselineGoroutines = runtime.NumGoroutine()
	prevProcs := runtime.GOMAXPROCS(1)
	defer runtime.GOMAXPROCS(prevProcs)
	t0 := time.Now()
	if os.Getenv("C17_ONLY") == "pipeline" { // debugging aid: only the stalled-subscriber family
		runPipelines(f, res, drv, rng)
		fmt.Fprintf(os.Stderr, "c17: pipeline family in %v\n", time.Since(t0).Round(time.Millisecond))
		if err := res.Write(f.Out); err != nil {
			lib.Fatal(err)
		}
		return
	}
	runGroupCases(cases, drv, mon, len(cases)-f.N(300, 6000), func(i int) (*lib.Tie, bool) {
		if isExh[i] {
			return exh, cases[i].n() >= 1
		}
		return rnd, cases[i].n() >= 2
	})
	fmt.Fprintf(os.Stderr, "c17: %d gated pkg/group cases in %v (%d goroutines now)\n", len(cases), time.Since(t0).Round(time.Millisecond), runtime.NumGoroutine())
	t0 = time.Now()
	runtime.GOMAXPROCS(1)
	runGatedAdapters(f, res, drv, rng)
	fmt.Fprintf(os.Stderr, "c17: Group adapters (gated members) in %v (%d goroutines now)\n", time.Since(t0).Round(time.Millisecond), runtime.NumGoroutine())
	t0 = time.Now()
	runPullLoops(f, res, drv, rng)
	fmt.Fprintf(os.Stderr, "c17: Group Pull loops in %v (%d goroutines now)\n", time.Since(t0).Round(time.Millisecond), runtime.NumGoroutine())
	t0 = time.Now()
	runtime.GOMAXPROCS(4)
	runAdapters(f, res, drv)
	fmt.Fprintf(os.Stderr, "c17: Group adapters (model servers) in %v (%d goroutines now)\n", time.Since(t0).Round(time.Millisecond), runtime.NumGoroutine())
	t0 = time.Now()
	runtime.GOMAXPROCS(1)
	runPipelines(f, res, drv, rng)
	fmt.Fprintf(os.Stderr, "c17: Group subscriptions over in-process clients with a stalled subscriber in %v (%d goroutines now)\n", time.Since(t0).Round(time.Millisecond), runtime.NumGoroutine())
	// Large groups last: a leak there leaves up to hundreds of goroutines behind, which every later snapshot
	// of the process would pay for (a thousand parked goroutines make the 13.6k small cases take 2 minutes).
	t0 = time.Now()
	runtime.GOMAXPROCS(1)
	lcases := largeCases(f, rng)
	runGroupCases(lcases, drv, mon, len(lcases), func(i int) (*lib.Tie, bool) { return large, true })
	burst := res.Monitor("group-burst",
		"every member released AT ONCE on 4 Ps (no serial schedule: the goroutines of executeEach really race; the completion order is whatever the scheduler makes it), "+
			"0..257 members x every strategy through both APIs x {all succeed, all fail, a random mix with members that watch their context and sometimes a caller that has cancelled, exactly n/2, n/2+1, n-1 failing}; judged on what does not depend on the order: the call returns, no panic, "+
			"no goroutine left once every member has returned, result slice of length n with results[i] = member i's message (single-result strategies: one slot, a member's own message at its own index), "+
			"error present iff the failure count exceeds the budget (Fast: iff all fail; Race: iff the reported member failed) and being one of the failing members' errors")
	runtime.GOMAXPROCS(4)
	runBursts(f, burst, rng)
	fmt.Fprintf(os.Stderr, "c17: large groups (%d serial cases) and bursts in %v (%d goroutines now)\n", len(lcases), time.Since(t0).Round(time.Millisecond), runtime.NumGoroutine())
	if err := res.Write(f.Out); err != nil {
		lib.Fatal(err)
	}
}

// Degraded mode.  Goroutines left behind by leaking / never-returning calls cannot be removed, and every later
// snapshot of the process pays for each of them (26 of them make the 13.6k small cases take 24 s instead of 4).
// Such a run has failed already; to keep it short the remaining cases are thinned: with L goroutines left
// behind, only one case in 1+L/4 is run - except that the first case of every (entry point, member count)
// always runs, so that every class still gets its chance to show its own failure.
var baselineGoroutines int

type thinner struct{ seen map[string]bool }

func (t *thinner) skip(i int, class string) bool {
	if t.seen == nil {
		t.seen = map[string]bool{}
	}
	if !t.seen[class] {
		t.seen[class] = true
		return false
	}
	thin := 1 + (runtime.NumGoroutine()-baselineGoroutines)/4
	return thin > 1 && i%thin != 0
}

// runGroupCases runs gated pkg/group cases through the driver (tie) and the contracts (monitor).
// tieOf names the tie a case is recorded in and whether it counts as non-trivial there; from case number
// parallelFrom on the process runs on 4 Ps.
func runGroupCases(cases []tcase, drv *lib.Driver, mon *lib.Monitor, parallelFrom int, tieOf func(i int) (*lib.Tie, bool)) {
	var answers []string
	if drv != nil {
		lines := make([]string, len(cases))
		for i, c := range cases {
			lines[i] = c.line()
		}
		var err error
		answers, err = drv.Batch(lines)
		if err != nil {
			failed := map[*lib.Tie]bool{}
			for i := range cases {
				if t, _ := tieOf(i); !failed[t] {
					failed[t] = true
					t.Fail(err)
				}
			}
			answers = nil
		}
	}
	leaks := map[string]int{}      // leaking cases per entry point
	leakedGors := map[string]int{} // goroutines they left behind
	hangs := map[string]int{}      // calls that never returned
	var thin thinner
	for i, c := range cases {
		if i == parallelFrom {
			runtime.GOMAXPROCS(4)
		}
		if leaks[c.fn()] >= 4 || leakedGors[c.fn()] >= 40 || hangs[c.fn()] >= 3 || hangs[fmt.Sprint(c.fn(), "/n=", c.n())] >= 1 {
			// every leaked goroutine stays in all later snapshots (13.6k cases took 2 minutes instead of 4 s with
			// a thousand of them); after 4 leaking cases / 40 leaked goroutines / 3 calls that never returned of one
			// entry point, or one that never returned with this number of members (the run has failed on it anyway),
			// its remaining cases are skipped to keep the run short
			mon.Count("skipped-after-leaking-cases:" + c.fn())
			continue
		}
		if crashedFns[c.fn()] {
			mon.Count("skipped-crashing-entry-point:" + c.fn())
			continue
		}
		if thin.skip(i, fmt.Sprint(c.fn(), "/n=", c.n())) {
			mon.Count("thinned-after-leaks")
			continue
		}
		o := runCase(c)
		// self-confirming, as for the adapters: report only what reproduces in 3 more executions
		// (a call that never returned / left goroutines: one more - every execution leaves them behind)
		suspicious := func(o obs) bool {
			return (answers != nil && answers[i] != o.canon(c)) || len(contract(c, o)) > 0
		}
		if suspicious(o) {
			mon.Count("retried-cases")
			retries := 3
			if o.Stuck != "" || len(o.Left) > 0 {
				retries = 1
			}
			for k := 0; k < retries; k++ {
				leakedGors[c.fn()] += len(o.Left)
				o2 := runCase(c)
				if !suspicious(o2) {
					mon.Count("retried-and-vanished")
					mon.Count("retried-and-vanished:" + c.line() + " first=" + o.canon(c))
					o = o2
					break
				}
				o = o2
			}
		}
		if len(o.Left) > 0 {
			leaks[c.fn()]++
			leakedGors[c.fn()] += len(o.Left)
		}
		if o.Stuck != "" && o.Ret < 0 {
			hangs[c.fn()]++
			hangs[fmt.Sprint(c.fn(), "/n=", c.n())]++
		}
		code := o.canon(c)
		t, nontrivial := tieOf(i)
		if answers != nil {
			t.Record(c.key(), nontrivial, c, answers[i], code)
		}
		t.Count("strategy:" + c.API + "/" + c.Strat)
		if c.n() <= 9 {
			t.Count(fmt.Sprintf("n=%d", c.n()))
		} else {
			t.Count(fmt.Sprintf("n=%d..%d", c.n()/10*10, c.n()/10*10+9))
		}
		for _, b := range c.Behs {
			if b.Normal.Err != 0 {
				t.Count("member-error-class:" + errClassOf(b.Normal.Err))
			}
		}
		switch {
		case o.Panic != "":
			t.Count("outcome:panic")
		case o.Err != "-":
			t.Count("outcome:error")
		default:
			t.Count("outcome:ok")
		}
		for _, s := range o.Seen {
			if s == 1 {
				t.Count("member-saw-cancelled-context")
				break
			}
		}
		monitorCase(mon, c, o)
	}
}

func perms(n int) [][]int {
	if n == 0 {
		return [][]int{{}}
	}
	var out [][]int
	for _, p := range perms(n - 1) {
		for pos := 0; pos <= len(p); pos++ {
			q := make([]int, 0, n)
			q = append(q, p[:pos]...)
			q = append(q, n-1)
			q = append(q, p[pos:]...)
			out = append(out, q)
		}
	}
	return out
}

func exhaustiveCases(f lib.Flags) []tcase {
	type as struct {
		api, strat string
		maxN       int
	}
	combos := []as{{"x", "all", 4}, {"x", "most", 4}, {"x", "any", 4}, {"x", "one", 4}, {"x", "fast", 4}, {"x", "race", 4},
		{"x", "unspec", 3}, {"x", "other", 3},
		{"d", "all", 4}, {"d", "most", 4}, {"d", "any", 4}, {"d", "one", 4}, {"d", "fast", 4}, {"d", "race", 4}, {"d", "upto", 4}}
	var out []tcase
	top := 4
	if f.Thorough() {
		top = 5 // thorough: 5 members as well (except the ExecuteUpTo budget sweep and the aliases of All)
	}
	for n := 0; n <= top; n++ { // small cases first: the first input per signature becomes the replay
		for _, cb := range combos {
			maxN := cb.maxN
			if f.Thorough() && cb.strat != "upto" && cb.strat != "unspec" && cb.strat != "other" {
				maxN = 5
			}
			if n > maxN {
				continue
			}
			alloweds := []int{0}
			if cb.strat == "upto" {
				alloweds = nil
				for a := -1; a <= n; a++ {
					alloweds = append(alloweds, a)
				}
			}
			for _, a := range alloweds {
				for bits := 0; bits < 1<<n; bits++ {
					behs := make([]beh, n)
					for i := range behs {
						if bits>>i&1 == 1 {
							behs[i] = beh{Normal: resp{Err: i + 1}}
						} else {
							behs[i] = beh{Normal: resp{Msg: i + 1}}
						}
					}
					for _, p := range perms(n) {
						out = append(out, tcase{API: cb.api, Strat: cb.strat, Allowed: a, Behs: behs, Order: p, PCancel: -1})
					}
				}
			}
		}
	}
	// the caller's context ends (cancelled, or its deadline passes) at every point of the call x members that watch
	// their context (they report the context's error when they find it done, as a device call does): 1..3 members x
	// every ok/fail vector x every completion order x every point 0..n-1 x both reasons, through Execute with the six
	// strategies and ExecuteUpTo with every budget 0..n-1
	topCancel := 3
	if f.Thorough() {
		topCancel = 4
	}
	for n := 1; n <= topCancel; n++ {
		type sa struct {
			api, strat string
			allowed    int
		}
		var combos []sa
		for _, st := range []string{"all", "most", "any", "one", "fast", "race"} {
			combos = append(combos, sa{"x", st, 0})
		}
		for a := 0; a < n; a++ {
			combos = append(combos, sa{"d", "upto", a})
		}
		for _, cb := range combos {
			for bits := 0; bits < 1<<n; bits++ {
				for _, expire := range []bool{false, true} {
					onCancel := resp{Err: errNum(ecCanceled, 0)}
					if expire {
						onCancel = resp{Err: errNum(ecDeadline, 0)}
					}
					behs := make([]beh, n)
					for i := range behs {
						if bits>>i&1 == 1 {
							behs[i] = beh{Normal: resp{Err: i + 1}, Aware: true, OnCancel: onCancel}
						} else {
							behs[i] = beh{Normal: resp{Msg: i + 1}, Aware: true, OnCancel: onCancel}
						}
					}
					for _, p := range perms(n) {
						for pc := 0; pc < n; pc++ {
							out = append(out, tcase{API: cb.api, Strat: cb.strat, Allowed: cb.allowed, Behs: behs, Order: p, PCancel: pc, PExpire: expire})
						}
					}
				}
			}
		}
	}
	// every class of member error x every strategy: failing members fail with an error of the class (their own
	// context errors, wrapped, status, timeout, EOF) while the group's context is alive
	for n := 1; n <= 3; n++ {
		for _, st := range []string{"all", "most", "any", "one", "fast", "race"} {
			for class := 1; class < ecCount; class++ {
				for bits := 1; bits < 1<<n; bits++ {
					behs := make([]beh, n)
					for i := range behs {
						if bits>>i&1 == 1 {
							behs[i] = beh{Normal: resp{Err: errNum(class, i+1)}}
						} else {
							behs[i] = beh{Normal: resp{Msg: i + 1}}
						}
					}
					for _, p := range perms(n) {
						out = append(out, tcase{API: "x", Strat: st, Behs: behs, Order: p, PCancel: -1})
					}
				}
			}
		}
	}
	return out
}

// randomErr: an error of a random class (half of them plain, the others spread over every class of
// makeErr: the members' own context errors, wrapped ones, status errors, timeouts, io.EOF).
func randomErr(r *rand.Rand, ids int) int {
	class := ecPlain
	if r.Intn(2) == 0 {
		class = 1 + r.Intn(ecCount-1)
	}
	return errNum(class, 1+r.Intn(ids))
}

func randomResp(r *rand.Rand, ids int) resp {
	switch x := r.Intn(100); {
	case x < 42:
		return resp{Msg: 1 + r.Intn(ids)}
	case x < 80:
		return resp{Err: randomErr(r, ids)}
	case x < 90:
		return resp{Msg: 1 + r.Intn(ids), Err: randomErr(r, ids)}
	default:
		return resp{}
	}
}

func randomCase(r *rand.Rand) tcase {
	n := r.Intn(9)
	if r.Intn(4) == 0 {
		n = 2 + r.Intn(3)
	}
	return randomCaseN(r, n)
}

func randomCaseN(r *rand.Rand, n int) tcase {
	ids := 1 + r.Intn(n+2) // few ids => repeated messages/errors across members
	c := tcase{PCancel: -1, Behs: make([]beh, n), Order: r.Perm(n)}
	failBias := r.Intn(3)
	for i := range c.Behs {
		b := beh{Normal: randomResp(r, ids)}
		if failBias == 0 && r.Intn(2) == 0 {
			b.Normal = resp{Err: randomErr(r, ids)}
		}
		if failBias == 1 && r.Intn(2) == 0 {
			b.Normal = resp{Msg: 1 + r.Intn(ids)}
		}
		if r.Intn(100) < 40 {
			b.Aware = true
			switch x := r.Intn(8); {
			case x < 2:
				b.OnCancel = randomResp(r, ids+3)
			case x < 5:
				b.OnCancel = resp{Err: errNum(ecCanceled, 0)} // what a real member does: return ctx.Err()
			default:
				b.OnCancel = resp{Err: ids + 1 + r.Intn(3)}
			}
		}
		c.Behs[i] = b
	}
	strats := []string{"all", "most", "any", "one", "fast", "race", "upto", "upto", "unspec", "other"}
	c.Strat = strats[r.Intn(len(strats))]
	c.API = "x"
	if c.Strat == "upto" || (c.Strat != "unspec" && c.Strat != "other" && r.Intn(2) == 0) {
		c.API = "d"
	}
	if c.Strat == "upto" {
		c.Allowed = r.Intn(n+4) - 2
	}
	if n > 0 && r.Intn(4) == 0 {
		c.PCancel = r.Intn(n)
		c.PExpire = r.Intn(3) == 0
	}
	return c
}

// largeCases: groups far larger than the exhaustive and random domains (9 .. 100 members; thorough: up to 257)
// for every strategy through both APIs.  What a large group can show and a small one cannot: anything in
// executeEach / the collectors that is sized or bounded by a constant rather than by len(members) - a
// response buffer with a fixed capacity lets the losers of Fast/Race block for ever in their send once more
// than that many of them return after the winner, although every returned value is right.  Fast and Race get
// four outcome/order patterns per size (winner first in index order, winner = last index, a mix in random
// order, all fail), the draining strategies and One a mix in random order.  Sizes sit on both sides of the
// usual constants (8, 16, 32, 64, 128, 256).  Sorted by size: the smallest leaking group becomes the replay.
func largeCases(f lib.Flags, r *rand.Rand) []tcase {
	sizes := []int{9, 10, 16, 17, 33, 65, 100}
	if f.Thorough() {
		sizes = []int{9, 10, 11, 12, 16, 17, 18, 24, 32, 33, 34, 64, 65, 66, 100, 128, 129, 130, 257}
	}
	type as struct{ api, strat string }
	combos := []as{{"x", "all"}, {"x", "most"}, {"x", "any"}, {"x", "one"}, {"x", "fast"}, {"x", "race"}, {"x", "unspec"},
		{"d", "all"}, {"d", "most"}, {"d", "any"}, {"d", "one"}, {"d", "fast"}, {"d", "race"}, {"d", "upto"}}
	ident := func(n int) []int {
		p := make([]int, n)
		for i := range p {
			p[i] = i
		}
		return p
	}
	var out []tcase
	for _, n := range sizes {
		for _, cb := range combos {
			mixed := func() tcase {
				c := tcase{API: cb.api, Strat: cb.strat, Behs: make([]beh, n), Order: r.Perm(n), PCancel: -1}
				bias := 1 + r.Intn(4) // 1 in 2..5 members fail
				for i := range c.Behs {
					if r.Intn(bias+1) == 0 {
						c.Behs[i] = beh{Normal: resp{Err: errNum(ecPlain, i+1)}}
					} else {
						c.Behs[i] = beh{Normal: resp{Msg: i + 1}}
					}
					if r.Intn(4) == 0 {
						c.Behs[i].Aware, c.Behs[i].OnCancel = true, resp{Err: errNum(ecCanceled, 0)}
					}
				}
				if cb.strat == "upto" {
					c.Allowed = []int{-1, 0, 1, n / 2, n - 1, n}[r.Intn(6)]
				}
				return c
			}
			out = append(out, mixed())
			if cb.strat != "fast" && cb.strat != "race" && cb.strat != "one" {
				// the thresholds at this size: exactly n/2, n/2+1 and n-1 failing members (none watches its context, so
				// the failure count is the one chosen), at random positions, in random order
				for _, k := range []int{n / 2, n/2 + 1, n - 1} {
					c := tcase{API: cb.api, Strat: cb.strat, Behs: make([]beh, n), Order: r.Perm(n), PCancel: -1}
					for i, pos := range r.Perm(n) {
						if i < k {
							c.Behs[pos] = beh{Normal: resp{Err: errNum(ecPlain, pos+1)}}
						} else {
							c.Behs[pos] = beh{Normal: resp{Msg: pos + 1}}
						}
					}
					if cb.strat == "upto" {
						c.Allowed = k - r.Intn(2) // the budget is met exactly, or exceeded by one
					}
					out = append(out, c)
				}
			}
			if cb.strat != "fast" && cb.strat != "race" {
				continue
			}
			all := func(fail bool, order []int) tcase {
				c := tcase{API: cb.api, Strat: cb.strat, Behs: make([]beh, n), Order: order, PCancel: -1}
				for i := range c.Behs {
					if fail {
						c.Behs[i] = beh{Normal: resp{Err: errNum(ecPlain, i+1)}}
					} else {
						c.Behs[i] = beh{Normal: resp{Msg: i + 1}}
					}
				}
				return c
			}
			rev := ident(n)
			for i, j := 0, n-1; i < j; i, j = i+1, j-1 {
				rev[i], rev[j] = rev[j], rev[i]
			}
			out = append(out, all(false, ident(n)), all(false, rev), all(true, r.Perm(n)))
		}
	}
	for k := 0; k < f.N(150, 3000); k++ {
		out = append(out, randomCaseN(r, 10+r.Intn(15)))
	}
	sort.SliceStable(out, func(i, j int) bool { return out[i].n() < out[j].n() })
	return out
}

func replay(f lib.Flags) int {
	rp, err := lib.ReadReplay(f.Replay)
	if err != nil {
		lib.Fatal(err)
	}
	b, err := json.Marshal(rp.Input)
	if err != nil || rp.Input == nil {
		fmt.Println("replay: no concrete input in file (", rp.Kind, rp.Broken, ")")
		return 2
	}
	var probe struct {
		Trait string `json:"trait"`
		Gated bool   `json:"gated"`
	}
	var probeLoop struct {
		PullLoop bool `json:"pull_loop"`
	}
	var probePipe struct {
		Pipeline bool `json:"pipeline"`
	}
	if json.Unmarshal(b, &probePipe) == nil && probePipe.Pipeline {
		var pc plcase
		if err := json.Unmarshal(b, &pc); err != nil {
			fmt.Println("replay: input is not a C17 pipeline case:", string(b))
			return 2
		}
		o := runPipeline(pc)
		fmt.Printf("replay %s\n  -> %s %s\n", pc.key(), o.code(), strings.Join(o.Steps, ","))
		m := lib.NewMonitor("replay", "")
		pipelineMonitor(m, pc, o)
		for _, v := range m.Violations {
			fmt.Printf("STILL FAILS %s: %s (expected %s, observed %s)\n", v.Signature, v.What, v.Expected, v.Observed)
		}
		if len(m.Violations) > 0 {
			return 1
		}
		fmt.Println("replay: property holds on this input now")
		return 0
	}
	if json.Unmarshal(b, &probeLoop) == nil && probeLoop.PullLoop {
		var pc pcase
		if err := json.Unmarshal(b, &pc); err != nil {
			fmt.Println("replay: input is not a C17 pull-loop case:", string(b))
			return 2
		}
		code := runPullLoop(pc)
		fmt.Printf("replay %s\n  -> %s\n", pc.line(), code)
		m := lib.NewMonitor("replay", "")
		pullLoopMonitor(m, pc, code)
		for _, v := range m.Violations {
			fmt.Printf("STILL FAILS %s: %s (expected %s, observed %s)\n", v.Signature, v.What, v.Expected, v.Observed)
		}
		if len(m.Violations) > 0 {
			return 1
		}
		fmt.Println("replay: property holds on this input now")
		return 0
	}
	if json.Unmarshal(b, &probe) == nil && probe.Gated {
		g := gcase{PCancel: -1}
		if err := json.Unmarshal(b, &g); err != nil || len(g.Order) != len(g.Behs) {
			fmt.Println("replay: input is not a gated C17 adapter case:", string(b))
			return 2
		}
		t := g.tcase()
		o := runCase(t)
		fmt.Printf("replay %s\n  -> %s\n", g.line(), o.canon(t))
		m := lib.NewMonitor("replay", "")
		gadapterMonitor(m, g, o)
		for _, v := range m.Violations {
			fmt.Printf("STILL FAILS %s: %s (expected %s, observed %s)\n", v.Signature, v.What, v.Expected, v.Observed)
		}
		if len(m.Violations) > 0 {
			return 1
		}
		fmt.Println("replay: property holds on this input now")
		return 0
	}
	if json.Unmarshal(b, &probe) == nil && probe.Trait != "" {
		var ac acase
		if err := json.Unmarshal(b, &ac); err != nil {
			fmt.Println("replay: input is not a C17 adapter case:", string(b))
			return 2
		}
		o := runAdapter(ac)
		fmt.Printf("replay %s\n  -> %s %s\n", ac.key(), o.Verdict, o.Value)
		m := lib.NewMonitor("replay", "")
		adapterMonitor(m, ac, o)
		for _, v := range m.Violations {
			fmt.Printf("STILL FAILS %s: %s (expected %s, observed %s)\n", v.Signature, v.What, v.Expected, v.Observed)
		}
		if len(m.Violations) > 0 {
			return 1
		}
		fmt.Println("replay: property holds on this input now")
		return 0
	}
	c := tcase{PCancel: -1}
	if err := json.Unmarshal(b, &c); err != nil || (len(c.Order) != len(c.Behs) && !c.Burst) {
		fmt.Println("replay: input is not a C17 case:", string(b))
		return 2
	}
	// first in a child process: a case that kills the process must not kill the replay
	if k, msg, err := runInChild([]tcase{c}); err == nil && k >= 0 {
		fmt.Printf("replay %s\n  -> process crash\nSTILL FAILS C17/%s/process-crash: a goroutine started by the call panicked: the whole process went down (expected no panic, observed %s)\n", c.line(), c.fn(), msg)
		return 1
	}
	if c.Burst {
		o := runBurst(c)
		fs := burstContract(c, o)
		fmt.Printf("replay burst %s\n  -> %s\n", c.line(), o.canon(c))
		for _, v := range fs {
			fmt.Printf("STILL FAILS C17/%s/burst/%s: %s (expected %s, observed %s)\n", c.fn(), v.class, v.what, v.expected, v.observed)
		}
		if len(fs) > 0 {
			return 1
		}
		fmt.Println("replay: property holds on this input now")
		return 0
	}
	o := runCase(c)
	fmt.Printf("replay %s\n  -> %s\n", c.line(), o.canon(c))
	fs := contract(c, o)
	for _, v := range fs {
		fmt.Printf("STILL FAILS C17/%s/%s: %s (expected %s, observed %s)\n", c.fn(), v.class, v.what, v.expected, v.observed)
	}
	if len(fs) > 0 {
		return 1
	}
	fmt.Println("replay: property holds on this input now")
	return 0
}
