package main

// Crash probe: cases run first in a CHILD process.
//
// A panic in a goroutine started by the code under test (a send on a channel somebody closed, a second
// close, a WaitGroup counter going negative) cannot be recovered by anybody: it takes the whole process
// down.  In the harness' own process that would end the run without a single concrete finding.  So before
// anything runs in-process, a small family of cases for every entry point (0..17 members, the outcome/order
// patterns that make Fast/Race return early, bursts) is executed by a child process - the harness binary
// itself started with C17_CHILD=cases, reading the cases from stdin and acknowledging each on stdout.  When
// the child dies, the case it was running is the input of a concrete violation <entry point>/process-crash
// (with the runtime's message), the child is restarted on the remaining cases, and the parent skips the
// in-process cases of the entry points that crashed.  Replays of plain pkg/group cases go through a child
// first for the same reason.

import (
	"bufio"
	"bytes"
	"encoding/json"
	"fmt"
	"os"
	"os/exec"
	"strconv"
	"strings"
	"time"

	"github.com/smart-core-os/sc-golang/verifharness/lib"
)

const childEnv = "C17_CHILD"

// childMain: run the cases given on stdin, one acknowledgement line per case.
func childMain() {
	var cases []tcase
	if err := json.NewDecoder(os.Stdin).Decode(&cases); err != nil {
		fmt.Fprintln(os.Stderr, "child: bad input:", err)
		os.Exit(3)
	}
	w := bufio.NewWriter(os.Stdout)
	for i, c := range cases {
		fmt.Fprintf(w, "RUN %d\n", i)
		w.Flush()
		var o obs
		if c.Burst {
			o = runBurst(c)
		} else {
			o = runCase(c)
		}
		fmt.Fprintf(w, "OK %d %s\n", i, o.canon(c))
		w.Flush()
	}
}

// runInChild runs cases in a child process; crashed = index of the case the child died in (-1: none),
// msg = the runtime's message.
func runInChild(cases []tcase) (crashed int, msg string, err error) {
	in, err := json.Marshal(cases)
	if err != nil {
		return -1, "", err
	}
	self, err := os.Executable()
	if err != nil {
		return -1, "", err
	}
	cmd := exec.Command(self)
	cmd.Env = append(os.Environ(), childEnv+"=cases")
	cmd.Stdin = bytes.NewReader(in)
	var out, errb bytes.Buffer
	cmd.Stdout, cmd.Stderr = &out, &errb
	done := make(chan error, 1)
	if err := cmd.Start(); err != nil {
		return -1, "", err
	}
	go func() { done <- cmd.Wait() }()
	var werr error
	select {
	case werr = <-done:
	case <-time.After(120 * time.Second):
		_ = cmd.Process.Kill()
		<-done
		return -1, "", fmt.Errorf("child did not finish in time")
	}
	if werr == nil {
		return -1, "", nil
	}
	running := -1
	for _, l := range strings.Split(out.String(), "\n") {
		if strings.HasPrefix(l, "RUN ") {
			running, _ = strconv.Atoi(strings.TrimPrefix(l, "RUN "))
		}
		if strings.HasPrefix(l, "OK ") {
			running = -1
		}
	}
	if running < 0 {
		return -1, "", fmt.Errorf("child failed outside a case: %v: %s", werr, lastLines(errb.String(), 3))
	}
	msg = "process died"
	for _, l := range strings.Split(errb.String(), "\n") {
		if strings.HasPrefix(l, "panic:") || strings.HasPrefix(l, "fatal error:") {
			msg = strings.TrimSpace(l)
			break
		}
	}
	// where: the first frame of the code under test in the dump
	for _, l := range strings.Split(errb.String(), "\n") {
		if strings.Contains(l, groupMark) && !strings.HasPrefix(l, "created by") {
			msg += " in " + strings.TrimSpace(l)
			break
		}
	}
	return running, msg, nil
}

func lastLines(s string, n int) string {
	ls := strings.Split(strings.TrimSpace(s), "\n")
	if len(ls) > n {
		ls = ls[len(ls)-n:]
	}
	return strings.Join(ls, " | ")
}

func crashProbeCases() []tcase {
	type as struct{ api, strat string }
	combos := []as{{"x", "all"}, {"x", "most"}, {"x", "any"}, {"x", "one"}, {"x", "fast"}, {"x", "race"}, {"x", "unspec"}, {"x", "other"},
		{"d", "all"}, {"d", "most"}, {"d", "any"}, {"d", "one"}, {"d", "fast"}, {"d", "race"}, {"d", "upto"}}
	var out []tcase
	for _, n := range []int{0, 1, 2, 3, 10, 17} {
		for _, cb := range combos {
			for pat := 0; pat < 5; pat++ {
				if n == 0 && pat > 0 {
					continue
				}
				c := tcase{API: cb.api, Strat: cb.strat, Behs: make([]beh, n), Order: make([]int, n), PCancel: -1}
				for i := range c.Behs {
					// 0: all succeed, index order; 1: all succeed, reverse order; 2: the first half fails; 3: all fail; 4: burst, every third fails
					fail := pat == 3 || (pat == 2 && i < (n+1)/2) || (pat == 4 && i%3 == 0)
					if fail {
						c.Behs[i] = beh{Normal: resp{Err: i + 1}}
					} else {
						c.Behs[i] = beh{Normal: resp{Msg: i + 1}}
					}
					c.Order[i] = i
					if pat == 1 {
						c.Order[i] = n - 1 - i
					}
				}
				if cb.strat == "upto" {
					c.Allowed = n / 2
				}
				if pat == 4 {
					c.Burst, c.Order = true, []int{}
				}
				out = append(out, c)
			}
		}
	}
	return out
}

// crashProbe runs the probe family in child processes and returns the entry points whose cases kill the process.
func crashProbe(res *lib.Result) map[string]bool {
	mon := res.Monitor("process-crash",
		"before anything runs in-process: 0, 1, 2, 3, 10, 17 members x every strategy through both APIs x {all succeed in index order, in reverse order, the first half fails, all fail, a burst with every third failing}, "+
			"executed by a child process (the harness binary itself); a child that dies (a panic in a goroutine the call started: nobody can recover it) gives the case it was running as a concrete violation, "+
			"is restarted on the remaining cases, and the in-process cases of that entry point are skipped")
	crashed := map[string]bool{}
	cases := crashProbeCases()
	for round := 0; len(cases) > 0 && round < 12; round++ {
		k, msg, err := runInChild(cases)
		if err != nil {
			mon.Count("probe-error: " + err.Error())
			break
		}
		upTo := len(cases)
		if k >= 0 {
			upTo = k
		}
		for _, c := range cases[:upTo] {
			mon.Eval("crash "+c.key()+fmt.Sprint(c.Burst), c.n() >= 2, nil)
		}
		if k < 0 {
			break
		}
		c := cases[k]
		mon.Eval("crash "+c.key()+fmt.Sprint(c.Burst), c.n() >= 2, nil)
		crashed[c.fn()] = true
		mon.Violate("C17/"+c.fn()+"/process-crash", "a goroutine started by the call panicked: the whole process went down (nothing can recover a panic in a goroutine of executeEach)",
			c, "no panic", msg)
		// go on with the other entry points
		var rest []tcase
		for _, r := range cases[k+1:] {
			if !crashed[r.fn()] {
				rest = append(rest, r)
			}
		}
		cases = rest
	}
	return crashed
}

// crashedEntry: has the Execute entry point of this strategy crashed in the probe?
func crashedStrategy(crashed map[string]bool, strat string) bool {
	return crashed[tcase{API: "x", Strat: strat}.fn()]
}
