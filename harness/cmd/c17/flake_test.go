package main

import (
	"fmt"
	"os"
		"testing"
)

func TestFlake(t *testing.T) {
	c := acase{Trait: "onoff", RPC: "Pull", Read: "any", Write: "one", Bad: []bool{false, true}}
	bad := 0
	debugDump = func(d string) { fmt.Fprintln(os.Stderr, "=====DUMP\n"+d) }
	for i := 0; i < 6000; i++ {
		o := runAdapter(c)
		if o.Verdict != "lives" {
			bad++
			fmt.Fprintln(os.Stderr, i, o.Verdict)
			if bad > 0 {
				break
			}
		}
	}
	fmt.Fprintln(os.Stderr, "bad", bad)
}
