package main

// The two anchored Group adapters (pkg/trait/onoffpb.Group, pkg/trait/lightpb.Group) driven themselves:
// a Group over the trait's router whose client factory fails for chosen member names and serves an
// in-memory model for the others, with every ordered pair (ReadExecution, WriteExecution), every
// failure pattern over 0..3 members, and each RPC of the Group (Get / Update / Pull).
//
// Which strategy governs which RPC is the documented split of the two fields: reads (Get*, Pull*)
// follow ReadExecution, writes (Update*) follow WriteExecution (table `governs`).  The tie asks the
// Lean model (driverC17, the strategies' contracts) what the governing strategy does with this
// failure pattern and compares with what the Group did; the monitor states the same with plain
// failure counting and names the failure class "wrong-governing-strategy" when the Group behaved as
// the *other* field's strategy would.  Reduction sanity: onoff = ON if any answering member is ON,
// light = mean of the members (checked when every member answers).

import (
	"context"
	"fmt"
	"math"
	"strconv"
	"strings"
	"time"

	"google.golang.org/grpc"
	"google.golang.org/grpc/codes"
	"google.golang.org/grpc/status"
	"google.golang.org/protobuf/proto"

	"github.com/smart-core-os/sc-api/go/traits"
	"github.com/smart-core-os/sc-golang/pkg/group"
	"github.com/smart-core-os/sc-golang/pkg/trait/lightpb"
	"github.com/smart-core-os/sc-golang/pkg/trait/onoffpb"
	"github.com/smart-core-os/sc-golang/verifharness/lib"
)

// governs: the documented governing field per RPC kind.
var governs = map[string]string{"Get": "read", "Update": "write", "Pull": "read"}

var adapterStrats = []string{"all", "most", "any", "one", "fast", "race"}

type acase struct {
	Trait string `json:"trait"` // onoff | light
	RPC   string `json:"rpc"`   // Get | Update | Pull
	Read  string `json:"read_execution"`
	Write string `json:"write_execution"`
	Bad   []bool `json:"member_fails"` // per member: its client cannot be created (every call fails Unavailable)
}

func (c acase) n() int { return len(c.Bad) }
func (c acase) fails() int {
	f := 0
	for _, b := range c.Bad {
		if b {
			f++
		}
	}
	return f
}
func (c acase) governing() string {
	if governs[c.RPC] == "read" {
		return c.Read
	}
	return c.Write
}
func (c acase) other() string {
	if governs[c.RPC] == "read" {
		return c.Write
	}
	return c.Read
}
func (c acase) fn() string {
	m := map[string]string{"onoff/Get": "onoffpb.Group/GetOnOff", "onoff/Update": "onoffpb.Group/UpdateOnOff", "onoff/Pull": "onoffpb.Group/PullOnOff",
		"light/Get": "lightpb.Group/GetBrightness", "light/Update": "lightpb.Group/UpdateBrightness", "light/Pull": "lightpb.Group/PullBrightness"}
	return m[c.Trait+"/"+c.RPC]
}
func (c acase) key() string {
	bs := make([]string, len(c.Bad))
	for i, b := range c.Bad {
		bs[i] = map[bool]string{true: "x", false: "o"}[b]
	}
	return fmt.Sprintf("%s/%s r=%s w=%s %s", c.Trait, c.RPC, c.Read, c.Write, dash(strings.Join(bs, "")))
}

// modelLine: the request to the Lean driver for the governing strategy on this failure pattern.
// Unary RPCs: members complete on their own (order irrelevant for what is compared).  Pull: a working
// member's stream never ends by itself, it ends (with an error) once its context is cancelled - a
// cancellation-aware member released after the failing ones.
func (c acase) modelLine(strat string) string {
	n := c.n()
	var behs, order []string
	for i, b := range c.Bad {
		switch {
		case b:
			behs = append(behs, "-.e"+strconv.Itoa(i+1))
		case c.RPC == "Pull":
			behs = append(behs, "m"+strconv.Itoa(i+1)+".-/-.e99")
		default:
			behs = append(behs, "m"+strconv.Itoa(i+1)+".-")
		}
	}
	for i, b := range c.Bad {
		if b {
			order = append(order, strconv.Itoa(i))
		}
	}
	for i, b := range c.Bad {
		if !b {
			order = append(order, strconv.Itoa(i))
		}
	}
	return fmt.Sprintf("exec x %s 0 %d %s %s -", strat, n, dash(strings.Join(behs, ",")), dash(strings.Join(order, ",")))
}

func field(ans, name string) string {
	for _, t := range strings.Fields(ans) {
		if strings.HasPrefix(t, name+"=") {
			return strings.TrimPrefix(t, name+"=")
		}
	}
	return "?"
}

func errClassModel(e string) string {
	switch {
	case e == "-":
		return "nil"
	case e == "noresp":
		return "noresp"
	case e == "e99":
		return "cancelled"
	case strings.HasPrefix(e, "e"):
		return "member"
	}
	return "?" + e
}

// modelVerdict turns the driver's answer into the adapter-level verdict.
func (c acase) modelVerdict(ans string) string {
	e := errClassModel(field(ans, "err"))
	if c.RPC != "Pull" {
		if e == "nil" {
			return "ok"
		}
		return "err:" + e
	}
	f := c.fails()
	ret, cancel := field(ans, "ret"), field(ans, "cancel")
	dies := false
	if k, err := strconv.Atoi(ret); err == nil && k <= f {
		dies = true // returned while only the failing members had completed
	}
	if f < len(cancel) && cancel[f] == '1' {
		dies = true // context cancelled: every working member's stream ends, the call returns
	}
	if dies {
		return "dies:" + e
	}
	return "lives"
}

// oracleVerdict: the contract by failure counting (independent of the Lean model). "" = not determined
// (Race with both failing and working members on a unary RPC depends on who answers first).
func oracleVerdict(rpc, strat string, n, f int) string {
	var bad bool
	switch strat {
	case "all":
		bad = f > 0
	case "most":
		bad = f > n/2
	case "any", "one":
		bad = n > 0 && f == n
	case "fast":
		bad = f == n
	case "race":
		if rpc != "Pull" && f > 0 && f < n {
			return ""
		}
		bad = n == 0 || f > 0
	}
	class := "member"
	if n == 0 {
		class = "noresp"
	}
	if rpc != "Pull" {
		if bad {
			return "err:" + class
		}
		return "ok"
	}
	if n == 0 && !bad {
		return "dies:nil" // nothing to subscribe to: the call returns at once
	}
	if bad {
		return "dies:" + class
	}
	return "lives"
}

func errClassCode(err error) string {
	switch {
	case err == nil:
		return "nil"
	case err.Error() == "no members returned a response":
		return "noresp"
	case status.Code(err) == codes.Unavailable || status.Code(err) == codes.NotFound:
		return "member" // the failing member's own error (the router reports a failed client factory as NotFound)
	case status.Code(err) == codes.Canceled || err == context.Canceled:
		return "cancelled"
	}
	return "?" + strings.ReplaceAll(err.Error(), " ", "_")
}

// instance is one Group over scripted members, with values rendered as strings.
type instance interface {
	get(ctx context.Context) (string, error)
	update(ctx context.Context) (string, error)
	pull(ctx context.Context, sent chan<- string) error
	poke(ctx context.Context, member string) error // change a working member directly
}

func memberName(i int) string { return "m" + strconv.Itoa(i) }

var errBroken = status.Error(codes.Unavailable, "device is broken")

// ---- onoff

type onoffInst struct {
	g    *onoffpb.Group
	impl traits.OnOffApiClient
}

func onoffState(s traits.OnOff_State) string {
	return map[traits.OnOff_State]string{traits.OnOff_ON: "ON", traits.OnOff_OFF: "OFF"}[s]
}

// member i starts ON if i is odd (Pull: all OFF, so that the poke is visible in the reduced value).
func newOnOff(c acase) instance {
	bad := map[string]bool{}
	init := map[string]traits.OnOff_State{}
	names := make([]string, c.n())
	for i := range names {
		names[i] = memberName(i)
		bad[names[i]] = c.Bad[i]
		init[names[i]] = traits.OnOff_OFF
		if i%2 == 1 && c.RPC != "Pull" {
			init[names[i]] = traits.OnOff_ON
		}
	}
	router := onoffpb.NewApiRouter(onoffpb.WithOnOffApiClientFactory(func(name string) (traits.OnOffApiClient, error) {
		if bad[name] {
			return nil, errBroken
		}
		return onoffpb.WrapApi(onoffpb.NewModelServer(onoffpb.NewModel(onoffpb.WithInitialOnOff(&traits.OnOff{State: init[name]})))), nil
	}))
	impl := onoffpb.WrapApi(router)
	g := onoffpb.NewGroup(impl, names...)
	g.ReadExecution, g.WriteExecution = strategyConst[c.Read], strategyConst[c.Write]
	return &onoffInst{g, impl}
}

func (o *onoffInst) get(ctx context.Context) (string, error) {
	r, err := o.g.GetOnOff(ctx, &traits.GetOnOffRequest{Name: "G"})
	if err != nil {
		return "", err
	}
	return onoffState(r.GetState()), nil
}
func (o *onoffInst) update(ctx context.Context) (string, error) {
	r, err := o.g.UpdateOnOff(ctx, &traits.UpdateOnOffRequest{Name: "G", OnOff: &traits.OnOff{State: traits.OnOff_ON}})
	if err != nil {
		return "", err
	}
	return onoffState(r.GetState()), nil
}

type onoffPullServer struct {
	grpc.ServerStream
	ctx  context.Context
	sent chan<- string
}

func (s *onoffPullServer) Context() context.Context { return s.ctx }
func (s *onoffPullServer) Send(r *traits.PullOnOffResponse) error {
	for _, ch := range r.Changes {
		select {
		case s.sent <- onoffState(ch.GetOnOff().GetState()):
		case <-s.ctx.Done():
			return s.ctx.Err()
		}
	}
	return nil
}
func (o *onoffInst) pull(ctx context.Context, sent chan<- string) error {
	return o.g.PullOnOff(&traits.PullOnOffRequest{Name: "G"}, &onoffPullServer{ctx: ctx, sent: sent})
}
func (o *onoffInst) poke(ctx context.Context, member string) error {
	_, err := o.impl.UpdateOnOff(ctx, &traits.UpdateOnOffRequest{Name: member, OnOff: &traits.OnOff{State: traits.OnOff_ON}})
	return err
}

// ---- light

type lightInst struct {
	g    *lightpb.Group
	impl traits.LightApiClient
}

func level(v float32) string { return strconv.FormatFloat(float64(v), 'f', 2, 32) }

// member i starts at 10*(i+1) percent (Pull: all at 10).
func newLight(c acase) instance {
	bad := map[string]bool{}
	init := map[string]float32{}
	names := make([]string, c.n())
	for i := range names {
		names[i] = memberName(i)
		bad[names[i]] = c.Bad[i]
		init[names[i]] = float32(10 * (i + 1))
		if c.RPC == "Pull" {
			init[names[i]] = 10
		}
	}
	router := lightpb.NewApiRouter(lightpb.WithLightApiClientFactory(func(name string) (traits.LightApiClient, error) {
		if bad[name] {
			return nil, errBroken
		}
		return lightpb.WrapApi(lightpb.NewModelServer(lightpb.NewModel(lightpb.WithInitialBrightness(&traits.Brightness{LevelPercent: init[name]})))), nil
	}))
	impl := lightpb.WrapApi(router)
	g := lightpb.NewGroup(impl, names...)
	g.ReadExecution, g.WriteExecution = strategyConst[c.Read], strategyConst[c.Write]
	return &lightInst{g, impl}
}

func (o *lightInst) get(ctx context.Context) (string, error) {
	r, err := o.g.GetBrightness(ctx, &traits.GetBrightnessRequest{Name: "G"})
	if err != nil {
		return "", err
	}
	return level(r.GetLevelPercent()), nil
}
func (o *lightInst) update(ctx context.Context) (string, error) {
	r, err := o.g.UpdateBrightness(ctx, &traits.UpdateBrightnessRequest{Name: "G", Brightness: &traits.Brightness{LevelPercent: 55}})
	if err != nil {
		return "", err
	}
	return level(r.GetLevelPercent()), nil
}

type lightPullServer struct {
	grpc.ServerStream
	ctx  context.Context
	sent chan<- string
}

func (s *lightPullServer) Context() context.Context { return s.ctx }
func (s *lightPullServer) Send(r *traits.PullBrightnessResponse) error {
	for _, ch := range r.Changes {
		select {
		case s.sent <- level(ch.GetBrightness().GetLevelPercent()):
		case <-s.ctx.Done():
			return s.ctx.Err()
		}
	}
	return nil
}
func (o *lightInst) pull(ctx context.Context, sent chan<- string) error {
	return o.g.PullBrightness(&traits.PullBrightnessRequest{Name: "G"}, &lightPullServer{ctx: ctx, sent: sent})
}
func (o *lightInst) poke(ctx context.Context, member string) error {
	_, err := o.impl.UpdateBrightness(ctx, &traits.UpdateBrightnessRequest{Name: member, Brightness: &traits.Brightness{LevelPercent: 100}})
	return err
}

// ---- running one case

const adapterWait = 15 * time.Second // upper bound of every wait; never reached on a working tree

type aobs struct {
	Verdict string   // ok | err:<class> | lives | dies:<class> | panic | stalled:<where>
	Value   string   // unary: the reduced value returned
	Left    []string // Pull: goroutines started for the case that still exist at quiescence after the subscription has ended
}

// census: once the call has ended, at whole-process quiescence, nothing that was started for the case may exist any more.
func census(base map[int64]struct{}) []string {
	if !waitQuietAll(base) {
		return []string{"no quiescence"}
	}
	var left []string
	for _, g := range allGoroutinesText() {
		if _, in := base[g.ID]; !in {
			left = append(left, topFrames(g))
		}
	}
	return left
}

func runAdapter(c acase) (o aobs) {
	defer func() {
		if p := recover(); p != nil {
			o = aobs{Verdict: "panic:" + strings.ReplaceAll(fmt.Sprint(p), " ", "_")}
		}
	}()
	base := goroutineIDs()
	var inst instance
	if c.Trait == "onoff" {
		inst = newOnOff(c)
	} else {
		inst = newLight(c)
	}
	ctx, cancel := context.WithTimeout(context.Background(), 4*adapterWait)
	defer cancel()
	switch c.RPC {
	case "Get", "Update":
		call := inst.get
		if c.RPC == "Update" {
			call = inst.update
		}
		var v string
		var err error
		returned, pmsg := callBoundedFrom(base, func() { v, err = call(ctx) })
		if pmsg != "" {
			return aobs{Verdict: "panic:" + strings.ReplaceAll(strings.TrimPrefix(pmsg, "panic: "), " ", "_")}
		}
		if !returned {
			return aobs{Verdict: "stalled:call-does-not-return"}
		}
		if err != nil {
			return aobs{Verdict: "err:" + errClassCode(err)}
		}
		return aobs{Verdict: "ok", Value: v}
	}
	// The Group runs group.Execute for a Pull in a goroutine of its own: a panic there cannot be recovered
	// and would take the whole process down.  So first see whether Execute panics on this member pattern
	// under either field's strategy, with members that answer at once; if so that is the outcome.
	for _, st := range []string{c.Read, c.Write} {
		if msg := executePanics(st, c.Bad); msg != "" {
			return aobs{Verdict: "panic:group.Execute(" + st + "):" + strings.ReplaceAll(msg, " ", "_")}
		}
	}
	// Pull: does the subscription end by itself, or does it keep delivering?  Decided at points of
	// whole-process quiescence (quiet.go): when every goroutine started for this case is parked, nothing
	// can happen any more without the harness acting, so "has not returned" is a fact, not a timing guess.
	pctx, pcancel := context.WithCancel(ctx)
	defer pcancel()
	sent := make(chan string, 256)
	returned := make(chan error, 1)
	go func() {
		defer func() {
			if p := recover(); p != nil {
				returned <- fmt.Errorf("panic: %v", p)
			}
		}()
		returned <- inst.pull(pctx, sent)
	}()
	died := func(err error) aobs {
		pcancel()
		cancel()
		return aobs{Verdict: "dies:" + errClassCode(err), Left: census(base)}
	}
	if !waitQuietAll(base) {
		return aobs{Verdict: "stalled:no-quiescence-after-start"}
	}
	select {
	case err := <-returned:
		return died(err)
	default:
	}
	first, got := "", false
drain:
	for {
		select {
		case first = <-sent:
			got = true
		default:
			break drain
		}
	}
	if !got {
		return aobs{Verdict: "stalled:no-initial-value"}
	}
	// alive: change a working member; the change must come through the group
	ok := -1
	for i, b := range c.Bad {
		if !b {
			ok = i
			break
		}
	}
	if ok < 0 {
		return aobs{Verdict: "stalled:alive-without-working-member"}
	}
	if err := inst.poke(ctx, memberName(ok)); err != nil {
		return aobs{Verdict: "stalled:poke:" + errClassCode(err)}
	}
	if !waitQuietAll(base) {
		return aobs{Verdict: "stalled:no-quiescence-after-change"}
	}
	select {
	case err := <-returned:
		return died(err)
	default:
	}
	changed := false
drain2:
	for {
		select {
		case v := <-sent:
			if v != first {
				changed = true
			}
		default:
			break drain2
		}
	}
	if !changed {
		return aobs{Verdict: "stalled:change-not-delivered"}
	}
	pcancel()
	if !await(base, func() bool {
		select {
		case <-returned:
			return true
		default:
			return false
		}
	}) {
		return aobs{Verdict: "stalled:does-not-end-on-cancel"}
	}
	cancel()
	return aobs{Verdict: "lives", Left: census(base)}
}

// executePanics: does group.Execute panic on this member pattern under this strategy, with members that
// answer at once?  The probe is a bounded call (an Execute that never returns is not a panic: "" - the case
// itself then shows the hang) and its answer is kept per (strategy, pattern): it is deterministic.
var executeProbes = map[string]string{}

func executePanics(strat string, bad []bool) string {
	key := strat + "/"
	for _, b := range bad {
		if b {
			key += "x"
		} else {
			key += "o"
		}
	}
	if msg, ok := executeProbes[key]; ok {
		return msg
	}
	members := make([]group.Member, len(bad))
	for i, b := range bad {
		b := b
		members[i] = func(context.Context) (proto.Message, error) {
			if b {
				return nil, errBroken
			}
			return &traits.OnOff{}, nil
		}
	}
	_, msg := callBounded(func() { _, _ = group.Execute(context.Background(), strategyConst[strat], members) })
	msg = strings.TrimPrefix(msg, "panic: ")
	executeProbes[key] = msg
	return msg
}

// expectedValue: reduction sanity for unary RPCs ("" = not checked).
func expectedValue(c acase) string {
	if c.n() == 0 {
		return ""
	}
	switch c.governing() {
	case "one", "fast", "race":
		return "" // a single member's value; which one may depend on who answers first
	}
	if c.Trait == "onoff" {
		if c.RPC == "Update" {
			return "ON"
		}
		any, on := false, false
		for i, b := range c.Bad {
			if !b {
				any = true
				if i%2 == 1 {
					on = true
				}
			}
		}
		if !any {
			return ""
		}
		if on {
			return "ON"
		}
		return "OFF"
	}
	if c.fails() > 0 {
		return "" // the mean over a partial answer is not documented
	}
	if c.RPC == "Update" {
		return level(55)
	}
	sum := 0.0
	for i := range c.Bad {
		sum += float64(10 * (i + 1))
	}
	return level(float32(sum / float64(c.n())))
}

func sameValue(a, b string) bool {
	if a == b {
		return true
	}
	x, e1 := strconv.ParseFloat(a, 64)
	y, e2 := strconv.ParseFloat(b, 64)
	return e1 == nil && e2 == nil && math.Abs(x-y) <= 0.011
}

func adapterCases(f lib.Flags) []acase {
	var out []acase
	for n := 0; n <= 3; n++ {
		for _, tr := range []string{"onoff", "light"} {
			for _, rpc := range []string{"Get", "Update", "Pull"} {
				for _, rd := range adapterStrats {
					for _, wr := range adapterStrats {
						if rd == wr && !f.Thorough() {
							continue
						}
						for bits := 0; bits < 1<<n; bits++ {
							bad := make([]bool, n)
							for i := range bad {
								bad[i] = bits>>i&1 == 1
							}
							out = append(out, acase{Trait: tr, RPC: rpc, Read: rd, Write: wr, Bad: bad})
						}
					}
				}
			}
		}
	}
	return out
}

func adapterMonitor(mon *lib.Monitor, c acase, o aobs) {
	n, f := c.n(), c.fails()
	want := oracleVerdict(c.RPC, c.governing(), n, f)
	wrong := oracleVerdict(c.RPC, c.other(), n, f)
	mon.Eval(c.key(), want != "" && wrong != "" && want != wrong, nil)
	sig := "C17/" + c.fn() + "/"
	switch {
	case strings.HasPrefix(o.Verdict, "panic"):
		mon.Violate(sig+"panic", "the Group call panicked", c, "no panic", o.Verdict)
	case strings.HasPrefix(o.Verdict, "stalled"):
		mon.Violate(sig+"stalled", "the Group call did not return / the subscription neither delivered nor ended", c, want, o.Verdict)
	case want != "" && o.Verdict != want:
		class := "outcome"
		if o.Verdict == wrong {
			class = "wrong-governing-strategy"
		}
		mon.Violate(sig+class, fmt.Sprintf("%s is a %s: it must follow %sExecution=%s (%d of %d members fail); the other field is %s",
			c.RPC, governs[c.RPC], strings.Title(governs[c.RPC]), c.governing(), f, n, c.other()), c, want, o.Verdict)
	}
	if len(o.Left) > 0 {
		mon.Violate(sig+"goroutines-left-after-subscription-ended",
			"the subscription has ended (by itself or because its subscriber cancelled), the process is quiescent - and goroutines started for it still exist", c,
			"no goroutine left", strconv.Itoa(len(o.Left))+" left: "+strings.Join(o.Left, " ; "))
	}
	if o.Verdict == "ok" {
		if ev := expectedValue(c); ev != "" && !sameValue(o.Value, ev) {
			mon.Violate(sig+"reduce", "the reduced value is not the documented reduction of the members' values", c, ev, o.Value)
		}
	}
}

// runAdapters: tie + monitor over the Group adapters.
func runAdapters(f lib.Flags, res *lib.Result, drv *lib.Driver) {
	tie := res.Tie("group-adapters", "K2",
		"EXHAUSTIVE: onoffpb.Group and lightpb.Group x {Get, Update, Pull} x every ordered pair ReadExecution != WriteExecution of the six strategies (thorough: equal pairs too) "+
			"x every failure pattern over 0..3 members (failing member = its client factory fails, working member = in-memory model server behind the router). "+
			"model = the Lean strategy contract of the documented governing field (reads: ReadExecution, writes: WriteExecution) on that pattern; compared: "+
			"unary: ok / error class; Pull: subscription lives (delivers a later change of a working member) or ends, and with which error class. "+
			"non-trivial = the two fields' strategies give different verdicts on the pattern; unary Race with mixed members is skipped (first responder decides)")
	tie.Exhaustive = true
	mon := res.Monitor("group-adapters-contract",
		"same cases judged by failure counting against the governing field's strategy (independent of the Lean model): wrong-governing-strategy when the Group behaved as the other field's strategy, "+
			"plus reduction sanity of the returned value (onoff: ON if any answering member is ON; light: mean when every member answers), panics and stalled subscriptions")
	cases := adapterCases(f)
	var answers []string
	if drv != nil {
		lines := make([]string, len(cases))
		for i, c := range cases {
			lines[i] = c.modelLine(c.governing())
		}
		var err error
		answers, err = drv.Batch(lines)
		if err != nil {
			tie.Fail(err)
			answers = nil
		}
	} else {
		tie.Fail(fmt.Errorf("no driver"))
	}
	stalled := map[string]int{}
	leaky := 0
	for i, c := range cases {
		n, fl := c.n(), c.fails()
		if oracleVerdict(c.RPC, c.governing(), n, fl) == "" {
			continue // order-dependent (unary Race, mixed members)
		}
		if crashedStrategy(crashedFns, c.Read) || crashedStrategy(crashedFns, c.Write) {
			mon.Count("skipped-crashing-entry-point")
			continue
		}
		if leaky >= 2 && c.RPC == "Pull" {
			// every subscription that leaves goroutines behind makes every later snapshot of the process dearer
			// (and the run has failed on them already): the remaining subscriptions are skipped
			mon.Count("skipped-after-2-leaking-Pull")
			continue
		}
		if stalled[c.RPC] >= 2 {
			// every stalled call / subscription leaves its goroutines behind: after two of one RPC kind (the run
			// has failed on them anyway) the remaining cases of that kind are skipped
			mon.Count("skipped-after-2-stalled-" + c.RPC)
			continue
		}
		// self-confirming: a disagreement or violation is only reported if the same case, re-executed in a
		// fresh Group, shows it every time (3 more executions); vanished ones are counted, never hidden
		suspicious := func(o aobs) bool {
			if answers != nil && c.modelVerdict(answers[i]) != o.Verdict {
				return true
			}
			probe := lib.NewMonitor("probe", "")
			adapterMonitor(probe, c, o)
			return len(probe.Violations) > 0
		}
		o := runAdapter(c)
		if suspicious(o) {
			tie.Count("retried-cases")
			retries := 3
			if strings.HasPrefix(o.Verdict, "stalled") {
				retries = 1
			}
			for k := 0; k < retries; k++ {
				if o2 := runAdapter(c); !suspicious(o2) {
					tie.Count("retried-and-vanished")
					mon.Count("retried-and-vanished")
					mon.Count("retried-and-vanished:" + c.key() + " first=" + o.Verdict)
					o = o2
					break
				}
			}
		}
		if answers != nil {
			w, x := oracleVerdict(c.RPC, c.governing(), n, fl), oracleVerdict(c.RPC, c.other(), n, fl)
			tie.Record(c.key(), x != "" && w != x, c, c.modelVerdict(answers[i]), o.Verdict)
		}
		if strings.HasPrefix(o.Verdict, "stalled") {
			stalled[c.RPC]++
		}
		if len(o.Left) > 0 {
			leaky++
		}
		tie.Count(c.Trait + "/" + c.RPC)
		tie.Count("verdict:" + o.Verdict)
		adapterMonitor(mon, c, o)
	}
}

var _ = group.ExecutionStrategyAll
