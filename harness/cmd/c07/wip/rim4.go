package main

import (
	"context"
	"fmt"
	"strings"

	"google.golang.org/protobuf/proto"
	"google.golang.org/protobuf/types/known/fieldmaskpb"

	"github.com/smart-core-os/sc-api/go/traits"
	"github.com/smart-core-os/sc-golang/pkg/resource"
	"github.com/smart-core-os/sc-golang/pkg/trait/lightpb"
	"github.com/smart-core-os/sc-golang/pkg/trait/openclosepb"
	"github.com/smart-core-os/sc-golang/verifharness/lib"
)

// Presets applied to the caller's message (lean/ScVerif/C07/Rim3.lean `plant` / `callerEdit`): lightpb
// Model.UpdateBrightness selecting a preset and openclosepb Model.UpdatePositions with a preset put the model's
// configured preset into the message the caller handed in. The model's answer (C07_preset_plant_frame): the caller's
// message then points at COPIES (shared=0) and the caller rewriting its message afterwards changes no configured
// preset message (changed=0). The harness holds the configured messages (constructor arguments, never edited by it)
// and observes both directly. Exhaustive over a small domain.

type plantCase struct {
	Kind   string `json:"kind"`   // "plant"
	Model  string `json:"model"`  // "light" | "light-server" | "openclose" | "openclose-server"
	N      int    `json:"n"`      // number of configured preset messages (light: presets; openclose: positions of the one preset)
	Select string `json:"select"` // preset name in the request: "p", "q" or "x" (unknown)
	Mask   string `json:"mask"`   // update mask: "-" or a path
}

func (c plantCase) line() string { return fmt.Sprintf("rim plant %d", c.N) }

func runPlantCase(c plantCase) string {
	var opts []resource.WriteOption
	var fm *fieldmaskpb.FieldMask
	if c.Mask != "-" {
		fm = &fieldmaskpb.FieldMask{Paths: []string{c.Mask}}
		opts = append(opts, resource.WithUpdateMask(fm))
	}
	var configured []proto.Message // the model's preset messages
	var reachable func() []proto.Message
	var edit func()
	panicked, msg := lib.Catch(func() {
		switch c.Model {
		case "light", "light-server":
			var mopts []resource.Option
			for i := 0; i < c.N; i++ {
				p := &traits.LightPreset{Name: []string{"p", "q"}[i], Title: "title-" + []string{"p", "q"}[i]}
				configured = append(configured, p)
				mopts = append(mopts, lightpb.WithPreset(float32(40+10*i), p))
			}
			model := lightpb.NewModel(mopts...)
			b := &traits.Brightness{LevelPercent: 5, Preset: &traits.LightPreset{Name: c.Select}}
			if c.Model == "light" {
				model.UpdateBrightness(b, opts...)
			} else {
				lightpb.NewModelServer(model).UpdateBrightness(context.Background(), &traits.UpdateBrightnessRequest{Brightness: b, UpdateMask: fm})
			}
			reachable = func() []proto.Message { return []proto.Message{b.Preset} }
			edit = func() {
				if b.Preset != nil {
					b.Preset.Name, b.Preset.Title = "edited", "edited"
				}
			}
		case "openclose", "openclose-server":
			desc := &traits.OpenClosePositions_Preset{Name: "p", Title: "title-p"}
			var positions []*traits.OpenClosePosition
			for i := 0; i < c.N; i++ {
				p := &traits.OpenClosePosition{OpenPercent: float32(30 + 10*i), Direction: traits.OpenClosePosition_Direction(1 + i), Resistance: traits.OpenClosePosition_HELD}
				positions = append(positions, p)
				configured = append(configured, p)
			}
			configured = append(configured, desc)
			model := openclosepb.NewModel(openclosepb.WithPreset(desc, positions...))
			req := &traits.OpenClosePositions{Preset: &traits.OpenClosePositions_Preset{Name: c.Select}}
			if c.Model == "openclose" {
				model.UpdatePositions(req, opts...)
			} else {
				openclosepb.NewModelServer(model).UpdatePositions(context.Background(), &traits.UpdateOpenClosePositionsRequest{States: req, UpdateMask: fm})
			}
			reachable = func() []proto.Message {
				out := []proto.Message{req.Preset}
				for _, s := range req.States {
					out = append(out, s)
				}
				return out
			}
			edit = func() {
				for _, s := range req.States {
					s.OpenPercent, s.Direction, s.Resistance = 99, traits.OpenClosePosition_IN, traits.OpenClosePosition_SLOW
				}
				if req.Preset != nil {
					req.Preset.Title = "edited"
				}
			}
		}
	})
	if panicked {
		return "panic:" + msg
	}
	copies := make([]proto.Message, len(configured))
	changedByCall := 0
	for i, m := range configured {
		copies[i] = proto.Clone(m)
	}
	_ = changedByCall
	shared := 0
	for _, r := range reachable() {
		for _, m := range configured {
			if r == m {
				shared++
			}
		}
	}
	edit()
	changed := 0
	for i, m := range configured {
		if !proto.Equal(m, copies[i]) {
			changed++
		}
	}
	return fmt.Sprintf("shared=%d|changed=%d", shared, changed)
}

func plantViolation(c plantCase, ans string, mon *lib.Monitor) {
	if ans == "shared=0|changed=0" {
		return
	}
	site := map[string]string{"light": "lightpb/UpdateBrightness", "light-server": "lightpb/UpdateBrightness", "openclose": "openclosepb/UpdatePositions", "openclose-server": "openclosepb/UpdatePositions"}[c.Model]
	class := "preset-reachable-from-caller-message"
	if strings.HasPrefix(ans, "panic:") {
		class = "panic"
	}
	mon.Violate("C07/"+site+"/"+class, "after the call the caller's message points at the model's configured preset messages: the caller editing its own message rewrites the preset table",
		c, "shared=0|changed=0", ans)
}

// presetWrittenByCall: the configured messages must also survive the call itself (an update mask filters the write's
// source in place: the source must not be the configured message).
func runPlantWritten(c plantCase) (before, after string) {
	if !strings.HasPrefix(c.Model, "openclose") {
		return "", ""
	}
	desc := &traits.OpenClosePositions_Preset{Name: "p", Title: "title-p"}
	var positions []*traits.OpenClosePosition
	for i := 0; i < c.N; i++ {
		positions = append(positions, &traits.OpenClosePosition{OpenPercent: float32(30 + 10*i), Direction: traits.OpenClosePosition_Direction(1 + i), Resistance: traits.OpenClosePosition_HELD})
	}
	show := func() string {
		var p []string
		for _, x := range positions {
			p = append(p, txt(x))
		}
		return strings.Join(p, ";") + " " + txt(desc)
	}
	before = show()
	lib.Catch(func() {
		model := openclosepb.NewModel(openclosepb.WithPreset(desc, positions...))
		var opts []resource.WriteOption
		if c.Mask != "-" {
			opts = append(opts, resource.WithUpdateMask(&fieldmaskpb.FieldMask{Paths: []string{c.Mask}}))
		}
		model.UpdatePositions(&traits.OpenClosePositions{Preset: &traits.OpenClosePositions_Preset{Name: c.Select}}, opts...)
	})
	return before, show()
}

func runRim4(f lib.Flags, res *lib.Result) {
	tie := res.Tie("rim-presets", "K2",
		"lightpb Model/ModelServer.UpdateBrightness selecting a preset and openclosepb Model/ModelServer.UpdatePositions with a preset vs the Lean `plant`+`callerEdit`: 1-2 configured preset "+
			"messages x requested preset {p, q, unknown} x update mask {none, preset / level_percent / states.open_percent / states.direction}; the whole domain; compared: how many messages reachable "+
			"from the caller's message after the call ARE configured preset messages (pointer identity) and how many configured messages differ after the caller rewrote its message; "+
			"non-trivial = the requested preset exists")
	tie.Exhaustive = true
	mon := res.Monitor("rim-presets-frame", "on the same cases: no configured preset message is reachable from the caller's message, none changes by the call itself (update masks filter the write source in place) or by the caller's later edit")
	drv, err := lib.StartDriver(f.Driver)
	if err != nil {
		tie.Fail(err)
		return
	}
	defer drv.Close()
	var cases []plantCase
	for _, model := range []string{"light", "light-server", "openclose", "openclose-server"} {
		masks := []string{"-", "preset", "level_percent"}
		if strings.HasPrefix(model, "openclose") {
			masks = []string{"-", "states.open_percent", "states.direction", "states"}
		}
		for n := 1; n <= 2; n++ {
			for _, sel := range []string{"p", "q", "x"} {
				for _, mask := range masks {
					cases = append(cases, plantCase{Kind: "plant", Model: model, N: n, Select: sel, Mask: mask})
				}
			}
		}
	}
	lines := make([]string, len(cases))
	for i, c := range cases {
		lines[i] = c.line()
	}
	modelAns, err := drv.Batch(lines)
	if err != nil {
		tie.Fail(err)
		return
	}
	for i, c := range cases {
		ans := runPlantCase(c)
		exists := c.Select == "p" || (c.Select == "q" && strings.HasPrefix(c.Model, "light") && c.N == 2)
		key := fmt.Sprintf("%s/%d/%s/%s", c.Model, c.N, c.Select, c.Mask)
		mon.Eval(key, exists, nil)
		plantViolation(c, ans, mon)
		if b, a := runPlantWritten(c); a != b {
			mon.Violate("C07/openclosepb/UpdatePositions/preset-written-by-call", "applying a preset changed the configured preset messages themselves", c, b, a)
		}
		tie.Record(key, exists, c, modelAns[i], ans)
		tie.Count(c.Model)
	}
}

// --- openclosepb GetPositions (lean/ScVerif/C07/Rim3.lean `getPositions`, theorem C07_openclose_get_frame) ------------
//
// The sharing structure of the composed response: how many of its states ARE stored messages (pointer identity), whether
// its preset IS the configured description, and that no stored / configured message changed. Exhaustive small domain.

type positionsCase struct {
	Kind   string `json:"kind"` // "positions"
	K      int    `json:"k"`    // stored positions
	Preset bool   `json:"preset"`
	Mask   string `json:"mask"` // nil | states | states.f | preset | preset.f | both
	Server bool   `json:"server"`
}

func (c positionsCase) line() string {
	return fmt.Sprintf("rim positions %d %d %s", c.K, b2i(c.Preset), c.Mask)
}

func runPositionsCase(c positionsCase) string {
	var stored []*traits.OpenClosePosition
	var same []*traits.OpenClosePosition
	for i := 0; i < c.K; i++ {
		p := &traits.OpenClosePosition{OpenPercent: float32(30 + 10*i), Direction: traits.OpenClosePosition_Direction(1 + i), Resistance: traits.OpenClosePosition_HELD}
		stored = append(stored, p)
		same = append(same, proto.Clone(p).(*traits.OpenClosePosition))
	}
	desc := &traits.OpenClosePositions_Preset{Name: "p", Title: "title-p"}
	opts := []resource.Option{openclosepb.WithInitialPositions(stored...)}
	if c.Preset {
		opts = append(opts, openclosepb.WithPreset(desc, same...)) // equal to the stored positions: the preset is current
	}
	var fm *fieldmaskpb.FieldMask
	if paths := map[string][]string{"states": {"states"}, "states.f": {"states.open_percent"}, "preset": {"preset"}, "preset.f": {"preset.name"},
		"both": {"states.direction", "preset.title"}}[c.Mask]; paths != nil {
		fm = &fieldmaskpb.FieldMask{Paths: paths}
	}
	var res *traits.OpenClosePositions
	all := []proto.Message{desc}
	for _, p := range stored {
		all = append(all, p)
	}
	copies := make([]proto.Message, len(all))
	for i, m := range all {
		copies[i] = proto.Clone(m)
	}
	panicked, msg := lib.Catch(func() {
		model := openclosepb.NewModel(opts...)
		var err error
		if c.Server {
			res, err = openclosepb.NewModelServer(model).GetPositions(context.Background(), &traits.GetOpenClosePositionsRequest{ReadMask: fm})
		} else if fm != nil {
			res, err = model.GetPositions(resource.WithReadMask(fm))
		} else {
			res, err = model.GetPositions()
		}
		if err != nil {
			panic(err)
		}
	})
	if panicked {
		return "panic:" + msg
	}
	shared := 0
	for _, s := range res.GetStates() {
		for _, p := range stored {
			if s == p {
				shared++
			}
		}
	}
	ps := "-"
	if res.GetPreset() != nil {
		ps = fmt.Sprint(b2i(res.Preset == desc))
	}
	changed := 0
	for i, m := range all {
		if !proto.Equal(m, copies[i]) {
			changed++
		}
	}
	return fmt.Sprintf("shared=%d,%s|changed=%d", shared, ps, changed)
}

func positionsViolation(c positionsCase, ans string, mon *lib.Monitor) {
	if strings.HasSuffix(ans, "|changed=0") {
		return
	}
	mon.Violate("C07/openclosepb/GetPositions/writes-stored-or-preset", "GetPositions changed stored positions or the configured preset description (or panicked)", c, "changed=0", ans)
}

func runRim5(f lib.Flags, res *lib.Result) {
	tie := res.Tie("rim-positions", "K2",
		"openclosepb Model.GetPositions / ModelServer.GetPositions vs the Lean `getPositions`: 0-3 stored positions x a current preset or none x read mask {nil, states, states.open_percent, preset, "+
			"preset.name, states.direction+preset.title}; the whole domain; compared: how many states of the response ARE stored messages, whether its preset IS the configured description, "+
			"how many stored/configured messages changed; non-trivial = at least one stored position or a current preset")
	tie.Exhaustive = true
	mon := res.Monitor("rim-positions-frame", "on the same cases: a read changes no stored position and not the configured preset description")
	drv, err := lib.StartDriver(f.Driver)
	if err != nil {
		tie.Fail(err)
		return
	}
	defer drv.Close()
	var cases []positionsCase
	for k := 0; k <= 3; k++ {
		for _, pr := range []bool{false, true} {
			for _, mask := range []string{"nil", "states", "states.f", "preset", "preset.f", "both"} {
				for _, server := range []bool{false, true} {
					cases = append(cases, positionsCase{Kind: "positions", K: k, Preset: pr, Mask: mask, Server: server})
				}
			}
		}
	}
	lines := make([]string, len(cases))
	for i, c := range cases {
		lines[i] = c.line()
	}
	model, err := drv.Batch(lines)
	if err != nil {
		tie.Fail(err)
		return
	}
	for i, c := range cases {
		ans := runPositionsCase(c)
		key := fmt.Sprintf("%d/%v/%s/%v", c.K, c.Preset, c.Mask, c.Server)
		mon.Eval(key, c.K > 0 || c.Preset, nil)
		positionsViolation(c, ans, mon)
		tie.Record(key, c.K > 0 || c.Preset, c, model[i], ans)
	}
}
