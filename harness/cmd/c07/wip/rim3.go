package main

import (
	"context"
	"fmt"
	"sort"
	"strings"

	"google.golang.org/protobuf/types/known/fieldmaskpb"

	"github.com/smart-core-os/sc-api/go/traits"
	"github.com/smart-core-os/sc-golang/pkg/trait/modepb"
	"github.com/smart-core-os/sc-golang/verifharness/lib"
)

// Driver tie for modepb's relative adjustment (lean/ScVerif/C07/Rim3.lean `updateModeValues`): the real
// ModelServer.UpdateModeValues on a model whose stored values are arbitrary (supported, unsupported, absent, modes the
// model does not have), compared on the result, the live old message as it is AFTERWARDS, and the caller's request.

type modeCase struct {
	Kind   string `json:"kind"` // "mode"
	Avail  string `json:"avail"`
	Stored string `json:"stored"`
	Src    string `json:"src"` // "~": no mode_values message in the request
	Rel    string `json:"rel"`
	Masked bool   `json:"masked"`
}

func showSS(m map[string]string) string {
	if len(m) == 0 {
		return "-"
	}
	var kv []string
	for k, v := range m {
		kv = append(kv, k+"="+v)
	}
	sort.Strings(kv)
	return strings.Join(kv, ",")
}

func parseSS(s string) map[string]string {
	if s == "-" {
		return nil
	}
	m := map[string]string{}
	for _, kv := range strings.Split(s, ",") {
		x := strings.SplitN(kv, "=", 2)
		m[x[0]] = x[1]
	}
	return m
}

func (c modeCase) line() string {
	return fmt.Sprintf("rim mode %s %s %s %s %d", c.Avail, c.Stored, c.Src, c.Rel, b2i(c.Masked))
}

// runModeCase: answer = result values | the old stored message's values afterwards | the request's values afterwards
func runModeCase(c modeCase) (ans string, oldChanged bool) {
	modes := &traits.Modes{}
	if c.Avail != "-" {
		for _, e := range strings.Split(c.Avail, ";") {
			x := strings.SplitN(e, ":", 2)
			mode := &traits.Modes_Mode{Name: x[0]}
			for _, v := range strings.Split(x[1], ",") {
				mode.Values = append(mode.Values, &traits.Modes_Value{Name: v})
			}
			modes.Modes = append(modes.Modes, mode)
		}
	}
	var res *traits.ModeValues
	var old *traits.ModeValues
	var req *traits.UpdateModeValuesRequest
	before := ""
	panicked, msg := lib.Catch(func() {
		model := modepb.NewModelModes(modes)
		// make the stored values exactly c.Stored (absolute updates are not validated against the available values)
		// (no update mask: the new value is made to look like the given one, entries of the initial value are dropped)
		if _, err := model.UpdateModeValues(&traits.ModeValues{Values: parseSS(c.Stored)}); err != nil {
			panic(err)
		}
		old = model.ModeValues() // no read mask: the live stored message
		before = showSS(old.Values)
		req = &traits.UpdateModeValuesRequest{}
		if c.Src != "~" {
			req.ModeValues = &traits.ModeValues{Values: parseSS(c.Src)}
		}
		if c.Rel != "-" {
			req.Relative = &traits.ModeValuesRelative{Values: map[string]int32{}}
			for _, kv := range strings.Split(c.Rel, ",") {
				x := strings.SplitN(kv, "=", 2)
				var n int64
				fmt.Sscan(x[1], &n)
				req.Relative.Values[x[0]] = int32(n)
			}
		}
		if c.Masked {
			req.UpdateMask = &fieldmaskpb.FieldMask{Paths: []string{"values"}}
		}
		var err error
		res, err = modepb.NewModelServer(model).UpdateModeValues(context.Background(), req)
		if err != nil {
			panic(err)
		}
	})
	if panicked {
		return "panic:" + msg, false
	}
	after := showSS(old.Values)
	src := "~"
	if req.ModeValues != nil {
		src = showSS(req.ModeValues.Values)
	}
	return showSS(res.Values) + "|" + after + "|" + src, after != before || before != c.Stored
}

func runRim3(f lib.Flags, res *lib.Result) {
	tie := res.Tie("rim-mode", "K1",
		"modepb ModelServer.UpdateModeValues vs the Lean `updateModeValues`: available values for modes {spin,temp} (0-3 values each from {a,b,c}), stored values over "+
			"{spin,temp,other} x {a,b,c,z} (z is never available: unsupported current values; absent modes; modes the model lacks), request values present / empty / no message, "+
			"relative steps in {-4..4, int32 min, int32 max} on 0-3 modes, update mask nil or {values}; compared: the result, the live old message AFTER the call, the request message after the call; "+
			"non-trivial = a relative step on a mode the model has")
	mon := res.Monitor("rim-mode-frame", "on the same cases: the live old ModeValues message is exactly as before the call")
	drv, err := lib.StartDriver(f.Driver)
	if err != nil {
		tie.Fail(err)
		return
	}
	defer drv.Close()
	r := lib.NewRand(f.Seed + 11)
	pick := func(xs []string) string { return xs[r.Intn(len(xs))] }
	genMap := func(keys, vals []string, max int) string {
		m := map[string]string{}
		for k := r.Intn(max + 1); k > 0; k-- {
			m[pick(keys)] = pick(vals)
		}
		return showSS(m)
	}
	var cases []modeCase
	for i := 0; i < f.N(500, 8000); i++ {
		var av []string
		for _, mode := range []string{"spin", "temp"} {
			p := r.Perm(3)
			if n := r.Intn(4); n > 0 {
				var vs []string
				for _, j := range p[:n] {
					vs = append(vs, []string{"a", "b", "c"}[j])
				}
				av = append(av, mode+":"+strings.Join(vs, ","))
			}
		}
		c := modeCase{Kind: "mode", Avail: "-", Src: "~", Rel: "-", Masked: r.Intn(2) == 0}
		if len(av) > 0 {
			c.Avail = strings.Join(av, ";")
		}
		c.Stored = genMap([]string{"spin", "temp", "other"}, []string{"a", "b", "c", "z"}, 3)
		if r.Intn(3) != 0 {
			c.Src = genMap([]string{"spin", "temp", "other"}, []string{"a", "b", "c", "z"}, 2)
		}
		rel := map[string]string{}
		for k := r.Intn(4); k > 0; k-- {
			rel[pick([]string{"spin", "temp", "other"})] = pick([]string{"-4", "-3", "-2", "-1", "0", "1", "2", "3", "4", "-2147483648", "2147483647"})
		}
		c.Rel = showSS(rel)
		cases = append(cases, c)
	}
	lines := make([]string, len(cases))
	for i, c := range cases {
		lines[i] = c.line()
	}
	model, err := drv.Batch(lines)
	if err != nil {
		tie.Fail(err)
		return
	}
	for i, c := range cases {
		ans, changed := runModeCase(c)
		nontrivial := false
		for _, kv := range strings.Split(c.Rel, ",") {
			if k := strings.SplitN(kv, "=", 2)[0]; k != "-" && strings.Contains(c.Avail, k+":") {
				nontrivial = true
			}
		}
		mon.Eval(lines[i], nontrivial, nil)
		if changed || strings.HasPrefix(ans, "panic:") {
			mon.Violate("C07/modepb/UpdateModeValues/writes-old-values", "UpdateModeValues changed the live old ModeValues message (or panicked)", c, c.Stored, ans)
		}
		tie.Record(lines[i], nontrivial, c, model[i], ans)
		tie.Count(map[bool]string{true: "mask:values", false: "mask:nil"}[c.Masked])
	}
}
