package main

import (
	"bytes"
	"encoding/json"
	"fmt"
	"io"
	"os"
	"os/exec"
	"path/filepath"
	"strings"

	"github.com/smart-core-os/sc-golang/verifharness/lib"
)

// Crash isolation. The code under test runs goroutines of its own (bus forwarders, filters, mergers, model adapters):
// a panic in one of them, or a fatal runtime error (a Go map written while it is read), kills the process — no
// recover() helps — and a harness that died has no result: the run would only say "no failing input found". So the
// work is done by a child process that notes, before every sequence, which sequence it is about to run; when the child
// dies the parent takes that note as a CONCRETE failing input (signature C07/<family>/process-crash), and starts the
// child again telling it which sequences to report instead of running (a family that killed two children is not run
// any further; after six deaths nothing is run, the recorded crashes are reported). The final child writes the result.
//
// On the unchanged tree the child exits 0 the first time and the parent does nothing else.

type crashRec struct {
	Family string `json:"family"`
	Key    string `json:"key"`
	Input  any    `json:"input"`
	Crash  string `json:"crash"`
}

var (
	progressPath string
	knownCrashes []crashRec
	skipFamily   = map[string]bool{} // a family that killed two children: its other sequences are not run again
	onlyCrashes  bool                // last attempt: no sequence is run, the recorded crashes are reported
)

func initChild() {
	progressPath = os.Getenv("C07_PROGRESS")
	if p := os.Getenv("C07_CRASHES"); p != "" {
		if b, err := os.ReadFile(p); err == nil {
			_ = json.Unmarshal(b, &knownCrashes)
		}
	}
	n := map[string]int{}
	for _, c := range knownCrashes {
		n[c.Family]++
		if n[c.Family] >= 2 {
			skipFamily[c.Family] = true
		}
	}
	onlyCrashes = os.Getenv("C07_ONLY_CRASHES") != ""
}

// begin is called by every sequence family right before a sequence runs. It returns false when this sequence killed an
// earlier child: the crash is recorded as a violation with the sequence as its replay, and the sequence is not run again.
func begin(mon *lib.Monitor, family, key string, input any) bool {
	for _, c := range knownCrashes {
		if c.Family == family && c.Key == key {
			if mon != nil {
				mon.Violate("C07/"+family+"/process-crash",
					"running this sequence kills the process: a panic or a fatal runtime error (e.g. a published message written while another goroutine reads it) in a goroutine of the code under test",
					input, "the sequence completes", c.Crash)
			}
			return false
		}
	}
	if onlyCrashes || skipFamily[family] {
		return false
	}
	if progressPath != "" {
		b, _ := json.Marshal(crashRec{Family: family, Key: key, Input: input})
		_ = os.WriteFile(progressPath, b, 0o644)
	}
	return true
}

// tailBuf keeps the beginning of what the child wrote to stderr: the reason of a crash is its first line.
type tailBuf struct {
	head []byte
}

func (t *tailBuf) Write(p []byte) (int, error) {
	if room := 16384 - len(t.head); room > 0 {
		if len(p) < room {
			room = len(p)
		}
		t.head = append(t.head, p[:room]...)
	}
	return len(p), nil
}

func (t *tailBuf) reason() string {
	for _, l := range bytes.Split(t.head, []byte("\n")) {
		s := string(l)
		if strings.HasPrefix(s, "panic: ") || strings.HasPrefix(s, "fatal error: ") {
			return s
		}
	}
	return ""
}

func runChild(env []string, tb *tailBuf) int {
	cmd := exec.Command(os.Args[0], os.Args[1:]...)
	cmd.Env = append(os.Environ(), env...)
	cmd.Stdout = os.Stdout
	cmd.Stderr = io.MultiWriter(os.Stderr, tb)
	err := cmd.Run()
	if err == nil {
		return 0
	}
	if ee, ok := err.(*exec.ExitError); ok {
		if c := ee.ExitCode(); c >= 0 {
			return c
		}
		return 2 // killed by a signal
	}
	fmt.Fprintln(os.Stderr, "c07: cannot start the worker process:", err)
	return 2
}

// supervise runs the harness proper in a child process (see above). Returns the exit code.
func supervise(f lib.Flags) int {
	dir := f.Out
	if dir == "" {
		dir = os.TempDir()
	}
	_ = os.MkdirAll(dir, 0o755)
	prog := filepath.Join(dir, fmt.Sprintf(".c07-progress-%d.json", os.Getpid()))
	crashes := filepath.Join(dir, fmt.Sprintf(".c07-crashes-%d.json", os.Getpid()))
	defer os.Remove(prog)
	defer os.Remove(crashes)
	var recs []crashRec
	code := 0
	const attempts = 7
	for attempt := 0; attempt < attempts; attempt++ {
		_ = os.Remove(prog)
		b, _ := json.Marshal(recs)
		_ = os.WriteFile(crashes, b, 0o644)
		tb := &tailBuf{}
		env := []string{"C07_CHILD=1", "C07_PROGRESS=" + prog, "C07_CRASHES=" + crashes}
		if attempt == attempts-1 {
			// the code under test dies all over the place: report what has been recorded, run no sequence at all
			env = append(env, "C07_ONLY_CRASHES=1")
		}
		code = runChild(env, tb)
		if code == 0 {
			return 0
		}
		pb, err := os.ReadFile(prog)
		var rec crashRec
		if err != nil || json.Unmarshal(pb, &rec) != nil || rec.Family == "" {
			return code // died outside any sequence: nothing to attribute it to
		}
		for _, c := range recs {
			if c.Family == rec.Family && c.Key == rec.Key {
				return code // told to skip it and died there again: give up
			}
		}
		rec.Crash = tb.reason()
		if rec.Crash == "" {
			rec.Crash = fmt.Sprintf("worker process exited with code %d", code)
		}
		recs = append(recs, rec)
		fmt.Fprintf(os.Stderr, "c07: worker died in %s %s (%s); restarting without that sequence\n", rec.Family, rec.Key, rec.Crash)
	}
	return code
}

// superviseReplay: a replay whose input kills the process still fails.
func superviseReplay() int {
	tb := &tailBuf{}
	code := runChild([]string{"C07_CHILD=1"}, tb)
	if code == 0 || code == 1 {
		return code
	}
	if r := tb.reason(); r != "" {
		fmt.Printf("STILL FAILS: replaying the input kills the process: %s\n", r)
		return 1
	}
	return code
}
