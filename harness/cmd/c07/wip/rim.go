package main

import (
	"fmt"
	"strings"

	"github.com/smart-core-os/sc-api/go/traits"
	"github.com/smart-core-os/sc-golang/pkg/trait"
	"github.com/smart-core-os/sc-golang/pkg/trait/parentpb"
	"github.com/smart-core-os/sc-golang/verifharness/lib"
)

type rcase struct {
	Kind  string   `json:"kind"` // "rim"
	Op    string   `json:"op"`
	Has   []string `json:"has"`
	Extra int      `json:"extra"`
	Args  []string `json:"args"`
}

func showNames(l []string) string {
	if len(l) == 0 {
		return "-"
	}
	return strings.Join(l, ",")
}

// runRimCase calls the real function; returns the canonical answer and whether the caller's array changed.
func runRimCase(c rcase) (ans string, changed bool) {
	full := make([]*traits.Trait, len(c.Has), len(c.Has)+c.Extra)
	for i, n := range c.Has {
		full[i] = &traits.Trait{Name: n}
	}
	before := append([]*traits.Trait(nil), full[:cap(full)]...)
	targs := make([]trait.Name, len(c.Args))
	for i, a := range c.Args {
		targs[i] = trait.Name(a)
	}
	var out []*traits.Trait
	panicked, msg := lib.Catch(func() {
		if c.Op == "union" {
			out = parentpb.VerifTraitUnion(full, targs...)
		} else {
			out = parentpb.VerifTraitRemove(full, targs...)
		}
	})
	if panicked {
		return "panic:" + msg, false
	}
	var rn, an []string
	for _, t := range out {
		rn = append(rn, t.GetName())
	}
	for i, t := range full[:cap(full)] {
		if t == nil {
			an = append(an, "_")
		} else {
			an = append(an, t.Name)
		}
		changed = changed || t != before[i]
	}
	return showNames(rn) + "|" + strings.Join(an, ","), changed
}

func rimMonitor(c rcase, ans string, changed bool, mon *lib.Monitor) {
	mon.Eval(fmt.Sprint(c), !strings.HasPrefix(ans, showNames(c.Has)+"|"), nil)
	if strings.HasPrefix(ans, "panic:") {
		mon.Violate("C07/parentpb/trait"+strings.Title(c.Op)+"/panic", "the function panicked", c, "no panic", ans)
	}
	if changed {
		mon.Violate("C07/parentpb/trait"+strings.Title(c.Op)+"/writes-callers-array",
			"the function wrote into the backing array of the slice it was given (the stored Child's Traits)", c, showNames(c.Has), ans)
	}
}

// runRim ties the Lean slice model of parentpb.traitUnion / traitRemove (lean/ScVerif/C07/Rim.lean) to
// the real functions (exported under the verif build tag) on an exhaustive small domain, and monitors
// the property directly: the caller's backing array, seen through its whole capacity, must not change.
func runRim(f lib.Flags, res *lib.Result) {
	tie := res.Tie("rim-slices", "K2",
		"parentpb.traitUnion / traitRemove vs the Lean slice model, exhaustively over: sorted `has` subsets of {a,b,c,d} x spare capacity 0..2 x "+
			"argument lists of length 0..2 over {a,b,c,d,e}; compared: the resulting names and the caller's backing array through its full capacity; "+
			"non-trivial = the result differs from `has`")
	tie.Exhaustive = true
	mon := res.Monitor("rim-slices-frame",
		"on the same domain: after the call the caller's backing array (all cap slots, by pointer identity) is exactly as before")
	drv, err := lib.StartDriver(f.Driver)
	if err != nil {
		tie.Fail(err)
		return
	}
	defer drv.Close()
	names := []string{"a", "b", "c", "d"}
	argNames := []string{"a", "b", "c", "d", "e"}
	var argLists [][]string
	argLists = append(argLists, nil)
	for _, x := range argNames {
		argLists = append(argLists, []string{x})
		for _, y := range argNames {
			argLists = append(argLists, []string{x, y})
		}
	}
	var lines []string
	var cases []rcase
	var code []string
	show := showNames
	for mask := 0; mask < 16; mask++ {
		var has []string
		for i, n := range names {
			if mask&(1<<i) != 0 {
				has = append(has, n)
			}
		}
		for extra := 0; extra <= 2; extra++ {
			for _, args := range argLists {
				for _, op := range []string{"union", "remove"} {
					c := rcase{Kind: "rim", Op: op, Has: has, Extra: extra, Args: args}
					ans, changed := runRimCase(c)
					rimMonitor(c, ans, changed, mon)
					lines = append(lines, fmt.Sprintf("rim %s %s %d %s", op, show(has), extra, show(args)))
					cases = append(cases, c)
					code = append(code, ans)
				}
			}
		}
	}
	model, err := drv.Batch(lines)
	if err != nil {
		tie.Fail(err)
		return
	}
	for i := range lines {
		tie.Record(lines[i], !strings.HasPrefix(code[i], show(cases[i].Has)+"|"), cases[i], model[i], code[i])
		tie.Count(cases[i].Op)
	}
}
