package main

import (
	"fmt"
	"reflect"
	"runtime"
	"sync"

	"google.golang.org/protobuf/encoding/prototext"
	"google.golang.org/protobuf/proto"
)

// snap is one message that crossed the API boundary: the live pointer and a deep copy taken at the
// moment it crossed. The property says ptr must stay Equal to copy for ever.
type snap struct {
	Origin string // which call / event produced it, e.g. "parentpb.Model.ListChildren/ret"
	Step   int
	ptr    proto.Message
	copy   proto.Message
	dead   bool // already reported; not reported again
}

// tracker is the snapshot monitor: independent of the Lean model, it only uses proto.Clone/Equal.
type tracker struct {
	mu    sync.Mutex
	snaps []*snap
	byPtr map[proto.Message]*snap
	step  int
}

func newTracker() *tracker { return &tracker{byPtr: map[proto.Message]*snap{}} }

func isNilMsg(m proto.Message) bool {
	if m == nil {
		return true
	}
	v := reflect.ValueOf(m)
	return v.Kind() == reflect.Ptr && v.IsNil()
}

// observe records m (first observation per pointer wins: it is the earliest promise).
func (t *tracker) observe(origin string, m proto.Message) {
	if isNilMsg(m) {
		return
	}
	t.mu.Lock()
	defer t.mu.Unlock()
	if _, ok := t.byPtr[m]; ok {
		return
	}
	s := &snap{Origin: origin, Step: t.step, ptr: m, copy: proto.Clone(m)}
	t.byPtr[m] = s
	t.snaps = append(t.snaps, s)
}

func (t *tracker) setStep(i int) {
	t.mu.Lock()
	t.step = i
	t.mu.Unlock()
}

func (t *tracker) count() int {
	t.mu.Lock()
	defer t.mu.Unlock()
	return len(t.snaps)
}

// changed returns the snapshots whose live message no longer equals the copy taken when it crossed.
func (t *tracker) changed() []*snap {
	t.mu.Lock()
	defer t.mu.Unlock()
	var out []*snap
	for _, s := range t.snaps {
		if s.dead {
			continue
		}
		if !safeEqual(s.ptr, s.copy) {
			s.dead = true
			out = append(out, s)
		}
	}
	return out
}

// safeEqual is proto.Equal that survives a message being written while it is compared (somebody writing to a
// published message from another goroutine is exactly what the monitor looks for): a panic inside the comparison
// is retried after the other goroutines have run; a comparison that keeps panicking counts as "changed".
func safeEqual(a, b proto.Message) bool {
	for try := 0; try < 3; try++ {
		eq, ok := false, false
		func() {
			defer func() { _ = recover() }()
			eq = proto.Equal(a, b)
			ok = true
		}()
		if ok {
			return eq
		}
		quiesce(20)
	}
	return false
}

// quiesce yields the processor n times. With GOMAXPROCS(1) (see main) every yield lets all runnable goroutines of
// the code under test (bus forwarders, filters, mergers, model adapters) run until they block.
func quiesce(n int) {
	for i := 0; i < n; i++ {
		runtime.Gosched()
	}
}

func txt(m proto.Message) (out string) {
	if isNilMsg(m) {
		return "<nil>"
	}
	defer func() {
		if r := recover(); r != nil {
			out = fmt.Sprintf("<being written while printed: %v>", r)
		}
	}()
	b, err := prototext.MarshalOptions{Multiline: false}.Marshal(m)
	if err != nil {
		return fmt.Sprintf("<%v>", err)
	}
	s := string(b)
	if s == "" {
		return "{}"
	}
	return "{" + s + "}"
}
