package main

import (
	"context"
	"fmt"
	"io"
	"log"
	"math/rand"
	"strconv"
	"strings"
	"sync"
	"time"

	"google.golang.org/grpc/codes"
	"google.golang.org/grpc/status"
	"google.golang.org/protobuf/proto"
	"google.golang.org/protobuf/types/known/fieldmaskpb"

	"github.com/smart-core-os/sc-api/go/traits"
	"github.com/smart-core-os/sc-api/go/types"
	"github.com/smart-core-os/sc-golang/pkg/resource"
	"github.com/smart-core-os/sc-golang/verifharness/lib"
)

func init() { log.SetOutput(io.Discard) }

// coreSeq is one op sequence in the line protocol of driverC07 (see lean/ScVerif/C07/Drv.lean).
// The Go executor parses the very same lines, so the text is the single description of the input.
type coreSeq struct {
	Kind string   `json:"kind"` // "core"
	Init string   `json:"init"`
	Ops  []string `json:"ops"`
}

// --- flat messages: traits.FanSpeed as four small integers -------------------------------------

var fieldNames = []string{"percentage", "preset", "preset_index", "direction"}

func mkMsg(v [4]int) *traits.FanSpeed {
	m := &traits.FanSpeed{Percentage: float32(v[0]), PresetIndex: int32(v[2]), Direction: traits.FanSpeed_Direction(v[3])}
	if v[1] != 0 {
		m.Preset = "p" + strconv.Itoa(v[1])
	}
	return m
}

func msgVals(m proto.Message) [4]int {
	f, ok := m.(*traits.FanSpeed)
	if !ok || f == nil {
		return [4]int{}
	}
	var v [4]int
	v[0] = int(f.Percentage)
	if f.Preset != "" {
		v[1], _ = strconv.Atoi(strings.TrimPrefix(f.Preset, "p"))
	}
	v[2] = int(f.PresetIndex)
	v[3] = int(f.Direction)
	return v
}

func setVals(m proto.Message, v [4]int) {
	f := m.(*traits.FanSpeed)
	n := mkMsg(v)
	f.Percentage, f.Preset, f.PresetIndex, f.Direction = n.Percentage, n.Preset, n.PresetIndex, n.Direction
}

func showMsg(m proto.Message) string {
	if isNilMsg(m) {
		return "-"
	}
	v := msgVals(m)
	return fmt.Sprintf("%d,%d,%d,%d", v[0], v[1], v[2], v[3])
}

func parseVals(s string) [4]int {
	var v [4]int
	p := strings.Split(s, ",")
	for i := 0; i < 4 && i < len(p); i++ {
		v[i], _ = strconv.Atoi(p[i])
	}
	return v
}

func parseMask(s string) *fieldmaskpb.FieldMask {
	if s == "-" {
		return nil
	}
	fm := &fieldmaskpb.FieldMask{}
	if s == "0" {
		return fm
	}
	for _, c := range s {
		fm.Paths = append(fm.Paths, fieldNames[int(c-'a')])
	}
	return fm
}

// named interceptors (same family as the Lean driver's cbAdd / cbSet)
func parseCb(s string) resource.UpdateInterceptor {
	if s == "-" {
		return nil
	}
	p := strings.Split(s, ":")
	f := int(p[1][0] - 'a')
	switch p[0] {
	case "add":
		return func(old, new proto.Message) {
			o, n := [4]int{}, msgVals(new)
			if !isNilMsg(old) {
				o = msgVals(old)
			}
			n[f] += o[f]
			setVals(new, n)
		}
	case "set":
		x, _ := strconv.Atoi(p[2])
		return func(old, new proto.Message) {
			n := msgVals(new)
			n[f] = x
			setVals(new, n)
		}
	}
	panic("bad callback " + s)
}

// --- executor -----------------------------------------------------------------------------------

func (st *stream) isDone() bool {
	st.mu.Lock()
	defer st.mu.Unlock()
	return st.done
}

type stream struct {
	done   bool // the channel was closed by the resource
	cancel context.CancelFunc
	mu     sync.Mutex
	got    []any // *resource.ValueChange | *resource.CollectionChange
	taken  int
	closed bool
	pullID string // non-empty: a Collection.PullID stream on this (mapped) id; events are *ValueChange
}

func (st *stream) take(n int) []any {
	deadline := time.Now().Add(3 * time.Second)
	for {
		st.mu.Lock()
		if len(st.got)-st.taken >= n {
			out := st.got[st.taken : st.taken+n]
			st.taken += n
			st.mu.Unlock()
			return out
		}
		st.mu.Unlock()
		if time.Now().After(deadline) {
			return nil
		}
		time.Sleep(20 * time.Microsecond)
	}
}

type coreRun struct {
	val      *resource.Value
	coll     *resource.Collection
	srcs     []proto.Message
	vstreams []*stream
	cstreams []*stream
	pubs     []proto.Message // crossing order, duplicates kept (mirrors the model's ghost list)
	tr       *tracker
	step     int
	idmap    func(string) string // the configured id interceptor (identity when none)
}

func newCoreRun(init string) *coreRun {
	t := strings.Fields(init)
	c := &coreRun{tr: newTracker()}
	var vopts, copts []resource.Option
	if w := parseMask(t[1]); w != nil {
		vopts = append(vopts, resource.WithWritableFields(w))
		copts = append(copts, resource.WithWritableFields(w))
	}
	if t[2] != "-" {
		iv := mkMsg(parseVals(t[2]))
		vopts = append(vopts, resource.WithInitialValue(iv))
		c.cross("init", iv)
	}
	c.idmap = func(s string) string { return s }
	if len(t) > 3 && t[3] == "mod2" {
		// named id interceptor shared with the Lean driver: i<n> -> i<n mod 2>
		c.idmap = func(s string) string {
			n, _ := strconv.Atoi(strings.TrimPrefix(s, "i"))
			return "i" + strconv.Itoa(n%2)
		}
		copts = append(copts, resource.WithIDInterceptor(c.idmap))
	}
	c.val = resource.NewValue(vopts...)
	c.coll = resource.NewCollection(copts...)
	return c
}

func (c *coreRun) close() {
	for _, s := range append(append([]*stream{}, c.vstreams...), c.cstreams...) {
		s.cancel()
	}
}

// cross records a message crossing the API boundary outwards.
func (c *coreRun) cross(origin string, m proto.Message) string {
	if isNilMsg(m) {
		return "-"
	}
	c.pubs = append(c.pubs, m)
	c.tr.observe(origin, m)
	return showMsg(m)
}

func errName(err error) string { return "err:" + status.Code(err).String() }

func id(s string) string { return "i" + s }

func (c *coreRun) wopts(um, rm, b, a, e, flags string) []resource.WriteOption {
	var o []resource.WriteOption
	if m := parseMask(um); m != nil {
		o = append(o, resource.WithUpdateMask(m))
	}
	if m := parseMask(rm); m != nil {
		o = append(o, resource.WithResetMask(m))
	}
	if f := parseCb(b); f != nil {
		o = append(o, resource.InterceptBefore(f))
	}
	if f := parseCb(a); f != nil {
		o = append(o, resource.InterceptAfter(f))
	}
	if strings.HasPrefix(e, "chk:") {
		// named WithExpectedCheck shared with the Lean driver: reject when field f of the old message (zeros when absent) is n
		p := strings.Split(e, ":")
		fi := int(p[1][0] - 'a')
		n, _ := strconv.Atoi(p[2])
		code := map[string]codes.Code{"FP": codes.FailedPrecondition, "IA": codes.InvalidArgument}[p[3]]
		o = append(o, resource.WithExpectedCheck(func(old proto.Message) error {
			v := [4]int{}
			if !isNilMsg(old) {
				v = msgVals(old)
			}
			if v[fi] == n {
				return status.Error(code, "named check")
			}
			return nil
		}))
	} else if e != "-" {
		o = append(o, resource.WithExpectedValue(mkMsg(parseVals(e))))
	}
	if strings.Contains(flags, "c") {
		o = append(o, resource.WithCreateIfAbsent())
	}
	if strings.Contains(flags, "x") {
		o = append(o, resource.WithExpectAbsent())
	}
	if strings.Contains(flags, "m") {
		o = append(o, resource.WithAllowMissing(true))
	}
	return o
}

func (c *coreRun) vevents(parts *[]string) {
	for i, s := range c.vstreams {
		if s.closed {
			continue
		}
		ev := s.take(1)
		if ev == nil {
			*parts = append(*parts, "V", "-", "<missing event>")
			continue
		}
		*parts = append(*parts, "V", "-", c.cross(fmt.Sprintf("Value.Pull#%d/event", i), ev[0].(*resource.ValueChange).Value))
	}
}

// cevents collects the event of the write on (mapped) id: collection-wide Pulls first, then the PullID streams
// of that id (new value only; a REMOVE ends them without a message) — the order the model answers in.
func (c *coreRun) cevents(parts *[]string, mapped string, removed bool) {
	for i, s := range c.cstreams {
		if s.closed || s.pullID != "" {
			continue
		}
		ev := s.take(1)
		if ev == nil {
			*parts = append(*parts, "?", "-", "<missing event>")
			continue
		}
		ch := ev[0].(*resource.CollectionChange)
		tag := map[types.ChangeType]string{types.ChangeType_ADD: "A", types.ChangeType_UPDATE: "U", types.ChangeType_REMOVE: "R"}[ch.ChangeType]
		o := c.cross(fmt.Sprintf("Collection.Pull#%d/event.OldValue", i), ch.OldValue)
		n := c.cross(fmt.Sprintf("Collection.Pull#%d/event.NewValue", i), ch.NewValue)
		*parts = append(*parts, tag, o, n)
	}
	for i, s := range c.cstreams {
		if s.closed || s.pullID != mapped {
			continue
		}
		if removed {
			// PullID returns on REMOVE: the stream ends, nothing is sent
			deadline := time.Now().Add(2 * time.Second)
			for !s.isDone() && time.Now().Before(deadline) {
				time.Sleep(50 * time.Microsecond)
			}
			s.closed = true
			continue
		}
		ev := s.take(1)
		if ev == nil {
			*parts = append(*parts, "P", "<missing event>")
			continue
		}
		*parts = append(*parts, "P", c.cross(fmt.Sprintf("Collection.PullID#%d/event", i), ev[0].(*resource.ValueChange).Value))
	}
}

func ropts(rm string, uo bool) []resource.ReadOption {
	o := []resource.ReadOption{resource.WithBackpressure(true), resource.WithUpdatesOnly(uo)}
	if m := parseMask(rm); m != nil {
		o = append(o, resource.WithReadMask(m))
	}
	return o
}

// exec runs one op line on the real code and returns (canonical answer, op kind).
func (c *coreRun) exec(line string) (ans string, kind string) {
	t := strings.Fields(line)
	kind = t[0]
	panicked, msg := lib.Catch(func() { ans = c.exec1(t) })
	if panicked {
		ans = "panic:" + msg
	}
	return
}

func (c *coreRun) exec1(t []string) string {
	switch t[0] {
	case "alloc":
		c.srcs = append(c.srcs, mkMsg(parseVals(t[1])))
		return "ok"
	case "mutate":
		k, _ := strconv.Atoi(t[1])
		if k >= len(c.srcs) {
			return "!bad-op"
		}
		setVals(c.srcs[k], parseVals(t[2]))
		return "ok"
	case "vset":
		k, _ := strconv.Atoi(t[1])
		if k >= len(c.srcs) {
			return "!bad-op"
		}
		res, err := c.val.Set(c.srcs[k], c.wopts(t[2], t[3], t[4], t[5], t[6], "")...)
		if err != nil {
			return errName(err)
		}
		parts := []string{"ok", c.cross("Value.Set/ret", res)}
		c.vevents(&parts)
		return strings.Join(parts, "|")
	case "vget":
		var o []resource.ReadOption
		if m := parseMask(t[1]); m != nil {
			o = append(o, resource.WithReadMask(m))
		}
		return "ok|" + c.cross("Value.Get/ret", c.val.Get(o...))
	case "vpull":
		uo := t[2] == "1" || t[2] == "true"
		expectSeed := !uo && !isNilMsg(c.val.Get())
		ctx, cancel := context.WithCancel(context.Background())
		st := &stream{cancel: cancel}
		ch := c.val.Pull(ctx, ropts(t[1], uo)...)
		go func() {
			for e := range ch {
				st.mu.Lock()
				st.got = append(st.got, e)
				st.mu.Unlock()
			}
		}()
		c.vstreams = append(c.vstreams, st)
		if !expectSeed {
			return "ok|-"
		}
		ev := st.take(1)
		if ev == nil {
			return "ok|<missing seed>"
		}
		return "ok|" + c.cross(fmt.Sprintf("Value.Pull#%d/seed", len(c.vstreams)-1), ev[0].(*resource.ValueChange).Value)
	case "vclose", "cclose":
		i, _ := strconv.Atoi(t[1])
		ss := c.vstreams
		if t[0] == "cclose" {
			ss = c.cstreams
		}
		if i < len(ss) && !ss[i].closed {
			ss[i].closed = true
			ss[i].cancel()
		}
		return "ok"
	case "cupd":
		k, _ := strconv.Atoi(t[2])
		if k >= len(c.srcs) {
			return "!bad-op"
		}
		res, err := c.coll.Update(id(t[1]), c.srcs[k], c.wopts(t[3], t[4], t[5], t[6], t[7], t[8])...)
		if err != nil {
			return errName(err)
		}
		parts := []string{"ok", c.cross("Collection.Update/ret", res)}
		c.cevents(&parts, c.idmap(id(t[1])), false)
		return strings.Join(parts, "|")
	case "cdel":
		res, err := c.coll.Delete(id(t[1]), c.wopts("-", "-", "-", "-", t[2], t[3])...)
		if err != nil {
			parts := []string{errName(err)}
			if !isNilMsg(res) {
				parts = append(parts, c.cross("Collection.Delete/ret", res))
			}
			return strings.Join(parts, "|")
		}
		if isNilMsg(res) {
			return "ok|-"
		}
		parts := []string{"ok", c.cross("Collection.Delete/ret", res)}
		c.cevents(&parts, c.idmap(id(t[1])), true)
		return strings.Join(parts, "|")
	case "cget":
		var o []resource.ReadOption
		if m := parseMask(t[2]); m != nil {
			o = append(o, resource.WithReadMask(m))
		}
		res, ok := c.coll.Get(id(t[1]), o...)
		if !ok {
			return "ok|-"
		}
		return "ok|" + c.cross("Collection.Get/ret", res)
	case "clist":
		var o []resource.ReadOption
		if m := parseMask(t[1]); m != nil {
			o = append(o, resource.WithReadMask(m))
		}
		parts := []string{"ok"}
		for _, m := range c.coll.List(o...) {
			parts = append(parts, c.cross("Collection.List/ret[]", m))
		}
		return strings.Join(parts, "|")
	case "cpullid":
		uo := t[3] == "1" || t[3] == "true"
		mapped := c.idmap(id(t[1]))
		_, exists := c.coll.Get(id(t[1]))
		ctx, cancel := context.WithCancel(context.Background())
		st := &stream{cancel: cancel, pullID: mapped}
		ch := c.coll.PullID(ctx, id(t[1]), ropts(t[2], uo)...)
		go func() {
			for e := range ch {
				st.mu.Lock()
				st.got = append(st.got, e)
				st.mu.Unlock()
			}
			st.mu.Lock()
			st.done = true
			st.mu.Unlock()
		}()
		c.cstreams = append(c.cstreams, st)
		if uo || !exists {
			return "ok|-"
		}
		ev := st.take(1)
		if ev == nil {
			return "ok|<missing seed>"
		}
		return "ok|" + c.cross(fmt.Sprintf("Collection.PullID#%d/seed", len(c.cstreams)-1), ev[0].(*resource.ValueChange).Value)
	case "cpull":
		uo := t[2] == "1" || t[2] == "true"
		nseed := 0
		if !uo {
			nseed = len(c.coll.List())
		}
		ctx, cancel := context.WithCancel(context.Background())
		st := &stream{cancel: cancel}
		ch := c.coll.Pull(ctx, ropts(t[1], uo)...)
		go func() {
			for e := range ch {
				st.mu.Lock()
				st.got = append(st.got, e)
				st.mu.Unlock()
			}
		}()
		c.cstreams = append(c.cstreams, st)
		parts := []string{"ok"}
		if nseed > 0 {
			evs := st.take(nseed)
			if evs == nil {
				return "ok|<missing seeds>"
			}
			for _, e := range evs {
				parts = append(parts, c.cross(fmt.Sprintf("Collection.Pull#%d/seed", len(c.cstreams)-1), e.(*resource.CollectionChange).NewValue))
			}
		}
		return strings.Join(parts, "|")
	}
	return "!bad-op"
}

func (c *coreRun) audit() string {
	p := make([]string, len(c.pubs))
	for i, m := range c.pubs {
		p[i] = showMsg(m)
	}
	o := make([]string, len(c.srcs))
	for i, m := range c.srcs {
		o[i] = showMsg(m)
	}
	return "pub=" + strings.Join(p, ";") + " own=" + strings.Join(o, ";")
}

// storeImage is the stored state as a caller can see it without masks (content only).
func (c *coreRun) storeImage() string {
	parts := []string{showMsg(c.val.Get())}
	for _, m := range c.coll.List() {
		parts = append(parts, showMsg(m))
	}
	return strings.Join(parts, ";")
}

var readOps = map[string]bool{"vget": true, "vpull": true, "cget": true, "clist": true, "cpull": true, "cpullid": true, "vclose": true, "cclose": true}

// runCoreSeq executes cs on the real code (monitor) and, if drv != nil, on the Lean model (tie).
func runCoreSeq(cs coreSeq, tie *lib.Tie, mon *lib.Monitor, drv *lib.Driver) {
	c := newCoreRun(cs.Init)
	defer c.close()
	lines := []string{cs.Init}
	code := []string{"ok"}
	input := func(n int) map[string]any {
		return map[string]any{"kind": "core", "init": cs.Init, "ops": cs.Ops[:n]}
	}
	for i, op := range cs.Ops {
		c.step = i
		c.tr.setStep(i)
		kind := strings.Fields(op)[0]
		before := ""
		if readOps[kind] || kind == "mutate" || kind == "alloc" {
			before = c.storeImage()
		}
		ans, _ := c.exec(op)
		lines = append(lines, op, "audit")
		code = append(code, ans, c.audit())
		if mon != nil {
			mon.Count("op:" + kind)
			if strings.HasPrefix(ans, "err:") {
				mon.Count(strings.SplitN(ans, "|", 2)[0])
			}
			if strings.HasPrefix(ans, "panic:") {
				mon.Violate("C07/core/"+kind+"/panic", "operation panicked", input(i+1), "no panic", ans)
			}
			for _, s := range c.tr.changed() {
				mon.Violate(fmt.Sprintf("C07/core/%s/changed-by/%s", s.Origin, kind),
					fmt.Sprintf("a message that crossed the API at op %d (%s) changed after op %d (%s)", s.Step, s.Origin, i, op),
					input(i+1), showMsg(s.copy), showMsg(s.ptr))
			}
			if before != "" {
				if after := c.storeImage(); after != before {
					what := "a read-only operation changed the stored state"
					if kind == "mutate" || kind == "alloc" {
						what = "the caller editing its own message changed the stored state"
					}
					mon.Violate("C07/core/store-changed-by/"+kind, what, input(i+1), before, after)
				}
			}
		}
	}
	if mon != nil {
		mon.Eval(strings.Join(cs.Ops, "\n"), len(c.pubs) >= 3, nil)
	}
	if tie != nil && drv != nil {
		model, err := drv.Batch(lines)
		if err != nil {
			tie.Fail(err)
			return
		}
		// compare answer by answer; report the first difference with the prefix that produced it
		for j := range code {
			if j >= len(model) || model[j] != code[j] {
				m := "<no answer>"
				if j < len(model) {
					m = model[j]
				}
				nops := j / 2
				if nops > len(cs.Ops) {
					nops = len(cs.Ops)
				}
				in := input(nops)
				in["line"] = lines[j]
				tie.Record(strings.Join(cs.Ops, "\n"), true, in, m, code[j])
				return
			}
		}
		tie.Record(strings.Join(cs.Ops, "\n"), len(c.pubs) >= 3, input(len(cs.Ops)), strings.Join(model[len(model)-1:], ""), strings.Join(code[len(code)-1:], ""))
	}
}

// --- generator ----------------------------------------------------------------------------------

func genMask(r *rand.Rand, nilP int) string {
	if r.Intn(100) < nilP {
		return "-"
	}
	if r.Intn(12) == 0 {
		return "0"
	}
	s := ""
	for i := 0; i < 4; i++ {
		if r.Intn(2) == 0 {
			s += string(rune('a' + i))
		}
	}
	if s == "" {
		return "0"
	}
	return s
}

func genVals(r *rand.Rand) string {
	return fmt.Sprintf("%d,%d,%d,%d", r.Intn(4), r.Intn(3), r.Intn(4), r.Intn(3))
}

func genCb(r *rand.Rand) string {
	switch r.Intn(6) {
	case 0:
		return "add:" + string(rune('a'+r.Intn(3)))
	case 1:
		f := r.Intn(4)
		return fmt.Sprintf("set:%c:%d", rune('a'+f), 1+r.Intn(2))
	}
	return "-"
}

func genCoreSeq(r *rand.Rand, n int) coreSeq {
	cs := coreSeq{Kind: "core"}
	w := "-"
	if r.Intn(3) == 0 {
		w = genMask(r, 0)
	}
	iv := "-"
	if r.Intn(3) != 0 {
		iv = genVals(r)
	}
	im := "-"
	if r.Intn(3) == 0 {
		im = "mod2"
	}
	cs.Init = "init " + w + " " + iv + " " + im
	nsrc, nv, nc := 0, 0, 0
	known := []string{} // values seen, used for expected values
	exp := func() string {
		if r.Intn(8) == 0 {
			return fmt.Sprintf("chk:%c:%d:%s", rune('a'+r.Intn(4)), r.Intn(3), []string{"FP", "IA"}[r.Intn(2)])
		}
		if r.Intn(5) == 0 {
			if len(known) > 0 && r.Intn(3) != 0 {
				return known[r.Intn(len(known))]
			}
			return genVals(r)
		}
		return "-"
	}
	for len(cs.Ops) < n {
		if nsrc == 0 || r.Intn(6) == 0 {
			v := genVals(r)
			known = append(known, v)
			cs.Ops = append(cs.Ops, "alloc "+v)
			nsrc++
			continue
		}
		k := r.Intn(nsrc)
		if r.Intn(3) != 0 {
			k = nsrc - 1
		}
		switch x := r.Intn(20); {
		case x < 2:
			cs.Ops = append(cs.Ops, fmt.Sprintf("mutate %d %s", k, genVals(r)))
		case x < 6:
			cs.Ops = append(cs.Ops, fmt.Sprintf("vset %d %s %s %s %s %s", k, genMask(r, 60), genMask(r, 85), genCb(r), genCb(r), exp()))
		case x < 8:
			cs.Ops = append(cs.Ops, "vget "+genMask(r, 60))
		case x < 9 && nv < 3:
			cs.Ops = append(cs.Ops, fmt.Sprintf("vpull %s %d", genMask(r, 60), r.Intn(4)/3))
			nv++
		case x < 10 && nv > 0 && r.Intn(3) == 0:
			cs.Ops = append(cs.Ops, fmt.Sprintf("vclose %d", r.Intn(nv)))
		case x < 14:
			flags := []string{"c", "c", "-", "-", "cx", "x"}[r.Intn(6)]
			cs.Ops = append(cs.Ops, fmt.Sprintf("cupd %d %d %s %s %s %s %s %s", r.Intn(3), k, genMask(r, 60), genMask(r, 85), genCb(r), genCb(r), exp(), flags))
		case x < 15:
			cs.Ops = append(cs.Ops, fmt.Sprintf("cdel %d %s %s", r.Intn(3), exp(), []string{"-", "m"}[r.Intn(2)]))
		case x < 16:
			cs.Ops = append(cs.Ops, fmt.Sprintf("cget %d %s", r.Intn(3), genMask(r, 60)))
		case x < 17:
			cs.Ops = append(cs.Ops, "clist "+genMask(r, 60))
		case x < 18 && nc < 4:
			if r.Intn(2) == 0 {
				cs.Ops = append(cs.Ops, fmt.Sprintf("cpull %s %d", genMask(r, 60), r.Intn(4)/3))
			} else {
				cs.Ops = append(cs.Ops, fmt.Sprintf("cpullid %d %s %d", r.Intn(3), genMask(r, 60), r.Intn(4)/3))
			}
			nc++
		case x < 19 && nc > 0 && r.Intn(3) == 0:
			cs.Ops = append(cs.Ops, fmt.Sprintf("cclose %d", r.Intn(nc)))
		}
	}
	return cs
}

func runCore(f lib.Flags, res *lib.Result) {
	tie := res.Tie("core-heap", "K1",
		"random op sequences (alloc/mutate caller messages; Value Set/Get/Pull/close; Collection Update(Add)/Delete/Get/List/Pull/close; "+
			"update masks, read masks, reset masks, writable fields, named interceptors, expected values, named expected checks, id interceptor, 0-3 open streams with backpressure) executed on "+
			"resource.Value/Collection and on the Lean heap model; compared after EVERY op: the answer (results + events per stream) and the current "+
			"contents of every published reference and of every caller-owned message; non-trivial = at least 3 messages crossed the boundary; distinct = distinct op sequences")
	mon := res.Monitor("snapshot-core",
		"the same sequences under the snapshot monitor: every message crossing the boundary is deep-copied when it crosses and compared after every later op; "+
			"read-only ops and caller edits must leave the stored state (Get + List without masks) unchanged; independent of the Lean model")
	drv, err := lib.StartDriver(f.Driver)
	if err != nil {
		tie.Fail(err)
	} else {
		defer drv.Close()
	}
	r := lib.NewRand(f.Seed)
	n := f.N(400, 12000)
	for i := 0; i < n; i++ {
		ln := 4 + i%28
		if i < 40 {
			ln = 3 + i/8 // small cases first
		}
		cs := genCoreSeq(r, ln)
		if !begin(mon, "core", fmt.Sprint(i), cs) {
			continue
		}
		runCoreSeq(cs, tie, mon, drv)
		if tie.Error != "" {
			break
		}
	}
	for k, v := range mon.Distribution {
		tie.Distribution[k] = v
	}
}
