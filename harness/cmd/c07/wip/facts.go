package main

// K3 fact extractor for C07 (go/parser + go/ast only). Writes lean/ScVerif/Generated/C07Facts.lean:
//
//   discoveredModels  constructors in pkg/trait/* that return a struct holding a *resource.Value or
//                     *resource.Collection (the stateful trait models), read from the source tree
//   drivenModels      the rows of this harness's hand-listed modelTable
//   interceptors      one row per resource.InterceptBefore/InterceptAfter argument in pkg/trait: does the
//                     closure (and the package-local functions it calls) write through its `old` parameter?
//   pullLoops         one row per loop over a resource Pull/PullID channel in pkg/trait: does the loop
//                     write through the change it received?
//
// The purity analysis is a small syntactic taint tracker: depth 0 = the object belongs to the stored
// message, depth 1 = a fresh container whose elements still belong to it. Only DEFINITE writes make a
// row impure: an assignment/++ through a depth-0 object, append/copy/sort/proto.Merge/proto.Reset/Reset()
// on one (followed through closures and functions of the same package). Where the tracker cannot see
// (the stored message handed to a function of another package, an unknown method, a receive that is not a
// range loop) the row stays pure and the place is listed under `unknown`: undecided cases are left to the
// snapshot monitor, they never fail the theorem.

import (
	"fmt"
	"go/ast"
	"go/parser"
	"go/token"
	"os"
	"path/filepath"
	"sort"
	"strings"

	"github.com/smart-core-os/sc-golang/verifharness/lib"
)

const clean = 99

type pkgInfo struct {
	dir   string
	subs  map[string]*pkgInfo
	name  string
	fset  *token.FileSet
	files []*ast.File
	funcs map[string]*ast.FuncDecl // by name (methods too: last wins, names are unique enough per package)
}

func loadPkg(dir string) (*pkgInfo, error) {
	fset := token.NewFileSet()
	ents, err := os.ReadDir(dir)
	if err != nil {
		return nil, err
	}
	p := &pkgInfo{dir: dir, subs: map[string]*pkgInfo{}, name: filepath.Base(dir), fset: fset, funcs: map[string]*ast.FuncDecl{}}
	for _, e := range ents {
		n := e.Name()
		if e.IsDir() || !strings.HasSuffix(n, ".go") || strings.HasSuffix(n, "_test.go") || strings.HasSuffix(n, ".pb.go") {
			continue
		}
		f, err := parser.ParseFile(fset, filepath.Join(dir, n), nil, 0)
		if err != nil {
			return nil, err
		}
		p.files = append(p.files, f)
		for _, d := range f.Decls {
			if fd, ok := d.(*ast.FuncDecl); ok && fd.Body != nil {
				p.funcs[fd.Name.Name] = fd
			}
		}
	}
	return p, nil
}

type analysis struct {
	p       *pkgInfo
	writes  []string
	unknown []string // places where the stored message is handed to code the tracker cannot see into: NOT counted as writes
	depthG  int      // recursion guard
}

type scope struct {
	env      map[string]int
	closures map[string]*ast.FuncLit
	pullChan map[string]bool
	ret      int
}

func newScope() *scope {
	return &scope{env: map[string]int{}, closures: map[string]*ast.FuncLit{}, pullChan: map[string]bool{}, ret: clean}
}

func exprPath(e ast.Expr) string {
	switch x := e.(type) {
	case *ast.Ident:
		return x.Name
	case *ast.SelectorExpr:
		if b := exprPath(x.X); b != "" {
			return b + "." + x.Sel.Name
		}
	case *ast.ParenExpr:
		return exprPath(x.X)
	}
	return ""
}

func (a *analysis) pos(n ast.Node) string {
	p := a.p.fset.Position(n.Pos())
	return fmt.Sprintf("%s:%d", filepath.Base(p.Filename), p.Line)
}

func (a *analysis) flag(n ast.Node, what string) {
	w := a.pos(n) + " " + what
	for _, x := range a.writes {
		if x == w {
			return
		}
	}
	a.writes = append(a.writes, w)
}

// note records something the tracker cannot decide; the snapshot monitor is what covers it.
func (a *analysis) note(n ast.Node, what string) {
	w := a.pos(n) + " " + what
	for _, x := range a.unknown {
		if x == w {
			return
		}
	}
	a.unknown = append(a.unknown, w)
}

func minDepth(x, y int) int {
	if x < y {
		return x
	}
	return y
}

var readOnlyFuncs = map[string]bool{
	"len": true, "cap": true, "string": true, "int": true, "int32": true, "int64": true, "float32": true, "float64": true, "bool": true,
	"proto.Equal": true, "proto.Size": true, "proto.Clone": true, "sort.Search": true, "sort.SliceIsSorted": true,
	"fmt.Sprintf": true, "fmt.Sprint": true, "fmt.Errorf": true, "timestamppb.New": true, "errors.Is": true, "panic": true,
	"status.Errorf": true, "status.Error": true, "math.Abs": true, "math.Max": true, "math.Min": true, "min": true, "max": true,
}

var writerFuncs = map[string]bool{
	"proto.Merge": true, "proto.Reset": true, "sort.Slice": true, "sort.SliceStable": true, "sort.Sort": true, "sort.Stable": true,
	"slices.Sort": true, "slices.SortFunc": true, "slices.SortStableFunc": true, "slices.Reverse": true, "copy": true, "clear": true, "delete": true,
	"fmutils.Filter": true, "fmutils.Prune": true,
}

// depth computes the taint depth of e and flags writes performed while evaluating it.
func (a *analysis) depth(sc *scope, e ast.Expr) int {
	switch x := e.(type) {
	case nil:
		return clean
	case *ast.Ident:
		if d, ok := sc.env[x.Name]; ok {
			return d
		}
		return clean
	case *ast.ParenExpr:
		return a.depth(sc, x.X)
	case *ast.TypeAssertExpr:
		return a.depth(sc, x.X)
	case *ast.StarExpr:
		if d := a.depth(sc, x.X); d != clean {
			return d + 1 // a value copy: only what it points to is shared
		}
		return clean
	case *ast.UnaryExpr:
		return a.depth(sc, x.X)
	case *ast.SelectorExpr:
		if p := exprPath(x); p != "" {
			if d, ok := sc.env[p]; ok {
				return d
			}
		}
		if d := a.depth(sc, x.X); d != clean {
			if d > 0 {
				return d - 1
			}
			return 0
		}
		return clean
	case *ast.IndexExpr:
		a.depth(sc, x.Index)
		if d := a.depth(sc, x.X); d != clean {
			return 0
		}
		return clean
	case *ast.SliceExpr:
		return a.depth(sc, x.X)
	case *ast.CompositeLit:
		r := clean
		for _, el := range x.Elts {
			v := el
			if kv, ok := el.(*ast.KeyValueExpr); ok {
				v = kv.Value
			}
			if a.depth(sc, v) != clean {
				r = 1
			}
		}
		return r
	case *ast.BinaryExpr:
		a.depth(sc, x.X)
		a.depth(sc, x.Y)
		return clean
	case *ast.FuncLit:
		return clean
	case *ast.CallExpr:
		return a.call(sc, x)
	}
	return clean
}

func funName(e ast.Expr) string {
	switch x := e.(type) {
	case *ast.Ident:
		return x.Name
	case *ast.SelectorExpr:
		if id, ok := x.X.(*ast.Ident); ok {
			return id.Name + "." + x.Sel.Name
		}
		return "(…)." + x.Sel.Name
	}
	return ""
}

func (a *analysis) call(sc *scope, c *ast.CallExpr) int {
	name := funName(c.Fun)
	args := make([]int, len(c.Args))
	for i, ar := range c.Args {
		args[i] = a.depth(sc, ar)
	}
	switch {
	case name == "append":
		if len(args) == 0 {
			return clean
		}
		if args[0] == 0 {
			a.flag(c, "append to a slice of the stored message (writes in place when capacity allows): "+exprPath(c.Args[0]))
			return 0
		}
		r := args[0]
		for _, d := range args[1:] {
			if d != clean && r == clean {
				r = 1
			} else if d != clean && r > 1 {
				r = 1
			}
		}
		return r
	case name == "make" || name == "new":
		return clean
	case name == "slices.Clone":
		if args[0] != clean {
			return 1
		}
		return clean
	case writerFuncs[name]:
		if len(args) > 0 && args[0] == 0 {
			a.flag(c, name+" on the stored message: "+exprPath(c.Args[0]))
		}
		return clean
	case readOnlyFuncs[name]:
		return clean
	}
	// conversion or type-parameterised helper written as a call on a type: T(x)
	if len(c.Args) == 1 {
		if _, isType := c.Fun.(*ast.ArrayType); isType {
			return args[0]
		}
	}
	// local closure
	if id, ok := c.Fun.(*ast.Ident); ok {
		if fl, ok := sc.closures[id.Name]; ok {
			return a.analyzeFunc(fl.Type, fl.Body, args, sc)
		}
		if fd, ok := a.p.funcs[id.Name]; ok {
			return a.analyzeFunc(fd.Type, fd.Body, args, nil)
		}
	}
	if sel, ok := c.Fun.(*ast.SelectorExpr); ok {
		recv := a.depth(sc, sel.X)
		// getters and reflection-free readers on a message
		if strings.HasPrefix(sel.Sel.Name, "Get") || sel.Sel.Name == "String" || sel.Sel.Name == "AsTime" || sel.Sel.Name == "AsDuration" || sel.Sel.Name == "Number" {
			if recv != clean {
				return 0
			}
			return clean
		}
		if sel.Sel.Name == "Reset" && recv == 0 {
			a.flag(c, "Reset on the stored message: "+exprPath(sel.X))
			return clean
		}
		// method of this package (e.g. m.presetForValue(old.States))
		if fd, ok := a.p.funcs[sel.Sel.Name]; ok && fd.Recv != nil {
			if _, isPkg := sel.X.(*ast.Ident); isPkg && recv == clean {
				return a.analyzeFunc(fd.Type, fd.Body, args, nil)
			}
		}
		if recv == 0 {
			a.note(c, "method "+sel.Sel.Name+" called on the stored message")
			return clean
		}
	}
	for i, d := range args {
		if d == 0 && !a.byValueParam(c, i) {
			a.note(c, "the stored message is passed to "+name+" (argument "+fmt.Sprint(i)+")")
		}
	}
	return clean
}

// byValueParam reports whether argument i of a call to sub.F, F declared in a sub-package directory of the
// analysed package, is received by value through a non-reference type (so the callee cannot write through it).
func (a *analysis) byValueParam(c *ast.CallExpr, i int) bool {
	sel, ok := c.Fun.(*ast.SelectorExpr)
	if !ok {
		return false
	}
	id, ok := sel.X.(*ast.Ident)
	if !ok {
		return false
	}
	sub, ok := a.p.subs[id.Name]
	if !ok {
		sub, _ = loadPkg(filepath.Join(a.p.dir, id.Name))
		a.p.subs[id.Name] = sub
	}
	if sub == nil {
		return false
	}
	fd, ok := sub.funcs[sel.Sel.Name]
	if !ok || fd.Recv != nil || fd.Type.Params == nil {
		return false
	}
	k := 0
	for _, f := range fd.Type.Params.List {
		n := len(f.Names)
		if n == 0 {
			n = 1
		}
		for j := 0; j < n; j++ {
			if k == i {
				switch f.Type.(type) {
				case *ast.Ident, *ast.SelectorExpr:
					return true // a named non-pointer type passed by value
				}
				return false
			}
			k++
		}
	}
	return false
}

// analyzeFunc analyses a function body with the given parameter depths; returns the depth of what it returns.
func (a *analysis) analyzeFunc(ft *ast.FuncType, body *ast.BlockStmt, args []int, outer *scope) int {
	if a.depthG > 6 || body == nil {
		return clean
	}
	a.depthG++
	defer func() { a.depthG-- }()
	sc := newScope()
	if outer != nil {
		for k, v := range outer.env {
			sc.env[k] = v
		}
		for k, v := range outer.closures {
			sc.closures[k] = v
		}
	}
	i := 0
	if ft.Params != nil {
		for _, f := range ft.Params.List {
			_, variadic := f.Type.(*ast.Ellipsis)
			for _, n := range f.Names {
				d := clean
				if variadic {
					for j := i; j < len(args); j++ {
						if args[j] != clean {
							d = 1
						}
					}
				} else if i < len(args) {
					d = args[i]
				}
				if d != clean {
					sc.env[n.Name] = d
				} else {
					delete(sc.env, n.Name)
				}
				i++
			}
		}
	}
	a.block(sc, body.List)
	return sc.ret
}

func (a *analysis) assignTo(sc *scope, lhs ast.Expr, d int, rhs ast.Expr) {
	switch l := lhs.(type) {
	case *ast.Ident:
		if l.Name == "_" {
			return
		}
		if d != clean {
			sc.env[l.Name] = d
		} else {
			delete(sc.env, l.Name)
			for k := range sc.env { // forget recorded paths below a reassigned variable
				if strings.HasPrefix(k, l.Name+".") {
					delete(sc.env, k)
				}
			}
		}
		if fl, ok := rhs.(*ast.FuncLit); ok {
			sc.closures[l.Name] = fl
		}
		if c, ok := rhs.(*ast.CallExpr); ok && isPullCall(c) {
			sc.pullChan[l.Name] = true
		}
	case *ast.SelectorExpr:
		if a.depth(sc, l.X) == 0 {
			a.flag(lhs, "assignment through the stored message: "+exprPath(lhs))
			return
		}
		if p := exprPath(lhs); p != "" {
			if d != clean {
				sc.env[p] = d
			} else {
				delete(sc.env, p)
			}
		}
	case *ast.IndexExpr:
		if a.depth(sc, l.X) == 0 {
			a.flag(lhs, "element assignment in a slice/map of the stored message: "+exprPath(l.X))
		}
	case *ast.StarExpr:
		if a.depth(sc, l.X) == 0 {
			a.flag(lhs, "assignment through a pointer into the stored message")
		}
	}
}

func isPullCall(c *ast.CallExpr) bool {
	sel, ok := c.Fun.(*ast.SelectorExpr)
	return ok && (sel.Sel.Name == "Pull" || sel.Sel.Name == "PullID")
}

func (a *analysis) block(sc *scope, stmts []ast.Stmt) {
	for _, s := range stmts {
		a.stmt(sc, s)
	}
}

func (a *analysis) stmt(sc *scope, s ast.Stmt) {
	switch x := s.(type) {
	case *ast.AssignStmt:
		if len(x.Lhs) == len(x.Rhs) {
			ds := make([]int, len(x.Rhs))
			for i, r := range x.Rhs {
				ds[i] = a.depth(sc, r)
			}
			for i, l := range x.Lhs {
				a.assignTo(sc, l, ds[i], x.Rhs[i])
			}
		} else if len(x.Rhs) == 1 {
			d := a.depth(sc, x.Rhs[0])
			for i, l := range x.Lhs {
				if i == 0 {
					a.assignTo(sc, l, d, x.Rhs[0])
				} else {
					a.assignTo(sc, l, clean, nil)
				}
			}
		}
	case *ast.IncDecStmt:
		switch l := x.X.(type) {
		case *ast.SelectorExpr:
			if a.depth(sc, l.X) == 0 {
				a.flag(x, "++/-- through the stored message: "+exprPath(l))
			}
		case *ast.IndexExpr:
			if a.depth(sc, l.X) == 0 {
				a.flag(x, "++/-- on an element of the stored message")
			}
		case *ast.StarExpr:
			if a.depth(sc, l.X) == 0 {
				a.flag(x, "++/-- through a pointer into the stored message")
			}
		}
	case *ast.ExprStmt:
		a.depth(sc, x.X)
	case *ast.DeclStmt:
		if gd, ok := x.Decl.(*ast.GenDecl); ok {
			for _, sp := range gd.Specs {
				if vs, ok := sp.(*ast.ValueSpec); ok {
					for i, n := range vs.Names {
						d := clean
						var rhs ast.Expr
						if i < len(vs.Values) {
							rhs = vs.Values[i]
							d = a.depth(sc, rhs)
						}
						a.assignTo(sc, n, d, rhs)
					}
				}
			}
		}
	case *ast.ReturnStmt:
		for _, r := range x.Results {
			sc.ret = minDepth(sc.ret, a.depth(sc, r))
		}
	case *ast.BlockStmt:
		a.block(sc, x.List)
	case *ast.IfStmt:
		if x.Init != nil {
			a.stmt(sc, x.Init)
		}
		a.depth(sc, x.Cond)
		a.block(sc, x.Body.List)
		if x.Else != nil {
			a.stmt(sc, x.Else)
		}
	case *ast.ForStmt:
		if x.Init != nil {
			a.stmt(sc, x.Init)
		}
		for pass := 0; pass < 2; pass++ {
			a.block(sc, x.Body.List)
			if x.Post != nil {
				a.stmt(sc, x.Post)
			}
		}
	case *ast.RangeStmt:
		d := a.depth(sc, x.X)
		if id, ok := x.X.(*ast.Ident); ok && sc.pullChan[id.Name] {
			d = 1
		}
		if c, ok := x.X.(*ast.CallExpr); ok && isPullCall(c) {
			d = 1
		}
		ed := clean
		if d != clean {
			ed = 0
		}
		if x.Value != nil {
			a.assignTo(sc, x.Value, ed, nil)
		} else if x.Key != nil && d != clean {
			// ranging over a channel: the key position holds the element
			if _, isChan := x.X.(*ast.CallExpr); isChan || (func() bool { id, ok := x.X.(*ast.Ident); return ok && sc.pullChan[id.Name] })() {
				a.assignTo(sc, x.Key, ed, nil)
			}
		}
		for pass := 0; pass < 2; pass++ {
			a.block(sc, x.Body.List)
		}
	case *ast.SwitchStmt:
		if x.Init != nil {
			a.stmt(sc, x.Init)
		}
		for _, c := range x.Body.List {
			a.block(sc, c.(*ast.CaseClause).Body)
		}
	case *ast.TypeSwitchStmt:
		for _, c := range x.Body.List {
			a.block(sc, c.(*ast.CaseClause).Body)
		}
	case *ast.SelectStmt:
		for _, c := range x.Body.List {
			cc := c.(*ast.CommClause)
			if cc.Comm != nil {
				a.stmt(sc, cc.Comm)
			}
			a.block(sc, cc.Body)
		}
	case *ast.SendStmt:
		a.depth(sc, x.Value)
	case *ast.GoStmt:
		if fl, ok := x.Call.Fun.(*ast.FuncLit); ok {
			a.block(sc, fl.Body.List)
		}
	case *ast.DeferStmt:
		if fl, ok := x.Call.Fun.(*ast.FuncLit); ok {
			a.block(sc, fl.Body.List)
		}
	}
}

type factRow struct {
	Site    string
	Kind    string
	Pure    bool
	Writes  []string
	Unknown []string
}

// resolveInterceptor finds the function literal or declaration an InterceptBefore/After argument denotes.
func (a *analysis) resolveInterceptor(arg ast.Expr) (*ast.FuncType, *ast.BlockStmt, bool) {
	switch x := arg.(type) {
	case *ast.FuncLit:
		return x.Type, x.Body, true
	case *ast.Ident:
		if fd, ok := a.p.funcs[x.Name]; ok {
			return fd.Type, fd.Body, true
		}
	case *ast.SelectorExpr: // method value m.DeriveValues
		if fd, ok := a.p.funcs[x.Sel.Name]; ok {
			return fd.Type, fd.Body, true
		}
	case *ast.CallExpr: // m.relativeAdjustment(...) returning a closure
		name := ""
		switch f := x.Fun.(type) {
		case *ast.Ident:
			name = f.Name
		case *ast.SelectorExpr:
			name = f.Sel.Name
		}
		if fd, ok := a.p.funcs[name]; ok {
			var fl *ast.FuncLit
			ast.Inspect(fd.Body, func(n ast.Node) bool {
				if r, ok := n.(*ast.ReturnStmt); ok && fl == nil {
					for _, res := range r.Results {
						if l, ok := res.(*ast.FuncLit); ok {
							fl = l
						}
					}
				}
				return true
			})
			if fl != nil {
				return fl.Type, fl.Body, true
			}
		}
	}
	return nil, nil, false
}

func traitDirs() ([]string, error) {
	root := filepath.Join(lib.RepoRoot(), "pkg", "trait")
	ents, err := os.ReadDir(root)
	if err != nil {
		return nil, err
	}
	var out []string
	for _, e := range ents {
		if e.IsDir() {
			out = append(out, filepath.Join(root, e.Name()))
		}
	}
	sort.Strings(out)
	return out, nil
}

// holdsResource reports whether struct type name in p has a field of type *resource.Value / *resource.Collection,
// directly or through a pointer to another struct of the package (a server holding its model).
func holdsResource(p *pkgInfo, typeName string) bool { return holdsResourceN(p, typeName, 0) }

func holdsResourceN(p *pkgInfo, typeName string, depth int) bool {
	if depth > 2 {
		return false
	}
	found := false
	for _, f := range p.files {
		ast.Inspect(f, func(n ast.Node) bool {
			ts, ok := n.(*ast.TypeSpec)
			if !ok || ts.Name.Name != typeName {
				return true
			}
			st, ok := ts.Type.(*ast.StructType)
			if !ok {
				return true
			}
			for _, fl := range st.Fields.List {
				se, ok := fl.Type.(*ast.StarExpr)
				if !ok {
					continue
				}
				switch x := se.X.(type) {
				case *ast.SelectorExpr:
					if n := funName(x); n == "resource.Value" || n == "resource.Collection" {
						found = true
					}
				case *ast.Ident:
					if x.Name != typeName && holdsResourceN(p, x.Name, depth+1) {
						found = true
					}
				}
			}
			return true
		})
	}
	return found
}

func leanStr(s string) string {
	return "\"" + strings.NewReplacer("\\", "\\\\", "\"", "\\\"", "\n", " ").Replace(s) + "\""
}

func leanList(xs []string) string {
	q := make([]string, len(xs))
	for i, x := range xs {
		q[i] = leanStr(x)
	}
	return "[" + strings.Join(q, ", ") + "]"
}

func writeFacts(path string) error {
	dirs, err := traitDirs()
	if err != nil {
		return err
	}
	var discovered []string
	var icpt, pulls []factRow
	for _, dir := range dirs {
		p, err := loadPkg(dir)
		if err != nil {
			return err
		}
		// model constructors
		for name, fd := range p.funcs {
			if fd.Recv != nil || !strings.HasPrefix(name, "New") || !ast.IsExported(name) || fd.Type.Results == nil || len(fd.Type.Results.List) == 0 {
				continue
			}
			if se, ok := fd.Type.Results.List[0].Type.(*ast.StarExpr); ok {
				if id, ok := se.X.(*ast.Ident); ok && holdsResource(p, id.Name) {
					discovered = append(discovered, p.name+"."+name)
				}
			}
		}
		// interceptors and pull loops
		for _, f := range p.files {
			ast.Inspect(f, func(n ast.Node) bool {
				switch x := n.(type) {
				case *ast.CallExpr:
					name := funName(x.Fun)
					if (name == "resource.InterceptBefore" || name == "resource.InterceptAfter") && len(x.Args) == 1 {
						a := &analysis{p: p}
						row := factRow{Site: p.name + "/" + a.pos(x), Kind: strings.TrimPrefix(name, "resource.")}
						ft, body, ok := a.resolveInterceptor(x.Args[0])
						if !ok {
							// an interceptor the tracker cannot find the body of: undecided, not a write
							row.Unknown = []string{"cannot resolve the interceptor expression"}
						} else {
							a.analyzeFunc(ft, body, []int{0, clean}, nil)
							row.Writes, row.Unknown = a.writes, a.unknown
						}
						row.Pure = len(row.Writes) == 0
						icpt = append(icpt, row)
					}
				case *ast.FuncDecl:
					if x.Body == nil {
						return true
					}
					// loops over resource Pull channels inside this function
					a := &analysis{p: p}
					hasPull := false
					ast.Inspect(x.Body, func(m ast.Node) bool {
						if c, ok := m.(*ast.CallExpr); ok && isPullCall(c) {
							if sel, ok := c.Fun.(*ast.SelectorExpr); ok {
								// only pulls on fields (m.x.Pull), not on other models' typed Pull methods
								if _, ok := sel.X.(*ast.SelectorExpr); ok {
									hasPull = true
								}
							}
						}
						return true
					})
					if hasPull {
						a.analyzeFunc(x.Type, x.Body, nil, nil)
						row := factRow{Site: p.name + "/" + a.pos(x) + " " + x.Name.Name, Kind: "PullLoop", Writes: a.writes, Unknown: a.unknown}
						row.Pure = len(row.Writes) == 0
						pulls = append(pulls, row)
					}
				}
				return true
			})
		}
	}
	sort.Strings(discovered)
	var driven []string
	for _, e := range modelTable {
		driven = append(driven, e.key())
	}
	sort.Strings(driven)
	sort.Slice(icpt, func(i, j int) bool { return icpt[i].Site < icpt[j].Site })
	sort.Slice(pulls, func(i, j int) bool { return pulls[i].Site < pulls[j].Site })

	var b strings.Builder
	b.WriteString("/- GENERATED by harness/cmd/c07 -facts from the source tree on every run. Do not edit, do not commit. -/\n")
	b.WriteString("namespace ScVerif.Generated.C07\n\n")
	b.WriteString("structure Row where\n  site : String\n  kind : String\n  pure : Bool\n  writes : List String\n  unknown : List String\n  deriving Repr\n\n")
	b.WriteString("def discoveredModels : List String := " + leanList(discovered) + "\n\n")
	b.WriteString("def drivenModels : List String := " + leanList(driven) + "\n\n")
	emit := func(name string, rows []factRow) {
		b.WriteString("def " + name + " : List Row := [\n")
		for i, r := range rows {
			sep := ","
			if i == len(rows)-1 {
				sep = ""
			}
			fmt.Fprintf(&b, "  { site := %s, kind := %s, pure := %v, writes := %s, unknown := %s }%s\n", leanStr(r.Site), leanStr(r.Kind), r.Pure, leanList(r.Writes), leanList(r.Unknown), sep)
		}
		b.WriteString("]\n\n")
	}
	emit("interceptors", icpt)
	emit("pullLoops", pulls)
	b.WriteString("end ScVerif.Generated.C07\n")
	return os.WriteFile(path, []byte(b.String()), 0o644)
}
