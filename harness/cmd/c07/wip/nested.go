package main

import (
	"context"
	"fmt"
	"strings"
	"sync"

	"google.golang.org/protobuf/proto"
	"google.golang.org/protobuf/types/known/fieldmaskpb"

	"github.com/smart-core-os/sc-api/go/traits"
	"github.com/smart-core-os/sc-golang/pkg/resource"
	"github.com/smart-core-os/sc-golang/verifharness/cmd/c07/pbgen"
	"github.com/smart-core-os/sc-golang/verifharness/lib"
)

// runNested is the snapshot monitor on the core resources with a NESTED message type (traits.Metadata:
// sub-messages, repeated messages, maps): sharing of sub-objects between the caller's message, the stored
// message and published messages only shows with nesting. No Lean tie here (the heap model's cells are
// whole messages; protobuf's deep Clone/Merge is part of the trusted base) — this monitor is what checks it.
type nestedSeq struct {
	Kind  string `json:"kind"` // "nested"
	Seed  int64  `json:"seed"`
	Seq   int    `json:"seq"`
	Steps int    `json:"steps"`
}

func runNestedSeq(ns nestedSeq, mon *lib.Monitor) {
	r := seqRand(ns.Seed, "core-nested", ns.Seq)
	g := pbgen.New(r)
	g.Density, g.MaxDepth = 0.45, 2
	mt := (&traits.Metadata{}).ProtoReflect().Type()
	md := mt.Descriptor()
	tr := newTracker()
	var vopts []resource.Option
	if r.Intn(2) == 0 {
		vopts = append(vopts, resource.WithInitialValue(g.Message(mt)))
	}
	val := resource.NewValue(vopts...)
	coll := resource.NewCollection()
	var owned []proto.Message
	var trace []string
	var cancels []context.CancelFunc
	var wg sync.WaitGroup
	defer func() {
		for _, c := range cancels {
			c()
		}
	}()
	drainV := func(ch <-chan *resource.ValueChange, name string) {
		wg.Add(1)
		go func() {
			defer wg.Done()
			for e := range ch {
				tr.observe(name+"/event", e.Value)
			}
		}()
	}
	drainC := func(ch <-chan *resource.CollectionChange, name string) {
		wg.Add(1)
		go func() {
			defer wg.Done()
			for e := range ch {
				tr.observe(name+"/event.OldValue", e.OldValue)
				tr.observe(name+"/event.NewValue", e.NewValue)
			}
		}()
	}
	mask := func() *fieldmaskpb.FieldMask {
		if r.Intn(2) == 0 {
			return nil
		}
		return &fieldmaskpb.FieldMask{Paths: g.TopPaths(md, 2)}
	}
	// read masks: nil, empty, or 1-3 paths from the message's path tree (nested, through repeated messages)
	rmask := func() *fieldmaskpb.FieldMask {
		switch r.Intn(10) {
		case 0, 1, 2:
			return nil
		case 3:
			return &fieldmaskpb.FieldMask{}
		}
		return &fieldmaskpb.FieldMask{Paths: g.ReadMaskPaths(md, 3)}
	}
	src := func() proto.Message {
		if len(owned) > 0 && r.Intn(5) == 0 {
			return owned[r.Intn(len(owned))] // re-use a message handed to an earlier write
		}
		m := g.Message(mt)
		owned = append(owned, m)
		return m
	}
	storeImage := func() string {
		parts := []string{txt(val.Get())}
		for _, m := range coll.List() {
			parts = append(parts, txt(m))
		}
		return strings.Join(parts, ";")
	}
	input := func(n int) map[string]any {
		return map[string]any{"kind": "nested", "seed": ns.Seed, "seq": ns.Seq, "steps": n, "trace": tailS(trace, 10)}
	}
	for i := 0; i < ns.Steps; i++ {
		tr.setStep(i)
		op := ""
		readOnly := false
		before := ""
		switch x := r.Intn(16); {
		case x < 3:
			m := src()
			um := mask()
			res, err := val.Set(m, resource.WithUpdateMask(um))
			op = fmt.Sprintf("Value.Set(%s, mask=%v) -> %v", txt(m), um.GetPaths(), err)
			tr.observe("Value.Set/ret", res)
		case x < 5:
			readOnly, before = true, storeImage()
			rm := rmask()
			res := val.Get(resource.WithReadMask(rm))
			op = fmt.Sprintf("Value.Get(mask=%v)", rm.GetPaths())
			tr.observe("Value.Get/ret", res)
		case x < 6 && len(cancels) < 4:
			readOnly, before = true, storeImage()
			ctx, cancel := context.WithCancel(context.Background())
			cancels = append(cancels, cancel)
			rm := rmask()
			drainV(val.Pull(ctx, resource.WithReadMask(rm), resource.WithBackpressure(true)), "Value.Pull")
			op = fmt.Sprintf("Value.Pull(mask=%v)", rm.GetPaths())
		case x < 9:
			m := src()
			um := mask()
			id := g.Str()
			res, err := coll.Update(id, m, resource.WithUpdateMask(um), resource.WithCreateIfAbsent())
			op = fmt.Sprintf("Collection.Update(%s, %s, mask=%v) -> %v", id, txt(m), um.GetPaths(), err)
			tr.observe("Collection.Update/ret", res)
		case x < 10:
			id := g.Str()
			res, err := coll.Delete(id, resource.WithAllowMissing(true))
			op = fmt.Sprintf("Collection.Delete(%s) -> %v", id, err)
			tr.observe("Collection.Delete/ret", res)
		case x < 11:
			readOnly, before = true, storeImage()
			rm := rmask()
			op = fmt.Sprintf("Collection.List(mask=%v)", rm.GetPaths())
			for _, m := range coll.List(resource.WithReadMask(rm)) {
				tr.observe("Collection.List/ret[]", m)
			}
		case x < 12:
			readOnly, before = true, storeImage()
			id := g.Str()
			rm := rmask()
			res, _ := coll.Get(id, resource.WithReadMask(rm))
			op = fmt.Sprintf("Collection.Get(%s, mask=%v)", id, rm.GetPaths())
			tr.observe("Collection.Get/ret", res)
		case x < 13 && len(cancels) < 4:
			readOnly, before = true, storeImage()
			ctx, cancel := context.WithCancel(context.Background())
			cancels = append(cancels, cancel)
			rm := rmask()
			drainC(coll.Pull(ctx, resource.WithReadMask(rm), resource.WithBackpressure(true)), "Collection.Pull")
			op = fmt.Sprintf("Collection.Pull(mask=%v)", rm.GetPaths())
		default:
			if len(owned) == 0 {
				continue
			}
			readOnly, before = true, storeImage()
			m := owned[r.Intn(len(owned))]
			g.Scramble(m)
			op = "caller edits a message it passed earlier: now " + txt(m)
		}
		if op == "" {
			continue
		}
		trace = append(trace, fmt.Sprintf("%d: %s", i, op))
		// let event goroutines run (backpressure: the write returned only after the forwarder took the event)
		quiesce(50)
		kind := strings.SplitN(op, "(", 2)[0]
		if strings.HasPrefix(op, "caller edits") {
			kind = "caller-edit"
		}
		mon.Count("op:" + kind)
		for _, c := range tr.changed() {
			mon.Violate(fmt.Sprintf("C07/core-nested/%s/changed-by/%s", c.Origin, kind),
				fmt.Sprintf("a message that crossed the API at step %d (%s) changed after step %d (%s)", c.Step, c.Origin, i, kind),
				input(i+1), txt(c.copy), txt(c.ptr))
		}
		if readOnly {
			if after := storeImage(); after != before {
				mon.Violate("C07/core-nested/store-changed-by/"+kind, "a read-only operation or a caller edit changed the stored state", input(i+1), before, after)
			}
		}
	}
	mon.Eval(fmt.Sprint(ns.Seq), tr.count() >= 3, nil)
}

func tailS(t []string, n int) []string {
	if len(t) > n {
		return t[len(t)-n:]
	}
	return t
}

func runNested(f lib.Flags, res *lib.Result) {
	mon := res.Monitor("snapshot-core-nested",
		"resource.Value / resource.Collection holding traits.Metadata (nested messages, repeated messages, maps): random Set/Update/Delete/Get/List/Pull with "+
			"top-level update and read masks, re-use of caller messages, caller edits that rewrite every nested part in place; every message crossing the boundary is "+
			"deep-copied and compared after every later step; reads and caller edits must leave the stored state unchanged; non-trivial = at least 3 tracked messages")
	n := f.N(150, 4000)
	for q := 0; q < n; q++ {
		steps := 20
		if q < 10 {
			steps = 4 + 2*q
		}
		ns := nestedSeq{Kind: "nested", Seed: f.Seed, Seq: q, Steps: steps}
		if begin(mon, "core-nested", fmt.Sprint(q), ns) {
			runNestedSeq(ns, mon)
		}
	}
}
