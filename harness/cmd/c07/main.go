// Harness for C07 (messages are isolated: no aliasing between callers and stored state).
//
//   - tie "core-heap" (K1): random op sequences on resource.Value / resource.Collection executed on the
//     real code and on the Lean heap model (driverC07); compared per op: results, events, and the
//     current contents of every message that ever crossed the boundary (published) and of every
//     message the caller handed in (caller-owned, which the code may filter in place);
//   - monitor "snapshot-core": the same sequences under the snapshot monitor (deep copy at crossing,
//     re-compare after every later op), plus read-only ops must leave the stored state unchanged;
//   - tie "core-events" + monitor "snapshot-core-events" (events.go): event OBJECTS shared between subscribers;
//   - monitor "snapshot-models": every trait model in the table driven reflectively under the
//     snapshot monitor;
//   - -facts: K3 tables (model constructors in the tree vs the table driven here; syntactic purity of
//     interceptor closures).
package main

import (
	"encoding/json"
	"fmt"
	"os"
	"runtime"
	"strconv"
	"strings"

	"github.com/smart-core-os/sc-golang/verifharness/lib"
)

func main() {
	// The property is about sequential API use; the code under test still runs its Pull pipelines in goroutines
	// of their own. One P makes "let the pipelines run until they block" (quiesce) mean what it says whatever the
	// load of the machine, so a snapshot is compared when nobody is in the middle of anything: an asynchronous
	// writer to a published message (a pipeline filtering a shared event value in place, say) is then seen as a
	// changed snapshot after the step that triggered it instead of racing with proto.Equal (a Go map written
	// during the comparison kills the process with an unrecoverable fatal error: no replay at all).
	// C07_PROCS overrides (development only).
	procs := 1
	if v, err := strconv.Atoi(os.Getenv("C07_PROCS")); err == nil && v > 0 {
		procs = v
	}
	runtime.GOMAXPROCS(procs)
	f := lib.ParseFlags()
	if f.Facts != "" {
		if err := writeFacts(f.Facts); err != nil {
			lib.Fatal(err)
		}
		return
	}
	// crash isolation (supervise.go): the work is done by a child process
	if os.Getenv("C07_CHILD") == "" && os.Getenv("C07_NO_SUPERVISOR") == "" {
		if f.Replay != "" {
			os.Exit(superviseReplay())
		}
		os.Exit(supervise(f))
	}
	initChild()
	if f.Replay != "" {
		os.Exit(replay(f))
	}
	res := lib.NewResult("C07", f)
	// C07_ONLY=core,models,… restricts the run to the named families (development only)
	only := map[string]bool{}
	for _, n := range strings.Split(os.Getenv("C07_ONLY"), ",") {
		if n != "" {
			only[n] = true
		}
	}
	for _, fam := range []struct {
		name string
		run  func(lib.Flags, *lib.Result)
	}{{"core", runCore}, {"nested", runNested}, {"events", runEvents}, {"rim", runRim}, {"rim2", runRim2}, {"rim3", runRim3},
		{"rim4", runRim4}, {"rim5", runRim5}, {"rim6", runRim6}, {"rim7", runRim7}, {"rim8", runRim8}, {"rim9", runRim9}, {"models", runModels}} {
		if len(only) == 0 || only[fam.name] {
			fam.run(f, res)
		}
	}
	if err := res.Write(f.Out); err != nil {
		lib.Fatal(err)
	}
}

func replay(f lib.Flags) int {
	rp, err := lib.ReadReplay(f.Replay)
	if err != nil {
		lib.Fatal(err)
	}
	in, ok := rp.Input.(map[string]any)
	if !ok {
		fmt.Println("replay: no concrete input in file (", rp.Kind, rp.Broken, ")")
		return 2
	}
	b, _ := json.Marshal(in)
	m := lib.NewMonitor("replay", "")
	switch fmt.Sprint(in["kind"]) {
	case "model":
		var ms modelSeq
		if err := json.Unmarshal(b, &ms); err != nil {
			lib.Fatal(err)
		}
		n := runModelSeq(ms, m)
		fmt.Printf("replay %s seq=%d seed=%d: %d calls\n", ms.Model, ms.Seq, ms.Seed, n)
	case "core":
		var cs coreSeq
		if err := json.Unmarshal(b, &cs); err != nil {
			lib.Fatal(err)
		}
		runCoreSeq(cs, nil, m, nil)
		fmt.Printf("replay core sequence of %d ops\n", len(cs.Ops))
	case "nested":
		var ns nestedSeq
		if err := json.Unmarshal(b, &ns); err != nil {
			lib.Fatal(err)
		}
		runNestedSeq(ns, m)
		fmt.Printf("replay core-nested seq=%d seed=%d steps=%d\n", ns.Seq, ns.Seed, ns.Steps)
	case "mode":
		var c modeCase
		if err := json.Unmarshal(b, &c); err != nil {
			lib.Fatal(err)
		}
		ans, changed := runModeCase(c)
		if changed || len(ans) > 6 && ans[:6] == "panic:" {
			m.Violate("C07/modepb/UpdateModeValues/writes-old-values", "UpdateModeValues changed the live old ModeValues message (or panicked)", c, c.Stored, ans)
		}
		fmt.Printf("replay mode %v -> %s\n", c, ans)
	case "events-value":
		var es evSeq
		if err := json.Unmarshal(b, &es); err != nil {
			lib.Fatal(err)
		}
		runValueEventSeq(es, nil, m, nil)
		fmt.Printf("replay core-events (Value) seq=%d seed=%d steps=%d\n", es.Seq, es.Seed, es.Steps)
	case "hail":
		var c hailCase
		if err := json.Unmarshal(b, &c); err != nil {
			lib.Fatal(err)
		}
		ans, changes := runHailCase(c)
		hailViolations(c, changes, m)
		fmt.Printf("replay hail %v -> %s\n", c, ans)
	case "create":
		var c createCase
		if err := json.Unmarshal(b, &c); err != nil {
			lib.Fatal(err)
		}
		ans, inFlight := runCreateCase(c)
		createViolation(c, inFlight, m)
		fmt.Printf("replay create %v -> %s\n", c, ans)
	case "active":
		var c activeCase
		if err := json.Unmarshal(b, &c); err != nil {
			lib.Fatal(err)
		}
		ans, changed := runActiveCase(c)
		activeViolation(c, changed, m)
		fmt.Printf("replay active %v -> %s\n", c, ans)
	case "count":
		var c countCase
		if err := json.Unmarshal(b, &c); err != nil {
			lib.Fatal(err)
		}
		ans, changed := runCountCase(c)
		countViolation(c, changed, m)
		fmt.Printf("replay count %v -> %s\n", c, ans)
	case "setactive":
		var c setActiveCase
		if err := json.Unmarshal(b, &c); err != nil {
			lib.Fatal(err)
		}
		ans, changed := runSetActiveCase(c)
		setActiveViolation(c, changed, m)
		fmt.Printf("replay setactive %v -> %s\n", c, ans)
	case "light":
		var c lightCase
		if err := json.Unmarshal(b, &c); err != nil {
			lib.Fatal(err)
		}
		ans, changed := runLightCase(c)
		lightViolation(c, changed, m)
		fmt.Printf("replay light %v -> %s\n", c, ans)
	case "incl":
		var c inclCase
		if err := json.Unmarshal(b, &c); err != nil {
			lib.Fatal(err)
		}
		ans := runInclCase(c)
		inclViolation(c, ans, m)
		fmt.Printf("replay incl %v -> %s\n", c, ans)
	case "positions":
		var c positionsCase
		if err := json.Unmarshal(b, &c); err != nil {
			lib.Fatal(err)
		}
		ans := runPositionsCase(c)
		positionsViolation(c, ans, m)
		fmt.Printf("replay positions %v -> %s\n", c, ans)
	case "plant":
		var c plantCase
		if err := json.Unmarshal(b, &c); err != nil {
			lib.Fatal(err)
		}
		ans := runPlantCase(c)
		plantViolation(c, ans, m)
		if bf, af := runPlantWritten(c); af != bf {
			m.Violate("C07/openclosepb/UpdatePositions/preset-written-by-call", "applying a preset changed the configured preset messages themselves", c, bf, af)
		}
		fmt.Printf("replay plant %v -> %s\n", c, ans)
	case "events":
		var es evSeq
		if err := json.Unmarshal(b, &es); err != nil {
			lib.Fatal(err)
		}
		runEventSeq(es, nil, m, nil)
		fmt.Printf("replay core-events seq=%d seed=%d steps=%d\n", es.Seq, es.Seed, es.Steps)
	case "merge":
		var c mergeCase
		if err := json.Unmarshal(b, &c); err != nil {
			lib.Fatal(err)
		}
		ans, changed := runMergeCase(c)
		if changed {
			m.Violate("C07/metadatapb/MergeMetadata/writes-stored-traits", "MergeMetadata changed the trait messages held by the store before the call", c, c.Old, ans)
		}
		fmt.Printf("replay merge %v -> %s\n", c, ans)
	case "seed":
		var c seedCase
		if err := json.Unmarshal(b, &c); err != nil {
			lib.Fatal(err)
		}
		ans, changed := runSeedCase(c)
		if changed {
			m.Violate("C07/enterleavesensorpb/PullEnterLeaveEvents/writes-stored-event", "opening a Pull changed the stored event", c, "unchanged", ans)
		}
		fmt.Printf("replay seed %v -> %s\n", c, ans)
	case "rim":
		var c rcase
		if err := json.Unmarshal(b, &c); err != nil {
			lib.Fatal(err)
		}
		ans, changed := runRimCase(c)
		rimMonitor(c, ans, changed, m)
		fmt.Printf("replay rim %v -> %s\n", c, ans)
	default:
		fmt.Println("replay: unknown input kind", in["kind"])
		return 2
	}
	if len(m.Violations) > 0 {
		for _, v := range m.Violations {
			fmt.Printf("STILL FAILS %s: %s\n  expected %s\n  observed %s\n", v.Signature, v.What, v.Expected, v.Observed)
		}
		return 1
	}
	fmt.Println("replay: property holds on this input now")
	return 0
}
