package main

import (
	"context"
	"fmt"
	"hash/fnv"
	"math/rand"
	"os"
	"reflect"
	"runtime"
	"sort"
	"strings"
	"sync"
	"time"

	"google.golang.org/protobuf/proto"
	"google.golang.org/protobuf/reflect/protoreflect"
	"google.golang.org/protobuf/types/known/fieldmaskpb"

	"github.com/smart-core-os/sc-api/go/traits"
	"github.com/smart-core-os/sc-api/go/types"
	"github.com/smart-core-os/sc-golang/pkg/resource"
	"github.com/smart-core-os/sc-golang/pkg/trait/accesspb"
	"github.com/smart-core-os/sc-golang/pkg/trait/airqualitysensorpb"
	"github.com/smart-core-os/sc-golang/pkg/trait/airtemperaturepb"
	"github.com/smart-core-os/sc-golang/pkg/trait/bookingpb"
	"github.com/smart-core-os/sc-golang/pkg/trait/countpb"
	"github.com/smart-core-os/sc-golang/pkg/trait/electricpb"
	"github.com/smart-core-os/sc-golang/pkg/trait/emergencypb"
	"github.com/smart-core-os/sc-golang/pkg/trait/energystoragepb"
	"github.com/smart-core-os/sc-golang/pkg/trait/enterleavesensorpb"
	"github.com/smart-core-os/sc-golang/pkg/trait/fanspeedpb"
	"github.com/smart-core-os/sc-golang/pkg/trait/hailpb"
	"github.com/smart-core-os/sc-golang/pkg/trait/lightpb"
	"github.com/smart-core-os/sc-golang/pkg/trait/metadatapb"
	"github.com/smart-core-os/sc-golang/pkg/trait/meterpb"
	"github.com/smart-core-os/sc-golang/pkg/trait/modepb"
	"github.com/smart-core-os/sc-golang/pkg/trait/occupancysensorpb"
	"github.com/smart-core-os/sc-golang/pkg/trait/onoffpb"
	"github.com/smart-core-os/sc-golang/pkg/trait/openclosepb"
	"github.com/smart-core-os/sc-golang/pkg/trait/parentpb"
	"github.com/smart-core-os/sc-golang/pkg/trait/presspb"
	"github.com/smart-core-os/sc-golang/pkg/trait/publicationpb"
	"github.com/smart-core-os/sc-golang/pkg/trait/speakerpb"
	"github.com/smart-core-os/sc-golang/pkg/trait/vendingpb"
	"github.com/smart-core-os/sc-golang/pkg/trait/wastepb"
	"github.com/smart-core-os/sc-golang/verifharness/cmd/c07/pbgen"
	"github.com/smart-core-os/sc-golang/verifharness/lib"
)

// modelEntry is one row of the hand-listed table of stateful trait models. Go cannot look
// constructors up by name, so the table is written out; the K3 fact extractor (facts.go) lists the
// constructors present in the source tree and the Lean theorem C07_models_all_driven fails when the
// tree has one this table lacks.
type modelEntry struct {
	Pkg  string // trait package directory
	Ctor string // constructor name in that package
	New  func() any
}

var modelTable = []modelEntry{
	{"accesspb", "NewModel", func() any { return accesspb.NewModel() }},
	{"airqualitysensorpb", "NewModel", func() any { return airqualitysensorpb.NewModel() }},
	{"airtemperaturepb", "NewModel", func() any { return airtemperaturepb.NewModel() }},
	{"airtemperaturepb", "NewMemoryDevice", func() any { return airtemperaturepb.NewMemoryDevice() }},
	{"bookingpb", "NewModel", func() any { return bookingpb.NewModel() }},
	{"countpb", "NewMemoryDevice", func() any { return countpb.NewMemoryDevice() }},
	{"electricpb", "NewModel", func() any { return electricpb.NewModel() }},
	{"emergencypb", "NewMemoryDevice", func() any { return emergencypb.NewMemoryDevice() }},
	{"energystoragepb", "NewModel", func() any { return energystoragepb.NewModel() }},
	{"enterleavesensorpb", "NewModel", func() any { return enterleavesensorpb.NewModel() }},
	{"fanspeedpb", "NewModel", func() any { return fanspeedpb.NewModel() }},
	{"hailpb", "NewModel", func() any { return hailpb.NewModel() }},
	{"lightpb", "NewModel", func() any { return lightpb.NewModel() }},
	{"lightpb", "NewMemoryDevice", func() any { return lightpb.NewMemoryDevice() }},
	{"metadatapb", "NewModel", func() any { return metadatapb.NewModel() }},
	{"metadatapb", "NewCollection", func() any { return metadatapb.NewCollection() }},
	{"meterpb", "NewModel", func() any { return meterpb.NewModel() }},
	{"modepb", "NewModel", func() any { return modepb.NewModel() }},
	{"modepb", "NewModelModes", func() any {
		return modepb.NewModelModes(&traits.Modes{Modes: []*traits.Modes_Mode{{Name: "a", Values: []*traits.Modes_Value{{Name: "a"}, {Name: "b"}}}}})
	}},
	{"occupancysensorpb", "NewModel", func() any { return occupancysensorpb.NewModel() }},
	{"onoffpb", "NewModel", func() any { return onoffpb.NewModel() }},
	{"openclosepb", "NewModel", func() any { return openclosepb.NewModel() }},
	{"parentpb", "NewModel", func() any { return parentpb.NewModel() }},
	{"presspb", "NewModel", func() any { return presspb.NewModel(traits.PressedState_UNPRESSED) }},
	{"publicationpb", "NewModel", func() any { return publicationpb.NewModel() }},
	{"speakerpb", "NewMemoryDevice", func() any { return speakerpb.NewMemoryDevice(&types.AudioLevel{Gain: 10}) }},
	{"vendingpb", "NewModel", func() any { return vendingpb.NewModel() }},
	{"wastepb", "NewModel", func() any { return wastepb.NewModel() }},
	// server implementations over a model: their unary RPC methods are public methods too
	{"accesspb", "NewModelServer", func() any { return accesspb.NewModelServer(accesspb.NewModel()) }},
	{"airqualitysensorpb", "NewModelServer", func() any { return airqualitysensorpb.NewModelServer(airqualitysensorpb.NewModel()) }},
	{"airtemperaturepb", "NewModelServer", func() any { return airtemperaturepb.NewModelServer(airtemperaturepb.NewModel()) }},
	{"bookingpb", "NewModelServer", func() any { return bookingpb.NewModelServer(bookingpb.NewModel()) }},
	{"electricpb", "NewModelServer", func() any { return electricpb.NewModelServer(electricpb.NewModel()) }},
	{"energystoragepb", "NewModelServer", func() any { return energystoragepb.NewModelServer(energystoragepb.NewModel()) }},
	{"enterleavesensorpb", "NewModelServer", func() any { return enterleavesensorpb.NewModelServer(enterleavesensorpb.NewModel()) }},
	{"fanspeedpb", "NewModelServer", func() any { return fanspeedpb.NewModelServer(fanspeedpb.NewModel()) }},
	{"hailpb", "NewModelServer", func() any { return hailpb.NewModelServer(hailpb.NewModel()) }},
	{"lightpb", "NewModelServer", func() any { return lightpb.NewModelServer(lightpb.NewModel()) }},
	{"metadatapb", "NewModelServer", func() any { return metadatapb.NewModelServer(metadatapb.NewModel()) }},
	{"metadatapb", "NewCollectionServer", func() any { return metadatapb.NewCollectionServer(metadatapb.NewCollection()) }},
	{"meterpb", "NewModelServer", func() any { return meterpb.NewModelServer(meterpb.NewModel()) }},
	{"modepb", "NewModelServer", func() any { return modepb.NewModelServer(modepb.NewModel()) }},
	{"occupancysensorpb", "NewModelServer", func() any { return occupancysensorpb.NewModelServer(occupancysensorpb.NewModel()) }},
	{"onoffpb", "NewModelServer", func() any { return onoffpb.NewModelServer(onoffpb.NewModel()) }},
	{"openclosepb", "NewModelServer", func() any { return openclosepb.NewModelServer(openclosepb.NewModel()) }},
	{"parentpb", "NewModelServer", func() any { return parentpb.NewModelServer(parentpb.NewModel()) }},
	{"presspb", "NewModelServer", func() any { return presspb.NewModelServer(presspb.NewModel(traits.PressedState_UNPRESSED)) }},
	{"publicationpb", "NewModelServer", func() any { return publicationpb.NewModelServer(publicationpb.NewModel()) }},
	{"vendingpb", "NewModelServer", func() any { return vendingpb.NewModelServer(vendingpb.NewModel()) }},
	{"wastepb", "NewModelServer", func() any { return wastepb.NewModelServer(wastepb.NewModel()) }},
}

func (e modelEntry) key() string { return e.Pkg + "." + e.Ctor }

var (
	tCtx      = reflect.TypeOf((*context.Context)(nil)).Elem()
	tProto    = reflect.TypeOf((*proto.Message)(nil)).Elem()
	tWriteOpt = reflect.TypeOf((*resource.WriteOption)(nil)).Elem()
	tReadOpt  = reflect.TypeOf((*resource.ReadOption)(nil)).Elem()
	tErr      = reflect.TypeOf((*error)(nil)).Elem()
	tTime     = reflect.TypeOf(time.Time{})
	tDur      = reflect.TypeOf(time.Duration(0))
)

// callDesc is the human-readable record of one executed call (part of a replay).
type callDesc struct {
	Step   int      `json:"step"`
	Method string   `json:"method"`
	Args   []string `json:"args"`
	Out    string   `json:"out"`
}

// session drives one model instance.
type session struct {
	entry     modelEntry
	model     reflect.Value
	methods   []reflect.Method
	g         *pbgen.Gen
	r         *rand.Rand
	tr        *tracker
	cancels   []context.CancelFunc
	wg        sync.WaitGroup
	trace     []callDesc
	msgTys    []protoreflect.MessageDescriptor // message types seen in signatures (targets of masks)
	owned     []proto.Message                  // messages this caller handed to the model
	events    int64
	evMu      sync.Mutex
	lastFrame *frameDiff
	skipped   []string // public methods whose parameters the generator cannot produce (streams, funcs, ...)
	// server-streaming RPCs of the services the model registers (captured by calling its Register method with a
	// recording grpc.ServiceRegistrar); driven through the generated stream handlers with a recording ServerStream
	rpcs       []streamRPC
	registered []string // services captured from Register
	configured string   // how the instance was constructed ("default" or the generated configuration)
	// round 6 (frame.go): generation version (replays of older inputs keep the older generator), frame checks,
	// subscriptions with stalled consumers
	v           int
	frames      bool
	fpChecked   bool
	probes      []probe
	curSub      *subscription
	forceBP     bool
	wedged      bool
	textFP      bool
	lastK       int
	plainBP     bool
	writesOnly  bool
	haveLast    bool
	parkedCalls int
	subscribed  bool
	gates
}

func supportedParam(t reflect.Type) bool {
	switch {
	case t == tCtx, t.Implements(tProto) && t.Kind() == reflect.Ptr, t == tTime, t == tDur:
		return true
	}
	switch t.Kind() {
	case reflect.String, reflect.Bool, reflect.Int, reflect.Int32, reflect.Int64, reflect.Uint32, reflect.Uint64, reflect.Float32, reflect.Float64:
		return true
	case reflect.Slice:
		e := t.Elem()
		return e == tWriteOpt || e == tReadOpt || supportedParam(e)
	case reflect.Ptr:
		switch t.Elem().Kind() {
		case reflect.Int32, reflect.Int64, reflect.Float32, reflect.Float64, reflect.Bool, reflect.String:
			return true
		}
	}
	return false
}

func newSession(e modelEntry, r *rand.Rand) *session {
	return newSessionCfg(e, r, false, 0.4, genVersion)
}

// genVersion is the current version of the sequence generator; a replay input carries the version it was drawn with.
const genVersion = 7

func timeAfter3s() <-chan time.Time { return time.After(3 * time.Second) }

// newSessionCfg builds the driven instance: default-constructed, or (configured) from generated constructor
// arguments (drive.go). density is the probability that a field of a generated message is populated.
func newSessionCfg(e modelEntry, r *rand.Rand, configured bool, density float64, v int) *session {
	s := &session{entry: e, r: r, g: pbgen.New(r), tr: newTracker(), configured: "default", v: v}
	s.gateCond = sync.NewCond(&s.gateMu)
	s.g.Density, s.g.MaxDepth, s.g.LeafWKT = density, 2, v >= 6
	if configured {
		if inst, how, ok := s.configure(e); ok {
			s.model, s.configured = inst, how
		}
	}
	if !s.model.IsValid() {
		s.model = reflect.ValueOf(e.New())
	}
	s.captureRPCs()
	t := s.model.Type()
	seenTy := map[protoreflect.FullName]bool{}
	addTy := func(rt reflect.Type) {
		if rt.Kind() == reflect.Ptr && rt.Implements(tProto) {
			md := reflect.New(rt.Elem()).Interface().(proto.Message).ProtoReflect().Descriptor()
			if !seenTy[md.FullName()] {
				seenTy[md.FullName()] = true
				s.msgTys = append(s.msgTys, md)
			}
		}
	}
	for i := 0; i < t.NumMethod(); i++ {
		m := t.Method(i)
		ok := true
		for j := 1; j < m.Type.NumIn(); j++ {
			if !supportedParam(m.Type.In(j)) {
				ok = false
			}
		}
		if !ok || m.Name == "Register" || m.Name == "Unwrap" {
			if !ok {
				s.skipped = append(s.skipped, m.Name)
			}
			continue
		}
		s.methods = append(s.methods, m)
		for j := 1; j < m.Type.NumIn(); j++ {
			addTy(m.Type.In(j))
		}
		for j := 0; j < m.Type.NumOut(); j++ {
			o := m.Type.Out(j)
			if o.Kind() == reflect.Slice {
				o = o.Elem()
			}
			addTy(o)
		}
	}
	// what the recording registrar covers is driven after all: Register itself and the server-streaming RPCs
	if len(s.registered) > 0 {
		covered := map[string]bool{"Register": true}
		for _, rpc := range s.rpcs {
			covered[rpc.desc.StreamName] = true
		}
		var rest []string
		for _, name := range s.skipped {
			if !covered[name] {
				rest = append(rest, name)
			}
		}
		s.skipped = rest
	}
	// request wrappers (servers): their message-typed fields are the resource types
	for _, md := range append([]protoreflect.MessageDescriptor(nil), s.msgTys...) {
		fds := md.Fields()
		for i := 0; i < fds.Len(); i++ {
			if fd := fds.Get(i); fd.Kind() == protoreflect.MessageKind && !fd.IsMap() && !seenTy[fd.Message().FullName()] &&
				fd.Message().FullName() != "google.protobuf.FieldMask" && fd.Message().FullName() != "google.protobuf.Timestamp" {
				seenTy[fd.Message().FullName()] = true
				s.msgTys = append(s.msgTys, fd.Message())
			}
		}
	}
	s.findProbes()
	return s
}

func (s *session) close() {
	s.endGates()
	for _, c := range s.cancels {
		c()
	}
	done := make(chan struct{})
	go func() { s.wg.Wait(); close(done) }()
	select {
	case <-done:
	case <-time.After(200 * time.Millisecond):
	}
}

func (s *session) maskPaths() []string {
	if len(s.msgTys) == 0 {
		return nil
	}
	return s.g.TopPaths(s.msgTys[s.r.Intn(len(s.msgTys))], 2)
}

// readMaskPaths draws a read mask from the path tree of one of the message types in the model's signatures:
// nested paths, paths through repeated messages, occasionally the empty mask.
func (s *session) readMaskPaths() []string {
	if len(s.msgTys) == 0 || s.r.Intn(12) == 0 {
		return nil
	}
	return s.g.ReadMaskPaths(s.msgTys[s.r.Intn(len(s.msgTys))], 3)
}

func (s *session) arg(t reflect.Type, wantsStream bool, desc *[]string) reflect.Value {
	switch {
	case t == tCtx:
		if wantsStream {
			ctx, cancel := context.WithCancel(context.Background())
			s.cancels = append(s.cancels, cancel)
			*desc = append(*desc, "ctx")
			return reflect.ValueOf(ctx)
		}
		*desc = append(*desc, "ctx")
		return reflect.ValueOf(context.Background())
	case t.Kind() == reflect.Ptr && t.Implements(tProto):
		mt := reflect.New(t.Elem()).Interface().(proto.Message).ProtoReflect().Type()
		var m proto.Message
		if len(s.owned) > 0 && s.r.Intn(6) == 0 {
			// re-use a message handed to an earlier write (possibly filtered/edited by it), if the type fits
			c := s.owned[s.r.Intn(len(s.owned))]
			if reflect.TypeOf(c) == t {
				m = c
			}
		}
		if m == nil {
			m = s.g.Message(mt)
			s.fixRequestMasks(m)
		}
		s.owned = append(s.owned, m)
		*desc = append(*desc, txt(m))
		return reflect.ValueOf(m)
	case t == tTime:
		x := time.Unix(int64(1000+s.r.Intn(5)), 0)
		*desc = append(*desc, fmt.Sprint(x.Unix()))
		return reflect.ValueOf(x)
	case t == tDur:
		x := time.Duration(s.r.Intn(3)) * time.Millisecond
		*desc = append(*desc, x.String())
		return reflect.ValueOf(x)
	}
	switch t.Kind() {
	case reflect.String:
		x := s.g.Str()
		*desc = append(*desc, fmt.Sprintf("%q", x))
		return reflect.ValueOf(x).Convert(t)
	case reflect.Bool:
		x := s.r.Intn(2) == 0
		*desc = append(*desc, fmt.Sprint(x))
		return reflect.ValueOf(x).Convert(t)
	case reflect.Int, reflect.Int32, reflect.Int64:
		x := int64(s.r.Intn(5))
		*desc = append(*desc, fmt.Sprint(x))
		return reflect.ValueOf(x).Convert(t)
	case reflect.Uint32, reflect.Uint64:
		x := uint64(s.r.Intn(5))
		*desc = append(*desc, fmt.Sprint(x))
		return reflect.ValueOf(x).Convert(t)
	case reflect.Float32, reflect.Float64:
		x := float64(s.r.Intn(9)) * 12.5
		*desc = append(*desc, fmt.Sprint(x))
		return reflect.ValueOf(x).Convert(t)
	case reflect.Ptr:
		if s.r.Intn(3) == 0 {
			*desc = append(*desc, "nil")
			return reflect.Zero(t)
		}
		p := reflect.New(t.Elem())
		var d []string
		p.Elem().Set(s.arg(t.Elem(), false, &d))
		*desc = append(*desc, "&"+strings.Join(d, ""))
		return p
	case reflect.Slice:
		e := t.Elem()
		out := reflect.MakeSlice(t, 0, 3)
		switch e {
		case tWriteOpt:
			switch s.r.Intn(8) {
			case 0, 1:
				p := s.maskPaths()
				*desc = append(*desc, fmt.Sprintf("WithUpdateMask%v", p))
				out = reflect.Append(out, reflect.ValueOf(resource.WithUpdateMask(&fieldmaskpb.FieldMask{Paths: p})))
			case 2:
				*desc = append(*desc, "WithCreateIfAbsent")
				out = reflect.Append(out, reflect.ValueOf(resource.WithCreateIfAbsent()))
			case 3:
				*desc = append(*desc, "WithAllowMissing")
				out = reflect.Append(out, reflect.ValueOf(resource.WithAllowMissing(true)))
			default:
				*desc = append(*desc, "wopts[]")
			}
			return out
		case tReadOpt:
			d := "ropts["
			if s.plainBP {
				// the stalled subscribers of subscribeAll: backpressure and nothing else (no mask that makes consecutive
				// values equal, a seed if there is one)
				*desc = append(*desc, "ropts[Backpressure ]")
				return reflect.Append(out, reflect.ValueOf(resource.WithBackpressure(true)))
			}
			if s.r.Intn(2) == 0 {
				p := s.readMaskPaths()
				d += fmt.Sprintf("WithReadMask%v ", p)
				out = reflect.Append(out, reflect.ValueOf(resource.WithReadMask(&fieldmaskpb.FieldMask{Paths: p})))
			}
			if s.r.Intn(4) == 0 {
				d += "UpdatesOnly "
				out = reflect.Append(out, reflect.ValueOf(resource.WithUpdatesOnly(true)))
			}
			if s.r.Intn(2) == 0 || s.forceBP {
				d += "Backpressure "
				out = reflect.Append(out, reflect.ValueOf(resource.WithBackpressure(true)))
			}
			*desc = append(*desc, d+"]")
			return out
		}
		n := s.r.Intn(3)
		var d []string
		for i := 0; i < n; i++ {
			out = reflect.Append(out, s.arg(e, false, &d))
		}
		*desc = append(*desc, "["+strings.Join(d, ",")+"]")
		return out
	}
	panic("unsupported param " + t.String())
}

// fixRequestMasks makes FieldMask fields of request messages (read_mask, update_mask) mention real
// top-level fields of the request's payload (random strings would just be rejected every time).
func (s *session) fixRequestMasks(m proto.Message) {
	r := m.ProtoReflect()
	fds := r.Descriptor().Fields()
	var payload protoreflect.MessageDescriptor
	for i := 0; i < fds.Len(); i++ {
		fd := fds.Get(i)
		if fd.Kind() == protoreflect.MessageKind && !fd.IsList() && !fd.IsMap() && fd.Message().FullName() != "google.protobuf.FieldMask" {
			payload = fd.Message()
			break
		}
	}
	for i := 0; i < fds.Len(); i++ {
		fd := fds.Get(i)
		if fd.Kind() == protoreflect.MessageKind && !fd.IsList() && fd.Message().FullName() == "google.protobuf.FieldMask" {
			if s.r.Intn(2) != 0 {
				r.Clear(fd)
				continue
			}
			var paths []string
			switch {
			case strings.Contains(string(fd.Name()), "read"):
				// a read mask applies to the resource the request reads: draw from the path trees of the model's types
				paths = s.readMaskPaths()
			case payload != nil:
				paths = s.g.TopPaths(payload, 2)
			default:
				paths = s.maskPaths()
			}
			r.Set(fd, protoreflect.ValueOfMessage((&fieldmaskpb.FieldMask{Paths: paths}).ProtoReflect()))
		}
	}
}

// harvest finds every proto message reachable from a returned Go value and hands it to the tracker;
// receive-channels get a drainer goroutine that harvests each event as it arrives.
func (s *session) harvest(v reflect.Value, origin string, depth int, fromEvent bool) {
	if !v.IsValid() || depth > 4 {
		return
	}
	t := v.Type()
	if t.Implements(tErr) && t.Kind() == reflect.Interface {
		return
	}
	if t.Kind() == reflect.Ptr && t.Implements(tProto) {
		if !v.IsNil() {
			m := v.Interface().(proto.Message)
			s.tr.observe(origin, m)
			if !fromEvent {
				s.harvestIDs(m)
			}
		}
		return
	}
	switch t.Kind() {
	case reflect.Interface:
		if !v.IsNil() {
			s.harvest(v.Elem(), origin, depth, fromEvent)
		}
	case reflect.Ptr:
		if !v.IsNil() {
			s.harvest(v.Elem(), origin, depth+1, fromEvent)
		}
	case reflect.Struct:
		for i := 0; i < t.NumField(); i++ {
			if t.Field(i).IsExported() {
				s.harvest(v.Field(i), origin+"."+t.Field(i).Name, depth+1, fromEvent)
			}
		}
	case reflect.Slice, reflect.Array:
		for i := 0; i < v.Len(); i++ {
			s.harvest(v.Index(i), origin+"[]", depth+1, fromEvent)
		}
	case reflect.Map:
		keys := v.MapKeys()
		for _, k := range keys {
			s.harvest(v.MapIndex(k), origin+"{}", depth+1, fromEvent)
		}
	case reflect.Chan:
		if t.ChanDir()&reflect.RecvDir == 0 || v.IsNil() {
			return
		}
		sub := s.curSub
		s.wg.Add(1)
		go func() {
			defer s.wg.Done()
			for {
				s.take(sub) // a stalled consumer waits here until it is granted an item
				x, ok := v.Recv()
				if !ok {
					return
				}
				s.countEvent(sub)
				s.harvest(x, strings.TrimSuffix(origin, "/ret")+"/event", depth+1, true)
			}
		}()
	}
}

// harvestIDs adds the id/name strings of synchronous results to the string pool, so that later
// calls address items whose ids the model generated itself.
func (s *session) harvestIDs(m proto.Message) { s.harvestNames(m.ProtoReflect(), 0) }

// harvestNames walks a result: the id/name strings of the message and of the messages nested in it (the model's own
// vocabulary: mode names, preset names, child names, ...) join the pool, top level first, up to a small bound.
func (s *session) harvestNames(r protoreflect.Message, depth int) {
	add := func(v string) {
		limit := 9
		if depth > 0 {
			limit = 12
		}
		if v == "" || len(v) > 40 || len(s.g.Pool) >= limit {
			return
		}
		for _, p := range s.g.Pool {
			if p == v {
				return
			}
		}
		s.g.Pool = append(s.g.Pool, v)
	}
	for _, n := range []protoreflect.Name{"id", "name"} {
		if fd := r.Descriptor().Fields().ByName(n); fd != nil && fd.Kind() == protoreflect.StringKind && !fd.IsList() {
			add(r.Get(fd).String())
		}
	}
	if depth >= 2 {
		return
	}
	fds := r.Descriptor().Fields() // in declaration order: deterministic
	for i := 0; i < fds.Len(); i++ {
		fd := fds.Get(i)
		if fd.Kind() != protoreflect.MessageKind || fd.IsMap() || !r.Has(fd) {
			continue
		}
		if fd.IsList() {
			l := r.Get(fd).List()
			for k := 0; k < l.Len() && k < 4; k++ {
				s.harvestNames(l.Get(k).Message(), depth+1)
			}
			continue
		}
		s.harvestNames(r.Get(fd).Message(), depth+1)
	}
}

func (s *session) evCount() int64 {
	s.evMu.Lock()
	defer s.evMu.Unlock()
	return s.events
}

// settle yields until no event has arrived for a number of consecutive scheduler yields (bounded):
// the delivery goroutines are runnable, not sleeping, so yielding is enough and much cheaper than sleeping.
func (s *session) settle() {
	if len(s.cancels) == 0 {
		return
	}
	last, quiet := s.evCount(), 0
	for i := 0; i < 2000 && quiet < 60; i++ {
		runtime.Gosched()
		if c := s.evCount(); c == last {
			quiet++
		} else {
			last, quiet = c, 0
		}
	}
}

// step performs one random call. It returns the method called and whether the call completed.
func (s *session) step(i int) (method string, hung bool) {
	s.tr.setStep(i)
	s.lastFrame = nil
	// occasionally the caller edits a message it passed to an earlier call (allowed by the property)
	if len(s.owned) > 0 && s.r.Intn(5) == 0 {
		m := s.owned[s.r.Intn(len(s.owned))]
		s.g.Scramble(m)
		s.trace = append(s.trace, callDesc{Step: i, Method: "(caller edits a message it passed earlier)", Out: txt(m)})
		return "caller-edit", false
	}
	k := s.r.Intn(len(s.methods) + len(s.rpcs))
	if s.writesOnly {
		// second half of a subscribers-first session: only the methods that are not reads, behind the stalled consumers
		var w []int
		for j, m := range s.methods {
			if !readOnlyMethod(m) {
				w = append(w, j)
			}
		}
		if len(w) > 0 {
			k = w[s.r.Intn(len(w))]
		}
	}
	// bursts: one step in three repeats the previous step's method (new arguments): consecutive writes to one
	// resource are what fills the pipeline of a consumer that does not keep up
	if s.v >= 6 && s.haveLast && s.r.Intn(3) == 0 {
		k = s.lastK
	}
	s.lastK, s.haveLast = k, true
	return s.invoke(i, k, stallRandom)
}

// invoke calls method k (an index into methods followed by rpcs) with generated arguments.
func (s *session) invoke(i, k int, stall int) (method string, hung bool) {
	s.lastFrame = nil
	drawStall := func() bool {
		switch {
		case s.v < 6 || stall == stallNever:
			return false
		case stall == stallAlways:
			return true
		}
		return s.r.Intn(3) == 0
	}
	if k >= len(s.methods) {
		rpc := s.rpcs[k-len(s.methods)]
		w := s.openFrame(i, "rpc:"+rpc.desc.StreamName)
		method, hung = s.stepRPC(i, rpc, drawStall())
		s.lastFrame = s.closeFrame(w, method)
		return method, hung
	}
	m := s.methods[k]
	wantsStream := false
	for j := 0; j < m.Type.NumOut(); j++ {
		if m.Type.Out(j).Kind() == reflect.Chan {
			wantsStream = true
		}
	}
	s.curSub, s.forceBP = nil, false
	if wantsStream {
		st := drawStall()
		s.curSub, s.forceBP, s.plainBP = s.newSub(m.Name, i, st), st, stall == stallAlways
	}
	defer func() { s.curSub, s.forceBP, s.plainBP = nil, false, false }()
	var w *frameWindow
	if readOnlyMethod(m) {
		w = s.openFrame(i, m.Name)
	}
	var desc []string
	args := []reflect.Value{s.model}
	nIn := m.Type.NumIn()
	for j := 1; j < nIn; j++ {
		args = append(args, s.arg(m.Type.In(j), wantsStream, &desc))
	}
	var outs []reflect.Value
	done := make(chan string, 1)
	go func() {
		panicked, msg := lib.Catch(func() {
			if m.Type.IsVariadic() {
				outs = m.Func.CallSlice(args)
			} else {
				outs = m.Func.Call(args)
			}
		})
		if panicked {
			done <- "panic: " + msg
		} else {
			done <- ""
		}
	}()
	res, parked, hung := s.await(done)
	if hung {
		s.trace = append(s.trace, callDesc{Step: i, Method: m.Name, Args: desc, Out: "<call did not return within 3s>"})
		return m.Name, true
	}
	if s.curSub != nil && s.curSub.wantStall {
		desc = append(desc, "(the consumer of this stream is stalled)")
	}
	if parked {
		s.parkedCalls++
		desc = append(desc, "(the call was parked behind stalled consumers; they took one item at a time until it returned)")
	}
	out := res
	if res == "" {
		var parts []string
		for k, o := range outs {
			s.harvest(o, fmt.Sprintf("%s/ret%d", m.Name, k), 0, false)
			parts = append(parts, showOut(o))
		}
		out = strings.Join(parts, ", ")
	}
	s.settle()
	s.trace = append(s.trace, callDesc{Step: i, Method: m.Name, Args: desc, Out: out})
	s.lastFrame = s.closeFrame(w, m.Name)
	return m.Name, false
}

func showOut(o reflect.Value) string {
	if !o.IsValid() {
		return "-"
	}
	t := o.Type()
	if t.Kind() == reflect.Ptr && t.Implements(tProto) {
		if o.IsNil() {
			return "<nil>"
		}
		return txt(o.Interface().(proto.Message))
	}
	switch t.Kind() {
	case reflect.Chan:
		return "<stream>"
	case reflect.Slice:
		var p []string
		for i := 0; i < o.Len() && i < 6; i++ {
			p = append(p, showOut(o.Index(i)))
		}
		return "[" + strings.Join(p, " ") + "]"
	case reflect.Interface:
		if o.IsNil() {
			return "nil"
		}
		if e, ok := o.Interface().(error); ok {
			return "err(" + e.Error() + ")"
		}
	}
	s := fmt.Sprint(o.Interface())
	if len(s) > 120 {
		s = s[:120] + "…"
	}
	return s
}

// modelSeq identifies one generated sequence: everything in it is a function of these fields.
type modelSeq struct {
	Kind  string `json:"kind"` // "model"
	Model string `json:"model"`
	Seed  int64  `json:"seed"`
	Seq   int    `json:"seq"`
	Steps int    `json:"steps"`
	V     int    `json:"v,omitempty"` // generator version (0: before round 6)
}

func seqRand(seed int64, model string, seq int) *rand.Rand {
	h := fnv.New64a()
	fmt.Fprintf(h, "%d/%s/%d", seed, model, seq)
	return rand.New(rand.NewSource(int64(h.Sum64() >> 1)))
}

func findModel(key string) (modelEntry, bool) {
	for _, e := range modelTable {
		if e.key() == key {
			return e, true
		}
	}
	return modelEntry{}, false
}

// runModelSeq executes one sequence and reports violations to mon. Returns the number of calls made.
func runModelSeq(ms modelSeq, mon *lib.Monitor) int {
	e, ok := findModel(ms.Model)
	if !ok {
		mon.Error = "unknown model " + ms.Model
		return 0
	}
	// odd sequences drive a configured instance (generated constructor arguments), even ones the default instance;
	// the density of generated messages cycles through sparse / medium / dense
	s := newSeqSession(e, ms)
	defer s.close()
	if len(s.methods) == 0 {
		return 0
	}
	mon.Count("instance:" + map[bool]string{true: "default", false: "configured"}[s.configured == "default"])
	// a second, untouched instance of the same model: default options hold ONE package-level initial message per
	// package, so both instances' stores start on the very same message. What the twin's argument-less readers
	// return (with no mask: the shared stored message itself) is tracked like every other snapshot: no write to
	// the driven instance may change it.
	twin := reflect.ValueOf(e.New())
	for _, m := range s.methods {
		mt := m.Type
		readOnlyShape := mt.NumIn() == 1 || (mt.NumIn() == 2 && mt.IsVariadic() && mt.In(1).Elem() == tReadOpt)
		if !readOnlyShape || mt.NumOut() == 0 || !(strings.HasPrefix(m.Name, "Get") || mt.NumIn() == 2) {
			continue
		}
		var outs []reflect.Value
		if p, _ := lib.Catch(func() { outs = twin.MethodByName(m.Name).Call(nil) }); p {
			continue
		}
		for k, o := range outs {
			if o.Kind() != reflect.Chan {
				s.harvest(o, fmt.Sprintf("twin-instance.%s/ret%d", m.Name, k), 0, true)
			}
		}
	}
	calls := 0
	report := func(i int, method string) {
		for _, c := range s.tr.changed() {
			sig := fmt.Sprintf("C07/%s/changed-by/%s", e.key(), method)
			input := map[string]any{"kind": "model", "model": ms.Model, "seed": ms.Seed, "seq": ms.Seq, "steps": i + 1, "v": ms.V, "instance": s.configured, "trace": tail(s.trace, 12)}
			mon.Violate(sig, fmt.Sprintf("a message obtained at step %d (%s) changed after step %d (%s)", c.Step, c.Origin, i, method),
				input, txt(c.copy), txt(c.ptr))
		}
	}
	if s.subscribed {
		s.tr.setStep(-1)
		hung := s.subscribeAll(0, -1)
		report(-1, "(subscribing)")
		mon.Count("sessions:subscribers-first")
		if hung {
			mon.Count("hung:" + e.Pkg + ".(subscribing)")
			return 0
		}
	}
	for i := 0; i < ms.Steps; i++ {
		if s.subscribed && i == ms.Steps/2 && ms.Steps >= 8 {
			s.tr.setStep(i)
			hung := s.subscribeAll(1, i)
			report(i, "(subscribing)")
			if hung {
				mon.Count("hung:" + e.Pkg + ".(subscribing)")
				break
			}
		}
		method, hung := s.step(i)
		calls++
		mon.Count("call:" + e.Pkg + "." + method)
		report(i, method)
		if fd := s.lastFrame; fd != nil {
			mon.Count("frame-difference:seen")
			// reported only when a fresh instance driven through the same sequence shows it again at the same step
			if again := frameAgain(e, ms, i); again != nil && again.Class == fd.Class {
				sig := fmt.Sprintf("C07/%s/%s/%s", e.key(), fd.Class, method)
				if fd.Class == "reads-change-what-reads-return" {
					// seen by rendering the instance twice before the step: the step's own method has not run yet
					sig = fmt.Sprintf("C07/%s/%s", e.key(), fd.Class)
				}
				input := map[string]any{"kind": "model", "model": ms.Model, "seed": ms.Seed, "seq": ms.Seq, "steps": i + 1, "v": ms.V, "instance": s.configured, "trace": tail(s.trace, 12)}
				mon.Violate(sig, fmt.Sprintf("the read-only call at step %d (%s) did not leave the instance as it was: %s", i, method, fd.Class), input, again.Expected, again.Observed)
			} else {
				mon.Count("frame-difference:not-reproduced")
			}
		}
		if hung {
			mon.Count("hung:" + e.Pkg + "." + method)
			break
		}
	}
	if s.parkedCalls > 0 {
		mon.Count("sessions:with-a-call-parked-behind-a-stalled-consumer")
	}
	if os.Getenv("C07_DEBUG") == "trace" {
		for _, c := range s.trace {
			fmt.Fprintf(os.Stderr, "TRACE %d %s %.150s -> %.100s\n", c.Step, c.Method, strings.Join(c.Args, " | "), c.Out)
		}
	}
	if os.Getenv("C07_DEBUG") != "" {
		fmt.Fprintln(os.Stderr, "DEBUG", ms.Model, ms.Seq, "snaps", s.tr.count(), "subs", len(s.subs), "parked", s.parkedCalls, "stalled", s.stalledSubs())
	}
	mon.Eval(ms.Model+fmt.Sprint(s.tr.count() > 0), s.tr.count() > 1, nil)
	return calls
}

// newSeqSession builds the session of a sequence: odd sequences drive a configured instance (generated constructor
// arguments), even ones the default instance; the density of generated messages cycles through sparse / medium /
// dense; from generator version 6 on, sequences 2,3 mod 4 start with the subscribers in place and every sequence
// checks the frame of its read-only steps.
func newSeqSession(e modelEntry, ms modelSeq) *session {
	s := newSessionCfg(e, seqRand(ms.Seed, ms.Model, ms.Seq), ms.Seq%2 == 1, []float64{0.4, 0.65, 0.85}[(ms.Seq/2)%3], ms.V)
	s.frames = ms.V >= 6
	s.subscribed = ms.V >= 6 && ms.Seq%4 >= 2
	return s
}

// frameAgain drives a fresh instance through the first i+1 steps of the sequence and returns the frame difference
// of step i, if it shows again.
func frameAgain(e modelEntry, ms modelSeq, i int) *frameDiff {
	s := newSeqSession(e, ms)
	s.textFP = true
	defer s.close()
	if s.subscribed {
		s.tr.setStep(-1)
		if s.subscribeAll(0, -1) {
			return nil
		}
	}
	for k := 0; k <= i; k++ {
		if s.subscribed && k == ms.Steps/2 && ms.Steps >= 8 && s.subscribeAll(1, k) {
			return nil
		}
		if _, hung := s.step(k); hung {
			return nil
		}
	}
	return s.lastFrame
}

func tail(t []callDesc, n int) []callDesc {
	if len(t) > n {
		return t[len(t)-n:]
	}
	return t
}

func runModels(f lib.Flags, res *lib.Result) {
	mon := res.Monitor("snapshot-models",
		"every constructor in the model table x random call sequences over all public methods whose parameters can be generated "+
			"(ctx, proto messages, strings from a small pool + ids and names harvested from results incl. nested ones, numbers, read/write options, caller edits of messages passed earlier) "+
			"and over every server-streaming RPC of the services the instance registers (Register is called with a recording registrar; each stream handler is run with a recording ServerStream: "+
			"generated request in, every sent response observed); odd sequences drive an instance built from GENERATED constructor options (the package's own With… options called with random arguments, "+
			"repeated messages left unsorted, options repeated, messages shared between options), even ones the default instance; message density cycles 0.4/0.65/0.85; "+
			"every proto message reachable from a return value, a stream event or a sent response is deep-copied when first seen and compared after every later step; "+
			"non-trivial = a sequence that produced at least two tracked messages")
	nseq := f.N(60, 1500)
	steps := 24
	type job struct{ ms modelSeq }
	names := make([]string, 0, len(modelTable))
	for _, e := range modelTable {
		// C07_MODELS=<substring> restricts the table (development only)
		if sub := os.Getenv("C07_MODELS"); sub != "" && !strings.Contains(e.key(), sub) {
			continue
		}
		names = append(names, e.key())
	}
	sort.Strings(names)
	wall := map[string]float64{}
	for _, name := range names {
		t0 := time.Now()
		for q := 0; q < nseq; q++ {
			st := steps
			if q < 6 {
				st = 6 + 3*q // small cases first: the first violation per signature is the replay
			}
			if ms := (modelSeq{Kind: "model", Model: name, Seed: f.Seed, Seq: q, Steps: st, V: genVersion}); begin(mon, name, fmt.Sprint(q), ms) {
				runModelSeq(ms, mon)
			}
		}
		wall[name] = float64(time.Since(t0).Milliseconds()) / 1000
	}
	notDriven := map[string][]string{}
	for _, e := range modelTable {
		if sk := newSession(e, seqRand(0, e.key(), 0)).skipped; len(sk) > 0 {
			notDriven[e.key()] = sk
		}
	}
	res.Extra["methods_not_driven"] = notDriven
	viaRPC := map[string][]string{}
	for _, e := range modelTable {
		ss := newSession(e, seqRand(0, e.key(), 0))
		for _, rpc := range ss.rpcs {
			viaRPC[e.key()] = append(viaRPC[e.key()], rpc.service+"/"+rpc.desc.StreamName)
		}
	}
	res.Extra["stream_rpcs_driven_through_register"] = viaRPC
	res.Extra["models_driven"] = names
	res.Extra["models_wall_s"] = wall
}
