package main

import (
	"fmt"
	"strconv"
	"strings"

	"google.golang.org/protobuf/proto"
	"google.golang.org/protobuf/types/known/fieldmaskpb"

	"github.com/smart-core-os/sc-api/go/traits"
	"github.com/smart-core-os/sc-golang/pkg/resource"
	"github.com/smart-core-os/sc-golang/pkg/trait/lightpb"
	"github.com/smart-core-os/sc-golang/verifharness/lib"
)

// ---- lightpb Model.UpdateBrightness: a NESTED update mask filters the sub-message its source refers to --------------
//
// Lean: ScVerif/C07/Rim7.lean `update` (setLevelFromPreset plants a clone of the configured preset into the caller's
// message, then Value.Set with the caller's update mask; FieldUpdater.Merge filters the source — and under
// `preset.name` / `preset.title` the preset message the source refers to — in place).

type lightCase struct {
	Kind    string   `json:"kind"`    // "light"
	Presets []string `json:"presets"` // name~title@level
	Init    string   `json:"init"`    // level/name~title or level/-
	Calls   []string `json:"calls"`   // <mask>=<level/preset>; mask: - | <0|1 level_percent><n|w|a|t|b: nothing, preset, preset.name, preset.title, both>
}

func (c lightCase) line() string {
	return fmt.Sprintf("rim light %s %s %s", joinOrDash(c.Presets, ";"), c.Init, strings.Join(c.Calls, ";"))
}

func parseLPreset(s string) *traits.LightPreset {
	p := strings.SplitN(s, "~", 2)
	for len(p) < 2 {
		p = append(p, "")
	}
	return &traits.LightPreset{Name: p[0], Title: p[1]}
}

func parseBrightness(s string) *traits.Brightness {
	p := strings.SplitN(s, "/", 2)
	l, _ := strconv.Atoi(p[0])
	b := &traits.Brightness{LevelPercent: float32(l)}
	if len(p) > 1 && p[1] != "-" {
		b.Preset = parseLPreset(p[1])
	}
	return b
}

func showLPreset(p *traits.LightPreset) string { return p.GetName() + "~" + p.GetTitle() }

func showBrightness(b *traits.Brightness) string {
	p := "-"
	if b.GetPreset() != nil {
		p = showLPreset(b.Preset)
	}
	return fmt.Sprintf("%d/%s", int(b.GetLevelPercent()), p)
}

func lightMask(s string) *fieldmaskpb.FieldMask {
	if s == "-" {
		return nil
	}
	m := &fieldmaskpb.FieldMask{}
	if s[0] == '1' {
		m.Paths = append(m.Paths, "level_percent")
	}
	switch s[1] {
	case 'w':
		m.Paths = append(m.Paths, "preset")
	case 'a':
		m.Paths = append(m.Paths, "preset.name")
	case 't':
		m.Paths = append(m.Paths, "preset.title")
	case 'b':
		m.Paths = append(m.Paths, "preset.name", "preset.title")
	}
	return m
}

func runLightCase(c lightCase) (ans string, changed []string) {
	panicked, msg := lib.Catch(func() {
		var opts []resource.Option
		known := map[*traits.LightPreset]bool{}
		for _, s := range c.Presets {
			q := strings.SplitN(s, "@", 2)
			l, _ := strconv.Atoi(q[1])
			opts = append(opts, lightpb.WithPreset(float32(l), parseLPreset(q[0])))
		}
		opts = append(opts, lightpb.WithInitialBrightness(parseBrightness(c.Init)))
		m := lightpb.NewModel(opts...)
		type held struct {
			ptr, copy proto.Message
			what      string
		}
		var before []held
		hold := func(pm proto.Message, what string) {
			before = append(before, held{pm, proto.Clone(pm), what})
		}
		for _, p := range m.ListPresets() {
			known[p] = true
			hold(p, "the preset "+p.GetName()+" (ListPresets before the calls)")
		}
		if b, _ := m.GetBrightness(); b != nil {
			hold(b, "the initial brightness")
			if b.Preset != nil {
				known[b.Preset] = true
			}
		}
		var outs []string
		var own []*traits.Brightness
		for k, s := range c.Calls {
			q := strings.SplitN(s, "=", 2)
			light := parseBrightness(q[1])
			own = append(own, light)
			if light.Preset != nil {
				known[light.Preset] = true
			}
			res, err := m.UpdateBrightness(light, resource.WithUpdateMask(lightMask(q[0])))
			if err != nil || res == nil {
				outs = append(outs, "err")
				continue
			}
			o := showBrightness(res)
			if res.Preset != nil && known[res.Preset] {
				o += "a"
			}
			if res.Preset != nil {
				known[res.Preset] = true
			}
			outs = append(outs, o)
			hold(res, fmt.Sprintf("the brightness handed back by call %d", k))
		}
		var ps, owns []string
		for _, p := range m.ListPresets() {
			ps = append(ps, showLPreset(p))
		}
		// the caller edits what it passed (and whatever that refers to), after the calls
		for _, b := range own {
			owns = append(owns, showBrightness(b))
			b.LevelPercent += 1
			if b.Preset != nil {
				b.Preset.Name += "!"
				b.Preset.Title += "!"
			}
		}
		for _, b := range before {
			if !proto.Equal(b.ptr, b.copy) {
				changed = append(changed, fmt.Sprintf("%s was %s and is now %s", b.what, txt(b.copy), txt(b.ptr)))
			}
		}
		ans = strings.Join(outs, ",") + "|presets=" + strings.Join(ps, ";") + "|own=" + strings.Join(owns, ";")
	})
	if panicked {
		return "panic:" + msg, changed
	}
	return ans, changed
}

func lightCases() []lightCase {
	var out []lightCase
	masks := []string{"-", "0n", "1n", "0w", "1w", "0a", "1a", "0t", "0b", "1b"}
	lights := []string{"0/n1~", "7/n1~x", "0/n2~T", "5/zz~q", "3/-", "0/~"}
	for _, prs := range [][]string{nil, {"n1~T1@40"}, {"n1~T1@40", "n2~@70"}} {
		for _, ini := range []string{"10/-", "40/n1~T1"} {
			for _, m1 := range masks {
				for _, l1 := range lights {
					out = append(out, lightCase{Kind: "light", Presets: prs, Init: ini, Calls: []string{m1 + "=" + l1}})
				}
			}
			// two calls: the second under every mask after a first that selected a preset under a nested mask or none
			for _, first := range []string{"0a=0/n1~", "-=0/n1~", "1b=9/n2~z", "0w=0/zz~q"} {
				for _, m2 := range masks {
					for _, l2 := range []string{"0/n1~", "3/-", "0/n2~T"} {
						out = append(out, lightCase{Kind: "light", Presets: prs, Init: ini, Calls: []string{first, m2 + "=" + l2}})
					}
				}
			}
		}
	}
	return out
}

func lightViolation(c lightCase, changed []string, mon *lib.Monitor) {
	if len(changed) > 0 {
		mon.Violate("C07/lightpb/UpdateBrightness/published-message-changes", "a message obtained before changed: "+strings.Join(changed, "; "),
			c, "the configured presets, the initial brightness and every brightness handed back read as they did (a write edits only the caller's own message; the caller's later edits reach nothing)", strings.Join(changed, "; "))
	}
}

func runRim9(f lib.Flags, res *lib.Result) {
	tie := res.Tie("rim-light-nested-mask", "K2",
		"lightpb Model.UpdateBrightness under nested update masks vs the Lean `Rim7.update`: preset tables {none, n1, n1+n2} x initial brightness {no preset, preset n1} x "+
			"(every single call: 10 masks {none, empty, level_percent, preset, preset.name, preset.title, both, with / without level_percent} x 6 messages {preset n1 / n2 / unknown / none / empty name, "+
			"with and without title}) and (two calls: 4 first calls x 10 masks x 3 messages); the whole domain; compared: the brightness every call hands back, whether its preset message existed before "+
			"the call, the configured presets afterwards (ListPresets) and the caller's messages afterwards (the write filters them in place); non-trivial = a preset of the table is selected")
	tie.Exhaustive = true
	mon := res.Monitor("rim-light-nested-mask-frame", "on the same cases: the configured presets, the initial brightness and the brightness every call handed back equal the copies taken then, "+
		"also after the caller edited every message it passed and the preset messages they refer to")
	drv, err := lib.StartDriver(f.Driver)
	if err != nil {
		tie.Fail(err)
		return
	}
	defer drv.Close()
	cs := lightCases()
	lines := make([]string, len(cs))
	for i, c := range cs {
		lines[i] = c.line()
	}
	model, err := drv.Batch(lines)
	if err != nil {
		tie.Fail(err)
		return
	}
	for i, c := range cs {
		ans, changed := runLightCase(c)
		nt := false
		for _, s := range c.Calls {
			for _, p := range c.Presets {
				nt = nt || strings.Contains(s, "/"+strings.SplitN(p, "~", 2)[0]+"~")
			}
		}
		mon.Eval(lines[i], nt, nil)
		lightViolation(c, changed, mon)
		tie.Record(lines[i], nt, c, model[i], ans)
	}
}
