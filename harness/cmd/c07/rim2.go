package main

import (
	"context"
	"fmt"
	"sort"
	"strings"
	"time"

	"google.golang.org/protobuf/types/known/fieldmaskpb"

	"github.com/smart-core-os/sc-api/go/traits"
	"github.com/smart-core-os/sc-golang/pkg/resource"
	"github.com/smart-core-os/sc-golang/pkg/trait/enterleavesensorpb"
	"github.com/smart-core-os/sc-golang/pkg/trait/metadatapb"
	"github.com/smart-core-os/sc-golang/verifharness/lib"
)

// Driver ties for the two other rim models (lean/ScVerif/C07/Rim.lean): the traits part of metadatapb's merge
// interceptor (`mergeTraits`) and enterleavesensorpb's seed edit (`seedEdit`), each compared with the real model:
// the result AND what the stored messages look like afterwards.

type mergeCase struct {
	Kind string `json:"kind"` // "merge"
	Old  string `json:"old"`
	Upd  string `json:"upd"`
}

func showTMd(t *traits.TraitMetadata) string {
	n := t.GetName()
	if n == "" {
		n = "~"
	}
	var kv []string
	for k, v := range t.GetMore() {
		kv = append(kv, k+"="+v)
	}
	sort.Strings(kv)
	if len(kv) == 0 {
		return n + ":."
	}
	return n + ":" + strings.Join(kv, ",")
}

func showTMds(l []*traits.TraitMetadata) string {
	if len(l) == 0 {
		return "-"
	}
	p := make([]string, len(l))
	for i, t := range l {
		p[i] = showTMd(t)
	}
	return strings.Join(p, ";")
}

func parseTMds(s string) []*traits.TraitMetadata {
	if s == "-" {
		return nil
	}
	var out []*traits.TraitMetadata
	for _, p := range strings.Split(s, ";") {
		nm := strings.SplitN(p, ":", 2)
		t := &traits.TraitMetadata{Name: nm[0]}
		if t.Name == "~" {
			t.Name = ""
		}
		if len(nm) == 2 && nm[1] != "." {
			t.More = map[string]string{}
			for _, kv := range strings.Split(nm[1], ",") {
				x := strings.SplitN(kv, "=", 2)
				t.More[x[0]] = x[1]
			}
		}
		out = append(out, t)
	}
	return out
}

// runMergeCase: the model holds `old` as its stored traits; MergeMetadata(upd); answer = result traits | stored traits now.
func runMergeCase(c mergeCase) (ans string, storedChanged bool) {
	stored := parseTMds(c.Old)
	before := showTMds(stored)
	m := metadatapb.NewModel(resource.WithInitialValue(&traits.Metadata{Traits: stored}))
	var res *traits.Metadata
	panicked, msg := lib.Catch(func() {
		var err error
		res, err = m.MergeMetadata(&traits.Metadata{Traits: parseTMds(c.Upd)})
		if err != nil {
			panic(err)
		}
	})
	if panicked {
		return "panic:" + msg, false
	}
	after := showTMds(stored) // the very messages (and slice) the store held before the call
	return showTMds(res.GetTraits()) + "|" + after, after != before
}

type seedCase struct {
	Kind      string `json:"kind"` // "seed"
	Direction int    `json:"direction"`
	Occupant  string `json:"occupant"`
	Total     int    `json:"total"`
	// Opts names the read options handed to PullEnterLeaveEvents: "" (none) or "+"-joined tokens of
	// bp (WithBackpressure(true)), lossy (WithBackpressure(false)), uo0 (WithUpdatesOnly(false)), nilmask (WithReadMask(nil)),
	// mask:<letters of dot | 0> (WithReadMask over direction / occupant / enter_total; 0 = the empty mask)
	Opts string `json:"opts,omitempty"`
}

// seedOpts builds the option list a seedCase names and the mask token the model is given (`-` = no read mask).
func seedOpts(spec string) (opts []resource.ReadOption, mask string) {
	mask = "-"
	if spec == "" {
		return nil, mask
	}
	for _, tok := range strings.Split(spec, "+") {
		switch {
		case tok == "bp":
			opts = append(opts, resource.WithBackpressure(true))
		case tok == "lossy":
			opts = append(opts, resource.WithBackpressure(false))
		case tok == "uo0":
			opts = append(opts, resource.WithUpdatesOnly(false))
		case tok == "nilmask":
			opts = append(opts, resource.WithReadMask(nil))
		case strings.HasPrefix(tok, "mask:"):
			mask = strings.TrimPrefix(tok, "mask:")
			fm := &fieldmaskpb.FieldMask{}
			for _, c := range mask {
				switch c {
				case 'd':
					fm.Paths = append(fm.Paths, "direction")
				case 'o':
					fm.Paths = append(fm.Paths, "occupant")
				case 't':
					fm.Paths = append(fm.Paths, "enter_total")
				}
			}
			opts = append(opts, resource.WithReadMask(fm))
		}
	}
	return opts, mask
}

func showELE(e *traits.EnterLeaveEvent) string {
	o := "-"
	if e.GetOccupant() != nil {
		o = e.GetOccupant().GetName()
	}
	return fmt.Sprintf("%d,%s,%d", int(e.GetDirection()), o, e.GetEnterTotal())
}

// runSeedCase: the model holds an event; a Pull is opened; answer = seed sent | stored event now.
func runSeedCase(c seedCase) (ans string, storedChanged bool) {
	ev := &traits.EnterLeaveEvent{Direction: traits.EnterLeaveEvent_Direction(c.Direction)}
	if c.Occupant != "-" {
		ev.Occupant = &traits.EnterLeaveEvent_Occupant{Name: c.Occupant}
	}
	t := int32(c.Total)
	ev.EnterTotal = &t
	m := enterleavesensorpb.NewModel(enterleavesensorpb.WithInitialEnterLeaveEvent(ev))
	stored, _ := m.GetEnterLeaveEvent() // no mask: the stored message itself
	before := showELE(stored)
	opts, _ := seedOpts(c.Opts)
	ctx, cancel := context.WithCancel(context.Background())
	defer cancel()
	var sent string
	select {
	case ch, ok := <-m.PullEnterLeaveEvents(ctx, opts...):
		if !ok {
			return "no-seed", false
		}
		sent = showELE(ch.Value)
	case <-time.After(2 * time.Second):
		return "no-seed", false
	}
	after := showELE(stored)
	return sent + "|" + after, after != before
}

func runRim2(f lib.Flags, res *lib.Result) {
	tie := res.Tie("rim-merge-seed", "K1",
		"metadatapb MergeMetadata vs the Lean `mergeTraits` (stored traits with distinct names from {a,b,c,~}, `more` maps over {x,y}x{1,2}; updates of 0-3 traits with "+
			"possibly repeated names) and enterleavesensorpb PullEnterLeaveEvents vs the Lean `pullFirst` (all directions x occupant present/absent x totals 0-2 x 13 read-option lists: none, backpressure on/off, updates-only false, nil mask, "+
			"read masks over direction/occupant/enter_total incl. the empty mask, mixtures; exhaustive); compared: "+
			"the result / the seed sent AND the stored messages as they are afterwards; non-trivial = the update is not empty / direction or occupant set")
	mon := res.Monitor("rim-merge-seed-frame", "on the same cases: the stored trait messages / the stored event are exactly as before the call")
	drv, err := lib.StartDriver(f.Driver)
	if err != nil {
		tie.Fail(err)
		return
	}
	defer drv.Close()
	r := lib.NewRand(f.Seed + 7)
	names := []string{"a", "b", "c", "~"}
	genT := func(name string) string {
		var kv []string
		for _, k := range []string{"x", "y"} {
			if r.Intn(2) == 0 {
				kv = append(kv, fmt.Sprintf("%s=%d", k, 1+r.Intn(2)))
			}
		}
		if len(kv) == 0 {
			return name + ":."
		}
		return name + ":" + strings.Join(kv, ",")
	}
	var lines, code []string
	var inputs []any
	var nontrivial []bool
	for i := 0; i < f.N(400, 6000); i++ {
		perm := r.Perm(len(names))
		var old, upd []string
		for _, j := range perm[:r.Intn(4)] {
			old = append(old, genT(names[j]))
		}
		for k := r.Intn(4); k > 0; k-- {
			upd = append(upd, genT(names[r.Intn(len(names))]))
		}
		c := mergeCase{Kind: "merge", Old: "-", Upd: "-"}
		if len(old) > 0 {
			c.Old = strings.Join(old, ";")
		}
		if len(upd) > 0 {
			c.Upd = strings.Join(upd, ";")
		}
		ans, changed := runMergeCase(c)
		mon.Eval(c.Old+"|"+c.Upd, len(upd) > 0, nil)
		if changed || strings.HasPrefix(ans, "panic:") {
			mon.Violate("C07/metadatapb/MergeMetadata/writes-stored-traits", "MergeMetadata changed the trait messages (or their order) held by the store before the call", c, c.Old, ans)
		}
		lines = append(lines, fmt.Sprintf("rim merge %s %s", c.Old, c.Upd))
		code = append(code, ans)
		inputs = append(inputs, c)
		nontrivial = append(nontrivial, len(upd) > 0)
	}
	// every option list the adapter can be handed that leaves it a seed to edit: none at all, options that are not a read
	// mask (the seed is then the stored event itself), read masks (the seed is a filtered clone), and mixtures
	optSets := []string{"", "bp", "lossy", "uo0", "nilmask", "uo0+nilmask", "bp+uo0", "mask:dot", "mask:t", "mask:do", "mask:0", "bp+mask:dt", "uo0+mask:o"}
	for _, spec := range optSets {
		for d := 0; d <= 2; d++ {
			for _, o := range []string{"-", "bob"} {
				for t := 0; t <= 2; t++ {
					c := seedCase{Kind: "seed", Direction: d, Occupant: o, Total: t, Opts: spec}
					ans, changed := runSeedCase(c)
					mon.Eval(fmt.Sprint(c), d != 0 || o != "-", nil)
					if changed || ans == "no-seed" {
						mon.Violate("C07/enterleavesensorpb/PullEnterLeaveEvents/writes-stored-event", "opening a Pull changed the stored event", c, "unchanged", ans)
					}
					_, mask := seedOpts(spec)
					lines = append(lines, fmt.Sprintf("rim seedp %d %s %d %s", d, o, t, mask))
					code = append(code, ans)
					inputs = append(inputs, c)
					nontrivial = append(nontrivial, d != 0 || o != "-")
				}
			}
		}
	}
	model, err := drv.Batch(lines)
	if err != nil {
		tie.Fail(err)
		return
	}
	for i := range lines {
		tie.Record(lines[i], nontrivial[i], inputs[i], model[i], code[i])
		tie.Count(strings.Fields(lines[i])[1])
	}
}
