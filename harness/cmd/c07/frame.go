package main

import (
	"context"
	"fmt"
	"reflect"
	"runtime"
	"strings"
	"sync"

	"google.golang.org/protobuf/proto"
	"google.golang.org/protobuf/reflect/protoreflect"
)

// ---------------------------------------------------------------------------------------------------------------
// Round 6: three things the model sessions did not exercise.
//
//  1. READS FRAME. "Read-only operations (Get, List, Pull and its seed, Describe) leave stored state exactly as it
//     was" was only checked on the core resources. On a trait model the stored state is whatever its own read-only
//     methods report, so around every read-only step of a session the harness (a) renders the answers of all of the
//     instance's non-streaming read-only methods (no options, every pooled id) before and after, and (b) counts the
//     events delivered to subscriptions that were already open: the renderings must be equal and no event may
//     arrive. (b) also sees a read that writes when the rendering itself triggers it (a collector run by List).
//     A difference is re-executed on a fresh instance (same generated sequence) and reported only when it shows
//     again: a timer of the code under test (lightpb's memory device tweens) firing inside the window does not.
//  2. CONSUMERS THAT DO NOT KEEP UP. Every stream used to be drained at once, so a writer never waited for a
//     subscriber and nobody looked at an event while its writer was still inside the write. A subscription may now
//     be STALLED (its consumer takes nothing); stalled model-level subscriptions ask for backpressure. A call that
//     has not returned after the scheduler ran dry is parked behind such a consumer: the snapshots taken so far are
//     what the other subscribers were handed while the write was in flight; the stalled consumers then take one
//     item at a time until the call returns.
//  3. SUBSCRIBERS FIRST. Half of the sequences start by subscribing to every stream the instance offers (model
//     methods returning channels, server-streaming RPCs): one consumer that keeps up and, one in two, a stalled one.
// ---------------------------------------------------------------------------------------------------------------

// subscription is one open stream of the session (a channel returned by a model method or a recording ServerStream).
type subscription struct {
	name      string
	born      int   // step that opened it (-1: prologue)
	events    int64 // guarded by session.evMu
	wantStall bool  // guarded by session.gateMu
	credits   int   // items a stalled consumer may still take; guarded by session.gateMu
}

func (s *session) newSub(name string, step int, stall bool) *subscription {
	sub := &subscription{name: name, born: step, wantStall: stall}
	s.gateMu.Lock()
	s.subs = append(s.subs, sub)
	s.gateMu.Unlock()
	return sub
}

// take blocks the consumer of a stalled subscription until it has been granted an item (or the session ends).
func (s *session) take(sub *subscription) {
	if sub == nil {
		return
	}
	s.gateMu.Lock()
	for sub.wantStall && sub.credits == 0 && !s.closing {
		s.gateCond.Wait()
	}
	if sub.wantStall && sub.credits > 0 {
		sub.credits--
	}
	s.gateMu.Unlock()
}

func (s *session) countEvent(sub *subscription) {
	s.evMu.Lock()
	s.events++
	if sub != nil {
		sub.events++
	}
	s.evMu.Unlock()
}

func (s *session) stalledSubs() int {
	s.gateMu.Lock()
	defer s.gateMu.Unlock()
	n := 0
	for _, sub := range s.subs {
		if sub.wantStall {
			n++
		}
	}
	return n
}

// grant lets every stalled consumer take n more items.
func (s *session) grant(n int) {
	s.gateMu.Lock()
	for _, sub := range s.subs {
		if sub.wantStall {
			sub.credits += n
		}
	}
	s.gateCond.Broadcast()
	s.gateMu.Unlock()
}

// revoke takes back what the stalled consumers were granted and did not use.
func (s *session) revoke() {
	s.gateMu.Lock()
	for _, sub := range s.subs {
		sub.credits = 0
	}
	s.gateMu.Unlock()
}

func (s *session) endGates() {
	s.gateMu.Lock()
	s.closing = true
	s.gateCond.Broadcast()
	s.gateMu.Unlock()
}

// eventsBefore sums the events received so far on the subscriptions opened before step.
func (s *session) eventsBefore(step int) int64 {
	s.gateMu.Lock()
	subs := append([]*subscription(nil), s.subs...)
	s.gateMu.Unlock()
	s.evMu.Lock()
	defer s.evMu.Unlock()
	var n int64
	for _, sub := range subs {
		if sub.born < step && !sub.wantStall { // a stalled consumer takes old events whenever it is granted an item
			n += sub.events
		}
	}
	return n
}

// await waits for a call. One P: after a few hundred yields every goroutine of the code under test has run until it
// blocks, so a call that is still not back is parked (behind a stalled consumer) or sleeping. Returns parked=true
// when stalled consumers had to take items for the call to come back.
func (s *session) await(done chan string) (res string, parked bool, hung bool) {
	for i := 0; i < 300; i++ {
		select {
		case res = <-done:
			return res, false, false
		default:
			runtime.Gosched()
		}
	}
	if s.v >= 6 && s.stalledSubs() > 0 {
		for round := 0; round < 400; round++ {
			s.grant(1)
			parked = true
			for i := 0; i < 60; i++ {
				select {
				case res = <-done:
					s.revoke()
					return res, parked, false
				default:
					runtime.Gosched()
				}
			}
		}
		s.grant(1 << 20)
	}
	select {
	case res = <-done:
		s.revoke()
		return res, parked, false
	case <-timeAfter3s():
		return "", parked, true
	}
}

// ---- read-only methods and the rendering of the stored state ---------------------------------------------------

// readOnlyName: the property's own list (Get, List, Pull and its seed, Describe) plus Find.
func readOnlyName(name string) bool {
	for _, p := range []string{"Get", "List", "Describe", "Pull", "Find"} {
		if strings.HasPrefix(name, p) && (len(name) == len(p) || name[len(p)] < 'a' || name[len(p)] > 'z') {
			return true
		}
	}
	return false
}

// readOnlyMethod: named as a read, or taking resource.ReadOptions (a method configured by read options is a read).
func readOnlyMethod(m reflect.Method) bool {
	if readOnlyName(m.Name) {
		return true
	}
	mt := m.Type
	return mt.IsVariadic() && mt.In(mt.NumIn()-1).Elem() == tReadOpt
}

// probe is a non-streaming read-only method whose arguments the harness can enumerate: nothing / read options
// (none given), one string (every pooled string), or ctx + request message (empty, and one per pooled string with
// every string field but the page token set to it).
type probe struct {
	m     reflect.Method
	str   int          // index of the single string parameter, or -1
	req   reflect.Type // request message type, or nil
	reqAt int
	ctxAt int
}

func (s *session) findProbes() {
	for _, m := range s.methods {
		if !readOnlyMethod(m) || strings.HasPrefix(m.Name, "Pull") {
			continue
		}
		mt := m.Type
		p := probe{m: m, str: -1, reqAt: -1, ctxAt: -1}
		ok := mt.NumOut() > 0
		for j := 0; j < mt.NumOut(); j++ {
			if mt.Out(j).Kind() == reflect.Chan {
				ok = false
			}
		}
		for j := 1; j < mt.NumIn() && ok; j++ {
			t := mt.In(j)
			switch {
			case t == tCtx && p.ctxAt < 0:
				p.ctxAt = j
			case mt.IsVariadic() && j == mt.NumIn()-1 && t.Elem() == tReadOpt:
			case t.Kind() == reflect.String && p.str < 0 && p.req == nil:
				p.str = j
			case t.Kind() == reflect.Ptr && t.Implements(tProto) && p.req == nil && p.str < 0 && strings.HasSuffix(t.Elem().Name(), "Request"):
				p.req, p.reqAt = t, j
			default:
				ok = false
			}
		}
		if ok {
			s.probes = append(s.probes, p)
		}
	}
}

func (p probe) call(s *session, key string, useKey bool) string {
	mt := p.m.Type
	args := []reflect.Value{s.model}
	for j := 1; j < mt.NumIn(); j++ {
		switch {
		case j == p.ctxAt:
			args = append(args, reflect.ValueOf(context.Background()))
		case j == p.str:
			args = append(args, reflect.ValueOf(key).Convert(mt.In(j)))
		case j == p.reqAt:
			req := reflect.New(p.req.Elem())
			if useKey {
				r := req.Interface().(proto.Message).ProtoReflect()
				fds := r.Descriptor().Fields()
				for i := 0; i < fds.Len(); i++ {
					if fd := fds.Get(i); fd.Kind() == protoreflect.StringKind && !fd.IsList() && fd.Name() != "page_token" {
						r.Set(fd, protoreflect.ValueOfString(key))
					}
				}
			}
			args = append(args, req)
		}
	}
	var outs []reflect.Value
	if panicked, msg := catch(func() { outs = p.m.Func.Call(args) }); panicked {
		return "panic:" + msg
	}
	var parts []string
	for _, o := range outs {
		parts = append(parts, renderFull(o, 0, s.textFP))
	}
	return strings.Join(parts, ",")
}

func hasStringField(t reflect.Type) bool {
	md := reflect.New(t.Elem()).Interface().(proto.Message).ProtoReflect().Descriptor()
	fds := md.Fields()
	for i := 0; i < fds.Len(); i++ {
		if fd := fds.Get(i); fd.Kind() == protoreflect.StringKind && !fd.IsList() && fd.Name() != "page_token" {
			return true
		}
	}
	return false
}

// fingerprint renders what every probe answers, for the given pool of ids. A read that does not come back (the
// instance is wedged: an earlier call never returned and holds the model's lock) ends the frame checks of the session.
func (s *session) fingerprint(pool []string) string {
	if s.wedged {
		return ""
	}
	out := make(chan string, 1)
	go func() { out <- s.fingerprint1(pool) }()
	// like any other call, a read may have to wait for a stalled consumer (a handler that sends while it holds the
	// model's lock): the stalled consumers then take items until it is back
	fp, _, hung := s.await(out)
	if hung {
		s.wedged = true
		return ""
	}
	return fp
}

func (s *session) fingerprint1(pool []string) string {
	var b strings.Builder
	for _, p := range s.probes {
		b.WriteString(p.m.Name)
		b.WriteString("=")
		switch {
		case p.str >= 0:
			for _, k := range pool {
				b.WriteString(k + ":" + p.call(s, k, true) + ";")
			}
		case p.req != nil:
			b.WriteString(p.call(s, "", false) + ";")
			if hasStringField(p.req) {
				for _, k := range pool {
					b.WriteString(k + ":" + p.call(s, k, true) + ";")
				}
			}
		default:
			b.WriteString(p.call(s, "", false))
		}
		b.WriteString("\n")
	}
	return b.String()
}

// renderFull renders a returned value completely. text=false renders messages as deterministic wire bytes (several
// times cheaper than text; enough to compare); the re-execution that confirms a difference renders text.
func renderFull(o reflect.Value, depth int, text bool) string {
	if !o.IsValid() || depth > 4 {
		return "-"
	}
	t := o.Type()
	if t.Kind() == reflect.Ptr && t.Implements(tProto) {
		if o.IsNil() {
			return "<nil>"
		}
		if text {
			return txt(o.Interface().(proto.Message))
		}
		b, err := proto.MarshalOptions{Deterministic: true}.Marshal(o.Interface().(proto.Message))
		if err != nil {
			return txt(o.Interface().(proto.Message))
		}
		return fmt.Sprintf("<%d:%s>", len(b), b)
	}
	switch t.Kind() {
	case reflect.Slice, reflect.Array:
		var p []string
		for i := 0; i < o.Len(); i++ {
			p = append(p, renderFull(o.Index(i), depth+1, text))
		}
		return "[" + strings.Join(p, " ") + "]"
	case reflect.Interface:
		if o.IsNil() {
			return "nil"
		}
		if e, ok := o.Interface().(error); ok {
			return "err(" + e.Error() + ")"
		}
		return renderFull(o.Elem(), depth+1, text)
	case reflect.Ptr:
		if o.IsNil() {
			return "nil"
		}
		return "&" + renderFull(o.Elem(), depth+1, text)
	case reflect.Struct:
		var p []string
		for i := 0; i < t.NumField(); i++ {
			if t.Field(i).IsExported() {
				p = append(p, t.Field(i).Name+":"+renderFull(o.Field(i), depth+1, text))
			}
		}
		return "{" + strings.Join(p, " ") + "}"
	case reflect.Chan, reflect.Func:
		return "<" + t.Kind().String() + ">"
	}
	return fmt.Sprint(o.Interface())
}

// frameDiff describes a read-only step after which the instance's read-only methods answer differently, or during
// which an open subscription received an event.
type frameDiff struct {
	Class    string // store-changed-by-read | event-caused-by-read | reads-change-what-reads-return
	Method   string
	Expected string
	Observed string
}

func firstDiffLine(a, b string) (string, string) {
	la, lb := strings.Split(a, "\n"), strings.Split(b, "\n")
	for i := 0; i < len(la) && i < len(lb); i++ {
		if la[i] != lb[i] {
			return clip(la[i], 600), clip(lb[i], 600)
		}
	}
	return clip(a, 600), clip(b, 600)
}

func clip(s string, n int) string {
	if len(s) > n {
		return s[:n] + "…"
	}
	return s
}

// frameWindow is opened before a read-only step and closed after it has settled.
type frameWindow struct {
	pool   []string
	before string
	events int64
	step   int
	diff   *frameDiff
}

func (s *session) openFrame(step int, method string) *frameWindow {
	if s.v < 6 || !s.frames {
		return nil
	}
	w := &frameWindow{pool: append([]string(nil), s.g.Pool...), step: step}
	w.events = s.eventsBefore(step)
	w.before = s.fingerprint(w.pool)
	if !s.fpChecked && len(s.probes) > 0 {
		// the first rendering of a session: a second one must read the same (the probes are read-only calls themselves)
		s.fpChecked = true
		again := s.fingerprint(w.pool)
		if again != w.before && !s.wedged {
			e, o := firstDiffLine(w.before, again)
			w.diff = &frameDiff{Class: "reads-change-what-reads-return", Method: method, Expected: e, Observed: o}
		}
		w.before = again
	}
	return w
}

func (s *session) closeFrame(w *frameWindow, method string) *frameDiff {
	if w == nil {
		return nil
	}
	if w.diff != nil {
		return w.diff
	}
	after := s.fingerprint(w.pool)
	if s.wedged {
		return nil
	}
	if after != w.before {
		e, o := firstDiffLine(w.before, after)
		return &frameDiff{Class: "store-changed-by-read", Method: method, Expected: e, Observed: o}
	}
	if n := s.eventsBefore(w.step) - w.events; n > 0 {
		return &frameDiff{Class: "event-caused-by-read", Method: method, Expected: "no event on the subscriptions that were open before the call",
			Observed: fmt.Sprintf("%d event(s) delivered to subscriptions opened before step %d", n, w.step)}
	}
	return nil
}

// ---- subscribers first -----------------------------------------------------------------------------------------

// subscribeAll subscribes to every stream the instance offers. Round 0 (before the first step): a consumer that
// keeps up and, one in two, a stalled one. Round 1 (half way through, when collections have records and a new
// subscriber's pipeline is filled by its seed at once, so that the very next write parks behind it): a stalled one;
// the steps after round 1 only draw methods that are not reads.
func (s *session) subscribeAll(round, step int) (hung bool) {
	n := len(s.methods) + len(s.rpcs)
	for k := 0; k < n; k++ {
		if k < len(s.methods) {
			stream := false
			for j := 0; j < s.methods[k].Type.NumOut(); j++ {
				if s.methods[k].Type.Out(j).Kind() == reflect.Chan {
					stream = true
				}
			}
			if !stream {
				continue
			}
		}
		if round == 0 {
			if _, h := s.invoke(step, k, stallNever); h {
				return true
			}
		}
		if round == 1 || s.r.Intn(2) == 0 {
			if _, h := s.invoke(step, k, stallAlways); h {
				return true
			}
		}
	}
	s.writesOnly = round == 1
	return false
}

const (
	stallRandom = iota
	stallNever
	stallAlways
)

type gates struct {
	gateMu   sync.Mutex
	gateCond *sync.Cond
	closing  bool
	subs     []*subscription
}
