package main

import (
	"context"
	"fmt"
	"sort"
	"strconv"
	"strings"
	"sync"
	"time"

	"google.golang.org/protobuf/proto"
	"google.golang.org/protobuf/types/known/timestamppb"

	"github.com/smart-core-os/sc-api/go/traits"
	scTime "github.com/smart-core-os/sc-api/go/types/time"
	"github.com/smart-core-os/sc-golang/pkg/resource"
	"github.com/smart-core-os/sc-golang/pkg/trait/bookingpb"
	"github.com/smart-core-os/sc-golang/pkg/trait/electricpb"
	"github.com/smart-core-os/sc-golang/pkg/trait/hailpb"
	"github.com/smart-core-os/sc-golang/verifharness/lib"
)

// Round 6 rim (lean/ScVerif/C07/Rim4.lean), code outside the anchor files that sits between callers and the store:
//
//   - hailpb: the collector (`gc`, rate limited by a ticket, run by CreateHail only) and the reads. The real model is
//     built as NewModel builds it — initial records (keys that need not equal the record's own id), keepAlive, a fixed
//     clock — and driven through short scripts; compared with the Lean `hstep`: the keys of the collection after every
//     call. Monitor: GetHail / ListHails / opening PullHails change neither the key set nor a stored message.
//   - bookingpb ListBookings with `booking_intersects`: the include predicate (timepb.PeriodsIntersect over cutPeriod)
//     is handed the stored bookings themselves. Compared with the Lean `listInclude (bookingPred cutPeriod)`: which
//     bookings are listed and the stored periods AFTER the call. Monitor: the stored bookings are as they were.
//
// Both exhaustive over a small domain.

type hailRec struct {
	Key    string `json:"key"`
	ID     string `json:"id"`
	Arrive string `json:"arrive"` // "-" or seconds
	Body   string `json:"body"`
}

type hailCase struct {
	Kind      string    `json:"kind"` // "hail"
	KeepAlive int       `json:"keep_alive_s"`
	Recs      []hailRec `json:"recs"`
	Ops       []string  `json:"ops"`
}

const hailNow = 1000

func (c hailCase) line() string {
	recs := "-"
	if len(c.Recs) > 0 {
		var p []string
		for _, r := range c.Recs {
			p = append(p, r.Key+":"+r.ID+":"+r.Arrive+":"+r.Body)
		}
		recs = strings.Join(p, ";")
	}
	return fmt.Sprintf("rim hail %d %d %s %s", c.KeepAlive, hailNow, recs, strings.Join(c.Ops, ","))
}

type fixedClock struct{ t time.Time }

func (f fixedClock) Now() time.Time { return f.t }

func mkHail(id, arrive, body string) *traits.Hail {
	h := &traits.Hail{Id: id, Origin: &traits.Hail_Location{Name: body}}
	if arrive != "-" {
		n, _ := strconv.Atoi(arrive)
		h.ArriveTime = &timestamppb.Timestamp{Seconds: int64(n)}
	}
	return h
}

// runHailCase returns the code's answer (the keys after every op, generated ids renamed g1, g2, … in order of
// creation) and, per read op, what it changed ("" if nothing).
func runHailCase(c hailCase) (ans string, readChanges []string) {
	panicked, msg := lib.Catch(func() {
		opts := []resource.Option{hailpb.WithKeepAlive(time.Duration(c.KeepAlive) * time.Second), resource.WithClock(fixedClock{time.Unix(hailNow, 0)})}
		universe := []string{}
		for _, r := range c.Recs {
			opts = append(opts, resource.WithInitialRecord(r.Key, mkHail(r.ID, r.Arrive, r.Body)))
			universe = append(universe, r.Key)
		}
		m := hailpb.NewModel(opts...)
		ctx, cancel := context.WithCancel(context.Background())
		defer cancel()
		rename := map[string]string{}
		state := func() (keys []string, msgs map[string]*traits.Hail) {
			msgs = map[string]*traits.Hail{}
			for _, k := range universe {
				if h, ok := m.GetHail(k); ok {
					name := k
					if g, ok := rename[k]; ok {
						name = g
					}
					keys = append(keys, name)
					msgs[name] = proto.Clone(h).(*traits.Hail)
				}
			}
			sort.Strings(keys)
			return
		}
		var out []string
		for _, op := range c.Ops {
			beforeKeys, beforeMsgs := state()
			read := false
			switch {
			case op == "l":
				read = true
				m.ListHails()
			case op == "p":
				read = true
				ch := m.PullHails(ctx)
				quiesce(30)
				select {
				case <-ch:
				default:
				}
			case strings.HasPrefix(op, "g"):
				read = true
				m.GetHail(op[1:])
			case strings.HasPrefix(op, "d"):
				_, _ = m.DeleteHail(op[1:], resource.WithAllowMissing(true))
			case strings.HasPrefix(op, "c"):
				parts := strings.Split(op[1:], ":")
				h, err := m.CreateHail(mkHail("", parts[0], parts[1]))
				if err == nil && h != nil {
					rename[h.Id] = fmt.Sprintf("g%d", len(rename)+1)
					universe = append(universe, h.Id)
				}
			}
			quiesce(10)
			keys, msgs := state()
			out = append(out, strings.Join(keys, "."))
			if read {
				ch := ""
				if strings.Join(keys, ".") != strings.Join(beforeKeys, ".") {
					ch = fmt.Sprintf("keys %v -> %v", beforeKeys, keys)
				} else {
					for k, b := range beforeMsgs {
						if !proto.Equal(b, msgs[k]) {
							ch = fmt.Sprintf("hail %s: %s -> %s", k, txt(b), txt(msgs[k]))
						}
					}
				}
				if ch != "" {
					readChanges = append(readChanges, op+": "+ch)
				}
			}
		}
		ans = strings.Join(out, "|")
	})
	if panicked {
		return "panic:" + msg, readChanges
	}
	return ans, readChanges
}

func hailViolations(c hailCase, changes []string, mon *lib.Monitor) {
	for _, ch := range changes {
		op := ch[:1]
		name := map[string]string{"l": "ListHails", "p": "PullHails", "g": "GetHail"}[op]
		mon.Violate("C07/hailpb/"+name+"/read-changes-store", "a read-only call of the hail model changed the collection: "+ch, c, "the collection as it was", ch)
	}
}

func hailCases() []hailCase {
	var first, second []hailRec
	for _, id := range []string{"a", "b"} {
		for _, ar := range []string{"-", "100", "990"} {
			for _, body := range []string{"x", "y"} {
				first = append(first, hailRec{Key: "a", ID: id, Arrive: ar, Body: body})
				second = append(second, hailRec{Key: "b", ID: id, Arrive: ar, Body: body})
			}
		}
	}
	recSets := [][]hailRec{nil}
	for _, f := range first {
		recSets = append(recSets, []hailRec{f})
		for _, s := range second {
			recSets = append(recSets, []hailRec{f, s})
		}
	}
	scripts := [][]string{
		{"l"},
		{"c100:x", "l"},
		{"l", "c100:x", "l", "c100:y"},
		{"ga", "p", "c-:x", "l"},
		{"db", "c990:x", "l", "gb"},
	}
	var out []hailCase
	for _, ka := range []int{-1, 30, 3600} {
		for _, rs := range recSets {
			for _, sc := range scripts {
				out = append(out, hailCase{Kind: "hail", KeepAlive: ka, Recs: rs, Ops: sc})
			}
		}
	}
	return out
}

// ---- bookingpb: include predicate on live stored bookings ---------------------------------------------------------

type inclCase struct {
	Kind  string   `json:"kind"` // "incl"
	Req   string   `json:"req"`  // s:e, "-" = unset
	Items []string `json:"items"`
}

func (c inclCase) line() string { return "rim incl " + c.Req + " " + strings.Join(c.Items, ";") }

func mkPeriod(s string) *scTime.Period {
	if s == "n" {
		return nil
	}
	parts := strings.Split(s, ":")
	p := &scTime.Period{}
	if parts[0] != "-" {
		n, _ := strconv.Atoi(parts[0])
		p.StartTime = &timestamppb.Timestamp{Seconds: int64(n)}
	}
	if parts[1] != "-" {
		n, _ := strconv.Atoi(parts[1])
		p.EndTime = &timestamppb.Timestamp{Seconds: int64(n)}
	}
	return p
}

func showPeriod(p *scTime.Period) string {
	if p == nil {
		return "n"
	}
	f := func(t *timestamppb.Timestamp) string {
		if t == nil {
			return "-"
		}
		return fmt.Sprint(t.Seconds)
	}
	return f(p.StartTime) + ":" + f(p.EndTime)
}

func runInclCase(c inclCase) string {
	var ans string
	panicked, msg := lib.Catch(func() {
		var bs []*traits.Booking
		for i, it := range c.Items {
			bs = append(bs, &traits.Booking{Id: fmt.Sprint(i), Booked: mkPeriod(it)})
		}
		model := bookingpb.NewModel(bookingpb.WithInitialBooking(bs...))
		resp, err := bookingpb.NewModelServer(model).ListBookings(context.Background(), &traits.ListBookingsRequest{BookingIntersects: mkPeriod(c.Req)})
		if err != nil {
			ans = "err:" + err.Error()
			return
		}
		acc := make([]byte, len(c.Items))
		for i := range acc {
			acc[i] = '0'
		}
		for _, b := range resp.Bookings {
			i, _ := strconv.Atoi(b.Id)
			acc[i] = '1'
		}
		per := make([]string, len(c.Items))
		for _, b := range model.ListBookings() {
			i, _ := strconv.Atoi(b.Id)
			per[i] = showPeriod(b.Booked)
		}
		ans = "acc=" + string(acc) + "|per=" + strings.Join(per, ";")
	})
	if panicked {
		return "panic:" + msg
	}
	return ans
}

func inclViolation(c inclCase, ans string, mon *lib.Monitor) {
	if strings.HasSuffix(ans, "|per="+strings.Join(c.Items, ";")) {
		return
	}
	mon.Violate("C07/bookingpb/ListBookings/include-predicate-writes-stored-booking",
		"ListBookings with booking_intersects changed the booked period of a stored booking (or failed)", c, "per="+strings.Join(c.Items, ";"), ans)
}

func inclCases() []inclCase {
	times := []string{"-", "100", "200", "300"}
	var periods []string
	for _, s := range times {
		for _, e := range times {
			periods = append(periods, s+":"+e)
		}
	}
	items := append([]string{"n"}, periods...)
	var out []inclCase
	for _, rq := range periods {
		for _, a := range items {
			for _, b := range items {
				out = append(out, inclCase{Kind: "incl", Req: rq, Items: []string{a, b}})
			}
		}
	}
	return out
}

// ---- electricpb createOrAddMode: what a subscriber is handed while the write is in flight ---------------------------

type createCase struct {
	Kind   string   `json:"kind"` // "create"
	Keys   []string `json:"keys"` // the modes the model starts with
	Taken  bool     `json:"normal_taken"`
	SrcID  string   `json:"src_id"` // "" = CreateMode (the collection generates the id), else AddMode
	Normal bool     `json:"normal"`
}

func b01(b bool) string {
	if b {
		return "1"
	}
	return "0"
}

func dash(s string) string {
	if s == "" {
		return "-"
	}
	return s
}

func (c createCase) line() string {
	keys := "-"
	if len(c.Keys) > 0 {
		keys = strings.Join(c.Keys, ",")
	}
	return fmt.Sprintf("rim create %s %s %s %s", keys, dash(c.SrcID), b01(c.Normal), b01(c.Taken))
}

// runCreateCase: two backpressure subscribers on the modes, the first one keeps up and notes the id of every new
// value AT RECEIPT, the second one takes nothing (with initial modes it is parked on its seed, so the writer is
// parked inside bus.Send after the first subscriber was served) until the call has been seen not to return.
// inFlight: what the first subscriber saw of the announced record differs from the record after the call.
func runCreateCase(c createCase) (ans string, inFlight string) {
	panicked, msg := lib.Catch(func() {
		var init []*traits.ElectricMode
		for i, k := range c.Keys {
			init = append(init, &traits.ElectricMode{Id: k, Title: "t" + k, Normal: c.Taken && i == 0})
		}
		m := electricpb.NewModel(electricpb.WithInitialMode(init...))
		ctx, cancel := context.WithCancel(context.Background())
		defer cancel()
		type seen struct {
			ptr  *traits.ElectricMode
			copy *traits.ElectricMode
		}
		var mu sync.Mutex
		var got []seen
		sub1 := m.PullModes(ctx, resource.WithBackpressure(true), resource.WithUpdatesOnly(true))
		go func() {
			for ch := range sub1 {
				if ch.NewValue != nil {
					mu.Lock()
					got = append(got, seen{ch.NewValue, proto.Clone(ch.NewValue).(*traits.ElectricMode)})
					mu.Unlock()
				}
			}
		}()
		sub2 := m.PullModes(ctx, resource.WithBackpressure(true))
		quiesce(50)
		src := &traits.ElectricMode{Id: c.SrcID, Title: "new", Normal: c.Normal}
		var created *traits.ElectricMode
		var err error
		done := make(chan struct{})
		go func() {
			defer close(done)
			if c.SrcID == "" {
				created, err = m.CreateMode(src)
			} else if err = m.AddMode(src); err == nil {
				created, _ = m.FindMode(c.SrcID)
			}
		}()
		returned := func() bool {
			select {
			case <-done:
				return true
			default:
				return false
			}
		}
		for i := 0; i < 300 && !returned(); i++ {
			quiesce(1)
		}
		// the second subscriber starts taking
		go func() {
			for range sub2 {
			}
		}()
		select {
		case <-done:
		case <-time.After(3 * time.Second):
			ans = "hung"
			return
		}
		quiesce(50)
		rename := func(id string) string {
			switch id {
			case "", "a", "b", "c":
				return dash(id)
			}
			return "G"
		}
		out := "out=none|send=-|final=-"
		if err == nil && created != nil {
			send := "?"
			mu.Lock()
			for _, g := range got {
				if g.ptr == created {
					send = rename(g.copy.Id)
					if !proto.Equal(g.ptr, g.copy) {
						inFlight = fmt.Sprintf("received %s, now %s", txt(g.copy), txt(g.ptr))
					}
				}
			}
			mu.Unlock()
			out = "out=ok|send=" + send + "|final=" + rename(created.Id)
		}
		var keys []string
		for _, md := range m.Modes() {
			keys = append(keys, rename(md.Id))
		}
		sort.Strings(keys)
		ans = out + "|src=" + rename(src.Id) + "|keys=" + strings.Join(keys, ".")
	})
	if panicked {
		return "panic:" + msg, inFlight
	}
	return ans, inFlight
}

func createCases() []createCase {
	var out []createCase
	for _, st := range []struct {
		keys  []string
		taken bool
	}{{nil, false}, {[]string{"a"}, false}, {[]string{"a"}, true}, {[]string{"a", "b"}, false}, {[]string{"a", "b"}, true}} {
		for _, id := range []string{"", "a", "c"} {
			for _, n := range []bool{false, true} {
				out = append(out, createCase{Kind: "create", Keys: st.keys, Taken: st.taken, SrcID: id, Normal: n})
			}
		}
	}
	return out
}

func createViolation(c createCase, inFlight string, mon *lib.Monitor) {
	if inFlight != "" {
		mon.Violate("C07/electricpb/CreateMode/announced-record-changes", "the new value of the ADD event a subscriber received while the write was in flight changed before the call returned: "+inFlight,
			c, "the message as received", inFlight)
	}
}

func runRim6Create(f lib.Flags, res *lib.Result, drv *lib.Driver) {
	tie := res.Tie("rim-create-mode", "K2",
		"electricpb Model.CreateMode / AddMode (createOrAddMode) vs the Lean `createMode`: initial modes {none, a, a+b} x a is the normal mode or not x caller's id {empty: generated, a: taken, c: free} x "+
			"normal flag; the whole domain; two backpressure subscribers, the second stalled (parked on its seed when there are initial modes), so the first one receives the ADD event while the writer is inside bus.Send; "+
			"compared: outcome, the record's id AT RECEIPT of the event and when the call returns (generated ids renamed G), the caller's id afterwards, the keys; non-trivial = the call succeeds")
	tie.Exhaustive = true
	mon := res.Monitor("rim-create-mode-frame", "on the same cases: what the first subscriber received with the ADD event is unchanged when the call returns")
	cs := createCases()
	lines := make([]string, len(cs))
	for i, c := range cs {
		lines[i] = c.line()
	}
	model, err := drv.Batch(lines)
	if err != nil {
		tie.Fail(err)
		return
	}
	for i, c := range cs {
		ans, inFlight := runCreateCase(c)
		nt := strings.HasPrefix(ans, "out=ok")
		mon.Eval(lines[i], nt, nil)
		createViolation(c, inFlight, mon)
		tie.Record(lines[i], nt, c, model[i], ans)
	}
}

func runRim6(f lib.Flags, res *lib.Result) {
	tieH := res.Tie("rim-hail", "K2",
		"hailpb Model vs the Lean `hstep` (collector included): 0-2 initial records (key a / b, own id a|b — so a key need not be the record's id —, arrive_time none / long ago / recent, two bodies) x "+
			"keepAlive {-1, 30 s, 1 h} x 5 scripts of GetHail / ListHails / PullHails / DeleteHail / CreateHail (arrived long ago, recently, not at all) under a fixed clock; the whole domain; "+
			"compared: the keys of the collection after every call (generated ids renamed in order of creation); non-trivial = at least one initial record")
	tieH.Exhaustive = true
	monH := res.Monitor("rim-hail-frame", "on the same cases: GetHail, ListHails and opening PullHails change neither the key set nor a stored hail")
	tieI := res.Tie("rim-include", "K2",
		"bookingpb ModelServer.ListBookings(booking_intersects) vs the Lean `listInclude (bookingPred cutPeriod)`: two stored bookings, each without a booked period or with one of the 16 periods over "+
			"{unset, 100, 200, 300}² (empty, one-sided, ordered, BACKWARDS) x 16 request periods; the whole domain; compared: which bookings are listed and the stored periods after the call; "+
			"non-trivial = at least one stored booking has a period")
	tieI.Exhaustive = true
	monI := res.Monitor("rim-include-frame", "on the same cases: the stored bookings are as they were after the list")
	drv, err := lib.StartDriver(f.Driver)
	if err != nil {
		tieH.Fail(err)
		tieI.Fail(err)
		return
	}
	defer drv.Close()
	runRim6Create(f, res, drv)

	hc := hailCases()
	lines := make([]string, len(hc))
	for i, c := range hc {
		lines[i] = c.line()
	}
	model, err := drv.Batch(lines)
	if err != nil {
		tieH.Fail(err)
	} else {
		for i, c := range hc {
			ans, changes := runHailCase(c)
			key := lines[i]
			monH.Eval(key, len(c.Recs) > 0, nil)
			hailViolations(c, changes, monH)
			tieH.Record(key, len(c.Recs) > 0, c, model[i], ans)
		}
	}

	ic := inclCases()
	lines = make([]string, len(ic))
	for i, c := range ic {
		lines[i] = c.line()
	}
	model, err = drv.Batch(lines)
	if err != nil {
		tieI.Fail(err)
		return
	}
	for i, c := range ic {
		ans := runInclCase(c)
		nt := c.Items[0] != "n" || c.Items[1] != "n"
		monI.Eval(lines[i], nt, nil)
		inclViolation(c, ans, monI)
		tieI.Record(lines[i], nt, c, model[i], ans)
	}
}
