package main

import (
	"fmt"
	"strings"
	"time"

	"google.golang.org/protobuf/proto"
	"google.golang.org/protobuf/types/known/fieldmaskpb"

	"github.com/smart-core-os/sc-api/go/traits"
	"github.com/smart-core-os/sc-golang/pkg/resource"
	"github.com/smart-core-os/sc-golang/pkg/time/clock"
	"github.com/smart-core-os/sc-golang/pkg/trait/electricpb"
	"github.com/smart-core-os/sc-golang/verifharness/lib"
)

// ---- electricpb changeActiveMode: a model method that hands a looked-up (stored) message to a write -----------------
//
// FieldUpdater.Merge filters the SOURCE of a write in place when the resource has writable fields. A model method
// whose source is a message it looked up in another resource hands over a message readers and subscribers hold
// (Lean: ScVerif/C07/Rim5.lean `changeActive` / `changeActiveStored`).

type activeCase struct {
	Kind   string   `json:"kind"`   // "active"
	W      string   `json:"w"`      // "-" = no writable fields on the active mode resource, else 0/1 for id, title, description, start_time
	Active string   `json:"active"` // id:title:description of the initial active mode
	Modes  []string `json:"modes"`  // id:title:description of the initial modes
	IDs    []string `json:"ids"`    // ChangeActiveMode(id) calls, the clock reading k+1 during call k
}

func (c activeCase) line() string {
	ms := "-"
	if len(c.Modes) > 0 {
		ms = strings.Join(c.Modes, ";")
	}
	return fmt.Sprintf("rim active %s %s %s %s", c.W, c.Active, ms, strings.Join(c.IDs, ","))
}

// stepClock is the injected clock of the model: the harness sets the reading before every call.
type stepClock struct{ t time.Time }

func (s *stepClock) Now() time.Time                       { return s.t }
func (s *stepClock) At(time.Time) <-chan time.Time        { return make(chan time.Time) }
func (s *stepClock) After(time.Duration) <-chan time.Time { return make(chan time.Time) }
func (s *stepClock) Every(time.Duration) clock.Ticker     { return idleTicker{} }

type idleTicker struct{}

func (idleTicker) C() <-chan time.Time { return make(chan time.Time) }
func (idleTicker) Stop()               {}

func parseEMode(s string) *traits.ElectricMode {
	p := strings.Split(s, ":")
	for len(p) < 3 {
		p = append(p, "")
	}
	return &traits.ElectricMode{Id: p[0], Title: p[1], Description: p[2]}
}

func showEMode(m *traits.ElectricMode) string {
	start := "-"
	if m.GetStartTime() != nil {
		start = fmt.Sprint(m.GetStartTime().GetSeconds())
	}
	return fmt.Sprintf("%s:%s:%s:%s", m.GetId(), m.GetTitle(), m.GetDescription(), start)
}

// runActiveCase drives the real model; changed lists the stored modes (looked up before the calls) that no longer
// equal the copy taken then.
func runActiveCase(c activeCase) (ans string, changed []string) {
	panicked, msg := lib.Catch(func() {
		clk := &stepClock{t: time.Unix(0, 0)}
		var init []*traits.ElectricMode
		for _, s := range c.Modes {
			init = append(init, parseEMode(s))
		}
		opts := []resource.Option{electricpb.WithClock(clk), electricpb.WithInitialActiveMode(parseEMode(c.Active)), electricpb.WithInitialMode(init...)}
		if c.W != "-" {
			var paths []string
			for i, p := range []string{"id", "title", "description", "start_time"} {
				if c.W[i] == '1' {
					paths = append(paths, p)
				}
			}
			opts = append(opts, electricpb.WithActiveModeOption(resource.WithWritableFields(&fieldmaskpb.FieldMask{Paths: paths})))
		}
		m := electricpb.NewModel(opts...)
		type held struct{ ptr, copy *traits.ElectricMode }
		var before []held
		for _, s := range c.Modes {
			if md, ok := m.FindMode(parseEMode(s).Id); ok {
				before = append(before, held{md, proto.Clone(md).(*traits.ElectricMode)})
			}
		}
		var outs []string
		for k, id := range c.IDs {
			clk.t = time.Unix(int64(k+1), 0)
			got, err := m.ChangeActiveMode(id)
			switch {
			case err == electricpb.ErrModeNotFound:
				outs = append(outs, "nf")
			case err != nil:
				outs = append(outs, "err("+err.Error()+")")
			default:
				outs = append(outs, showEMode(got))
			}
		}
		var after []string
		for _, s := range c.Modes {
			if md, ok := m.FindMode(parseEMode(s).Id); ok {
				after = append(after, showEMode(md))
			} else {
				after = append(after, "<gone>")
			}
		}
		for _, b := range before {
			if !proto.Equal(b.ptr, b.copy) {
				changed = append(changed, fmt.Sprintf("%s is now %s", txt(b.copy), txt(b.ptr)))
			}
		}
		ans = strings.Join(outs, ",") + "|modes=" + strings.Join(after, ";")
	})
	if panicked {
		return "panic:" + msg, changed
	}
	return ans, changed
}

func activeCases() []activeCase {
	var out []activeCase
	for _, w := range []string{"-", "0000", "1000", "0100", "1100", "0010", "1110", "0001", "1101", "1111"} {
		for _, act := range []string{"::", "a:X:y"} {
			for _, ms := range [][]string{nil, {"a:A:da"}, {"a:A:da", "b:B:"}} {
				for _, ids := range [][]string{{"a"}, {"b"}, {"c"}, {"a", "a"}, {"a", "b"}, {"b", "a", "c", "a"}} {
					out = append(out, activeCase{Kind: "active", W: w, Active: act, Modes: ms, IDs: ids})
				}
			}
		}
	}
	return out
}

func activeViolation(c activeCase, changed []string, mon *lib.Monitor) {
	if len(changed) > 0 {
		mon.Violate("C07/electricpb/ChangeActiveMode/stored-mode-changes", "a stored mode obtained with FindMode before the calls changed: "+strings.Join(changed, "; "),
			c, "the modes as they were (changing the active mode does not write a mode)", strings.Join(changed, "; "))
	}
}

func runRim7(f lib.Flags, res *lib.Result) {
	tie := res.Tie("rim-active-mode", "K2",
		"electricpb Model.ChangeActiveMode (changeActiveMode) vs the Lean `changeActive`: writable fields of the active mode resource {not configured, empty mask, 8 subsets of id/title/description/start_time} x "+
			"initial active mode {empty, a with other contents} x initial modes {none, a, a+b} x 6 scripts of 1-4 calls (known, unknown and repeated ids) under an injected step clock; the whole domain; "+
			"compared: the result of every call (id, title, description, start time or not-found) and the stored modes afterwards; non-trivial = at least one call finds its mode")
	tie.Exhaustive = true
	mon := res.Monitor("rim-active-mode-frame", "on the same cases: the stored modes (the messages FindMode returned before the calls) are as they were afterwards")
	drv, err := lib.StartDriver(f.Driver)
	if err != nil {
		tie.Fail(err)
		return
	}
	defer drv.Close()
	cs := activeCases()
	lines := make([]string, len(cs))
	for i, c := range cs {
		lines[i] = c.line()
	}
	model, err := drv.Batch(lines)
	if err != nil {
		tie.Fail(err)
		return
	}
	for i, c := range cs {
		ans, changed := runActiveCase(c)
		nt := false
		for _, o := range strings.Split(strings.SplitN(ans, "|", 2)[0], ",") {
			nt = nt || (o != "nf" && !strings.HasPrefix(o, "err(") && !strings.HasPrefix(o, "panic:"))
		}
		mon.Eval(lines[i], nt, nil)
		activeViolation(c, changed, mon)
		tie.Record(lines[i], nt, c, model[i], ans)
	}
}
