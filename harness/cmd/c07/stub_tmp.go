package main

import "github.com/smart-core-os/sc-golang/verifharness/lib"

type coreSeq struct{ Ops []string }

func runCore(f lib.Flags, res *lib.Result)                            {}
func runCoreSeq(cs coreSeq, d *lib.Driver, m *lib.Monitor, x string) {}
func writeFacts(p string) error                                      { return nil }
