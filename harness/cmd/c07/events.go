package main

import (
	"context"
	"fmt"
	"runtime"
	"sort"
	"strings"
	"sync"
	"time"

	"google.golang.org/protobuf/proto"
	"google.golang.org/protobuf/types/known/fieldmaskpb"

	"github.com/smart-core-os/sc-api/go/traits"
	"github.com/smart-core-os/sc-golang/pkg/resource"
	"github.com/smart-core-os/sc-golang/verifharness/lib"
)

// Event OBJECTS. A write builds one *resource.CollectionChange and the bus hands that very pointer to every
// subscriber; an unmasked backpressure subscriber's consumer receives it as is. "A change event never changes
// afterwards" therefore also means: nobody who holds the shared object (another subscriber's pipeline, in
// particular the merger of a lossy subscriber whose consumer has stalled) writes to it.
//
//   - monitor "snapshot-core-events": several subscribers of one Collection (backpressure / lossy, with and without a
//     read mask; lossy consumers stalled, slow, or drained), every received event object is copied field by field when
//     it is received (kind, id, time, seed flags, IDENTITY of old/new value) and re-compared after every later op; the
//     values themselves go to the snapshot tracker as everywhere else;
//   - tie "core-events" (K1): the Lean event model (lean/ScVerif/C07/Events.lean + EventVals.lean) predicts, for every
//     write, what each backpressure subscriber's consumer receives AND which of them receive the same object (canonical
//     numbering of the pointers in first-seen order), the contents of every object seen so far and WHICH VALUE OBJECTS
//     (old / new message pointers, numbered by identity) those events carry (audit after every write).
//     Lossy Collection consumers are part of the answers too (`ev poll i`): the harness runs one operation at a time and
//     lets every pipeline run until it blocks (one P, quiesce), so what a stalled / slow / drained lossy consumer is
//     handed when it takes an event - the merger's merged copy, through include (behind the merger) and the read mask -
//     is determined; the model's theorem about them (C07_events_lossy_private: what a lossy consumer receives is never
//     an object anyone else holds) is compared as one final answer per sequence.

type evSeq struct {
	Kind  string `json:"kind"` // "events"
	Seed  int64  `json:"seed"`
	Seq   int    `json:"seq"`
	Steps int    `json:"steps"`
}

type evSub struct {
	lossy, mask bool
	incl        bool   // WithInclude(percentage is even): include converts / drops events (new objects), not part of the tie answers
	pace        string // backpressure: "drain"; lossy: "stalled" | "slow" | "drain"
	ch          <-chan *resource.CollectionChange
	cancel      context.CancelFunc
	mu          sync.Mutex
	got         []*resource.CollectionChange
	copies      []resource.CollectionChange // field-by-field copy taken by the consumer the moment it received the event
	since       int                         // number of successful writes before it subscribed
	expected    int                         // include subscribers: events its filter lets through so far (the harness's own count)
	polled      int                         // lossy subscribers: events of got already reported to the tie as `ev poll` answers
	seeds       bool                        // opened without WithUpdatesOnly: the current items first
	seedN       int                         // number of seeds it was owed (the harness's own count)
}

func (s *evSub) kind() string {
	k := "backpressure"
	if s.lossy {
		k = "lossy-" + s.pace
	}
	if s.mask {
		k += "+mask"
	}
	if s.incl {
		k += "+include"
	}
	return k
}

func (s *evSub) count() int {
	s.mu.Lock()
	defer s.mu.Unlock()
	return len(s.got)
}

// evSnap is one received event object and its field-by-field copy.
type evSnap struct {
	ptr    *resource.CollectionChange
	copy   resource.CollectionChange
	origin string
	step   int
	dead   bool
}

func sameEvent(a, b *resource.CollectionChange) bool {
	return a.Id == b.Id && a.ChangeType == b.ChangeType && a.ChangeTime.Equal(b.ChangeTime) &&
		a.SeedValue == b.SeedValue && a.LastSeedValue == b.LastSeedValue &&
		a.OldValue == b.OldValue && a.NewValue == b.NewValue // identity of the values: interface equality on pointers
}

func evTok(m proto.Message) string {
	if isNilMsg(m) {
		return "-"
	}
	f := m.(*traits.FanSpeed)
	t := int(f.Percentage)
	if f.PresetIndex == 0 {
		t += 1000 // the masked form (read mask {percentage}): the model's projection
	}
	return fmt.Sprint(t)
}

func showEvent(e *resource.CollectionChange) string {
	s := fmt.Sprintf("%s,%s,%s,%s", e.ChangeType, strings.TrimPrefix(e.Id, "k"), evTok(e.OldValue), evTok(e.NewValue))
	if e.LastSeedValue {
		s += ",L"
	}
	return s
}

func runEventSeq(es evSeq, tie *lib.Tie, mon *lib.Monitor, drv *lib.Driver) {
	r := seqRand(es.Seed, "core-events", es.Seq)
	coll := resource.NewCollection()
	tr := newTracker()
	var subs []*evSub
	var snaps []*evSnap
	var trace []string
	writes := 0
	defer func() {
		for _, s := range subs {
			s.cancel()
		}
	}()
	input := func(n int) map[string]any {
		return map[string]any{"kind": "events", "seed": es.Seed, "seq": es.Seq, "steps": n, "trace": tailS(trace, 14)}
	}
	step := 0
	record := func(s *evSub, i int, e *resource.CollectionChange, atReceipt resource.CollectionChange) {
		origin := fmt.Sprintf("Collection.Pull#%d(%s)", i, s.kind())
		snaps = append(snaps, &evSnap{ptr: e, copy: atReceipt, origin: origin, step: step})
		tr.observe(origin+"/event.OldValue", e.OldValue)
		tr.observe(origin+"/event.NewValue", e.NewValue)
	}
	open := func(lossy, mask bool, pace string, incl bool, seeds bool) {
		ctx, cancel := context.WithCancel(context.Background())
		opts := []resource.ReadOption{resource.WithBackpressure(!lossy), resource.WithUpdatesOnly(!seeds)}
		if incl {
			opts = append(opts, resource.WithInclude(func(id string, item proto.Message) bool {
				f, ok := item.(*traits.FanSpeed)
				return ok && f != nil && int(f.Percentage)%2 == 0
			}))
		}
		if mask {
			opts = append(opts, resource.WithReadMask(&fieldmaskpb.FieldMask{Paths: []string{"percentage"}}))
		}
		s := &evSub{lossy: lossy, mask: mask, pace: pace, incl: incl, cancel: cancel, since: writes, seeds: seeds}
		s.ch = coll.Pull(ctx, opts...)
		i := len(subs)
		subs = append(subs, s)
		if !lossy || pace == "drain" {
			go func() {
				for e := range s.ch {
					c := *e
					s.mu.Lock()
					s.got = append(s.got, e)
					s.copies = append(s.copies, c)
					s.mu.Unlock()
				}
			}()
		}
		trace = append(trace, fmt.Sprintf("%d: subscriber #%d: Pull(%s, %s)", step, i, s.kind(), map[bool]string{true: "current items first", false: "updates only"}[seeds]))
		quiesce(40)
	}
	// lines for the model, answers of the code
	lines := []string{"ev reset"}
	code := []string{"ok"}
	canon := map[*resource.CollectionChange]int{}
	var seen []*resource.CollectionChange
	recorded := map[*evSub]int{}
	// harvest hands newly received events of the drained subscribers to the monitor
	harvest := func() {
		for i, s := range subs {
			s.mu.Lock()
			for recorded[s] < len(s.got) {
				record(s, i, s.got[recorded[s]], s.copies[recorded[s]])
				recorded[s]++
			}
			s.mu.Unlock()
		}
	}
	// poll: the consumer of a slow / stalled lossy subscriber takes one event if one is being offered
	poll := func(i int, s *evSub) bool {
		for k := 0; k < 200; k++ {
			select {
			case e, ok := <-s.ch:
				if !ok {
					return false
				}
				c := *e
				s.mu.Lock()
				s.got = append(s.got, e)
				s.copies = append(s.copies, c)
				s.mu.Unlock()
				return true
			default:
				runtime.Gosched()
			}
		}
		return false
	}
	// pollLine: one `ev poll i` exchange of the tie. The consumer of the lossy subscriber i takes the event its Pull goroutine
	// holds, if it holds one (drained consumers have taken it already: the next event of got not reported yet).
	pollLine := func(i int, s *evSub) bool {
		quiesce(40)
		if s.pace != "drain" {
			poll(i, s)
		}
		quiesce(40)
		s.mu.Lock()
		defer s.mu.Unlock()
		lines = append(lines, fmt.Sprintf("ev poll %d", i))
		if s.polled >= len(s.got) {
			code = append(code, "-")
			return false
		}
		e := s.got[s.polled]
		s.polled++
		k, ok := canon[e]
		if !ok {
			k = len(seen)
			canon[e] = k
			seen = append(seen, e)
		}
		code = append(code, fmt.Sprintf("#%d:%s", k, showEvent(e)))
		if mon != nil {
			mon.Count("poll:" + s.kind() + ":" + e.ChangeType.String())
		}
		return true
	}
	check := func(opKind string, n int) {
		harvest()
		for _, sn := range snaps {
			if sn.dead || sameEvent(sn.ptr, &sn.copy) {
				continue
			}
			sn.dead = true
			sig := fmt.Sprintf("C07/core-events/%s/event-changed-by/%s", sn.origin[strings.Index(sn.origin, "(")+1:len(sn.origin)-1], opKind)
			mon.Violate(sig, fmt.Sprintf("an event object received at step %d by %s changed after step %d (%s)", sn.step, sn.origin, step, opKind),
				input(n), showEvent(&sn.copy), showEvent(sn.ptr))
		}
		for _, c := range tr.changed() {
			mon.Violate(fmt.Sprintf("C07/core-events/%s/changed-by/%s", c.Origin[strings.Index(c.Origin, "(")+1:], opKind),
				fmt.Sprintf("a value of an event received at step %d (%s) changed after step %d (%s)", c.Step, c.Origin, step, opKind),
				input(n), showMsg(c.copy), showMsg(c.ptr))
		}
	}

	// initial subscribers: 1-2 unmasked backpressure, 0-1 masked backpressure, 0-2 lossy
	nb := 1 + r.Intn(2)
	for i := 0; i < nb; i++ {
		open(false, false, "drain", false, false)
		lines, code = append(lines, "ev sub 0 0"), append(code, "ok")
	}
	if r.Intn(2) == 0 {
		open(false, true, "drain", false, false)
		lines, code = append(lines, "ev sub 0 1"), append(code, "ok")
	}
	for i, n := 0, r.Intn(3); i < n; i++ {
		mask := r.Intn(3) == 0
		open(true, mask, []string{"stalled", "stalled", "slow", "drain"}[r.Intn(4)], false, false)
		lines, code = append(lines, fmt.Sprintf("ev sub 1 %d", b2i(mask))), append(code, "ok")
	}
	// subscribers with an include filter: backpressure (`ev subi`) and lossy (`ev subli`: the filter runs behind the merger)
	for i, n := 0, r.Intn(3); i < n; i++ {
		lossy, mask := r.Intn(3) == 0, r.Intn(3) == 0
		pace := "drain"
		if lossy {
			pace = []string{"stalled", "slow", "drain"}[r.Intn(3)]
		}
		open(lossy, mask, pace, true, false)
		if !lossy {
			lines, code = append(lines, fmt.Sprintf("ev subi %d", b2i(mask))), append(code, "ok")
		} else {
			lines, code = append(lines, fmt.Sprintf("ev subli %d", b2i(mask))), append(code, "ok")
		}
	}
	var wrong [][3]string
	state := map[int]int{} // the harness's own view of the collection: id -> token (plain map, independent of model and code)
	tok := 0
	for step = 0; step < es.Steps; step++ {
		var line, ans, opKind string
		switch x := r.Intn(12); {
		case x < 8: // Update (create if absent); ids from a domain of 2 so that consecutive writes hit the same id
			id := r.Intn(2)
			tok++
			old, has := state[id]
			msg := &traits.FanSpeed{Percentage: float32(tok), PresetIndex: 7}
			_, err := coll.Update(fmt.Sprintf("k%d", id), msg, resource.WithCreateIfAbsent())
			opKind = "Update"
			trace = append(trace, fmt.Sprintf("%d: Update(k%d, %d) -> %v", step, id, tok, err))
			if err != nil {
				continue
			}
			state[id] = tok
			if has {
				line = fmt.Sprintf("ev send UPDATE %d %d %d", id, old, tok)
			} else {
				line = fmt.Sprintf("ev send ADD %d - %d", id, tok)
			}
		case x < 10:
			id := r.Intn(2)
			old, has := state[id]
			_, err := coll.Delete(fmt.Sprintf("k%d", id), resource.WithAllowMissing(true))
			opKind = "Delete"
			trace = append(trace, fmt.Sprintf("%d: Delete(k%d) -> %v", step, id, err))
			if err != nil || !has {
				check(opKind, step+1)
				continue
			}
			delete(state, id)
			line = fmt.Sprintf("ev send REMOVE %d %d -", id, old)
		case x < 11 && len(subs) < 6:
			lossy, mask := r.Intn(2) == 0, r.Intn(3) == 0
			pace := "drain"
			if lossy {
				pace = []string{"stalled", "slow", "drain"}[r.Intn(3)]
			}
			incl, seeds := r.Intn(4) == 0, r.Intn(2) == 0
			open(lossy, mask, pace, incl, seeds)
			i, s := len(subs)-1, subs[len(subs)-1]
			switch {
			case incl && lossy:
				lines, code = append(lines, fmt.Sprintf("ev subli %d", b2i(mask))), append(code, "ok")
			case incl:
				lines, code = append(lines, fmt.Sprintf("ev subi %d", b2i(mask))), append(code, "ok")
			default:
				lines, code = append(lines, fmt.Sprintf("ev sub %d %d", b2i(lossy), b2i(mask))), append(code, "ok")
			}
			mon.Count("op:Pull(" + s.kind() + ")")
			if seeds {
				// the seeds it is owed, by the harness's own record of the collection: the items in id order, those its include
				// filter admits; the last one is flagged
				var ids []int
				for id, t := range state {
					if !incl || t%2 == 0 {
						ids = append(ids, id)
					}
				}
				sort.Ints(ids)
				for k, id := range ids {
					lines = append(lines, fmt.Sprintf("ev seed %d %d %d %d", i, id, state[id], b2i(k == len(ids)-1)))
					if s.lossy {
						code = append(code, "ok")
						continue
					}
					deadline := time.Now().Add(3 * time.Second)
					for s.count() < k+1 && time.Now().Before(deadline) {
						runtime.Gosched()
					}
					s.mu.Lock()
					if len(s.got) < k+1 {
						code = append(code, "<seed missing>")
					} else {
						e := s.got[k]
						n, ok := canon[e]
						if !ok {
							n = len(seen)
							canon[e] = n
							seen = append(seen, e)
						}
						code = append(code, fmt.Sprintf("#%d:%s", n, showEvent(e)))
					}
					s.mu.Unlock()
					mon.Count("seed:" + s.kind())
				}
				s.seedN, s.expected = len(ids), len(ids)
				if s.lossy && s.pace == "drain" {
					for pollLine(i, s) {
					}
				}
				check("Pull", step+1)
			}
			continue
		default: // slow lossy consumers take one event
			opKind = "slow-consumer-receive"
			for i, s := range subs {
				if s.lossy && s.pace == "slow" && pollLine(i, s) {
					trace = append(trace, fmt.Sprintf("%d: consumer of #%d receives one event", step, i))
				}
			}
			check(opKind, step+1)
			continue
		}
		mon.Count("op:" + opKind)
		writes++
		// every backpressure subscriber receives exactly one event per write (no include, no equivalence)
		parts := []string{"ok"}
		// the include filter's verdict on this write, by the harness's own rule (the token is even)
		wf := strings.Fields(line) // ev send KIND id old new
		even := func(t string) bool {
			n := 1
			fmt.Sscan(t, &n)
			return t != "-" && n%2 == 0
		}
		inclPass := even(wf[4]) || even(wf[5])
		for i, s := range subs {
			if s.lossy {
				continue
			}
			want := s.seedN + writes - s.since
			if s.incl {
				if !inclPass {
					parts = append(parts, "-")
					continue
				}
				s.expected++
				want = s.expected
			}
			deadline := time.Now().Add(3 * time.Second)
			for s.count() < want && time.Now().Before(deadline) {
				runtime.Gosched()
			}
			s.mu.Lock()
			if len(s.got) < want {
				parts = append(parts, fmt.Sprintf("<subscriber #%d: event missing>", i))
			} else {
				e := s.got[want-1]
				k, ok := canon[e]
				if !ok {
					k = len(seen)
					canon[e] = k
					seen = append(seen, e)
				}
				parts = append(parts, fmt.Sprintf("#%d:%s", k, showEvent(e)))
				// the harness's own record of the write (plain map): the event a consumer holds must say exactly that
				f := strings.Fields(line) // ev send KIND id old new
				exp := func(t string) string {
					if t != "-" && s.mask {
						n := 0
						fmt.Sscan(t, &n)
						return fmt.Sprint(1000 + n)
					}
					return t
				}
				if want := fmt.Sprintf("%s,%s,%s,%s", f[2], f[3], exp(f[4]), exp(f[5])); !s.incl && showEvent(e) != want {
					wrong = append(wrong, [3]string{fmt.Sprintf("Collection.Pull#%d(%s)", i, s.kind()), want, showEvent(e)})
				}
			}
			s.mu.Unlock()
		}
		for _, w := range wrong {
			mon.Violate(fmt.Sprintf("C07/core-events/%s/event-differs-from-write/%s", w[0][strings.Index(w[0], "(")+1:len(w[0])-1], opKind),
				"the event object held by "+w[0]+" does not say what the write did (the object is shared with the other subscribers' pipelines)", input(step+1), w[1], w[2])
		}
		wrong = nil
		ans = strings.Join(parts, "|")
		lines, code = append(lines, line), append(code, ans)
		// one operation at a time: every pipeline runs until it blocks before the next operation starts (a stalled lossy
		// subscriber's Pull goroutine then holds the first event of its merger, the merger the rest)
		quiesce(40)
		// drained lossy consumers: what came out of their pipelines for this write (nothing, when the merger cancelled an ADD
		// against a REMOVE or the include filter dropped the event)
		for i, s := range subs {
			if s.lossy && s.pace == "drain" {
				for pollLine(i, s) {
				}
			}
		}
		check(opKind, step+1)
		au := make([]string, len(seen))
		for i, e := range seen {
			au[i] = showEvent(e)
		}
		lines = append(lines, "ev audit")
		code = append(code, "seen="+strings.Join(au, ";")+"|vals="+valueSharing(len(seen), func(i int) (proto.Message, proto.Message) { return seen[i].OldValue, seen[i].NewValue }))
	}
	// the end: stalled and slow lossy consumers drain what their pipelines hold, then everything is compared once more
	step = es.Steps
	for i, s := range subs {
		if s.lossy && s.pace != "drain" {
			for pollLine(i, s) {
			}
		}
	}
	check("final-drain", es.Steps)
	{
		au := make([]string, len(seen))
		for i, e := range seen {
			au[i] = showEvent(e)
		}
		lines = append(lines, "ev audit")
		code = append(code, "seen="+strings.Join(au, ";")+"|vals="+valueSharing(len(seen), func(i int) (proto.Message, proto.Message) { return seen[i].OldValue, seen[i].NewValue }))
	}
	// sharing: what a lossy consumer received must not be an object any other consumer holds
	holders := map[*resource.CollectionChange][]int{}
	for i, s := range subs {
		s.mu.Lock()
		seenHere := map[*resource.CollectionChange]bool{}
		for _, e := range s.got {
			if !seenHere[e] {
				seenHere[e] = true
				holders[e] = append(holders[e], i)
			}
		}
		s.mu.Unlock()
	}
	private := "lossy-private"
	for i, s := range subs {
		if !s.lossy {
			continue
		}
		for _, e := range s.got {
			if len(holders[e]) > 1 && private == "lossy-private" {
				private = fmt.Sprintf("lossy-shared: subscriber #%d (%s) received an event object also held by subscribers %v: %s", i, s.kind(), holders[e], showEvent(e))
			}
		}
	}
	nsn := len(snaps)
	if mon != nil {
		mon.Eval(fmt.Sprintf("%d/%d", es.Seed, es.Seq), nsn >= 4 && len(subs) >= 2, nil)
	}
	if tie == nil || drv == nil {
		return
	}
	model, err := drv.Batch(lines)
	if err != nil {
		tie.Fail(err)
		return
	}
	key := fmt.Sprintf("%d/%d", es.Seed, es.Seq)
	for j := range code {
		if j >= len(model) || model[j] != code[j] {
			m := "<no answer>"
			if j < len(model) {
				m = model[j]
			}
			in := input(es.Steps)
			in["line"] = lines[j]
			in["lines"] = lines[:j+1]
			tie.Record(key, true, in, m, code[j])
			return
		}
	}
	// C07_events_lossy_private is the model's answer for the lossy consumers
	tie.Record(key, nsn >= 4 && len(subs) >= 2, input(es.Steps), "lossy-private", private)
}

// runValueEventSeq: the same for resource.Value. Here even a lossy consumer receives the bus's object (DropExcess keeps
// the latest pointer, it does not copy), so an unmasked event object is shared by ALL unmasked subscribers. Tied to the
// Lean event model's Value subscribers (vsub / vsend / dropIn) on what the backpressure consumers receive and share.
func runValueEventSeq(es evSeq, tie *lib.Tie, mon *lib.Monitor, drv *lib.Driver) {
	r := seqRand(es.Seed, "core-events-value", es.Seq)
	val := resource.NewValue(resource.WithInitialValue(&traits.FanSpeed{Percentage: 1, PresetIndex: 7}))
	tr := newTracker()
	type vsub struct {
		kind   string
		ch     <-chan *resource.ValueChange
		cancel context.CancelFunc
		pace   string
		mu     sync.Mutex
		got    []*resource.ValueChange // pace "drain": a goroutine receives (a write waits for backpressure consumers)
		taken  int
		polled int // lossy subscribers: entries of got already reported to the tie as `ev vpoll` answers
		lossy  bool
		mask   bool
		first  int // index in got of the event of the first Set after it subscribed (1 when it got a seed)
		since  int // Sets before it subscribed
	}
	sets := 0
	lines := []string{"ev reset", "ev vstore 1"}
	code := []string{"ok", "ok"}
	canon := map[*resource.ValueChange]int{}
	var seen []*resource.ValueChange
	showV := func(e *resource.ValueChange) string {
		if e.LastSeedValue {
			return "UPDATE,0,-," + evTok(e.Value) + ",L"
		}
		return "UPDATE,0,-," + evTok(e.Value)
	}
	cur := 1 // token of the current value (the harness's own record)
	type vsnap struct {
		ptr    *resource.ValueChange
		copy   resource.ValueChange
		origin string
		step   int
		dead   bool
	}
	var subs []*vsub
	var snaps []*vsnap
	var trace []string
	defer func() {
		for _, s := range subs {
			s.cancel()
		}
	}()
	step := 0
	open := func() {
		lossy, mask := r.Intn(2) == 0, r.Intn(3) == 0
		pace := "drain"
		if lossy {
			pace = []string{"stalled", "slow", "drain"}[r.Intn(3)]
		}
		updatesOnly := r.Intn(2) == 0
		opts := []resource.ReadOption{resource.WithBackpressure(!lossy), resource.WithUpdatesOnly(updatesOnly)}
		kind := map[bool]string{true: "lossy-" + pace, false: "backpressure"}[lossy]
		if mask {
			opts = append(opts, resource.WithReadMask(&fieldmaskpb.FieldMask{Paths: []string{"percentage"}}))
			kind += "+mask"
		}
		ctx, cancel := context.WithCancel(context.Background())
		sb := &vsub{kind: kind, ch: val.Pull(ctx, opts...), cancel: cancel, pace: pace, lossy: lossy, mask: mask, first: b2i(!updatesOnly), since: sets}
		subs = append(subs, sb)
		if pace == "drain" {
			go func() {
				for e := range sb.ch {
					sb.mu.Lock()
					sb.got = append(sb.got, e)
					sb.mu.Unlock()
				}
			}()
		}
		trace = append(trace, fmt.Sprintf("%d: subscriber #%d: Value.Pull(%s, seed=%v)", step, len(subs)-1, kind, !updatesOnly))
		quiesce(40)
		sd, ans := "-", "ok"
		if !updatesOnly {
			sd = fmt.Sprint(cur)
			if !lossy {
				// the drained consumer of a backpressure subscriber has its seed by now: an event object of its own
				deadline := time.Now().Add(3 * time.Second)
				for {
					sb.mu.Lock()
					n := len(sb.got)
					sb.mu.Unlock()
					if n >= 1 || time.Now().After(deadline) {
						break
					}
					runtime.Gosched()
				}
				sb.mu.Lock()
				if len(sb.got) < 1 {
					ans = "ok|<seed missing>"
				} else {
					e := sb.got[0]
					k, ok := canon[e]
					if !ok {
						k = len(seen)
						canon[e] = k
						seen = append(seen, e)
					}
					ans = fmt.Sprintf("ok|#%d:%s", k, showV(e))
				}
				sb.mu.Unlock()
			}
		}
		lines, code = append(lines, fmt.Sprintf("ev vsub %d %d %s", b2i(lossy), b2i(mask), sd)), append(code, ans)
	}
	input := func(n int) map[string]any {
		return map[string]any{"kind": "events-value", "seed": es.Seed, "seq": es.Seq, "steps": n, "trace": tailS(trace, 14)}
	}
	// vpollLine: one `ev vpoll i` exchange of the tie. The consumer of the lossy subscriber i takes what its Pull goroutine
	// holds, if it holds something: the seed first (a subscriber that asked for one), then events (drained consumers have
	// taken it already: the next entry of got not reported yet).
	vpollLine := func(i int, s *vsub) bool {
		quiesce(40)
		if s.pace != "drain" {
			for k := 0; k < 200; k++ {
				got := false
				select {
				case e, ok := <-s.ch:
					if ok {
						s.mu.Lock()
						s.got = append(s.got, e)
						s.mu.Unlock()
						got = true
					}
				default:
					runtime.Gosched()
				}
				if got {
					break
				}
			}
		}
		quiesce(40)
		s.mu.Lock()
		defer s.mu.Unlock()
		lines = append(lines, fmt.Sprintf("ev vpoll %d", i))
		if s.polled >= len(s.got) {
			code = append(code, "-")
			return false
		}
		e := s.got[s.polled]
		s.polled++
		k, ok := canon[e]
		if !ok {
			k = len(seen)
			canon[e] = k
			seen = append(seen, e)
		}
		code = append(code, fmt.Sprintf("#%d:%s", k, showV(e)))
		mon.Count("vpoll:" + s.kind)
		return true
	}
	// receive: the lossy consumers that are due take what their pipelines hold (drained ones after every step, slow ones one
	// event now and then, stalled ones only at the end); everything any consumer has received goes to the monitor
	receive := func(all bool) {
		for i, s := range subs {
			if s.lossy {
				switch {
				case s.pace == "drain" || all:
					for vpollLine(i, s) {
					}
				case s.pace == "slow" && r.Intn(3) == 0:
					vpollLine(i, s)
				}
			}
		}
		quiesce(40)
		for i, s := range subs {
			origin := fmt.Sprintf("Value.Pull#%d(%s)", i, s.kind)
			s.mu.Lock()
			for ; s.taken < len(s.got); s.taken++ {
				e := s.got[s.taken]
				snaps = append(snaps, &vsnap{ptr: e, copy: *e, origin: origin, step: step})
				tr.observe(origin+"/event.Value", e.Value)
			}
			s.mu.Unlock()
		}
	}
	check := func(opKind string, n int) {
		for _, sn := range snaps {
			a, b := sn.ptr, &sn.copy
			if sn.dead || (a.Value == b.Value && a.ChangeTime.Equal(b.ChangeTime) && a.SeedValue == b.SeedValue && a.LastSeedValue == b.LastSeedValue) {
				continue
			}
			sn.dead = true
			mon.Violate(fmt.Sprintf("C07/core-events/value/%s/event-changed-by/%s", sn.origin[strings.Index(sn.origin, "(")+1:len(sn.origin)-1], opKind),
				fmt.Sprintf("an event object received at step %d by %s changed after step %d (%s)", sn.step, sn.origin, step, opKind),
				input(n), evTok(b.Value), evTok(a.Value))
		}
		for _, c := range tr.changed() {
			mon.Violate(fmt.Sprintf("C07/core-events/value/%s/changed-by/%s", c.Origin[strings.Index(c.Origin, "(")+1:], opKind),
				fmt.Sprintf("the value of an event received at step %d (%s) changed after step %d (%s)", c.Step, c.Origin, step, opKind),
				input(n), showMsg(c.copy), showMsg(c.ptr))
		}
	}
	for i, n := 0, 2+r.Intn(2); i < n; i++ {
		open()
	}
	for step = 0; step < es.Steps; step++ {
		if r.Intn(8) == 0 && len(subs) < 6 {
			open()
			mon.Count("op:Value.Pull")
		} else {
			_, err := val.Set(&traits.FanSpeed{Percentage: float32(2 + step), PresetIndex: 7})
			trace = append(trace, fmt.Sprintf("%d: Set(%d) -> %v", step, 2+step, err))
			mon.Count("op:Value.Set")
			if err == nil {
				sets++
				cur = 2 + step
				// every backpressure consumer receives exactly one event per Set (no equivalence configured)
				parts := []string{"ok"}
				for i, s := range subs {
					if s.lossy {
						continue
					}
					want := s.first + sets - s.since
					deadline := time.Now().Add(3 * time.Second)
					for {
						s.mu.Lock()
						n := len(s.got)
						s.mu.Unlock()
						if n >= want || time.Now().After(deadline) {
							break
						}
						runtime.Gosched()
					}
					s.mu.Lock()
					if len(s.got) < want {
						parts = append(parts, fmt.Sprintf("<subscriber #%d: event missing>", i))
					} else {
						e := s.got[want-1]
						k, ok := canon[e]
						if !ok {
							k = len(seen)
							canon[e] = k
							seen = append(seen, e)
						}
						parts = append(parts, fmt.Sprintf("#%d:%s", k, showV(e)))
					}
					s.mu.Unlock()
				}
				au := make([]string, len(seen))
				for i, e := range seen {
					au[i] = showV(e)
				}
				lines = append(lines, fmt.Sprintf("ev vsend %d", 2+step), "ev audit")
				code = append(code, strings.Join(parts, "|"), "seen="+strings.Join(au, ";")+"|vals="+valueSharing(len(seen), func(i int) (proto.Message, proto.Message) { return nil, seen[i].Value }))
			}
		}
		receive(false)
		check("Set", step+1)
	}
	step = es.Steps
	receive(true)
	check("final-drain", es.Steps)
	{
		au := make([]string, len(seen))
		for i, e := range seen {
			au[i] = showV(e)
		}
		lines = append(lines, "ev audit")
		code = append(code, "seen="+strings.Join(au, ";")+"|vals="+valueSharing(len(seen), func(i int) (proto.Message, proto.Message) { return nil, seen[i].Value }))
	}
	mon.Eval(fmt.Sprintf("value/%d/%d", es.Seed, es.Seq), len(snaps) >= 4, nil)
	if tie == nil || drv == nil {
		return
	}
	model, err := drv.Batch(lines)
	if err != nil {
		tie.Fail(err)
		return
	}
	key := fmt.Sprintf("value/%d/%d", es.Seed, es.Seq)
	for j := range code {
		if j >= len(model) || model[j] != code[j] {
			m := "<no answer>"
			if j < len(model) {
				m = model[j]
			}
			in := input(es.Steps)
			in["line"] = lines[j]
			in["lines"] = lines[:j+1]
			tie.Record(key, true, in, m, code[j])
			return
		}
	}
	tie.Record(key, len(snaps) >= 4, input(es.Steps), model[len(model)-1], code[len(code)-1])
}

// valueSharing says WHICH value objects the n event objects seen so far carry: the messages are numbered by identity in
// first-seen order (old before new, events in first-seen order), "-" for nil. Unmasked consumers hold the stored messages
// themselves (the same objects as every other unmasked consumer, as include's replacement events and as later events' old
// values); a masked consumer's values are clones nobody else holds.
func valueSharing(n int, vals func(i int) (old, new proto.Message)) string {
	canon := map[proto.Message]int{}
	one := func(m proto.Message) string {
		if isNilMsg(m) {
			return "-"
		}
		k, ok := canon[m]
		if !ok {
			k = len(canon)
			canon[m] = k
		}
		return fmt.Sprint(k)
	}
	out := make([]string, n)
	for i := 0; i < n; i++ {
		o, nw := vals(i)
		a := one(o)
		out[i] = a + "." + one(nw)
	}
	return strings.Join(out, ";")
}

func b2i(b bool) int {
	if b {
		return 1
	}
	return 0
}

func runEvents(f lib.Flags, res *lib.Result) {
	tie := res.Tie("core-events", "K1",
		"one resource.Collection, 1-7 subscribers (backpressure or lossy, with or without a read mask, with or without an include filter, opened before and between writes, those opened between writes with or without the current items first (seeds: `ev seed`, in id order, those the include filter admits, the last one flagged); lossy consumers stalled, slow or drained), "+
			"random Update(create)/Delete on 2 ids, one operation at a time (every pipeline runs until it blocks: GOMAXPROCS(1) + yields); after EVERY write the Lean event model (Events.lean + EventVals.lean: bus fan-out of one shared cell, "+
			"include, filter cloning the values, private merger copies, include behind the merger) and the code are compared on: what "+
			"each backpressure consumer received, what each drained lossy consumer received, WHICH consumers received the same object (pointers numbered in first-seen order), the current contents of every event object seen so far "+
			"and which VALUE objects (message pointers numbered by identity) those events carry; whenever a slow lossy consumer takes an event, and for stalled ones at the end, what it is handed (merged kind, old value of the first, new value of the last event, include's verdict on the merged event); "+
			"per sequence additionally the model's theorem for lossy Collection consumers (their objects are held by nobody else); half as many sequences on a resource.Value "+
			"(Set; subscribers with and without seed; lossy Value consumers only through the sharing structure) compared the same way; non-trivial = at least 2 subscribers and 4 received events; distinct = distinct sequences")
	mon := res.Monitor("snapshot-core-events",
		"the same sequences (and as many on a resource.Value, where DropExcess hands the bus's object even to lossy consumers): every event object any consumer receives (shared bus objects, filtered copies, merger output of stalled / slow / drained lossy subscribers) is copied field by field at receipt "+
			"(kind, id, time, seed flags, identity of old and new value) and compared after every later op and after the final drain; the values go to the snapshot tracker; independent of the Lean model")
	drv, err := lib.StartDriver(f.Driver)
	if err != nil {
		tie.Fail(err)
	} else {
		defer drv.Close()
	}
	n := f.N(120, 4000)
	for q := 0; q < n; q++ {
		steps := 16
		if q < 8 {
			steps = 4 + q // small cases first
		}
		if es := (evSeq{Kind: "events", Seed: f.Seed, Seq: q, Steps: steps}); begin(mon, "core-events", fmt.Sprint(q), es) {
			runEventSeq(es, tie, mon, drv)
		}
		if tie.Error != "" {
			break
		}
	}
	for q := 0; q < f.N(60, 2000); q++ {
		steps := 12
		if q < 6 {
			steps = 3 + q
		}
		if es := (evSeq{Kind: "events-value", Seed: f.Seed, Seq: q, Steps: steps}); begin(mon, "core-events/value", fmt.Sprint(q), es) {
			runValueEventSeq(es, tie, mon, drv)
		}
	}
	for k, v := range mon.Distribution {
		tie.Distribution[k] = v
	}
}
