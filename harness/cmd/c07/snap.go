package main

import (
	"fmt"
	"reflect"
	"sync"

	"google.golang.org/protobuf/encoding/prototext"
	"google.golang.org/protobuf/proto"
)

// snap is one message that crossed the API boundary: the live pointer and a deep copy taken at the
// moment it crossed. The property says ptr must stay Equal to copy for ever.
type snap struct {
	Origin string // which call / event produced it, e.g. "parentpb.Model.ListChildren/ret"
	Step   int
	ptr    proto.Message
	copy   proto.Message
	dead   bool // already reported; not reported again
}

// tracker is the snapshot monitor: independent of the Lean model, it only uses proto.Clone/Equal.
type tracker struct {
	mu    sync.Mutex
	snaps []*snap
	byPtr map[proto.Message]*snap
	step  int
}

func newTracker() *tracker { return &tracker{byPtr: map[proto.Message]*snap{}} }

func isNilMsg(m proto.Message) bool {
	if m == nil {
		return true
	}
	v := reflect.ValueOf(m)
	return v.Kind() == reflect.Ptr && v.IsNil()
}

// observe records m (first observation per pointer wins: it is the earliest promise).
func (t *tracker) observe(origin string, m proto.Message) {
	if isNilMsg(m) {
		return
	}
	t.mu.Lock()
	defer t.mu.Unlock()
	if _, ok := t.byPtr[m]; ok {
		return
	}
	s := &snap{Origin: origin, Step: t.step, ptr: m, copy: proto.Clone(m)}
	t.byPtr[m] = s
	t.snaps = append(t.snaps, s)
}

func (t *tracker) setStep(i int) {
	t.mu.Lock()
	t.step = i
	t.mu.Unlock()
}

func (t *tracker) count() int {
	t.mu.Lock()
	defer t.mu.Unlock()
	return len(t.snaps)
}

// changed returns the snapshots whose live message no longer equals the copy taken when it crossed.
func (t *tracker) changed() []*snap {
	t.mu.Lock()
	defer t.mu.Unlock()
	var out []*snap
	for _, s := range t.snaps {
		if s.dead {
			continue
		}
		if !proto.Equal(s.ptr, s.copy) {
			s.dead = true
			out = append(out, s)
		}
	}
	return out
}

func txt(m proto.Message) string {
	if isNilMsg(m) {
		return "<nil>"
	}
	b, err := prototext.MarshalOptions{Multiline: false}.Marshal(m)
	if err != nil {
		return fmt.Sprintf("<%v>", err)
	}
	s := string(b)
	if s == "" {
		return "{}"
	}
	return "{" + s + "}"
}
