package main

import (
	"context"
	"fmt"
	"math/rand"
	"strconv"
	"strings"

	"google.golang.org/protobuf/proto"
	"google.golang.org/protobuf/types/known/fieldmaskpb"
	"google.golang.org/protobuf/types/known/timestamppb"

	"github.com/smart-core-os/sc-api/go/traits"
	"github.com/smart-core-os/sc-golang/pkg/resource"
	"github.com/smart-core-os/sc-golang/pkg/trait/countpb"
	"github.com/smart-core-os/sc-golang/pkg/trait/electricpb"
	"github.com/smart-core-os/sc-golang/verifharness/lib"
)

// ---- countpb MemoryDevice: sharing BELOW the top level of a message -------------------------------------------------
//
// A device built directly on resource.Value whose message has a sub-message (Count.reset_time). The Lean model
// (ScVerif/C07/Rim6.lean) has count cells that refer to timestamp cells and spells out proto.Clone / FieldUpdater.Merge /
// proto.Merge on that heap; the tie compares, per call, the value handed back, whether it IS the stored message and
// whether its reset time is a timestamp object that existed before the call, and at the end every published count
// and every request of the caller as they read then. The callers of the scripts overwrite their requests after use.

type countCase struct {
	Kind   string   `json:"kind"`   // "count"
	TS     []int64  `json:"ts"`     // the caller's timestamps (whole seconds)
	CS     []string `json:"cs"`     // the caller's counts, added/removed/reset time (- = none)
	Script []string `json:"script"` // g | g<mask> | r- | r<i> | u<i>:<mask|->:<d|s> | t<i>=<v> | c<i>=<a>/<r>
}

func joinOrDash(ss []string, sep string) string {
	if len(ss) == 0 {
		return "-"
	}
	return strings.Join(ss, sep)
}

func (c countCase) line() string {
	var ts []string
	for _, v := range c.TS {
		ts = append(ts, fmt.Sprint(v))
	}
	// the device's writable fields are {added, removed}; its initial value has a reset time read from the wall clock
	return fmt.Sprintf("rim count 110 0/0/1000000 %s %s %s", joinOrDash(ts, ","), joinOrDash(c.CS, ";"), strings.Join(c.Script, ","))
}

func showCount(m *traits.Count) string {
	t := "-"
	if m.GetResetTime() != nil {
		if s := m.GetResetTime().GetSeconds(); s >= 1000000 {
			t = "N"
		} else {
			t = fmt.Sprint(s)
		}
	}
	return fmt.Sprintf("%d/%d/%s", m.GetAdded(), m.GetRemoved(), t)
}

func parseCount(s string) *traits.Count {
	p := strings.Split(s, "/")
	a, _ := strconv.Atoi(p[0])
	r, _ := strconv.Atoi(p[1])
	c := &traits.Count{Added: int32(a), Removed: int32(r)}
	if p[2] != "-" {
		t, _ := strconv.ParseInt(p[2], 10, 64)
		c.ResetTime = &timestamppb.Timestamp{Seconds: t}
	}
	return c
}

// countMask: "-" = nil, else 0/1 for added, removed, reset_time ("000" = a mask without paths)
func countMask(s string) *fieldmaskpb.FieldMask {
	if s == "-" {
		return nil
	}
	m := &fieldmaskpb.FieldMask{}
	for i, p := range []string{"added", "removed", "reset_time"} {
		if i < len(s) && s[i] == '1' {
			m.Paths = append(m.Paths, p)
		}
	}
	return m
}

type heldCount struct {
	ptr, copy *traits.Count
	at        string // the call that handed it out
}

// runCountCase drives the real device. changed lists the published counts that no longer equal the copy taken when
// they were handed out.
func runCountCase(c countCase) (ans string, changed []string) {
	panicked, msg := lib.Catch(func() {
		ctx := context.Background()
		dev := countpb.NewMemoryDevice()
		var ts []*timestamppb.Timestamp
		for _, v := range c.TS {
			ts = append(ts, &timestamppb.Timestamp{Seconds: v})
		}
		var cs []*traits.Count
		for _, s := range c.CS {
			cs = append(cs, parseCount(s))
		}
		known := map[*timestamppb.Timestamp]bool{} // every timestamp object that exists
		for _, t := range ts {
			known[t] = true
		}
		for _, m := range cs {
			if m.ResetTime != nil {
				known[m.ResetTime] = true
			}
		}
		stored := func() *traits.Count {
			m, _ := dev.GetCount(ctx, &traits.GetCountRequest{})
			return m
		}
		var pub []heldCount
		publish := func(m *traits.Count, at string) {
			for _, h := range pub {
				if h.ptr == m {
					return // the same message again (an unmasked read hands out the stored message itself)
				}
			}
			pub = append(pub, heldCount{m, proto.Clone(m).(*traits.Count), at})
			if m.GetResetTime() != nil {
				known[m.ResetTime] = true
			}
		}
		publish(stored(), "initial value")
		var outs []string
		for k, tok := range c.Script {
			var res *traits.Count
			var err error
			switch {
			case tok == "g":
				res, err = dev.GetCount(ctx, &traits.GetCountRequest{})
			case tok[0] == 'g':
				res, err = dev.GetCount(ctx, &traits.GetCountRequest{ReadMask: countMask(tok[1:])})
			case tok == "r-":
				res, err = dev.ResetCount(ctx, &traits.ResetCountRequest{})
			case tok[0] == 'r':
				i, _ := strconv.Atoi(tok[1:])
				res, err = dev.ResetCount(ctx, &traits.ResetCountRequest{ResetTime: ts[i]})
			case tok[0] == 'u':
				p := strings.Split(tok[1:], ":")
				i, _ := strconv.Atoi(p[0])
				res, err = dev.UpdateCount(ctx, &traits.UpdateCountRequest{Count: cs[i], UpdateMask: countMask(p[1]), Delta: p[2] == "d"})
			case tok[0] == 't':
				p := strings.Split(tok[1:], "=")
				i, _ := strconv.Atoi(p[0])
				v, _ := strconv.ParseInt(p[1], 10, 64)
				ts[i].Seconds = v
			case tok[0] == 'c':
				p := strings.Split(tok[1:], "=")
				i, _ := strconv.Atoi(p[0])
				q := strings.Split(p[1], "/")
				a, _ := strconv.Atoi(q[0])
				r, _ := strconv.Atoi(q[1])
				cs[i].Added, cs[i].Removed = int32(a), int32(r)
			}
			if err != nil || res == nil {
				outs = append(outs, "-")
				continue
			}
			o := showCount(res)
			if res == stored() {
				o += "s"
			}
			if res.GetResetTime() != nil && known[res.ResetTime] {
				o += "a"
			}
			outs = append(outs, o)
			publish(res, fmt.Sprintf("call %d (%s)", k, tok))
		}
		var ps, os []string
		for _, h := range pub {
			ps = append(ps, showCount(h.ptr))
			if !proto.Equal(h.ptr, h.copy) {
				changed = append(changed, fmt.Sprintf("the count handed out by %s was %s and is now %s", h.at, txt(h.copy), txt(h.ptr)))
			}
		}
		for _, m := range cs {
			os = append(os, showCount(m))
		}
		ans = strings.Join(outs, ",") + "|pub=" + strings.Join(ps, ";") + "|own=" + strings.Join(os, ";")
	})
	if panicked {
		return "panic:" + msg, changed
	}
	return ans, changed
}

var countAlphabet = []string{"g", "g100", "g001", "g000", "r-", "r0", "r1", "t0=99", "t1=5", "u0:-:d", "u0:-:s", "u0:100:d",
	"u1:110:s", "u1:010:d", "u0:001:s", "c0=5/4"}

func countCases(seed int64, extra int) []countCase {
	base := countCase{Kind: "count", TS: []int64{7, 0}, CS: []string{"2/1/8", "0/3/-"}}
	var out []countCase
	var rec func(prefix []string, depth int)
	rec = func(prefix []string, depth int) {
		if len(prefix) > 0 {
			c := base
			c.Script = append([]string(nil), prefix...)
			out = append(out, c)
		}
		if depth == 0 {
			return
		}
		for _, a := range countAlphabet {
			rec(append(prefix, a), depth-1)
		}
	}
	rec(nil, 3)
	// longer scripts, other request contents
	rng := rand.New(rand.NewSource(seed*7919 + 17))
	for i := 0; i < extra; i++ {
		c := countCase{Kind: "count", TS: []int64{int64(rng.Intn(50)), int64(1 + rng.Intn(50))}}
		for j := 0; j < 2; j++ {
			t := "-"
			if rng.Intn(3) > 0 {
				t = fmt.Sprint(rng.Intn(60))
			}
			c.CS = append(c.CS, fmt.Sprintf("%d/%d/%s", rng.Intn(4), rng.Intn(4), t))
		}
		n := 4 + rng.Intn(7)
		for j := 0; j < n; j++ {
			switch rng.Intn(8) {
			case 0:
				c.Script = append(c.Script, "g"+[]string{"", "100", "010", "001", "110", "101", "011", "111", "000"}[rng.Intn(9)])
			case 1:
				c.Script = append(c.Script, fmt.Sprintf("r%s", []string{"-", "0", "1"}[rng.Intn(3)]))
			case 2:
				c.Script = append(c.Script, fmt.Sprintf("t%d=%d", rng.Intn(2), rng.Intn(100)))
			case 3:
				c.Script = append(c.Script, fmt.Sprintf("c%d=%d/%d", rng.Intn(2), rng.Intn(5), rng.Intn(5)))
			default:
				c.Script = append(c.Script, fmt.Sprintf("u%d:%s:%s", rng.Intn(2), []string{"-", "100", "010", "110", "000", "001", "101"}[rng.Intn(7)], []string{"d", "s"}[rng.Intn(2)]))
			}
		}
		out = append(out, c)
	}
	return out
}

func countViolation(c countCase, changed []string, mon *lib.Monitor) {
	if len(changed) > 0 {
		mon.Violate("C07/countpb/MemoryDevice/published-count-changes", "a count handed out by the device changed afterwards: "+strings.Join(changed, "; "),
			c, "every count handed out reads as it did then (later calls and the caller's edits of its own requests do not reach it)", strings.Join(changed, "; "))
	}
}

func runRim8(f lib.Flags, res *lib.Result) {
	tie := res.Tie("rim-count", "K2",
		"countpb MemoryDevice (GetCount with / without read mask, ResetCount with the caller's timestamp or none, UpdateCount with / without update mask and delta, "+
			"the caller overwriting its timestamps and counts afterwards) vs the Lean nested-heap model `Rim6.step`: every script of 1-3 steps over a 16-token alphabet "+
			"(the whole domain) plus seeded longer scripts with other request contents; compared per call: the count handed back (counters, reset time), whether it IS the "+
			"stored message, whether its reset time is a timestamp OBJECT that existed before the call; at the end every published count and every request of the caller as "+
			"they read then; non-trivial = at least one write succeeded")
	tie.Exhaustive = true
	mon := res.Monitor("rim-count-frame", "on the same cases: every count the device handed out (initial value, read results, write results) equals the copy taken at that moment")
	drv, err := lib.StartDriver(f.Driver)
	if err != nil {
		tie.Fail(err)
		return
	}
	defer drv.Close()
	extra := 300
	if f.Tier == "thorough" {
		extra = 3000
	}
	cs := countCases(f.Seed, extra)
	lines := make([]string, len(cs))
	for i, c := range cs {
		lines[i] = c.line()
	}
	model, err := drv.Batch(lines)
	if err != nil {
		tie.Fail(err)
		return
	}
	for i, c := range cs {
		ans, changed := runCountCase(c)
		nt := false
		outs := strings.Split(strings.SplitN(ans, "|", 2)[0], ",")
		for k, tok := range c.Script {
			nt = nt || ((tok[0] == 'r' || tok[0] == 'u') && k < len(outs) && outs[k] != "-")
		}
		mon.Eval(lines[i], nt, nil)
		countViolation(c, changed, mon)
		tie.Record(lines[i], nt, c, model[i], ans)
	}
	runRim8b(f, res)
}

// ---- electricpb Model.SetActiveMode: the exported entry point that hands the CALLER's message to the write ----------
//
// Lean: ScVerif/C07/Rim5.lean `setActive` (the id must be known, then activeMode.Set(mode) without interceptor).

type setActiveCase struct {
	Kind   string   `json:"kind"`   // "setactive"
	W      string   `json:"w"`      // writable fields of the active mode resource, as in activeCase
	Active string   `json:"active"` // id:title:description of the initial active mode
	Modes  []string `json:"modes"`  // id:title:description of the initial modes
	Calls  []string `json:"calls"`  // id:title:description:start (- = no start time), one caller message per SetActiveMode call
}

func (c setActiveCase) line() string {
	return fmt.Sprintf("rim setactive %s %s %s %s", c.W, c.Active, joinOrDash(c.Modes, ";"), strings.Join(c.Calls, ","))
}

func runSetActiveCase(c setActiveCase) (ans string, changed []string) {
	panicked, msg := lib.Catch(func() {
		var init []*traits.ElectricMode
		for _, s := range c.Modes {
			init = append(init, parseEMode(s))
		}
		opts := []resource.Option{electricpb.WithInitialActiveMode(parseEMode(c.Active)), electricpb.WithInitialMode(init...)}
		if c.W != "-" {
			var paths []string
			for i, p := range []string{"id", "title", "description", "start_time"} {
				if c.W[i] == '1' {
					paths = append(paths, p)
				}
			}
			opts = append(opts, electricpb.WithActiveModeOption(resource.WithWritableFields(&fieldmaskpb.FieldMask{Paths: paths})))
		}
		m := electricpb.NewModel(opts...)
		type held struct {
			ptr, copy *traits.ElectricMode
			what      string
		}
		var before []held
		hold := func(md *traits.ElectricMode, what string) {
			before = append(before, held{md, proto.Clone(md).(*traits.ElectricMode), what})
		}
		for _, s := range c.Modes {
			if md, ok := m.FindMode(parseEMode(s).Id); ok {
				hold(md, "the stored mode "+md.Id+" (FindMode before the calls)")
			}
		}
		hold(m.ActiveMode(), "the initial active mode")
		var outs []string
		var own []*traits.ElectricMode
		for k, s := range c.Calls {
			p := strings.Split(s, ":")
			md := parseEMode(s)
			if len(p) > 3 && p[3] != "-" {
				sec, _ := strconv.ParseInt(p[3], 10, 64)
				md.StartTime = &timestamppb.Timestamp{Seconds: sec}
			}
			own = append(own, md)
			err := m.SetActiveMode(md)
			switch {
			case err == electricpb.ErrModeNotFound:
				outs = append(outs, "nf")
			case err != nil:
				outs = append(outs, "err("+err.Error()+")")
			default:
				act := m.ActiveMode()
				outs = append(outs, showEMode(act))
				hold(act, fmt.Sprintf("the active mode after call %d", k))
			}
		}
		var after, owns []string
		for _, s := range c.Modes {
			if md, ok := m.FindMode(parseEMode(s).Id); ok {
				after = append(after, showEMode(md))
			} else {
				after = append(after, "<gone>")
			}
		}
		// the caller edits what it passed, after the calls: nothing it was handed or the model holds may follow
		for _, md := range own {
			owns = append(owns, showEMode(md))
			md.Title += "!"
			if md.StartTime != nil {
				md.StartTime.Seconds += 1000
			}
		}
		for _, b := range before {
			if !proto.Equal(b.ptr, b.copy) {
				changed = append(changed, fmt.Sprintf("%s was %s and is now %s", b.what, txt(b.copy), txt(b.ptr)))
			}
		}
		ans = strings.Join(outs, ",") + "|modes=" + strings.Join(after, ";") + "|own=" + strings.Join(owns, ";")
	})
	if panicked {
		return "panic:" + msg, changed
	}
	return ans, changed
}

func setActiveCases() []setActiveCase {
	var out []setActiveCase
	for _, w := range []string{"-", "0000", "1000", "0100", "1100", "0010", "1110", "0001", "1101", "1111"} {
		for _, act := range []string{"::", "a:X:y"} {
			for _, ms := range [][]string{nil, {"a:A:da"}, {"a:A:da", "b:B:"}} {
				for _, calls := range [][]string{{"a:::9"}, {"a:A2:d2:-"}, {"b:T::3"}, {"c:Q:q:4"}, {"a:::9", "a:T::-"}, {"a:A:da:5", "b:::6"},
					{"b:B1:x:2", "a:::-", "c:::7", "a:Z:z:8"}} {
					out = append(out, setActiveCase{Kind: "setactive", W: w, Active: act, Modes: ms, Calls: calls})
				}
			}
		}
	}
	return out
}

func setActiveViolation(c setActiveCase, changed []string, mon *lib.Monitor) {
	if len(changed) > 0 {
		mon.Violate("C07/electricpb/SetActiveMode/published-mode-changes", "a mode obtained before changed: "+strings.Join(changed, "; "),
			c, "stored modes and earlier active modes read as they did (SetActiveMode writes the active mode resource only; the caller's later edits of its own message reach nothing)", strings.Join(changed, "; "))
	}
}

func runRim8b(f lib.Flags, res *lib.Result) {
	tie := res.Tie("rim-set-active-mode", "K2",
		"electricpb Model.SetActiveMode (the caller's message is the source of the write) vs the Lean `setActive`: writable fields of the active mode resource {not configured, empty mask, "+
			"8 subsets of id/title/description/start_time} x initial active mode {empty, a with other contents} x initial modes {none, a, a+b} x 7 scripts of 1-4 calls (known and unknown ids, "+
			"with and without start time); the whole domain; compared: the active mode after every call, the stored modes afterwards and the caller's messages afterwards (the write filters "+
			"them in place); non-trivial = at least one call finds its mode")
	tie.Exhaustive = true
	mon := res.Monitor("rim-set-active-mode-frame", "on the same cases: the stored modes (FindMode before the calls), the initial active mode and the active mode read after every call are as they were, "+
		"also after the caller edited every message it passed")
	drv, err := lib.StartDriver(f.Driver)
	if err != nil {
		tie.Fail(err)
		return
	}
	defer drv.Close()
	cs := setActiveCases()
	lines := make([]string, len(cs))
	for i, c := range cs {
		lines[i] = c.line()
	}
	model, err := drv.Batch(lines)
	if err != nil {
		tie.Fail(err)
		return
	}
	for i, c := range cs {
		ans, changed := runSetActiveCase(c)
		nt := false
		for _, o := range strings.Split(strings.SplitN(ans, "|", 2)[0], ",") {
			nt = nt || (o != "nf" && !strings.HasPrefix(o, "err(") && !strings.HasPrefix(o, "panic:"))
		}
		mon.Eval(lines[i], nt, nil)
		setActiveViolation(c, changed, mon)
		tie.Record(lines[i], nt, c, model[i], ans)
	}
}
