// Package pbgen generates small random protobuf messages from a descriptor (protoreflect only).
// Shared by the C07 and C14 harnesses. Values come from tiny pools so that independently generated
// messages collide on names/ids (collisions are what exercises merge/union/remove code paths).
package pbgen

import (
	"math/rand"
	"reflect"
	"sort"
	"strings"

	"google.golang.org/protobuf/proto"
	"google.golang.org/protobuf/reflect/protoreflect"
)

// Gen draws random messages. Strings come from Pool (extended by the caller with ids harvested from
// results), numbers from small integer ranges (floats are integer valued, never NaN).
type Gen struct {
	R        *rand.Rand
	Pool     []string
	MaxDepth int
	// Density is the probability that a field is populated.
	Density float64
	// NoSort leaves repeated message fields in generation order (default: sorted by the elements' name field).
	NoSort bool
	// LeafWKT: Timestamp and Duration fields are leaves like scalars, they do not count towards MaxDepth (default:
	// they do, so a message at the depth limit never gets its times populated: a request wrapper around a resource
	// with a period then never carries a complete period).
	LeafWKT bool
}

func New(r *rand.Rand) *Gen {
	return &Gen{R: r, Pool: []string{"a", "b", "c", "d", "e"}, MaxDepth: 3, Density: 0.55}
}

func (g *Gen) Str() string { return g.Pool[g.R.Intn(len(g.Pool))] }

// Message fills a new message of the same type as proto.
func (g *Gen) Message(mt protoreflect.MessageType) proto.Message {
	m := mt.New()
	g.fill(m, 0)
	return m.Interface()
}

func (g *Gen) fill(m protoreflect.Message, depth int) {
	// Timestamps and Durations are coarse (multiples of 100 s, never zero, no nanos) so that two generated
	// values are either equal or far outside any configured equivalence tolerance (models use 1 s).
	switch m.Descriptor().FullName() {
	case "google.protobuf.Timestamp", "google.protobuf.Duration":
		m.Set(m.Descriptor().Fields().ByName("seconds"), protoreflect.ValueOfInt64(int64(100*(1+g.R.Intn(5)))))
		return
	}
	fds := m.Descriptor().Fields()
	doneOneof := map[string]bool{}
	for i := 0; i < fds.Len(); i++ {
		fd := fds.Get(i)
		if g.R.Float64() > g.Density {
			continue
		}
		if od := fd.ContainingOneof(); od != nil && !od.IsSynthetic() {
			if doneOneof[string(od.Name())] {
				continue
			}
			doneOneof[string(od.Name())] = true
			// choose one member of the oneof uniformly
			fd = od.Fields().Get(g.R.Intn(od.Fields().Len()))
		}
		isMsg := fd.Kind() == protoreflect.MessageKind || fd.Kind() == protoreflect.GroupKind
		if isMsg && depth >= g.MaxDepth && !(g.LeafWKT && isLeafWKT(fd)) {
			continue
		}
		switch {
		case fd.IsMap():
			mp := m.Mutable(fd).Map()
			n := g.R.Intn(3)
			for k := 0; k < n; k++ {
				key := g.scalar(fd.MapKey()).MapKey()
				vd := fd.MapValue()
				if vd.Kind() == protoreflect.MessageKind {
					if depth+1 >= g.MaxDepth {
						continue
					}
					v := mp.NewValue()
					g.fill(v.Message(), depth+1)
					mp.Set(key, v)
				} else {
					mp.Set(key, g.scalar(vd))
				}
			}
			if mp.Len() == 0 {
				m.Clear(fd)
			}
		case fd.IsList():
			l := m.Mutable(fd).List()
			n := g.R.Intn(4)
			for k := 0; k < n; k++ {
				if isMsg {
					v := l.NewElement()
					g.fill(v.Message(), depth+1)
					l.Append(v)
				} else {
					l.Append(g.scalar(fd))
				}
			}
			if isMsg && !g.NoSort {
				sortByName(l, fd.Message())
			}
			if l.Len() == 0 {
				m.Clear(fd)
			}
		case isMsg:
			g.fill(m.Mutable(fd).Message(), depth+1)
		default:
			m.Set(fd, g.scalar(fd))
		}
	}
}

func isLeafWKT(fd protoreflect.FieldDescriptor) bool {
	if fd.IsMap() || fd.Message() == nil {
		return false
	}
	switch fd.Message().FullName() {
	case "google.protobuf.Timestamp", "google.protobuf.Duration":
		return true
	}
	return false
}

// sortByName sorts a repeated message field by the elements' string field "name" (if any): several
// models require name-sorted input and would otherwise reject most random messages.
func sortByName(l protoreflect.List, md protoreflect.MessageDescriptor) {
	nf := md.Fields().ByName("name")
	if nf == nil || nf.Kind() != protoreflect.StringKind || nf.IsList() {
		return
	}
	n := l.Len()
	vals := make([]protoreflect.Value, n)
	for i := 0; i < n; i++ {
		vals[i] = l.Get(i)
	}
	sort.SliceStable(vals, func(i, j int) bool {
		return vals[i].Message().Get(nf).String() < vals[j].Message().Get(nf).String()
	})
	for i := 0; i < n; i++ {
		l.Set(i, vals[i])
	}
}

func (g *Gen) scalar(fd protoreflect.FieldDescriptor) protoreflect.Value {
	switch fd.Kind() {
	case protoreflect.BoolKind:
		return protoreflect.ValueOfBool(g.R.Intn(2) == 0)
	case protoreflect.EnumKind:
		vs := fd.Enum().Values()
		return protoreflect.ValueOfEnum(vs.Get(g.R.Intn(vs.Len())).Number())
	case protoreflect.Int32Kind, protoreflect.Sint32Kind, protoreflect.Sfixed32Kind:
		return protoreflect.ValueOfInt32(int32(g.R.Intn(7)) - 1)
	case protoreflect.Int64Kind, protoreflect.Sint64Kind, protoreflect.Sfixed64Kind:
		return protoreflect.ValueOfInt64(int64(g.R.Intn(7)) - 1)
	case protoreflect.Uint32Kind, protoreflect.Fixed32Kind:
		return protoreflect.ValueOfUint32(uint32(g.R.Intn(6)))
	case protoreflect.Uint64Kind, protoreflect.Fixed64Kind:
		return protoreflect.ValueOfUint64(uint64(g.R.Intn(6)))
	case protoreflect.FloatKind:
		return protoreflect.ValueOfFloat32(float32(g.R.Intn(9)) * 12.5)
	case protoreflect.DoubleKind:
		return protoreflect.ValueOfFloat64(float64(g.R.Intn(9)) * 12.5)
	case protoreflect.StringKind:
		return protoreflect.ValueOfString(g.Str())
	case protoreflect.BytesKind:
		return protoreflect.ValueOfBytes([]byte(g.Str()))
	}
	panic("pbgen: unsupported kind " + fd.Kind().String())
}

// Scramble overwrites every populated part of m with different content and populates more: models a
// caller that re-uses a message after handing it to a write.
func (g *Gen) Scramble(m proto.Message) {
	if m == nil {
		return
	}
	r := m.ProtoReflect()
	if !r.IsValid() {
		return
	}
	// first write THROUGH what the message points to (optional scalars are pointers, bytes are slices): a caller
	// doing `*ev.Total = n` or `ev.Data[0] = x` edits shared memory if the model handed it one of its own pointers
	g.writeThrough(reflect.ValueOf(m), 0)
	// mutate nested messages and lists in place first (so shared sub-objects would be hit), then refill
	r.Range(func(fd protoreflect.FieldDescriptor, v protoreflect.Value) bool {
		switch {
		case fd.IsMap():
			mp := v.Map()
			var keys []protoreflect.MapKey
			mp.Range(func(k protoreflect.MapKey, _ protoreflect.Value) bool { keys = append(keys, k); return true })
			for _, k := range keys {
				if fd.MapValue().Kind() == protoreflect.MessageKind {
					g.Scramble(mp.Get(k).Message().Interface())
				} else {
					mp.Set(k, g.scalar(fd.MapValue()))
				}
			}
		case fd.IsList():
			l := v.List()
			for i := 0; i < l.Len(); i++ {
				if fd.Kind() == protoreflect.MessageKind {
					g.Scramble(l.Get(i).Message().Interface())
				} else {
					l.Set(i, g.scalar(fd))
				}
			}
		case fd.Kind() == protoreflect.MessageKind:
			g.Scramble(v.Message().Interface())
		}
		return true
	})
	fds := r.Descriptor().Fields()
	for i := 0; i < fds.Len(); i++ {
		fd := fds.Get(i)
		if fd.IsMap() || fd.IsList() || fd.Kind() == protoreflect.MessageKind || fd.Kind() == protoreflect.GroupKind {
			continue
		}
		if od := fd.ContainingOneof(); od != nil && !od.IsSynthetic() && !r.Has(fd) {
			continue
		}
		r.Set(fd, g.scalar(fd))
	}
}

// TopPaths returns a random non-empty subset (size 1..max) of md's top-level field names.
func (g *Gen) TopPaths(md protoreflect.MessageDescriptor, max int) []string {
	fds := md.Fields()
	if fds.Len() == 0 {
		return nil
	}
	n := 1 + g.R.Intn(max)
	seen := map[string]bool{}
	var out []string
	for i := 0; i < n; i++ {
		name := string(fds.Get(g.R.Intn(fds.Len())).Name())
		if !seen[name] {
			seen[name] = true
			out = append(out, name)
		}
	}
	sort.Strings(out)
	return out
}

// ReadMaskPaths draws read-mask paths from md's path tree: 1..max paths, each descending with probability
// 1/2 per level (up to depth 3) through singular message fields AND through repeated message fields (the
// filter then applies to every element); maps and scalars end a path. Returns nil for messages without fields.
func (g *Gen) ReadMaskPaths(md protoreflect.MessageDescriptor, max int) []string {
	if md.Fields().Len() == 0 {
		return nil
	}
	n := 1 + g.R.Intn(max)
	seen := map[string]bool{}
	var out []string
	for i := 0; i < n; i++ {
		cur := md
		path := ""
		for depth := 0; depth < 3; depth++ {
			fds := cur.Fields()
			if fds.Len() == 0 {
				break
			}
			// prefer message-typed fields when descending so that nested paths are common
			fd := fds.Get(g.R.Intn(fds.Len()))
			if g.R.Intn(2) == 0 {
				var msgs []protoreflect.FieldDescriptor
				for k := 0; k < fds.Len(); k++ {
					if f := fds.Get(k); f.Message() != nil && !f.IsMap() {
						msgs = append(msgs, f)
					}
				}
				if len(msgs) > 0 {
					fd = msgs[g.R.Intn(len(msgs))]
				}
			}
			if path != "" {
				path += "."
			}
			path += string(fd.Name())
			if fd.Message() == nil || fd.IsMap() || g.R.Intn(2) == 0 {
				break
			}
			cur = fd.Message()
		}
		if !seen[path] {
			seen[path] = true
			out = append(out, path)
		}
	}
	// drop paths that have a listed prefix (a.b is redundant next to a) to keep masks normalised
	sort.Strings(out)
	var norm []string
	for _, p := range out {
		covered := false
		for _, q := range norm {
			if strings.HasPrefix(p, q+".") {
				covered = true
			}
		}
		if !covered {
			norm = append(norm, p)
		}
	}
	return norm
}

// writeThrough overwrites, in place, every scalar reachable through a pointer and every byte of a bytes field in the
// generated struct behind m (Go reflection: protoreflect's Set would replace the pointer instead of writing through it).
func (g *Gen) writeThrough(v reflect.Value, depth int) {
	if depth > 4 || !v.IsValid() {
		return
	}
	switch v.Kind() {
	case reflect.Ptr:
		if v.IsNil() {
			return
		}
		e := v.Elem()
		switch e.Kind() {
		case reflect.Struct:
			for i := 0; i < e.NumField(); i++ {
				if e.Type().Field(i).IsExported() {
					g.writeThrough(e.Field(i), depth+1)
				}
			}
		case reflect.Int32, reflect.Int64:
			e.SetInt(e.Int() + 1 + int64(g.R.Intn(3)))
		case reflect.Uint32, reflect.Uint64:
			e.SetUint(e.Uint() + 1 + uint64(g.R.Intn(3)))
		case reflect.Float32, reflect.Float64:
			e.SetFloat(e.Float() + 12.5)
		case reflect.Bool:
			e.SetBool(!e.Bool())
		case reflect.String:
			e.SetString(e.String() + "!")
		}
	case reflect.Slice:
		if v.Type().Elem().Kind() == reflect.Uint8 {
			for i := 0; i < v.Len(); i++ {
				v.Index(i).SetUint(uint64(v.Index(i).Uint()+1) & 0xff)
			}
			return
		}
		for i := 0; i < v.Len(); i++ {
			g.writeThrough(v.Index(i), depth+1)
		}
	case reflect.Map:
		for _, k := range v.MapKeys() {
			g.writeThrough(v.MapIndex(k), depth+1)
		}
	case reflect.Interface:
		if !v.IsNil() {
			g.writeThrough(v.Elem(), depth+1) // oneof wrappers
		}
	}
}
