package main

import (
	"context"
	"encoding/base64"
	"fmt"
	"sort"
	"strconv"
	"strings"
	"sync"
	"sync/atomic"
	"time"

	"google.golang.org/grpc/codes"
	"google.golang.org/grpc/status"
	"google.golang.org/protobuf/proto"
	"google.golang.org/protobuf/types/known/durationpb"
	"google.golang.org/protobuf/types/known/fieldmaskpb"
	"google.golang.org/protobuf/types/known/timestamppb"

	"github.com/smart-core-os/sc-api/go/traits"
	"github.com/smart-core-os/sc-golang/pkg/resource"
	"github.com/smart-core-os/sc-golang/pkg/trait/countpb"
	"github.com/smart-core-os/sc-golang/pkg/trait/enterleavesensorpb"
	"github.com/smart-core-os/sc-golang/pkg/trait/hailpb"
	"github.com/smart-core-os/sc-golang/pkg/trait/publicationpb"
	"github.com/smart-core-os/sc-golang/pkg/trait/vendingpb"
)

// P is a message: durationpb.Duration{Seconds: A, Nanos: B} (two fields, so that an update mask can select
// one and leave the other). The empty message is 0.0. Written "a.b" everywhere (driver protocol, replays).
type P struct{ A, B int64 }

func (p P) String() string               { return strconv.FormatInt(p.A, 10) + "." + strconv.FormatInt(p.B, 10) }
func (p P) MarshalText() ([]byte, error) { return []byte(p.String()), nil }
func (p *P) UnmarshalText(b []byte) error {
	parts := strings.Split(string(b), ".")
	if len(parts) != 2 {
		return fmt.Errorf("bad message %q", b)
	}
	var err error
	if p.A, err = strconv.ParseInt(parts[0], 10, 64); err != nil {
		return err
	}
	p.B, err = strconv.ParseInt(parts[1], 10, 64)
	return err
}
func (p P) msg() *durationpb.Duration { return &durationpb.Duration{Seconds: p.A, Nanos: int32(p.B)} }

// carrier: the message type that carries a.b (see Scenario.Carrier). A zero field is an absent field in every
// carrier (a sub-message is nil exactly when its number is 0), so that equal pairs are proto.Equal messages.
type carrier string

func (c carrier) mk(p P) proto.Message {
	if c == "hail" {
		m := &traits.Hail{}
		c.set(m, p)
		return m
	}
	if c == "chg" {
		m := &traits.PullCountsResponse_Change{}
		c.set(m, p)
		return m
	}
	return p.msg()
}

// set makes m (a message of the carrier's type) hold p, in place
func (c carrier) set(m proto.Message, p P) {
	switch t := m.(type) {
	case *traits.PullCountsResponse_Change:
		t.Count, t.ChangeTime = nil, nil
		if p.A != 0 {
			t.Count = &traits.Count{Added: int32(p.A)}
		}
		if p.B != 0 {
			t.ChangeTime = &timestamppb.Timestamp{Seconds: p.B}
		}
	case *traits.Hail: // (the Id stays)
		t.State, t.ArriveTime = traits.Hail_State(p.A), nil
		if p.B != 0 {
			t.ArriveTime = &timestamppb.Timestamp{Seconds: hailArrive(p.B)}
		}
	case *durationpb.Duration:
		t.Seconds, t.Nanos = p.A, int32(p.B)
	}
}

// hailArrive: the arrive_time (seconds) field b of a hail stands for: 0 = none (the hail has not arrived), 1 = ten
// hours before the epoch of the injected clock - EXPIRED for the model's sweep, whose keep-alive is one hour and
// whose clock shows the first minutes of that epoch -, 2.. = at or after the epoch (not expired)
func hailArrive(b int64) int64 { return 36000*(b-2) + 1 } // (never 0 seconds: an empty sub-message merges as 'no change')

func hailExpired(v P) bool { return v.B == 1 }

// withID: the message names the id it is written under (hails do)
func (c carrier) withID(m proto.Message, id string) proto.Message {
	if h, ok := m.(*traits.Hail); ok && h != nil {
		h.Id = id
	}
	return m
}

// path: the update-mask path of field "a" / "b"
func (c carrier) path(f string) string {
	if c == "hail" {
		return map[string]string{"a": "state", "b": "arrive_time"}[f]
	}
	if c == "chg" {
		return map[string]string{"a": "count", "b": "change_time"}[f]
	}
	return map[string]string{"a": "seconds", "b": "nanos"}[f]
}

// Op is one call of a writer.
//
//	K="u": Collection.Update(id, …)   K="v": Value.Set(…) (model id 9)   K="d": Collection.Delete(id, …)
//
// and read-modify-write callers of the write path that live in the trait packages (their change functions are
// the library's own, not the harness'):
//
//	K="x": vendingpb.Model.DispenseInstantly(stock i7, quantity k): F="x<k>", the message a.b is used.remaining
//	       (model id 7: an Update without create-if-absent whose interceptor computes used+k, max(0, remaining-k))
//	K="e": enterleavesensorpb.Model.CreateEnterLeaveEvent(ENTER | LEAVE): F="a1" | "b1", the message a.b is
//	       enter_total.leave_total (model id 6: a Value.Set whose interceptor adds one to the direction's total)
//	K="p": publicationpb.ModelServer.UpdatePublication(body k, version of the body Expect.A — "" without Expect):
//	       F="s<k>.0", the message a.0 is the publication with body a (model id 5: an Update whose expected value
//	       is the version's body: the version is a hash of the content; frozen clock only, the publish time is
//	       then the same in every message)
//	K="q": publicationpb.ModelServer.DeletePublication(version of the body Expect.A, allow_missing AM) (a Delete
//	       of model id 5 with that version check)
//	K="k": publicationpb.ModelServer.AcknowledgePublication(version of the body Expect.A, receipt r): F="s0.<r>",
//	       Mask="b": the message a.b is body.receipt (0 none, 1 NO_SIGNAL, 2 ACCEPTED, 3 REJECTED); an Update of
//	       field b whose check refuses another version (the handler's code for that is Aborted, written
//	       "err:VersionMismatch": it is a refused precondition, not a lost race) and a version that is
//	       already ACCEPTED / REJECTED (FailedPrecondition): two acknowledgements of one version never both succeed
//
// The version of a publication is a function of its body (field a) only: the version checks of p / q / k look at
// field a (check "ve<k>": a = k or FailedPrecondition; "ak<k>": the check of k).
//
// and write HANDLERS of a trait server (request in, response out: what is judged is the RESPONSE the handler gives):
//
//	K="c": countpb.MemoryDevice.UpdateCount: F="a<k>" | "b<k>" = {delta: true, count{added | removed: k}} (a
//	       fetch-and-add: the answer is the count after THIS call's increment), F="s<a>.<b>" = {count{added: a,
//	       removed: b}}; Mask = the request's update mask (added / removed); the message a.b is added.removed
//	       (model id 8: a Value.Set with the handler's own delta interceptor)
//	K="z": countpb.MemoryDevice.ResetCount (F="s0.0": a Set of 0.0 with all fields writable)
type Op struct {
	K      string `json:"k"`
	ID     int    `json:"id"`
	Gen    bool   `json:"gen,omitempty"`     // empty id + WithGenIDIfAbsent (+ WithIDCallback)
	EA     bool   `json:"ea,omitempty"`      // WithExpectAbsent
	CIA    bool   `json:"cia,omitempty"`     // WithCreateIfAbsent
	AM     bool   `json:"am,omitempty"`      // WithAllowMissing
	Expect *P     `json:"expect,omitempty"`  // WithExpectedValue (the whole message)
	Check  string `json:"check,omitempty"`   // "n" | "eq<k>" | "ne<k>" on field a: WithExpectedCheck failing with OutOfRange
	F      string `json:"f,omitempty"`       // "s<a>.<b>" write a.b | "a<k>" / "b<k>" interceptBefore: field += k
	Mask   string `json:"mask,omitempty"`    // "" none | "a" | "b" | "ab": WithUpdatePaths(seconds / nanos)
	WT     *int64 `json:"wt,omitempty"`      // WithWriteTime
	ViaAdd bool   `json:"via_add,omitempty"` // (with EA and CIA) call Collection.Add, which supplies those two options itself
	After  bool   `json:"after,omitempty"`   // InterceptAfter: field b of the result = old b + 1 (a revision counter kept by the writer)
	// Sp: how the caller spells the id (scenarios whose collection has an id interceptor): 0 = the canonical form
	// ("i3", the interceptor's image, what the item is stored under), 1 = another spelling of the same id ("I3")
	Sp int `json:"sp,omitempty"`
	// Rivals are complete calls made from inside this call's own callback, where no lock is held: the i-th
	// invocation of the callback runs Rivals[i] first (an Update/Set invokes it once, a Delete once per attempt).
	Rivals  []Op   `json:"rivals,omitempty"`
	RivalAt string `json:"rival_at,omitempty"` // "c": the WithExpectedCheck callback | "b": the InterceptBefore callback
}

const valueID = 9
const vendID = 7  // the stock record of the vending model
const enterID = 6 // the Value of the enter-leave model
const countID = 8 // the Value of the count device

// trait: the call goes through a trait model's own read-modify-write caller
const pubID = 5 // the publication of the publication model

func (o Op) trait() bool {
	return o.K == "x" || o.K == "e" || o.K == "p" || o.K == "q" || o.K == "c" || o.K == "z" || o.K == "k"
}

const genBase = 100 // model ids of generated ids: genBase + 10*candidate + try

type Scenario struct {
	Init   map[string]P `json:"init"` // model id (decimal) -> value; absent = no record / nil Value
	Progs  [][]Op       `json:"progs"`
	Sched  []int        `json:"sched,omitempty"`
	Clock  string       `json:"clock,omitempty"`  // "t" one instant per step (default) | "f" frozen | "c" coarse (step/3)
	Cands  []int        `json:"cands,omitempty"`  // the n-th rng.Read yields candidate Cands[n % len] (empty: n)
	Nested bool         `json:"nested,omitempty"` // no hooks: Progs[0][0] with its Rivals
	// Writable: the Collection and the Value are configured WithWritablePaths on this one field ("a" seconds | "b"
	// nanos): every write, masked or not, only replaces that field and carries the other one over from the value
	// it read (update masks of such a scenario name the writable field only: anything else is refused by
	// FieldUpdater.Validate before the write path is entered).
	Writable string `json:"writable,omitempty"`
	// Icpt: the Collection is configured WithIDInterceptor(strings.ToLower): callers may spell an id in a form that
	// is not what the item is stored under (Op.Sp); every spelling is the same id (the model works on the images)
	Icpt bool `json:"icpt,omitempty"`
	// Pub: the publication after the commit is a step of its own (family publish-window): threads also park at
	// value.set.beforeSend / coll.update.beforeSend, i.e. with their value stored and their call not yet returned
	Pub bool `json:"pub,omitempty"`
	// Carrier: the message type the Collection and the Value hold (the write path is generic in it): "" =
	// durationpb.Duration{seconds a, nanos b}; "chg" = traits.PullCountsResponse_Change{count{added a}, change_time
	// {seconds b}} - a message of the API for which the library's other comparer (pkg/cmp, made for de-duplicating
	// Pull responses) is coarser than proto.Equal: it leaves field b out; "hail" = the collection is the one of a
	// hailpb.Model and holds traits.Hail{state a, arrive_time b (hailArrive)}: Update goes through Model.UpdateHail,
	// Delete through Model.DeleteHail (both hand the caller's write options on), and
	//	K="h": hailpb.Model.CreateHail(F="s<a>.<b>"): an Add with a generated id, followed - for the first caller -
	//	       by the model's SWEEP of expired hails: List, then per expired hail a Delete(allow missing, expected
	//	       value = the listed copy)
	Carrier string `json:"carrier,omitempty"`
}

func (sc Scenario) clock() string {
	if sc.Clock == "" {
		return "t"
	}
	return sc.Clock
}

func b01(b bool) string {
	if b {
		return "1"
	}
	return "0"
}

func optP(p *P) string {
	if p == nil {
		return "-"
	}
	return p.String()
}

func optI(p *int64) string {
	if p == nil {
		return "-"
	}
	return strconv.FormatInt(*p, 10)
}

func (o Op) check() string {
	if o.Check == "" {
		return "n"
	}
	return o.Check
}

func (o Op) mask() string {
	m := o.Mask
	if m == "" {
		m = "-"
	}
	if o.After {
		m += "+"
	}
	return m
}

// eff is the call as the merge sees it on a resource whose writable fields are restricted to one field: whatever
// the update mask says (it can only name that field), exactly that field is taken from the written message.
func (o Op) eff(writable string) Op {
	if writable != "" && o.K != "d" && !o.trait() {
		o.Mask = writable
	}
	return o
}

func (o Op) encode() string {
	switch o.K {
	case "u":
		id := strconv.Itoa(o.ID)
		if o.Gen {
			id = "g"
		}
		return fmt.Sprintf("u/%s/C/%s/%s/%s/%s/%s/%s/%s", id, b01(o.EA), b01(o.CIA), optP(o.Expect), o.check(), o.F, o.mask(), optI(o.WT))
	case "v":
		return fmt.Sprintf("u/%d/V/0/0/%s/%s/%s/%s/%s", valueID, optP(o.Expect), o.check(), o.F, o.mask(), optI(o.WT))
	case "d":
		return fmt.Sprintf("d/%d/%s/%s/%s", o.ID, b01(o.AM), optP(o.Expect), o.check())
	case "x":
		return fmt.Sprintf("u/%d/C/0/0/-/n/%s/-/-", vendID, o.F)
	case "e":
		return fmt.Sprintf("u/%d/V/0/0/-/n/%s/-/-", enterID, o.F)
	case "p":
		return fmt.Sprintf("u/%d/C/0/0/-/%s/%s/-/-", pubID, o.versionCheck("ve"), o.F)
	case "q":
		return fmt.Sprintf("d/%d/%s/-/%s", pubID, b01(o.AM), o.versionCheck("ve"))
	case "k":
		return fmt.Sprintf("u/%d/C/0/0/-/%s/%s/b/-", pubID, o.versionCheck("ak"), o.F)
	case "c":
		return fmt.Sprintf("u/%d/V/0/0/-/n/%s/%s/-", countID, o.F, o.mask())
	case "z":
		return fmt.Sprintf("u/%d/V/0/0/-/n/s0.0/-/-", countID)
	case "h":
		return "h/" + o.F
	}
	return "?"
}

// versionCheck: the check token of a call that quotes the version of the body Expect.A ("n" when it quotes none)
func (o Op) versionCheck(kind string) string {
	if o.Expect == nil {
		return "n"
	}
	return kind + strconv.FormatInt(o.Expect.A, 10)
}

// target is the id a call works on; a generate-id call has none before it ran (-1).
func (o Op) target() int {
	switch o.K {
	case "v":
		return valueID
	case "x":
		return vendID
	case "e":
		return enterID
	case "p", "q", "k":
		return pubID
	case "c", "z":
		return countID
	}
	if o.Gen {
		return -1
	}
	return o.ID
}

func (sc Scenario) initIDs() []int {
	var ids []int
	for k := range sc.Init {
		n, _ := strconv.Atoi(k)
		ids = append(ids, n)
	}
	sort.Ints(ids)
	return ids
}

func joinInts(xs []int) string {
	var ss []string
	for _, t := range xs {
		ss = append(ss, strconv.Itoa(t))
	}
	if len(ss) == 0 {
		return "-"
	}
	return strings.Join(ss, ",")
}

func driverLine(sc Scenario, progs [][]Op, sched []int) string {
	var init []string
	for _, id := range sc.initIDs() {
		init = append(init, fmt.Sprintf("%d:%s", id, sc.Init[strconv.Itoa(id)]))
	}
	is := strings.Join(init, ",")
	if is == "" {
		is = "-"
	}
	var ps []string
	for _, p := range progs {
		var ops []string
		for _, o := range p {
			ops = append(ops, o.eff(sc.Writable).encode())
		}
		s := strings.Join(ops, ";")
		if s == "" {
			s = "-"
		}
		ps = append(ps, s)
	}
	return fmt.Sprintf("run 1 %s %s %s %s %s", sc.clock(), joinInts(sc.Cands), is, strings.Join(ps, "|"), joinInts(sched))
}

// ---------------------------------------------------------------------------------------------
// injected clock and id generator

// clock shows an instant derived from a counter: hooked runs set the counter to the number of the step
// being executed (so every Now() of one step agrees with the model's clock at that step); free runs
// (stress) advance it on every Now().
type clock struct {
	mode string
	free bool
	n    atomic.Int64
	// extra: steps the model makes that are no step of their own in the code (the read of a Delete that a sweep
	// starts in the step that finished its previous call): the instants shown are numbered like the model's steps
	extra atomic.Int64
}

func (c *clock) Now() time.Time {
	k := c.n.Load() + c.extra.Load()
	if c.free {
		k = c.n.Add(1)
	}
	switch c.mode {
	case "f":
		k = 0
	case "c":
		k = k / 3
	}
	return time.Unix(k, 0)
}

// scriptRNG: the n-th Read yields the bytes [cand, 0, 0, ...] (as many as asked for: 6 + try).
type scriptRNG struct {
	mu     sync.Mutex
	script []int
	n      int
}

func (r *scriptRNG) Read(p []byte) (int, error) {
	r.mu.Lock()
	defer r.mu.Unlock()
	v := r.n
	if len(r.script) > 0 {
		v = r.script[r.n%len(r.script)]
	}
	r.n++
	for i := range p {
		p[i] = 0
	}
	if len(p) > 0 {
		p[0] = byte(v)
	}
	return len(p), nil
}

func idName(id int) string {
	if id < genBase {
		return "i" + strconv.Itoa(id)
	}
	v, try := (id-genBase)/10, (id-genBase)%10
	b := make([]byte, 6+try)
	b[0] = byte(v)
	return base64.RawURLEncoding.EncodeToString(b)
}

// spelled: the id as the caller of this op writes it
func (o Op) spelled() string {
	if o.Sp != 0 {
		return strings.ToUpper(idName(o.ID))
	}
	return idName(o.ID)
}

func idOf(name string) int {
	if strings.HasPrefix(name, "i") {
		if n, err := strconv.Atoi(name[1:]); err == nil {
			return n
		}
	}
	b, err := base64.RawURLEncoding.DecodeString(name)
	if err != nil || len(b) < 6 || len(b) > 15 {
		return -2
	}
	return genBase + 10*int(b[0]) + len(b) - 6
}

// ---------------------------------------------------------------------------------------------
// the real code

type world struct {
	car  carrier
	coll *resource.Collection
	val  *resource.Value
	clk  *clock
	rng  *scriptRNG
	// trait models (built only for scenarios that use them)
	vend  *vendingpb.Model
	enter *enterleavesensorpb.Model
	pub   *publicationpb.ModelServer
	pubM  *publicationpb.Model
	count *countpb.MemoryDevice
	hail  *hailpb.Model
	// the reset time every ResetCount of this world asks for: the one the device was created with (the message
	// a.b leaves the reset time out, so it is kept the same: a reset is then the write of 0.0 and nothing else)
	resetAt *timestamppb.Timestamp

	// (hail model) every id lookup of the model's collection - the start of a Get / Update / Delete -, with the step
	// during which it was made: the sweep reports nothing, this is how the start of each of its Deletes is seen
	idCalls []idCall
	// the call the thread released last is in, and the yield point it was released from (hooked runs)
	curK, curFrom string
	// hook-free sweeps (family hail-sweep, nested): while CreateHail runs, the i-th Delete its sweep starts first
	// lets sweepRivals[i] run to completion - between the sweep's List and that Delete's read
	nestedSweep, inCreate, inRival bool
	sweepRivals                    []Op
	sweepStarts                    []sweepStart

	// calls made from inside callbacks, in the order they ran
	mu     sync.Mutex
	rivals []rivalRun
	seq    atomic.Int64
}

// sweepStart: a Delete the sweep started: the hails held when it started, and after the rival that ran there
type sweepStart struct {
	ID            int
	Seq           int64
	Before, After map[int]P
}

type idCall struct {
	Step int
	ID   string
}

type rivalRun struct {
	op        Op
	res       string
	genID     int
	inv, resp int64
}

func newWorld(sc Scenario, free bool) *world {
	w := &world{car: carrier(sc.Carrier), clk: &clock{mode: sc.clock(), free: free}, rng: &scriptRNG{script: sc.Cands}}
	copts := []resource.Option{resource.WithClock(w.clk), resource.WithRNG(w.rng)}
	vopts := []resource.Option{resource.WithClock(w.clk)}
	switch sc.Writable {
	case "a":
		copts = append(copts, resource.WithWritablePaths(&durationpb.Duration{}, "seconds"))
		vopts = append(vopts, resource.WithWritablePaths(&durationpb.Duration{}, "seconds"))
	case "b":
		copts = append(copts, resource.WithWritablePaths(&durationpb.Duration{}, "nanos"))
		vopts = append(vopts, resource.WithWritablePaths(&durationpb.Duration{}, "nanos"))
	}
	for _, id := range sc.initIDs() {
		v := sc.Init[strconv.Itoa(id)]
		if id == valueID {
			vopts = append(vopts, resource.WithInitialValue(w.car.mk(v)))
		} else if id == vendID || id == enterID || id == pubID || id == countID {
			continue
		} else {
			copts = append(copts, resource.WithInitialRecord(idName(id), w.car.mk(v)))
		}
	}
	if sc.Icpt {
		copts = append(copts, resource.WithIDInterceptor(strings.ToLower))
	}
	w.coll = resource.NewCollection(copts...)
	if w.car == "hail" {
		// the records live in the hail model's collection instead (w.coll stays empty)
		hopts := []resource.Option{hailpb.WithKeepAlive(time.Hour), resource.WithClock(w.clk), resource.WithRNG(w.rng),
			resource.WithIDInterceptor(func(id string) string { // the identity, observed
				w.mu.Lock()
				w.idCalls = append(w.idCalls, idCall{int(w.clk.n.Load()) - 1, id})
				w.mu.Unlock()
				if w.curK == "h" && w.curFrom != "start" && id != "" {
					w.clk.extra.Add(1) // the sweep of a CreateHail starts a Delete
				}
				if w.inCreate && !w.inRival && id != "" && idOf(id) >= 0 && idOf(id) < genBase {
					st := sweepStart{ID: idOf(id), Seq: w.seq.Add(1), Before: w.hailMap()}
					if n := len(w.sweepStarts); n < len(w.sweepRivals) {
						w.inRival = true
						rr := rivalRun{op: w.sweepRivals[n], genID: -1, inv: w.seq.Add(1)}
						rr.res = w.exec(rr.op, &rr.genID)
						rr.resp = w.seq.Add(1)
						w.rivals = append(w.rivals, rr)
						w.inRival = false
					}
					st.After = w.hailMap()
					w.sweepStarts = append(w.sweepStarts, st)
				}
				return id
			})}
		for _, id := range sc.initIDs() {
			if id < valueID && id != vendID && id != enterID && id != pubID && id != countID || id >= genBase {
				hopts = append(hopts, resource.WithInitialRecord(idName(id), w.car.withID(w.car.mk(sc.Init[strconv.Itoa(id)]), idName(id))))
			}
		}
		w.coll = resource.NewCollection(resource.WithClock(w.clk))
		w.hail = hailpb.NewModel(hopts...)
	}
	w.val = resource.NewValue(vopts...)
	if sc.usesTrait("x") {
		topts := []resource.Option{resource.WithClock(w.clk)}
		if v, ok := sc.Init[strconv.Itoa(vendID)]; ok {
			topts = append(topts, vendingpb.WithInitialStock(stockMsg(v)))
		}
		w.vend = vendingpb.NewModel(topts...)
	}
	if sc.usesTrait("e") {
		v := sc.Init[strconv.Itoa(enterID)]
		a, b := int32(v.A), int32(v.B)
		w.enter = enterleavesensorpb.NewModel(resource.WithClock(w.clk),
			enterleavesensorpb.WithInitialEnterLeaveEvent(&traits.EnterLeaveEvent{EnterTotal: &a, LeaveTotal: &b}))
	}
	if sc.usesTrait("p") || sc.usesTrait("q") || sc.usesTrait("k") {
		// the versions the writers will quote, minted now: not from inside a controlled thread
		for _, p := range sc.Progs {
			for _, o := range p {
				if o.trait() && o.Expect != nil {
					versionOf(o.Expect.A)
				}
			}
		}
		w.pubM = publicationpb.NewModel(resource.WithClock(w.clk))
		w.pub = publicationpb.NewModelServer(w.pubM)
		if v, ok := sc.Init[strconv.Itoa(pubID)]; ok {
			// created through the server, which mints the version (the constructor's clock instant is 0 as well)
			if _, err := w.pub.CreatePublication(context.Background(), &traits.CreatePublicationRequest{Publication: pubMsg(v.A)}); err != nil {
				panic("c02: CreatePublication: " + err.Error())
			}
			if v.B != 0 { // a start value that carries a receipt: acknowledged through the handler
				if _, err := w.pub.AcknowledgePublication(context.Background(), &traits.AcknowledgePublicationRequest{Id: idName(pubID), Version: versionOf(v.A), Receipt: traits.Publication_Audience_Receipt(v.B)}); err != nil {
					panic("c02: AcknowledgePublication: " + err.Error())
				}
			}
		}
	}
	if sc.usesTrait("c") || sc.usesTrait("z") {
		// the device always holds a count (0.0 when new); another start value is written through the handler
		w.count = countpb.NewMemoryDevice()
		if m, err := w.count.GetCount(context.Background(), &traits.GetCountRequest{Name: "c"}); err == nil {
			w.resetAt = m.GetResetTime()
		}
		if v := sc.Init[strconv.Itoa(countID)]; v != (P{}) {
			if _, err := w.count.UpdateCount(context.Background(), &traits.UpdateCountRequest{Count: &traits.Count{Added: int32(v.A), Removed: int32(v.B)}}); err != nil {
				panic("c02: UpdateCount: " + err.Error())
			}
		}
	}
	if free {
		w.clk.n.Store(0)
	}
	return w
}

// usesTrait: some call of the scenario is of kind k (the enter-leave model always holds a value: a scenario that
// uses it always lists it in Init)
func (sc Scenario) usesTrait(k string) bool {
	for _, p := range sc.Progs {
		for _, o := range p {
			if o.K == k {
				return true
			}
		}
	}
	return false
}

func pubMsg(body int64) *traits.Publication {
	return &traits.Publication{Id: idName(pubID), Body: []byte(strconv.FormatInt(body, 10))}
}

var versions sync.Map // body -> the version the publication model mints for it

// versionOf asks a scratch publication model for the version of the publication with this body (a function of the
// content, whatever the hash is)
func versionOf(body int64) string {
	if v, ok := versions.Load(body); ok {
		return v.(string)
	}
	srv := publicationpb.NewModelServer(publicationpb.NewModel())
	p, err := srv.CreatePublication(context.Background(), &traits.CreatePublicationRequest{Publication: pubMsg(body)})
	if err != nil {
		panic("c02: versionOf: " + err.Error())
	}
	versions.Store(body, p.Version)
	return p.Version
}

func stockMsg(v P) *traits.Consumable_Stock {
	return &traits.Consumable_Stock{Consumable: idName(vendID),
		Used:      &traits.Consumable_Quantity{Amount: float32(v.A)},
		Remaining: &traits.Consumable_Quantity{Amount: float32(v.B)}}
}

func msgVal(m proto.Message) (P, bool) {
	if m == nil {
		return P{}, false
	}
	switch t := m.(type) {
	case *traits.Consumable_Stock:
		if t == nil {
			return P{}, false
		}
		return P{int64(t.GetUsed().GetAmount()), int64(t.GetRemaining().GetAmount())}, true
	case *traits.EnterLeaveEvent:
		if t == nil {
			return P{}, false
		}
		return P{int64(t.GetEnterTotal()), int64(t.GetLeaveTotal())}, true
	case *traits.Count:
		if t == nil {
			return P{}, false
		}
		return P{int64(t.GetAdded()), int64(t.GetRemoved())}, true
	case *traits.Hail:
		if t == nil {
			return P{}, false
		}
		b := int64(0)
		if t.ArriveTime != nil {
			b = (t.ArriveTime.Seconds-1)/36000 + 2
		}
		return P{int64(t.GetState()), b}, true
	case *traits.PullCountsResponse_Change:
		if t == nil {
			return P{}, false
		}
		return P{int64(t.GetCount().GetAdded()), t.GetChangeTime().GetSeconds()}, true
	case *traits.Publication:
		if t == nil {
			return P{}, false
		}
		n, _ := strconv.ParseInt(string(t.GetBody()), 10, 64)
		return P{n, int64(t.GetAudience().GetReceipt())}, true
	}
	w, ok := m.(*durationpb.Duration)
	if !ok || w == nil {
		return P{}, false
	}
	return P{w.GetSeconds(), int64(w.GetNanos())}, true
}

func checkOK(spec string, v P, present bool) bool {
	if spec == "" || spec == "n" {
		return true
	}
	k, _ := strconv.ParseInt(spec[2:], 10, 64)
	is := present && v.A == k
	return is == strings.HasPrefix(spec, "eq")
}

// writeOpts builds the options of one call; genID receives the generated id (model numbering).
func (w *world) writeOpts(o Op, genID *int) (proto.Message, []resource.WriteOption) {
	var opts []resource.WriteOption
	if o.Gen {
		opts = append(opts, resource.WithGenIDIfAbsent(), resource.WithIDCallback(func(id string) { *genID = idOf(id) }))
	}
	viaAdd := o.K == "u" && o.ViaAdd && o.EA && o.CIA && w.car != "hail"
	if o.EA && !viaAdd {
		opts = append(opts, resource.WithExpectAbsent())
	}
	if o.CIA && !viaAdd {
		opts = append(opts, resource.WithCreateIfAbsent())
	}
	if o.AM {
		opts = append(opts, resource.WithAllowMissing(true))
	}
	if o.Expect != nil {
		e := w.car.mk(*o.Expect)
		if o.K != "v" {
			e = w.car.withID(e, idName(o.ID))
		}
		opts = append(opts, resource.WithExpectedValue(e))
	}
	switch o.Mask {
	case "a":
		opts = append(opts, resource.WithUpdatePaths(w.car.path("a")))
	case "b":
		opts = append(opts, resource.WithUpdatePaths(w.car.path("b")))
	case "ab":
		opts = append(opts, resource.WithUpdatePaths(w.car.path("a"), w.car.path("b")))
	}
	if o.WT != nil {
		opts = append(opts, resource.WithWriteTime(time.Unix(*o.WT, 0)))
	}
	calls := 0
	rival := func() {
		if calls < len(o.Rivals) {
			r := o.Rivals[calls]
			calls++
			rr := rivalRun{op: r, genID: -1, inv: w.seq.Add(1)}
			rr.res = w.exec(r, &rr.genID)
			rr.resp = w.seq.Add(1)
			w.mu.Lock()
			w.rivals = append(w.rivals, rr)
			w.mu.Unlock()
		}
	}
	rivalInCheck := len(o.Rivals) > 0 && (o.K == "d" || o.RivalAt != "b")
	rivalInBefore := len(o.Rivals) > 0 && !rivalInCheck
	if o.check() != "n" || rivalInCheck {
		spec := o.check()
		opts = append(opts, resource.WithExpectedCheck(func(m proto.Message) error {
			if rivalInCheck {
				rival()
			}
			v, present := msgVal(m)
			if checkOK(spec, v, present) {
				return nil
			}
			return status.Error(codes.OutOfRange, "expected check failed")
		}))
	}
	var msg proto.Message
	if o.F != "" {
		switch o.F[0] {
		case 's':
			var p P
			_ = p.UnmarshalText([]byte(o.F[1:]))
			msg = w.car.mk(p)
			if rivalInBefore {
				opts = append(opts, resource.InterceptBefore(func(old, new proto.Message) { rival() }))
			}
		case 'a', 'b':
			// the delta idiom documented on InterceptBefore and used by the library's own models: the written
			// message carries the delta, the interceptor adds the old quantities to it
			k, _ := strconv.ParseInt(o.F[1:], 10, 64)
			d := P{}
			if o.F[0] == 'a' {
				d.A = k
			} else {
				d.B = k
			}
			msg = w.car.mk(d)
			opts = append(opts, resource.InterceptBefore(func(old, new proto.Message) {
				if rivalInBefore {
					rival()
				}
				v, _ := msgVal(old)
				change, _ := msgVal(new)
				w.car.set(new, P{change.A + v.A, change.B + v.B})
			}))
		}
	}
	if o.After {
		opts = append(opts, resource.InterceptAfter(func(old, new proto.Message) {
			v, _ := msgVal(old)
			cur, _ := msgVal(new)
			w.car.set(new, P{cur.A, v.B + 1})
		}))
	}
	if msg != nil && o.K != "v" {
		msg = w.car.withID(msg, idName(o.ID))
	}
	return msg, opts
}

func canon(m proto.Message, err error) string {
	if err != nil {
		return "err:" + status.Code(err).String()
	}
	v, ok := msgVal(m)
	if !ok {
		return "ok:nil"
	}
	return "ok:" + v.String()
}

// exec runs one call; *genID is set to the id the collection generated for it (if any).
func (w *world) exec(o Op, genID *int) string {
	switch o.K {
	case "u":
		msg, opts := w.writeOpts(o, genID)
		id := o.spelled()
		if o.Gen {
			id = ""
		}
		var res string
		if w.hail != nil {
			m, err := w.hail.UpdateHail(msg.(*traits.Hail), opts...)
			if m == nil {
				return canon(nil, err)
			}
			return canon(m, err)
		}
		if o.ViaAdd && o.EA && o.CIA {
			res = canon(w.coll.Add(id, msg, opts...))
		} else {
			res = canon(w.coll.Update(id, msg, opts...))
		}
		if o.Gen && strings.HasPrefix(res, "ok:") {
			res += "#" + strconv.Itoa(*genID)
		}
		return res
	case "v":
		msg, opts := w.writeOpts(o, genID)
		return canon(w.val.Set(msg, opts...))
	case "d":
		_, opts := w.writeOpts(o, genID)
		if w.hail != nil {
			m, err := w.hail.DeleteHail(o.spelled(), opts...)
			if m == nil {
				return canon(nil, err)
			}
			return canon(m, err)
		}
		m, err := w.coll.Delete(o.spelled(), opts...)
		return canon(m, err)
	case "h":
		var p P
		_ = p.UnmarshalText([]byte(o.F[1:]))
		if w.nestedSweep && !w.inRival {
			w.inCreate = true
			defer func() { w.inCreate = false }()
		}
		m, err := w.hail.CreateHail(w.car.mk(p).(*traits.Hail))
		if m == nil {
			return canon(nil, err)
		}
		*genID = idOf(m.Id)
		return canon(m, err) + "#" + strconv.Itoa(*genID)
	case "x":
		k, _ := strconv.ParseInt(o.F[1:], 10, 64)
		m, err := w.vend.DispenseInstantly(idName(vendID), &traits.Consumable_Quantity{Amount: float32(k)})
		if m == nil {
			return canon(nil, err)
		}
		return canon(m, err)
	case "p":
		var p P
		_ = p.UnmarshalText([]byte(o.F[1:]))
		req := &traits.UpdatePublicationRequest{Publication: pubMsg(p.A)}
		if o.Expect != nil {
			req.Version = versionOf(o.Expect.A)
		}
		m, err := w.pub.UpdatePublication(context.Background(), req)
		if m == nil {
			return canon(nil, err)
		}
		return canon(m, err)
	case "k":
		var p P
		_ = p.UnmarshalText([]byte(o.F[1:]))
		req := &traits.AcknowledgePublicationRequest{Id: idName(pubID), Receipt: traits.Publication_Audience_Receipt(p.B)}
		if o.Expect != nil {
			req.Version = versionOf(o.Expect.A)
		}
		m, err := w.pub.AcknowledgePublication(context.Background(), req)
		if err != nil && status.Code(err) == codes.Aborted && strings.Contains(status.Convert(err).Message(), "version mismatch") {
			return "err:VersionMismatch"
		}
		if m == nil {
			return canon(nil, err)
		}
		return canon(m, err)
	case "q":
		req := &traits.DeletePublicationRequest{Id: idName(pubID), AllowMissing: o.AM}
		if o.Expect != nil {
			req.Version = versionOf(o.Expect.A)
		}
		m, err := w.pub.DeletePublication(context.Background(), req)
		if m == nil {
			return canon(nil, err)
		}
		return canon(m, err)
	case "c":
		req := &traits.UpdateCountRequest{Name: "c", Count: &traits.Count{}}
		k, _ := strconv.ParseInt(o.F[1:], 10, 64)
		switch o.F[0] {
		case 'a':
			req.Delta, req.Count.Added = true, int32(k)
		case 'b':
			req.Delta, req.Count.Removed = true, int32(k)
		default:
			var p P
			_ = p.UnmarshalText([]byte(o.F[1:]))
			req.Count.Added, req.Count.Removed = int32(p.A), int32(p.B)
		}
		switch o.Mask {
		case "a":
			req.UpdateMask = &fieldmaskpb.FieldMask{Paths: []string{"added"}}
		case "b":
			req.UpdateMask = &fieldmaskpb.FieldMask{Paths: []string{"removed"}}
		case "ab":
			req.UpdateMask = &fieldmaskpb.FieldMask{Paths: []string{"added", "removed"}}
		}
		m, err := w.count.UpdateCount(context.Background(), req)
		if m == nil {
			return canon(nil, err)
		}
		return canon(m, err)
	case "z":
		m, err := w.count.ResetCount(context.Background(), &traits.ResetCountRequest{Name: "c", ResetTime: w.resetAt})
		if m == nil {
			return canon(nil, err)
		}
		return canon(m, err)
	case "e":
		ev := &traits.EnterLeaveEvent{Direction: traits.EnterLeaveEvent_ENTER}
		if o.F[0] == 'b' {
			ev.Direction = traits.EnterLeaveEvent_LEAVE
		}
		// the call reports no value: the message it wrote is taken from an InterceptAfter of the caller's own
		var wrote proto.Message
		err := w.enter.CreateEnterLeaveEvent(ev, resource.InterceptAfter(func(old, new proto.Message) { wrote = proto.Clone(new) }))
		return canon(wrote, err)
	}
	return "?"
}

// contents reads the final state: values and the change times stored with them (the seed events of a Pull).
func (w *world) contents() (map[int]P, map[int]int64) {
	vals, stamps := map[int]P{}, map[int]int64{}
	if n := len(w.coll.List()); n > 0 {
		ctx, cancel := context.WithCancel(context.Background())
		ch := w.coll.Pull(ctx)
		for i := 0; i < n; i++ {
			select {
			case ev := <-ch:
				v, _ := msgVal(ev.NewValue)
				vals[idOf(ev.Id)] = v
				stamps[idOf(ev.Id)] = ev.ChangeTime.Unix()
			case <-time.After(10 * time.Second):
				panic("c02: no seed event from Collection.Pull")
			}
		}
		cancel()
	}
	if v, ok := msgVal(w.val.Get()); ok {
		vals[valueID] = v
		ctx, cancel := context.WithCancel(context.Background())
		select {
		case ev := <-w.val.Pull(ctx):
			stamps[valueID] = ev.ChangeTime.Unix()
		case <-time.After(10 * time.Second):
			panic("c02: no seed event from Value.Pull")
		}
		cancel()
	}
	if w.hail != nil {
		if n := len(w.hail.ListHails()); n > 0 {
			ctx, cancel := context.WithCancel(context.Background())
			ch := w.hail.PullHails(ctx)
			for i := 0; i < n; i++ {
				select {
				case ev := <-ch:
					v, _ := msgVal(ev.NewValue)
					vals[idOf(ev.NewValue.GetId())] = v
					stamps[idOf(ev.NewValue.GetId())] = ev.ChangeTime.Unix()
				case <-time.After(10 * time.Second):
					panic("c02: no seed event from PullHails")
				}
			}
			cancel()
		}
	}
	if w.vend != nil {
		if n := len(w.vend.ListInventory()); n > 0 {
			ctx, cancel := context.WithCancel(context.Background())
			ch := w.vend.PullInventory(ctx)
			for i := 0; i < n; i++ {
				select {
				case ev := <-ch:
					v, _ := msgVal(ev.NewValue)
					vals[idOf(ev.ID)] = v
					stamps[idOf(ev.ID)] = ev.ChangeTime.Unix()
				case <-time.After(10 * time.Second):
					panic("c02: no seed event from PullInventory")
				}
			}
			cancel()
		}
	}
	if w.pubM != nil {
		if n := len(w.pubM.ListPublications()); n > 0 {
			ctx, cancel := context.WithCancel(context.Background())
			ch := w.pubM.PullPublications(ctx)
			for i := 0; i < n; i++ {
				select {
				case ev := <-ch:
					v, _ := msgVal(ev.NewValue)
					vals[idOf(ev.ID)] = v
					stamps[idOf(ev.ID)] = ev.ChangeTime.Unix()
				case <-time.After(10 * time.Second):
					panic("c02: no seed event from PullPublications")
				}
			}
			cancel()
		}
	}
	if w.count != nil {
		// (the device reads the system clock: the change time it stores is not compared)
		if m, err := w.count.GetCount(context.Background(), &traits.GetCountRequest{Name: "c"}); err == nil {
			vals[countID], _ = msgVal(m)
		}
	}
	if w.enter != nil {
		ctx, cancel := context.WithCancel(context.Background())
		select {
		case ev := <-w.enter.PullEnterLeaveEvents(ctx):
			v, _ := msgVal(ev.Value)
			vals[enterID] = v
			stamps[enterID] = ev.ChangeTime.Unix()
		case <-time.After(10 * time.Second):
			panic("c02: no seed event from PullEnterLeaveEvents")
		}
		cancel()
	}
	return vals, stamps
}

// snapshot: a fingerprint of what every resource holds right now, through plain reads (hooked runs take one after
// every step): the records in id order, the Value, the stock records, the enter-leave totals.
func (w *world) snapshot() string {
	var sb strings.Builder
	show := func(m proto.Message) {
		if v, ok := msgVal(m); ok {
			sb.WriteString(v.String())
		} else {
			sb.WriteString("nil")
		}
		sb.WriteByte(' ')
	}
	for _, m := range w.coll.List() {
		show(m)
	}
	sb.WriteString("| ")
	show(w.val.Get())
	if w.hail != nil {
		sb.WriteString("| ")
		for _, m := range w.hail.ListHails() {
			sb.WriteString(m.GetId() + "=")
			show(m)
		}
	}
	if w.vend != nil {
		sb.WriteString("| ")
		for _, m := range w.vend.ListInventory() {
			show(m)
		}
	}
	if w.enter != nil {
		sb.WriteString("| ")
		m, _ := w.enter.GetEnterLeaveEvent()
		show(m)
	}
	if w.pubM != nil {
		sb.WriteString("| ")
		for _, m := range w.pubM.ListPublications() {
			show(m)
		}
	}
	if w.count != nil {
		sb.WriteString("| ")
		m, _ := w.count.GetCount(context.Background(), &traits.GetCountRequest{Name: "c"})
		show(m)
	}
	return sb.String()
}

// hailMap: the hails the model holds right now
func (w *world) hailMap() map[int]P {
	out := map[int]P{}
	for _, m := range w.hail.ListHails() {
		out[idOf(m.GetId())], _ = msgVal(m)
	}
	return out
}

// snapshotBounded: the snapshot, or false when the reads do not return within two seconds (a lock is being held
// by a writer that is parked between its sections)
func (w *world) snapshotBounded() (string, bool) {
	done := make(chan string, 1)
	go func() { done <- w.snapshot() }()
	select {
	case s := <-done:
		return s, true
	case <-time.After(2 * time.Second):
		return "", false
	}
}

func sortedIDs[V any](c map[int]V) []int {
	var ids []int
	for id := range c {
		ids = append(ids, id)
	}
	sort.Ints(ids)
	return ids
}

func showContents(c map[int]P) string {
	var parts []string
	for _, id := range sortedIDs(c) {
		parts = append(parts, fmt.Sprintf("%d:%s", id, c[id]))
	}
	return strings.Join(parts, ",")
}

func showStamped(c map[int]P, st map[int]int64) string {
	var parts []string
	for _, id := range sortedIDs(c) {
		parts = append(parts, fmt.Sprintf("%d:%s@%d", id, c[id], st[id]))
	}
	return strings.Join(parts, ",")
}

// ---------------------------------------------------------------------------------------------
// the sequential specification, written independently of the Lean model: a plain map, one call at a time

// written is the message after the write: the fields the mask selects come from the written message
// (which an interceptor derives from the old one), the others keep their old value.
func (o Op) written(old P) P {
	v := old
	switch o.F[0] {
	case 's':
		_ = v.UnmarshalText([]byte(o.F[1:]))
	case 'a':
		k, _ := strconv.ParseInt(o.F[1:], 10, 64)
		v.A += k
	case 'b':
		k, _ := strconv.ParseInt(o.F[1:], 10, 64)
		v.B += k
	case 'x': // a dispense of k: used grows by k, remaining shrinks by k but not below zero
		k, _ := strconv.ParseInt(o.F[1:], 10, 64)
		v.A += k
		v.B -= k
		if v.B < 0 {
			v.B = 0
		}
	}
	switch o.Mask {
	case "a":
		v = P{v.A, old.B}
	case "b":
		v = P{old.A, v.B}
	}
	if o.After {
		v.B = old.B + 1
	}
	return v
}

// specApply returns the result the call must report when executed alone on st, and mutates st.
// genID: the id the collection reported for a generate-id call (-1 if none was reported).
func specApply(st map[int]P, o Op, genID int) string {
	id := o.target()
	if o.Gen {
		// whatever the generator does, the id it hands out must be free at that instant
		if genID < 0 {
			return "err:Aborted" // generation gave up: allowed only when it cannot find a free id (judged separately)
		}
		id = genID
	}
	cur, present := st[id]
	kind := o.K
	switch kind {
	case "x": // DispenseInstantly: an Update of the stock record, which must exist
		kind = "u"
	case "e": // CreateEnterLeaveEvent: a Set of the model's Value
		kind = "v"
	case "p", "k": // UpdatePublication / AcknowledgePublication with a version: an Update of the record, which must exist
		kind = "u"
	case "q":
		kind = "d"
	case "c", "z": // UpdateCount / ResetCount: a Set of the device's Value
		kind = "v"
	}
	switch kind {
	case "u", "v":
		old, oldPresent := cur, present
		if kind == "u" {
			if present && (o.EA || o.Gen) {
				if o.Gen {
					return "invalid: generated id already in use"
				}
				return "err:AlreadyExists"
			}
			if !present {
				if !o.CIA {
					return "err:NotFound"
				}
				old, oldPresent = P{}, true // a fresh empty message
			}
		}
		if o.K == "k" {
			if o.Expect == nil || old.A != o.Expect.A {
				return "err:VersionMismatch"
			}
			if old.B == 2 || old.B == 3 {
				return "err:FailedPrecondition"
			}
		} else if o.K == "p" {
			if o.Expect != nil && old.A != o.Expect.A {
				return "err:FailedPrecondition"
			}
		} else if o.Expect != nil && !(oldPresent && old == *o.Expect) {
			return "err:FailedPrecondition"
		}
		if !checkOK(o.Check, old, oldPresent) {
			return "err:OutOfRange"
		}
		nv := o.written(old)
		st[id] = nv
		if o.Gen {
			return "ok:" + nv.String() + "#" + strconv.Itoa(id)
		}
		return "ok:" + nv.String()
	case "d":
		if !present {
			if o.AM {
				return "ok:nil"
			}
			return "err:NotFound"
		}
		if !checkOK(o.Check, cur, true) {
			return "err:OutOfRange"
		}
		if o.K == "q" {
			if o.Expect != nil && cur.A != o.Expect.A {
				return "err:FailedPrecondition"
			}
		} else if o.Expect != nil && cur != *o.Expect {
			return "err:FailedPrecondition"
		}
		delete(st, id)
		return "ok:" + cur.String()
	}
	return "?"
}

// HOp is one call in a concurrent history: [Inv, Resp] in some global order of instants.
type HOp struct {
	T, N  int
	Op    Op
	Inv   int64
	Resp  int64
	Res   string
	GenID int // id reported through WithIDCallback (-1: none)
	// Fault: the call reported that its publication failed (family send-timeout): whatever the error says, the
	// write may be in place or not - but atomically, at one instant inside the call's interval
	Fault bool
}

func lostRace(res string) bool { return res == "err:Aborted" || res == "err:Unavailable" }

// linearizable searches for a one-at-a-time order of the calls that took part (lost-race results must
// have no effect, so they are left out) which respects real time (a.Resp < b.Inv ⇒ a before b),
// reproduces every result on the sequential specification and ends in the observed contents.
func linearizable(init map[int]P, hist []HOp, final map[int]P) (bool, []int) {
	var ops []HOp
	for _, h := range hist {
		if !lostRace(h.Res) || h.Fault {
			ops = append(ops, h)
		}
	}
	n := len(ops)
	if n > 20 {
		panic("history too long for the checker")
	}
	seen := map[string]bool{}
	var order []int
	var rec func(mask uint32, st map[int]P) bool
	rec = func(mask uint32, st map[int]P) bool {
		if mask == uint32(1)<<n-1 {
			return showContents(st) == showContents(final)
		}
		key := strconv.FormatUint(uint64(mask), 16) + "|" + showContents(st)
		if seen[key] {
			return false
		}
		seen[key] = true
		for i := 0; i < n; i++ {
			if mask&(1<<i) != 0 {
				continue
			}
			minimal := true
			for j := 0; j < n; j++ {
				if j != i && mask&(1<<j) == 0 && ops[j].Resp < ops[i].Inv {
					minimal = false
					break
				}
			}
			if !minimal {
				continue
			}
			st2 := make(map[int]P, len(st))
			for k, v := range st {
				st2[k] = v
			}
			if ops[i].Fault {
				// no effect at all ...
				order = append(order, i)
				if rec(mask|1<<i, st2) {
					return true
				}
				order = order[:len(order)-1]
				// ... or the effect of the write, at this instant
				if !strings.HasPrefix(specApply(st2, ops[i].Op, ops[i].GenID), "ok:") {
					continue
				}
			} else if specApply(st2, ops[i].Op, ops[i].GenID) != ops[i].Res {
				continue
			}
			order = append(order, i)
			if rec(mask|1<<i, st2) {
				return true
			}
			order = order[:len(order)-1]
		}
		return false
	}
	st := map[int]P{}
	for k, v := range init {
		st[k] = v
	}
	ok := rec(0, st)
	return ok, order
}

func (sc Scenario) initMap() map[int]P {
	m := map[int]P{}
	for _, id := range sc.initIDs() {
		m[id] = sc.Init[strconv.Itoa(id)]
	}
	return m
}
