package main

import (
	"fmt"
	"sort"
	"strconv"
	"strings"

	"google.golang.org/grpc/codes"
	"google.golang.org/grpc/status"
	"google.golang.org/protobuf/proto"
	"google.golang.org/protobuf/types/known/wrapperspb"

	"github.com/smart-core-os/sc-golang/pkg/resource"
)

// Op is one call of a writer. Messages are wrapperspb.Int64Value (the empty message is 0).
//
//	K="u": Collection.Update(id, …)   K="v": Value.Set(…) (model id 9)   K="d": Collection.Delete(id, …)
type Op struct {
	K      string `json:"k"`
	ID     int    `json:"id"`
	EA     bool   `json:"ea,omitempty"`     // WithExpectAbsent
	CIA    bool   `json:"cia,omitempty"`    // WithCreateIfAbsent
	AM     bool   `json:"am,omitempty"`     // WithAllowMissing
	Expect *int64 `json:"expect,omitempty"` // WithExpectedValue
	Check  string `json:"check,omitempty"`  // "n" | "eq<k>" | "ne<k>": WithExpectedCheck failing with OutOfRange
	F      string `json:"f,omitempty"`      // "s<k>" set to k | "a<k>" interceptBefore: new = old + k
}

const valueID = 9

type Scenario struct {
	Init  map[string]int64 `json:"init"` // model id (decimal) -> value; absent = no record / nil Value
	Progs [][]Op           `json:"progs"`
	Sched []int            `json:"sched,omitempty"`
}

func b01(b bool) string {
	if b {
		return "1"
	}
	return "0"
}

func optInt(p *int64) string {
	if p == nil {
		return "-"
	}
	return strconv.FormatInt(*p, 10)
}

func (o Op) check() string {
	if o.Check == "" {
		return "n"
	}
	return o.Check
}

func (o Op) encode() string {
	switch o.K {
	case "u":
		return fmt.Sprintf("u/%d/C/%s/%s/%s/%s/%s", o.ID, b01(o.EA), b01(o.CIA), optInt(o.Expect), o.check(), o.F)
	case "v":
		return fmt.Sprintf("u/%d/V/0/0/%s/%s/%s", valueID, optInt(o.Expect), o.check(), o.F)
	case "d":
		return fmt.Sprintf("d/%d/%s/%s/%s", o.ID, b01(o.AM), optInt(o.Expect), o.check())
	}
	return "?"
}

func (o Op) target() int {
	if o.K == "v" {
		return valueID
	}
	return o.ID
}

func (sc Scenario) initIDs() []int {
	var ids []int
	for k := range sc.Init {
		n, _ := strconv.Atoi(k)
		ids = append(ids, n)
	}
	sort.Ints(ids)
	return ids
}

func (sc Scenario) driverLine(fixed bool, sched []int) string {
	var init []string
	for _, id := range sc.initIDs() {
		init = append(init, fmt.Sprintf("%d:%d", id, sc.Init[strconv.Itoa(id)]))
	}
	is := strings.Join(init, ",")
	if is == "" {
		is = "-"
	}
	var progs []string
	for _, p := range sc.Progs {
		var ops []string
		for _, o := range p {
			ops = append(ops, o.encode())
		}
		s := strings.Join(ops, ";")
		if s == "" {
			s = "-"
		}
		progs = append(progs, s)
	}
	var ss []string
	for _, t := range sched {
		ss = append(ss, strconv.Itoa(t))
	}
	s := strings.Join(ss, ",")
	if s == "" {
		s = "-"
	}
	return fmt.Sprintf("run %s %s %s %s", b01(fixed), is, strings.Join(progs, "|"), s)
}

// ---------------------------------------------------------------------------------------------
// the real code

type world struct {
	coll *resource.Collection
	val  *resource.Value
}

func idName(id int) string { return "i" + strconv.Itoa(id) }

func newWorld(sc Scenario) *world {
	var copts []resource.Option
	var vopts []resource.Option
	for _, id := range sc.initIDs() {
		v := sc.Init[strconv.Itoa(id)]
		if id == valueID {
			vopts = append(vopts, resource.WithInitialValue(wrapperspb.Int64(v)))
		} else {
			copts = append(copts, resource.WithInitialRecord(idName(id), wrapperspb.Int64(v)))
		}
	}
	return &world{coll: resource.NewCollection(copts...), val: resource.NewValue(vopts...)}
}

func msgVal(m proto.Message) (int64, bool) {
	if m == nil {
		return 0, false
	}
	w, ok := m.(*wrapperspb.Int64Value)
	if !ok || w == nil {
		return 0, false
	}
	return w.GetValue(), true
}

func checkFn(spec string) func(proto.Message) error {
	if spec == "" || spec == "n" {
		return nil
	}
	k, _ := strconv.ParseInt(spec[2:], 10, 64)
	eq := strings.HasPrefix(spec, "eq")
	return func(m proto.Message) error {
		v, present := msgVal(m)
		is := present && v == k
		if is == eq {
			return nil
		}
		return status.Error(codes.OutOfRange, "expected check failed")
	}
}

func (o Op) writeOpts() (proto.Message, []resource.WriteOption) {
	var opts []resource.WriteOption
	if o.EA {
		opts = append(opts, resource.WithExpectAbsent())
	}
	if o.CIA {
		opts = append(opts, resource.WithCreateIfAbsent())
	}
	if o.AM {
		opts = append(opts, resource.WithAllowMissing(true))
	}
	if o.Expect != nil {
		opts = append(opts, resource.WithExpectedValue(wrapperspb.Int64(*o.Expect)))
	}
	if f := checkFn(o.Check); f != nil {
		opts = append(opts, resource.WithExpectedCheck(f))
	}
	var msg proto.Message
	if o.F != "" {
		k, _ := strconv.ParseInt(o.F[1:], 10, 64)
		switch o.F[0] {
		case 's':
			msg = wrapperspb.Int64(k)
		case 'a':
			m := wrapperspb.Int64(0)
			msg = m
			opts = append(opts, resource.InterceptBefore(func(old, new proto.Message) {
				v, _ := msgVal(old)
				new.(*wrapperspb.Int64Value).Value = v + k
			}))
		}
	}
	return msg, opts
}

func canon(m proto.Message, err error) string {
	if err != nil {
		return "err:" + status.Code(err).String()
	}
	v, ok := msgVal(m)
	if !ok {
		return "ok:nil"
	}
	return "ok:" + strconv.FormatInt(v, 10)
}

func (w *world) exec(o Op) string {
	switch o.K {
	case "u":
		msg, opts := o.writeOpts()
		return canon(w.coll.Update(idName(o.ID), msg, opts...))
	case "v":
		msg, opts := o.writeOpts()
		return canon(w.val.Set(msg, opts...))
	case "d":
		_, opts := o.writeOpts()
		m, err := w.coll.Delete(idName(o.ID), opts...)
		return canon(m, err)
	}
	return "?"
}

func (w *world) contents() map[int]int64 {
	res := map[int]int64{}
	for id := 0; id < valueID; id++ {
		if m, ok := w.coll.Get(idName(id)); ok {
			v, _ := msgVal(m)
			res[id] = v
		}
	}
	if v, ok := msgVal(w.val.Get()); ok {
		res[valueID] = v
	}
	return res
}

func showContents(c map[int]int64) string {
	var ids []int
	for id := range c {
		ids = append(ids, id)
	}
	sort.Ints(ids)
	var parts []string
	for _, id := range ids {
		parts = append(parts, fmt.Sprintf("%d:%d", id, c[id]))
	}
	return strings.Join(parts, ",")
}

// ---------------------------------------------------------------------------------------------
// the sequential specification, written independently of the Lean model: a plain map, one call at a time

func (o Op) checkOK(v int64, present bool) bool {
	if o.Check == "" || o.Check == "n" {
		return true
	}
	k, _ := strconv.ParseInt(o.Check[2:], 10, 64)
	is := present && v == k
	return is == strings.HasPrefix(o.Check, "eq")
}

// specApply returns the result the call must report when executed alone on st, and mutates st.
func specApply(st map[int]int64, o Op) string {
	id := o.target()
	cur, present := st[id]
	switch o.K {
	case "u", "v":
		old, oldPresent := cur, present
		if o.K == "u" {
			if present && o.EA {
				return "err:AlreadyExists"
			}
			if !present {
				if !o.CIA {
					return "err:NotFound"
				}
				old, oldPresent = 0, true // a fresh empty message
			}
		}
		if o.Expect != nil && !(oldPresent && old == *o.Expect) {
			return "err:FailedPrecondition"
		}
		if !o.checkOK(old, oldPresent) {
			return "err:OutOfRange"
		}
		k, _ := strconv.ParseInt(o.F[1:], 10, 64)
		nv := k
		if o.F[0] == 'a' {
			nv = old + k
		}
		st[id] = nv
		return "ok:" + strconv.FormatInt(nv, 10)
	case "d":
		if !present {
			if o.AM {
				return "ok:nil"
			}
			return "err:NotFound"
		}
		if !o.checkOK(cur, true) {
			return "err:OutOfRange"
		}
		if o.Expect != nil && cur != *o.Expect {
			return "err:FailedPrecondition"
		}
		delete(st, id)
		return "ok:" + strconv.FormatInt(cur, 10)
	}
	return "?"
}

// HOp is one call in a concurrent history: [Inv, Resp] in some global order of instants.
type HOp struct {
	T, N int
	Op   Op
	Inv  int64
	Resp int64
	Res  string
}

func lostRace(res string) bool { return res == "err:Aborted" || res == "err:Unavailable" }

// linearizable searches for a one-at-a-time order of the calls that took part (lost-race results must
// have no effect, so they are left out) which respects real time (a.Resp < b.Inv ⇒ a before b),
// reproduces every result on the sequential specification and ends in the observed contents.
func linearizable(init map[int]int64, hist []HOp, final map[int]int64) (bool, []int) {
	var ops []HOp
	for _, h := range hist {
		if !lostRace(h.Res) {
			ops = append(ops, h)
		}
	}
	n := len(ops)
	if n > 20 {
		panic("history too long for the checker")
	}
	seen := map[string]bool{}
	var order []int
	var rec func(mask uint32, st map[int]int64) bool
	rec = func(mask uint32, st map[int]int64) bool {
		if mask == uint32(1)<<n-1 {
			return showContents(st) == showContents(final)
		}
		key := strconv.FormatUint(uint64(mask), 16) + "|" + showContents(st)
		if seen[key] {
			return false
		}
		seen[key] = true
		for i := 0; i < n; i++ {
			if mask&(1<<i) != 0 {
				continue
			}
			minimal := true
			for j := 0; j < n; j++ {
				if j != i && mask&(1<<j) == 0 && ops[j].Resp < ops[i].Inv {
					minimal = false
					break
				}
			}
			if !minimal {
				continue
			}
			st2 := make(map[int]int64, len(st))
			for k, v := range st {
				st2[k] = v
			}
			if specApply(st2, ops[i].Op) != ops[i].Res {
				continue
			}
			order = append(order, i)
			if rec(mask|1<<i, st2) {
				return true
			}
			order = order[:len(order)-1]
		}
		return false
	}
	st := map[int]int64{}
	for k, v := range init {
		st[k] = v
	}
	ok := rec(0, st)
	return ok, order
}

func (sc Scenario) initMap() map[int]int64 {
	m := map[int]int64{}
	for _, id := range sc.initIDs() {
		m[id] = sc.Init[strconv.Itoa(id)]
	}
	return m
}
