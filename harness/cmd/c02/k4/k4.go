// Package k4 executes a model schedule on the real code (tie kind K4): logical threads are goroutines
// that park at verifhook yield points; the controller releases one thread at a time and waits until it
// parks again, finishes, or is blocked on a lock / channel (decided from the goroutine's wait reason in
// the runtime's stack dump, not from a timeout).
package k4

import (
	"bytes"
	"fmt"
	"runtime"
	"strconv"
	"strings"
	"sync"
	"time"

	"github.com/smart-core-os/sc-golang/internal/verifhook"
)

type Status int

const (
	Parked Status = iota
	Done
	Blocked
	Running
)

func (s Status) String() string {
	return [...]string{"parked", "done", "blocked", "running"}[s]
}

type event struct {
	status Status
	point  string
}

type Thread struct {
	ID      int
	goid    int64
	release chan struct{}
	ev      chan event
	c       *Controller

	// last known state (owned by the controller goroutine)
	Status Status
	Point  string
	Panic  any
}

type Controller struct {
	mu    sync.Mutex
	byGo  map[int64]*Thread
	park  map[string]bool
	Trace []string // yield points passed by registered threads, in order (debugging)
	// SplitListen decides per logical thread whether it parks at the *.beforeListen points (between a
	// subscriber's snapshot and its bus registration); nil = never.
	SplitListen func(threadID int) bool
}

// New installs a controller; registered threads park at the given yield points (and at every point
// they announce themselves through the Yield function handed to their body).
func New(parkPoints ...string) *Controller {
	c := &Controller{byGo: map[int64]*Thread{}, park: map[string]bool{}}
	for _, p := range parkPoints {
		c.park[p] = true
	}
	verifhook.Set(c.hook)
	return c
}

func (c *Controller) Close() { verifhook.Set(nil) }

func (c *Controller) hook(point string) {
	if !c.park[point] {
		return
	}
	id := verifhook.GoID()
	c.mu.Lock()
	th := c.byGo[id]
	c.mu.Unlock()
	if th == nil {
		return
	}
	if strings.HasSuffix(point, ".beforeListen") && (c.SplitListen == nil || !c.SplitListen(th.ID)) {
		return
	}
	th.parkAt(point)
}

func (th *Thread) parkAt(point string) {
	th.ev <- event{Parked, point}
	<-th.release
}

// Spawn starts a logical thread. body receives a yield function for its own synthetic park points
// (e.g. "start" before each operation). Spawn returns once the thread has parked for the first time
// (or finished).
func (c *Controller) Spawn(id int, body func(yield func(point string))) *Thread {
	th := &Thread{ID: id, release: make(chan struct{}), ev: make(chan event, 4), c: c, Status: Running}
	ready := make(chan struct{})
	go func() {
		th.goid = verifhook.GoID()
		c.mu.Lock()
		c.byGo[th.goid] = th
		c.mu.Unlock()
		close(ready)
		defer func() {
			if r := recover(); r != nil {
				th.Panic = r
			}
			c.mu.Lock()
			delete(c.byGo, th.goid)
			c.mu.Unlock()
			th.ev <- event{Done, ""}
		}()
		body(th.parkAt)
	}()
	<-ready
	c.await(th, false)
	return th
}

// Adopt registers the calling goroutine's child: used when the code under test itself starts the
// goroutine that must be controlled. Not needed by the current harnesses.

// Step releases a parked thread and waits until it is parked again, done, or blocked.
func (c *Controller) Step(th *Thread) Status {
	if th.Status != Parked {
		panic(fmt.Sprintf("k4: Step on thread %d which is %v", th.ID, th.Status))
	}
	th.Status = Running
	th.release <- struct{}{}
	return c.await(th, true)
}

// StepWait releases a parked thread and waits until it is parked again or done; a step that must not
// block (transient waits, e.g. a channel rendezvous with a free-running goroutine, are waited out).
func (c *Controller) StepWait(th *Thread) Status {
	if th.Status != Parked {
		panic(fmt.Sprintf("k4: StepWait on thread %d which is %v", th.ID, th.Status))
	}
	th.Status = Running
	th.release <- struct{}{}
	return c.await(th, false)
}

// PollWait waits until a blocked/running thread is parked or done.
func (c *Controller) PollWait(th *Thread) Status {
	if th.Status == Parked || th.Status == Done {
		return th.Status
	}
	return c.await(th, false)
}

// Poll re-examines a thread that was blocked or running: it may have been unblocked by another
// thread's step.  Returns its (stable) status.
func (c *Controller) Poll(th *Thread) Status {
	if th.Status == Parked || th.Status == Done {
		return th.Status
	}
	return c.await(th, true)
}

const stableChecks = 3

func (c *Controller) await(th *Thread, mayBlock bool) Status {
	deadline := time.Now().Add(20 * time.Second)
	blockedSeen := 0
	spins := 0
	for {
		select {
		case ev := <-th.ev:
			th.Status, th.Point = ev.status, ev.point
			return th.Status
		default:
		}
		spins++
		if spins < 50 {
			runtime.Gosched()
			continue
		}
		if mayBlock {
			st := goroutineState(th.goid)
			if isBlockedState(st) {
				blockedSeen++
				if blockedSeen >= stableChecks {
					// the event is sent before a parked thread blocks on its release channel
					select {
					case ev := <-th.ev:
						th.Status, th.Point = ev.status, ev.point
						return th.Status
					default:
					}
					th.Status = Blocked
					th.Point = st
					return Blocked
				}
			} else {
				blockedSeen = 0
			}
		}
		if time.Now().After(deadline) {
			panic(fmt.Sprintf("k4: thread %d neither parked, finished nor blocked within 20s (state %q)", th.ID, goroutineState(th.goid)))
		}
		time.Sleep(20 * time.Microsecond)
	}
}

// goroutineState returns the wait reason of a goroutine as printed by the runtime ("running",
// "runnable", "chan send", "sync.RWMutex.Lock", "select", ...), "" if it no longer exists.
func goroutineState(goid int64) string {
	buf := make([]byte, 1<<16)
	for {
		n := runtime.Stack(buf, true)
		if n < len(buf) {
			buf = buf[:n]
			break
		}
		buf = make([]byte, 2*len(buf))
	}
	needle := []byte("goroutine " + strconv.FormatInt(goid, 10) + " [")
	i := bytes.Index(buf, needle)
	for i > 0 && buf[i-1] != '\n' {
		j := bytes.Index(buf[i+1:], needle)
		if j < 0 {
			return ""
		}
		i += 1 + j
	}
	if i < 0 {
		return ""
	}
	rest := buf[i+len(needle):]
	k := bytes.IndexByte(rest, ']')
	if k < 0 {
		return ""
	}
	st := string(rest[:k])
	// strip ", 2 minutes" / ", locked to thread"
	if c := bytes.IndexByte([]byte(st), ','); c >= 0 {
		st = st[:c]
	}
	return st
}

func isBlockedState(st string) bool {
	switch st {
	case "chan send", "chan receive", "select", "sync.RWMutex.Lock", "sync.RWMutex.RLock", "sync.Mutex.Lock",
		"semacquire", "sync.Cond.Wait", "sync.WaitGroup.Wait", "chan send (nil chan)", "chan receive (nil chan)", "select (no cases)":
		return true
	}
	return false
}

// GoState exposes the wait reason of an arbitrary goroutine id (used by C03 for goroutines the code
// under test starts itself).
func GoState(goid int64) string { return goroutineState(goid) }

func IsBlockedState(st string) bool { return isBlockedState(st) }
