package main

import (
	"context"
	"fmt"
	"strings"
	"sync"
	"sync/atomic"
	"time"

	"github.com/smart-core-os/sc-golang/pkg/resource"
	"github.com/smart-core-os/sc-golang/verifharness/lib"
)

// Family "send-timeout": writes whose PUBLICATION fails while other writers go on.
//
// Value.set publishes the change after its commit with a send budget of five seconds; a subscriber that asked for
// backpressure and does not receive makes that send wait, and when the budget is used up the call reports an error
// although its commit happened long ago. Whatever such a call does after its commit (here: nothing) happens while
// later writers have committed, so this is one more window of the write path: between a call's commit and its
// return. The family forces it: a backpressured Pull that is not being received from, write A, then (while A is
// waiting in its send) write B, then A's budget runs out, then the subscriber starts receiving and B returns.
//
// One case takes a little over five seconds of wall-clock (the budget is a constant of the code); the cases of a
// run execute concurrently with each other and with the rest of the harness (they sleep almost all the time).

type sendCase struct {
	Name string
	Init P
	A, B Op
	// Drain: the subscriber starts receiving once A has returned, so that B's own budget (which started later) is
	// not used up; without it B's publication times out as well
	Drain bool
}

func sendCases() []sendCase {
	set := func(a, b int64) Op { return Op{K: "v", ID: valueID, F: "s" + P{a, b}.String()} }
	inc := func(k int) Op { return Op{K: "v", ID: valueID, F: fmt.Sprintf("a%d", k)} }
	cas := func(e P, a, b int64) Op { o := set(a, b); o.Expect = &e; return o }
	return []sendCase{
		{Name: "set-then-increment", Init: P{1, 0}, A: set(2, 0), B: inc(1), Drain: true},
		{Name: "increment-then-cas", Init: P{1, 0}, A: inc(1), B: cas(P{2, 0}, 5, 1), Drain: true},
		{Name: "masked-then-masked", Init: P{1, 1}, A: Op{K: "v", ID: valueID, F: "s5.0", Mask: "a"}, B: Op{K: "v", ID: valueID, F: "b2", Mask: "b"}, Drain: true},
		{Name: "both-time-out", Init: P{1, 0}, A: set(2, 0), B: inc(1)},
	}
}

type sendOutcome struct {
	c     sendCase
	hist  []HOp
	final map[int]P
	note  string // how the run went (timings), for the evidence
	// the schedule of the publication-layer model that this run followed: "A publishes before/after B commits" is
	// fixed by construction, what is observed is which publications timed out
	faultA, faultB bool
	// ordered: A's value was seen in place before B started and B's value while A was still waiting, i.e. the run
	// did follow the schedule commit(A) ▸ commit(B) ▸ publication(A) ▸ publication(B)
	ordered bool
}

func (c sendCase) scenario() Scenario {
	return Scenario{Init: map[string]P{"9": c.Init}, Clock: "f", Progs: [][]Op{{c.A}, {c.B}}}
}

func (c sendCase) input() map[string]any {
	sc := c.scenario()
	return map[string]any{"mode": "send-timeout", "case": c.Name, "init": sc.Init, "progs": sc.Progs, "clock": "f", "drain": c.Drain}
}

// runSendCase executes one case on the real Value.
func runSendCase(c sendCase) sendOutcome {
	sc := c.scenario()
	w := newWorld(sc, false)
	out := sendOutcome{c: c}
	var stamp atomic.Int64
	ctx, cancel := context.WithCancel(context.Background())
	defer cancel()
	sub := w.val.Pull(ctx, resource.WithBackpressure(true)) // not received from: its seed value is still waiting
	waitFor := func(want P, done <-chan struct{}, limit time.Duration) bool {
		deadline := time.Now().Add(limit)
		for time.Now().Before(deadline) {
			if v, ok := msgVal(w.val.Get()); ok && v == want {
				return true
			}
			select {
			case <-done:
				v, ok := msgVal(w.val.Get())
				return ok && v == want
			case <-time.After(2 * time.Millisecond):
			}
		}
		return false
	}
	type ret struct {
		res     string
		elapsed time.Duration
		resp    int64
	}
	call := func(o Op) (inv int64, done chan struct{}, r *ret) {
		inv = stamp.Add(1)
		done = make(chan struct{})
		r = &ret{}
		go func() {
			defer close(done)
			t0 := time.Now()
			gen := -1
			if p, msg := lib.Catch(func() { r.res = w.exec(o, &gen) }); p {
				r.res = "panic:" + msg
			}
			r.elapsed = time.Since(t0)
			r.resp = stamp.Add(1)
		}()
		return
	}
	t0 := time.Now()
	afterA := c.A.written(c.Init)
	invA, doneA, retA := call(c.A)
	sawA := waitFor(afterA, doneA, 3*time.Second)
	time.Sleep(time.Until(t0.Add(2500 * time.Millisecond)))
	invB, doneB, retB := call(c.B)
	afterB := c.B.written(afterA)
	sawB := waitFor(afterB, doneB, 2*time.Second)
	select {
	case <-doneA:
	case <-time.After(20 * time.Second):
		retA = &ret{res: "deadlock", resp: stamp.Add(1)}
	}
	atA := time.Since(t0)
	var wg sync.WaitGroup
	if c.Drain {
		wg.Add(1)
		go func() {
			defer wg.Done()
			for range sub {
			}
		}()
	}
	select {
	case <-doneB:
	case <-time.After(20 * time.Second):
		retB = &ret{res: "deadlock", resp: stamp.Add(1)}
	}
	atB := time.Since(t0)
	if v, ok := msgVal(w.val.Get()); ok {
		out.final = map[int]P{valueID: v}
	} else {
		out.final = map[int]P{}
	}
	cancel()
	wg.Wait()
	// a call that comes back with an error only after the send budget reported a failed publication
	fault := func(r *ret) bool { return strings.HasPrefix(r.res, "err:") && r.elapsed >= 4*time.Second }
	out.faultA, out.faultB = fault(retA), fault(retB)
	out.hist = []HOp{
		{T: 0, N: 0, Op: c.A, Inv: invA, Resp: retA.resp, Res: retA.res, GenID: -1, Fault: out.faultA},
		{T: 1, N: 0, Op: c.B, Inv: invB, Resp: retB.resp, Res: retB.res, GenID: -1, Fault: out.faultB},
	}
	out.ordered = sawA && sawB
	out.note = fmt.Sprintf("A's value visible before B started: %v; B's value visible while A was waiting: %v; A returned after %.1fs, B after %.1fs", sawA, sawB, atA.Seconds(), atB.Seconds())
	return out
}

// canonSend: results and final value as the publication-layer model prints them
func (o sendOutcome) canon() string {
	return fmt.Sprintf("T0=[%s]|T1=[%s]|store=%s", o.hist[0].Res, o.hist[1].Res, showContents(o.final))
}

// sendDriverLine: the run as a schedule of the publication-layer model (Send.lean): A reads, changes, commits; B
// reads, changes, commits; A's publication (timed out or not), B's publication (timed out or not).
func (o sendOutcome) driverLine() string {
	sc := o.c.scenario()
	pub := func(t int, fault bool) string {
		if fault {
			return fmt.Sprintf("%d!", t)
		}
		return fmt.Sprint(t)
	}
	return fmt.Sprintf("send 0 f 9:%s %s|%s 0,0,0,1,1,1,%s,%s", o.c.Init, o.c.A.eff(sc.Writable).encode(), o.c.B.eff(sc.Writable).encode(), pub(0, o.faultA), pub(1, o.faultB))
}

// judgeSend: the property on one such history. A call whose publication failed has committed (that is the code's
// behaviour; the tie compares it with the model) - the monitor itself only insists on atomicity: the call took
// effect once, at one instant inside its interval, or not at all, and every call that reports success is
// explained together with the final value.
func judgeSend(o sendOutcome) *verdict {
	v := judge(o.c.scenario(), o.hist, o.final)
	if v != nil {
		v.sig += "/send-timeout"
		v.what += " (write A's publication waited on a backpressured subscriber that did not receive, write B was made meanwhile; " + o.note + ")"
	}
	return v
}
