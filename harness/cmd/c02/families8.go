package main

import (
	"fmt"
	"math/rand"
	"sort"
	"strconv"
	"strings"
	"time"

	"github.com/smart-core-os/sc-golang/verifharness/cmd/c02/k4"
	"github.com/smart-core-os/sc-golang/verifharness/lib"
)

// ---------------------------------------------------------------------------------------------
// family hail-sweep: the library's own user of Collection.Delete with a precondition. hailpb.Model.CreateHail
// adds a hail and then (first caller) sweeps the expired ones: List, and per expired hail a
// Delete(allow missing, expected value = the listed copy). The sweep reports nothing, so what it did is read off
// the contents after every step of the thread that runs it: a hail that disappears during a step of the sweep was
// removed by the sweep's Delete of that hail, and the version removed is the one held before the step. In the
// history the CreateHail call becomes its Add (a generated id) plus one Delete per removal, with the expected value
// the sweep was given by its List; the ordinary clauses then apply (a Delete removes only a version its
// precondition accepts; some sequential order explains everything), plus: a hail the sweep removes is expired in
// the version removed.

// hailable: the scenario can be run on a hail model's collection through UpdateHail / DeleteHail: given ids only,
// no id interceptor, and no create-if-absent (a hail names its id, so a stored hail is never the empty message a
// create-if-absent call starts from: the pair a.b leaves the id out and could not tell the two apart)
func (sc Scenario) hailable() bool {
	if sc.Icpt || sc.Writable != "" || !sc.spellable() {
		return false
	}
	for _, o := range allCalls(sc.Progs, "") {
		if o.CIA || o.trait() {
			return false
		}
	}
	return true
}

func hailOp(a, b int64) Op { return Op{K: "h", F: "s" + P{a, b}.String()} }

// expandSweeps: the scenario and the history as calls of the write path (see above); a verdict when a step of a
// CreateHail call did something that is neither its Add nor a removal of a hail its List showed expired
func expandSweeps(sc Scenario, r *Run) (Scenario, []HOp, *verdict) {
	out := sc
	out.Progs = make([][]Op, len(sc.Progs))
	addOf := func(o Op) Op { return Op{K: "u", Gen: true, EA: true, CIA: true, F: o.F} }
	for t, p := range sc.Progs {
		for _, o := range p {
			if o.K == "h" {
				o = addOf(o)
			}
			out.Progs[t] = append(out.Progs[t], o)
		}
	}
	if r.Stuck || len(r.HailSteps) != len(r.Sched)+1 {
		return out, r.Hist, nil
	}
	// the step at which each CreateHail finished its Add and entered the sweep
	type call struct {
		h  HOp
		s0 int
	}
	var calls []call
	for _, h := range r.Hist {
		if h.Op.K != "h" {
			continue
		}
		c := call{h: h, s0: -1}
		for s := int(h.Inv); s <= int(h.Resp) && s < len(r.Sched); s++ {
			if r.Sched[s] == h.T && r.From[s] == "gau.beforeLock" {
				c.s0 = s
				break
			}
		}
		calls = append(calls, c)
	}
	sort.Slice(calls, func(i, j int) bool { return calls[i].s0 < calls[j].s0 })
	var hist []HOp
	for _, h := range r.Hist {
		if h.Op.K != "h" {
			hist = append(hist, h)
		}
	}
	swept := false
	for _, c := range calls {
		h := c.h
		add := h
		add.Op = addOf(h.Op)
		if c.s0 < 0 {
			hist = append(hist, add)
			continue
		}
		add.Resp = int64(c.s0)
		hist = append(hist, add)
		// the first call to get there holds the model's only ticket: its List saw the contents after step s0
		listed := map[int]P{}
		if !swept {
			swept = true
			for id, v := range r.HailSteps[c.s0+1] {
				if hailExpired(v) {
					listed[id] = v
				}
			}
		}
		k := 0
		for s := int(h.Inv); s <= int(h.Resp) && s < len(r.Sched); s++ {
			if r.Sched[s] != h.T {
				continue
			}
			before, after := r.HailSteps[s], r.HailSteps[s+1]
			for _, id := range sortedIDs(before) {
				v := before[id]
				w, still := after[id]
				if still && w == v {
					continue
				}
				want, was := listed[id]
				if still || !was || s <= c.s0 {
					return out, hist, &verdict{"C02/h/contents-changed-outside-commit",
						fmt.Sprintf("step %d of CreateHail (thread %d) changed hail %d from %s although it is not a removal of a hail the sweep's List showed expired", s, h.T, id, v),
						showContents(before), showContents(after)}
				}
				e := want
				out.Progs[h.T] = append(out.Progs[h.T], Op{K: "d", ID: id, AM: true, Expect: &e})
				hist = append(hist, HOp{T: h.T, N: 100 + k, Op: Op{K: "d", ID: id, AM: true, Expect: &e}, Inv: int64(c.s0), Resp: int64(s), Res: "ok:" + v.String(), GenID: -1})
				k++
				if !hailExpired(v) {
					return out, hist, &verdict{"C02/h/sweep-removed-a-hail-that-is-not-expired",
						fmt.Sprintf("the sweep of expired hails run by CreateHail (thread %d) removed hail %d at step %d in the version %s, which is not expired: the version its List showed expired was %s, another writer stored %s since", h.T, id, s, v, want, v),
						"the sweep's Delete removes only the version its precondition accepts (the listed, expired one)", "removed " + v.String()}
				}
			}
			for _, id := range sortedIDs(after) {
				if _, had := before[id]; !had && !(s == c.s0 && id == h.GenID) {
					return out, hist, &verdict{"C02/h/contents-changed-outside-commit",
						fmt.Sprintf("step %d of CreateHail (thread %d) made hail %d appear, which is not the hail the call reports", s, h.T, id),
						showContents(before), showContents(after)}
				}
			}
		}
	}
	return out, hist, nil
}

// sweepModel: the same execution as a schedule of the Lean model. The thread that runs CreateHail has, in place of
// that call, the program Add(generated id) ; Delete(h1, allow missing, expected value = h1 as listed) ; Delete(h2, …)
// ; … - one Delete per Delete the sweep started (seen through the collection's id lookups), with the version the
// hail had when the sweep's List ran (the contents after the step of the Add's commit). A Delete's first model step
// is its read, which the code makes in the step that finished the call before it (the Add's commit, the previous
// Delete's last attempt): the model schedule is the real one with one more step of the thread right after each
// step in which a Delete started. dels: per thread, the positions of the sweep's Deletes in its model program.
func sweepModel(sc Scenario, r *Run) (progs [][]Op, sched []int, dels map[int]map[int]bool, ok bool) {
	if r.Stuck || len(r.HailSteps) != len(r.Sched)+1 {
		return nil, nil, nil, false
	}
	dels = map[int]map[int]bool{}
	extra := map[int]int{} // step -> model steps of its thread to insert after it
	progs = make([][]Op, len(sc.Progs))
	for t, p := range sc.Progs {
		for n, o := range p {
			if o.K != "h" {
				progs[t] = append(progs[t], o)
				continue
			}
			progs[t] = append(progs[t], Op{K: "u", Gen: true, EA: true, CIA: true, ViaAdd: true, F: o.F})
			var h *HOp
			for i := range r.Hist {
				if r.Hist[i].T == t && r.Hist[i].N == n {
					h = &r.Hist[i]
				}
			}
			if h == nil {
				return nil, nil, nil, false // the call did not finish
			}
			s0 := -1
			for s := int(h.Inv); s <= int(h.Resp) && s < len(r.Sched); s++ {
				if r.Sched[s] == t && r.From[s] == "gau.beforeLock" {
					s0 = s
					break
				}
			}
			if s0 < 0 {
				continue
			}
			for _, c := range r.IDCalls {
				if c.Step < s0 || c.Step > int(h.Resp) || c.Step >= len(r.Sched) || r.Sched[c.Step] != t || c.ID == "" {
					continue
				}
				id := idOf(c.ID)
				v, listed := r.HailSteps[s0+1][id]
				if !listed {
					return nil, nil, nil, false
				}
				if dels[t] == nil {
					dels[t] = map[int]bool{}
				}
				dels[t][len(progs[t])] = true
				progs[t] = append(progs[t], Op{K: "d", ID: id, AM: true, Expect: &v})
				extra[c.Step]++
			}
		}
	}
	for s, t := range r.Sched {
		sched = append(sched, t)
		for i := 0; i < extra[s]; i++ {
			sched = append(sched, t)
		}
	}
	return progs, sched, dels, true
}

// sweepAnswer: the model's answer with the results of the sweep's Deletes reduced to what can be seen of them from
// outside (the version removed, or "-": refused, nothing there, gave up) and without the ghost time stamps
func sweepAnswer(answer string, dels map[int]map[int]bool) string {
	answer, _ = splitLin(answer)
	answer, _ = splitRT(answer)
	parts := strings.Split(answer, "|")
	for i, p := range parts {
		if !strings.HasPrefix(p, "T") || !strings.Contains(p, "=[") {
			continue
		}
		t, err := strconv.Atoi(p[1:strings.Index(p, "=")])
		if err != nil || dels[t] == nil {
			continue
		}
		body := strings.TrimSuffix(p[strings.Index(p, "=[")+2:], "]")
		rs := strings.Split(body, ",")
		for n := range rs {
			if dels[t][n] && !(strings.HasPrefix(rs[n], "ok:") && rs[n] != "ok:nil") {
				rs[n] = "-"
			}
		}
		parts[i] = fmt.Sprintf("T%d=[%s]", t, strings.Join(rs, ","))
	}
	return strings.Join(parts, "|")
}

// sweepObserved: the real execution in the same form: per thread the results of its calls, a CreateHail followed by
// one entry per Delete its sweep started - the version that disappeared during that Delete's steps, or "-"
func sweepObserved(sc Scenario, r *Run, progs [][]Op, dels map[int]map[int]bool, hist []HOp) string {
	removedBy := map[[2]int]string{} // (thread, hail id) -> the version the sweep removed
	commits := 0
	for _, h := range hist {
		if h.N >= 100 {
			removedBy[[2]int{h.T, h.Op.ID}] = h.Res
		}
		if strings.HasPrefix(h.Res, "ok:") && h.Res != "ok:nil" {
			commits++
		}
	}
	var parts []string
	for t := range progs {
		var rs []string
		k := 0
		for n, o := range progs[t] {
			if dels[t][n] {
				if res, ok := removedBy[[2]int{t, o.ID}]; ok {
					rs = append(rs, res)
				} else {
					rs = append(rs, "-")
				}
				continue
			}
			if k < len(r.Results[t]) {
				rs = append(rs, r.Results[t][k])
			}
			k++
		}
		parts = append(parts, fmt.Sprintf("T%d=[%s]", t, strings.Join(rs, ",")))
	}
	return strings.Join(parts, "|") + "|store=" + showStamped(r.Final, r.Stamps) + fmt.Sprintf("|log=%d", commits) +
		"|pc=" + strings.Repeat("i", len(progs)) + fmt.Sprintf("|rng=%d", r.RNG)
}

// sweepWitnesses: one expired hail (or two), a CreateHail that sweeps, and rivals that write to the expired hail
// while the sweep is between its List and its Delete - a re-dispatch (arrive_time moves forward: the hail is not
// expired any more), a state change (still expired, another version), a Delete, an upsert -; every schedule
func sweepWitnesses() []Scenario {
	set := func(a, b int64) string { return "s" + P{a, b}.String() }
	exp := map[string]P{"4": {4, 1}}
	two := map[string]P{"3": {4, 1}, "4": {4, 1}}
	out := []Scenario{
		{Init: exp, Progs: [][]Op{{hailOp(1, 0)}, {Op{K: "u", ID: 4, F: set(1, 3)}}}},
		{Init: exp, Clock: "f", Progs: [][]Op{{hailOp(1, 0)}, {Op{K: "u", ID: 4, F: set(0, 3), Mask: "b"}}}},
		{Init: exp, Progs: [][]Op{{hailOp(1, 0)}, {Op{K: "u", ID: 4, F: set(3, 0), Mask: "a"}}}},
		{Init: exp, Progs: [][]Op{{hailOp(1, 2)}, {Op{K: "u", ID: 4, F: "b2", Mask: "b"}}}},
		{Init: exp, Clock: "f", Progs: [][]Op{{hailOp(1, 0)}, {Op{K: "d", ID: 4}, Op{K: "u", ID: 4, CIA: true, F: set(1, 2)}}}},
		{Init: exp, Progs: [][]Op{{hailOp(1, 0)}, {Op{K: "u", ID: 4, F: set(2, 1)}, Op{K: "u", ID: 4, F: set(4, 1)}}}}, // ABA on the expired version
		{Init: two, Progs: [][]Op{{hailOp(1, 0)}, {Op{K: "u", ID: 4, F: set(1, 3)}}}},
		{Init: two, Clock: "f", Progs: [][]Op{{hailOp(1, 0)}, {hailOp(2, 0)}, {Op{K: "u", ID: 3, F: set(1, 3)}}}},
		{Init: exp, Progs: [][]Op{{hailOp(1, 1)}, {Op{K: "u", ID: 4, Expect: pp(4, 1), F: set(1, 3)}}}}, // the new hail is expired itself
	}
	for i := range out {
		out[i].Carrier = "hail"
	}
	return out
}

func genSweep(rng *rand.Rand) Scenario {
	sc := Scenario{Init: map[string]P{}, Carrier: "hail", Clock: []string{"t", "f", "c"}[rng.Intn(3)]}
	ids := []int{4}
	sc.Init["4"] = P{int64(1 + rng.Intn(4)), 1}
	if rng.Intn(2) == 0 {
		ids = append(ids, 3)
		sc.Init["3"] = P{int64(1 + rng.Intn(4)), []int64{1, 1, 0, 3}[rng.Intn(4)]}
	}
	sc.Progs = append(sc.Progs, []Op{hailOp(int64(1+rng.Intn(3)), []int64{0, 0, 2, 1}[rng.Intn(4)])})
	for t, nt := 0, 1+rng.Intn(2); t < nt; t++ {
		var prog []Op
		for i, n := 0, 1+rng.Intn(2); i < n; i++ {
			id := ids[rng.Intn(len(ids))]
			switch k := rng.Intn(10); {
			case k < 3: // re-dispatch: the arrival moves
				prog = append(prog, Op{K: "u", ID: id, F: "s" + P{int64(rng.Intn(4)), int64(rng.Intn(4))}.String(), Mask: []string{"", "b"}[rng.Intn(2)]})
			case k < 5:
				prog = append(prog, Op{K: "u", ID: id, F: "b" + strconv.Itoa(1+rng.Intn(2)), Mask: "b"})
			case k < 7: // a state change
				prog = append(prog, Op{K: "u", ID: id, F: "s" + P{int64(rng.Intn(5)), 0}.String(), Mask: "a"})
			case k < 8:
				prog = append(prog, Op{K: "d", ID: id, AM: rng.Intn(2) == 0})
			case k < 9:
				prog = append(prog, Op{K: "u", ID: id, CIA: true, F: "s" + P{int64(rng.Intn(4)), int64(rng.Intn(4))}.String()})
			default:
				prog = append(prog, hailOp(int64(1+rng.Intn(3)), 0))
			}
		}
		sc.Progs = append(sc.Progs, prog)
	}
	return sc
}

// ---------------------------------------------------------------------------------------------
// the window BETWEEN the sweep's List and a Delete's read (in a hooked run the two lie in one step): no hooks, no
// goroutines - the rival is a complete call made from the collection's id lookup at the start of that Delete

type nestedSweep struct {
	run   *Run
	scx   Scenario // the calls of the write path, for the judge
	hist  []HOp
	v     *verdict
	progs [][]Op // the model's programs and schedule
	sched []int
	dels  map[int]map[int]bool
	obs   string
}

func runNestedSweep(sc Scenario) *nestedSweep { return runNestedSweepOnce(sc, false) }

func runNestedSweepOnce(sc Scenario, confirm bool) *nestedSweep {
	w := newWorld(sc, false)
	outer := sc.Progs[0][0]
	w.nestedSweep, w.sweepRivals = true, outer.Rivals
	listed := w.hailMap() // nothing else runs before the sweep's List but the Add of a new id
	gen := -1
	var res string
	finished := make(chan struct{})
	go func() {
		defer close(finished)
		if p, msg := lib.Catch(func() { res = w.exec(outer, &gen) }); p {
			res = "panic:" + msg
		}
	}()
	add := Op{K: "u", Gen: true, EA: true, CIA: true, ViaAdd: true, F: outer.F}
	out := &nestedSweep{scx: sc}
	select {
	case <-finished:
	case <-time.After(5 * time.Second):
		if !confirm {
			return runNestedSweepOnce(sc, true)
		}
		stuckNested++
		out.run = &Run{Stuck: true, Final: map[int]P{}, Stamps: map[int]int64{}}
		out.hist = []HOp{{T: 0, Op: add, Inv: 0, Resp: 1, Res: "deadlock", GenID: -1}}
		out.scx.Progs = [][]Op{{add}}
		return out
	}
	end := w.seq.Add(1)
	r := &Run{Results: [][]string{{res}}, RNG: w.rng.n}
	r.Final, r.Stamps = w.contents()
	out.run = r
	out.progs = [][]Op{{add}}
	out.dels = map[int]map[int]bool{0: {}}
	out.sched = []int{0, 0, 0}
	firstSeq := end
	if len(w.sweepStarts) > 0 {
		firstSeq = w.sweepStarts[0].Seq
	}
	out.hist = []HOp{{T: 0, N: 0, Op: add, Inv: 0, Resp: firstSeq, Res: res, GenID: gen}}
	results := []string{res}
	jprogs := [][]Op{{add}}
	nr := 0
	for i, st := range w.sweepStarts {
		v, was := listed[st.ID]
		if !was || !hailExpired(v) {
			out.v = &verdict{"C02/h/sweep-deletes-a-hail-its-list-did-not-show-expired", fmt.Sprintf("the sweep started a Delete of hail %d, which its List did not show expired", st.ID), showContents(listed), strconv.Itoa(st.ID)}
			return out
		}
		if i < len(w.rivals) {
			rv := w.rivals[i]
			nr++
			out.progs = append(out.progs, []Op{rv.op})
			jprogs = append(jprogs, []Op{rv.op})
			out.hist = append(out.hist, HOp{T: nr, N: 0, Op: rv.op, Inv: rv.inv, Resp: rv.resp, Res: rv.res, GenID: rv.genID})
			r.Results = append(r.Results, []string{rv.res})
			out.sched = append(out.sched, nr, nr, nr, nr)
		}
		e := v
		out.dels[0][len(out.progs[0])] = true
		out.progs[0] = append(out.progs[0], Op{K: "d", ID: st.ID, AM: true, Expect: &e})
		out.sched = append(out.sched, 0, 0)
		// what this Delete did: the hails after the rival that ran at its start against the hails at the start of
		// the next Delete (or at the end)
		next := r.Final
		nextSeq := end
		if i+1 < len(w.sweepStarts) {
			next, nextSeq = w.sweepStarts[i+1].Before, w.sweepStarts[i+1].Seq
		}
		for _, id := range sortedIDs(st.After) {
			if nv, still := next[id]; still && nv == st.After[id] {
				continue
			}
			if id != st.ID {
				out.v = &verdict{"C02/h/contents-changed-outside-commit", fmt.Sprintf("the sweep's Delete of hail %d changed hail %d", st.ID, id), showContents(st.After), showContents(next)}
				return out
			}
		}
		gone := "-"
		if have, had := st.After[st.ID]; had {
			if _, still := next[st.ID]; !still {
				gone = "ok:" + have.String()
				jprogs[0] = append(jprogs[0], Op{K: "d", ID: st.ID, AM: true, Expect: &e})
				out.hist = append(out.hist, HOp{T: 0, N: 100 + i, Op: Op{K: "d", ID: st.ID, AM: true, Expect: &e}, Inv: st.Seq, Resp: nextSeq, Res: gone, GenID: -1})
				if !hailExpired(have) {
					out.v = &verdict{"C02/h/sweep-removed-a-hail-that-is-not-expired",
						fmt.Sprintf("the sweep of expired hails run by CreateHail removed hail %d in the version %s, which is not expired: the version its List showed expired was %s, another writer stored %s between the List and the Delete", st.ID, have, v, have),
						"the sweep's Delete removes only the version its precondition accepts (the listed, expired one)", "removed " + have.String()}
				}
			}
		}
		results = append(results, gone)
	}
	out.sched = append(out.sched, 0, 0)
	out.scx.Progs = jprogs
	commits := 0
	for _, h := range out.hist {
		if strings.HasPrefix(h.Res, "ok:") && h.Res != "ok:nil" {
			commits++
		}
	}
	parts := []string{fmt.Sprintf("T0=[%s]", strings.Join(results, ","))}
	for t := 1; t < len(r.Results); t++ {
		parts = append(parts, fmt.Sprintf("T%d=[%s]", t, strings.Join(r.Results[t], ",")))
	}
	out.obs = strings.Join(parts, "|") + "|store=" + showStamped(r.Final, r.Stamps) + fmt.Sprintf("|log=%d", commits) +
		"|pc=" + strings.Repeat("i", len(out.progs)) + fmt.Sprintf("|rng=%d", r.RNG)
	return out
}

// nestedSweepWitnesses / genNestedSweep: an expired hail (or two), CreateHail, and per Delete the sweep starts one
// complete rival call on the hail it is about to delete
func nestedSweepWitnesses() []Scenario {
	set := func(a, b int64) string { return "s" + P{a, b}.String() }
	exp := map[string]P{"4": {4, 1}}
	two := map[string]P{"3": {4, 1}, "4": {2, 1}}
	mk := func(init map[string]P, rv ...Op) Scenario {
		o := hailOp(1, 0)
		o.Rivals = rv
		return Scenario{Init: init, Clock: "f", Carrier: "hail", Nested: true, Progs: [][]Op{{o}}}
	}
	return []Scenario{
		mk(exp),
		mk(exp, Op{K: "u", ID: 4, F: set(1, 3)}), // re-dispatched: not expired any more
		mk(exp, Op{K: "u", ID: 4, F: set(0, 2), Mask: "b"}),                       //
		mk(exp, Op{K: "u", ID: 4, F: set(3, 0), Mask: "a"}),                       // another state: expired, but not the listed version
		mk(exp, Op{K: "u", ID: 4, F: "b1", Mask: "b"}),                            //
		mk(exp, Op{K: "d", ID: 4}),                                                // gone already: allow missing
		mk(exp, Op{K: "u", ID: 4, Expect: pp(4, 1), F: set(4, 1)}),                // rewritten as it was
		mk(two, Op{K: "u", ID: 4, F: set(1, 3)}, Op{K: "u", ID: 4, F: "b1"}),      // the rival of the first Delete writes the second hail
		mk(two, Op{K: "u", ID: 3, F: set(1, 3)}, Op{K: "u", ID: 4, F: set(1, 3)}), //
	}
}

func genNestedSweep(rng *rand.Rand) Scenario {
	sc := Scenario{Init: map[string]P{"4": {int64(1 + rng.Intn(4)), 1}}, Clock: "f", Carrier: "hail", Nested: true}
	ids := []int{4}
	if rng.Intn(2) == 0 {
		ids = append(ids, 3)
		sc.Init["3"] = P{int64(1 + rng.Intn(4)), []int64{1, 1, 1, 0, 3}[rng.Intn(5)]}
	}
	o := hailOp(int64(1+rng.Intn(3)), []int64{0, 0, 2, 3}[rng.Intn(4)]) // (a new hail that is expired itself: hooked family)
	for i, n := 0, rng.Intn(3); i < n; i++ {
		id := ids[rng.Intn(len(ids))]
		switch k := rng.Intn(8); {
		case k < 3:
			o.Rivals = append(o.Rivals, Op{K: "u", ID: id, F: "s" + P{int64(rng.Intn(4)), int64(rng.Intn(4))}.String(), Mask: []string{"", "b"}[rng.Intn(2)]})
		case k < 4:
			o.Rivals = append(o.Rivals, Op{K: "u", ID: id, F: "b" + strconv.Itoa(1+rng.Intn(2)), Mask: "b"})
		case k < 6:
			o.Rivals = append(o.Rivals, Op{K: "u", ID: id, F: "s" + P{int64(rng.Intn(5)), 0}.String(), Mask: "a"})
		case k < 7:
			o.Rivals = append(o.Rivals, Op{K: "d", ID: id, AM: rng.Intn(2) == 0})
		default:
			v := sc.Init[strconv.Itoa(id)]
			o.Rivals = append(o.Rivals, Op{K: "u", ID: id, Expect: &v, F: "s" + P{int64(rng.Intn(4)), int64(rng.Intn(4))}.String()})
		}
	}
	sc.Progs = [][]Op{{o}}
	return sc
}

// sweepFamily: hooked executions of CreateHail (and its sweep) against writers of the hails it sweeps
func sweepFamily(f lib.Flags, res *lib.Result, rng *rand.Rand, mon *lib.Monitor) {
	tie := res.Tie("hail-sweep", "K4",
		"hooked executions of hailpb.Model.CreateHail - an Add with a generated id followed by the model's sweep of expired hails: List, then Delete(allow missing, expected value = the listed copy) per expired hail - against writers of the hails it sweeps (UpdateHail re-dispatching / changing the state, masked or not, DeleteHail, upserts, a second CreateHail), under ticking / frozen / coarse clocks; the execution is given to run(model) as the program Add ; Delete ; Delete … of that thread (one Delete per Delete the sweep started, seen through the collection's id lookups; expected value = the version the hail had when the List ran) on the real schedule plus the read step of each Delete; results of every call (of a sweep's Delete: the version that disappeared, or nothing), final contents with change times, number of commits, rng reads compared; all schedules of the witness scenarios, random schedules of random ones; non-trivial = a writer's call overlapped the CreateHail; distinct = distinct (scenario, schedule)")
	ctl := k4.New(parkPoints...)
	defer ctl.Close()
	type scase struct {
		sc  Scenario
		run *Run
	}
	var cases []scase
	n := 0
	for _, sc := range sweepWitnesses() {
		if stuckHooked >= 10 {
			break
		}
		sc := sc
		k, _ := exploreAll(ctl, sc, 1500, func(r *Run) { cases = append(cases, scase{sc, r}) })
		n += k
	}
	res.Extra["hail_sweep_witness_schedules"] = n
	for i, k := 0, f.N(400, 6000); i < k && stuckHooked < 10; i++ {
		sc := genSweep(rng)
		cases = append(cases, scase{sc, runScheduled(ctl, sc, nil, func(en []int) int { return en[rng.Intn(len(en))] })})
	}
	// model side
	type mview struct {
		progs [][]Op
		dels  map[int]map[int]bool
		line  string
	}
	views := make([]*mview, len(cases))
	var lines []string
	for i, c := range cases {
		if progs, sched, dels, ok := sweepModel(c.sc, c.run); ok {
			views[i] = &mview{progs, dels, driverLine(c.sc, progs, sched)}
			lines = append(lines, views[i].line)
		}
	}
	answers, err := lib.RunOnce(f.Driver, lines)
	if err != nil {
		tie.Fail(err)
	}
	removed, kept := 0, 0
	ai := 0
	for i, c := range cases {
		in := c.sc.input(c.run.Sched)
		scx, hist, v := expandSweeps(c.sc, c.run)
		if mv := views[i]; mv != nil {
			if err == nil && v == nil {
				tie.Record(mv.line, overlapped(c.run.Hist), in, sweepAnswer(answers[ai], mv.dels), sweepObserved(c.sc, c.run, mv.progs, mv.dels, hist))
				for _, h := range hist {
					tie.Count(h.Op.K + ":" + h.Res[:strings.IndexByte(h.Res, ':')+1] + codeOf(h.Res))
				}
				n := 0
				for _, d := range mv.dels {
					n += len(d)
				}
				tie.Count(fmt.Sprintf("sweep-deletes:%d", n))
			}
			ai++
		}
		mon.Eval("hail-sweep "+fmt.Sprint(in), overlapped(c.run.Hist), nil)
		for _, h := range hist {
			mon.Count(codeOf(h.Res))
			if h.N >= 100 {
				removed++
			}
		}
		if len(c.run.Final) > 0 {
			for id := range c.sc.Init {
				if k, _ := strconv.Atoi(id); c.run.Final[k] != (P{}) {
					kept++
					break
				}
			}
		}
		if v != nil {
			mon.Violate(v.sig+c.sc.family(), v.what, in, v.expected, v.observed)
			continue
		}
		if v := judgeSteps(c.run); v != nil {
			mon.Violate(v.sig+c.sc.family(), v.what, in, v.expected, v.observed)
		}
		if v := judge(scx, hist, c.run.Final); v != nil {
			mon.Violate(v.sig+c.sc.family(), v.what, in, v.expected, v.observed)
		}
	}
	// the window between the List and a Delete's read, hook-free
	var nscs []Scenario
	nscs = append(nscs, nestedSweepWitnesses()...)
	for i, k := 0, f.N(300, 5000); i < k; i++ {
		nscs = append(nscs, genNestedSweep(rng))
	}
	var nruns []*nestedSweep
	var nlines []string
	for _, sc := range nscs {
		if stuckNested >= 3 {
			break
		}
		ns := runNestedSweep(sc)
		nruns = append(nruns, ns)
		if ns.v == nil && !ns.run.Stuck {
			nlines = append(nlines, driverLine(sc, ns.progs, ns.sched))
		}
	}
	nanswers, nerr := lib.RunOnce(f.Driver, nlines)
	if nerr != nil {
		tie.Fail(nerr)
	}
	ai = 0
	for i, ns := range nruns {
		sc := nscs[i]
		in := sc.input(nil)
		mon.Eval("hail-sweep nested "+fmt.Sprint(in), len(ns.hist) > 1, nil)
		if ns.v == nil && !ns.run.Stuck {
			if nerr == nil {
				tie.Record(nlines[ai], len(ns.progs) > 1, in, sweepAnswer(nanswers[ai], ns.dels), ns.obs)
				tie.Count("nested:between-list-and-delete")
			}
			ai++
		}
		for _, h := range ns.hist {
			mon.Count(codeOf(h.Res))
			if h.N >= 100 {
				removed++
			}
		}
		if ns.v != nil {
			mon.Violate(ns.v.sig+sc.family(), ns.v.what, in, ns.v.expected, ns.v.observed)
			continue
		}
		if v := judge(ns.scx, ns.hist, ns.run.Final); v != nil {
			mon.Violate(v.sig+sc.family(), v.what, in, v.expected, v.observed)
		}
	}
	mon.Distribution["hail-sweep:nested-cases"] += len(nruns)
	mon.Distribution["hail-sweep:cases"] += len(cases)
	mon.Distribution["hail-sweep:hails-removed-by-the-sweep"] += removed
	mon.Distribution["hail-sweep:runs-in-which-an-initial-hail-survived"] += kept
}
