package main

import (
	"fmt"
	"math/rand"
	"sort"
	"strconv"
	"strings"

	"github.com/smart-core-os/sc-golang/verifharness/cmd/c02/k4"
	"github.com/smart-core-os/sc-golang/verifharness/lib"
)

// ---------------------------------------------------------------------------------------------
// family hail-sweep: the library's own user of Collection.Delete with a precondition. hailpb.Model.CreateHail
// adds a hail and then (first caller) sweeps the expired ones: List, and per expired hail a
// Delete(allow missing, expected value = the listed copy). The sweep reports nothing, so what it did is read off
// the contents after every step of the thread that runs it: a hail that disappears during a step of the sweep was
// removed by the sweep's Delete of that hail, and the version removed is the one held before the step. In the
// history the CreateHail call becomes its Add (a generated id) plus one Delete per removal, with the expected value
// the sweep was given by its List; the ordinary clauses then apply (a Delete removes only a version its
// precondition accepts; some sequential order explains everything), plus: a hail the sweep removes is expired in
// the version removed.

// hailable: the scenario can be run on a hail model's collection through UpdateHail / DeleteHail: given ids only,
// no id interceptor, and no create-if-absent (a hail names its id, so a stored hail is never the empty message a
// create-if-absent call starts from: the pair a.b leaves the id out and could not tell the two apart)
func (sc Scenario) hailable() bool {
	if sc.Icpt || sc.Writable != "" || !sc.spellable() {
		return false
	}
	for _, o := range allCalls(sc.Progs, "") {
		if o.CIA || o.trait() {
			return false
		}
	}
	return true
}

func hailOp(a, b int64) Op { return Op{K: "h", F: "s" + P{a, b}.String()} }

// expandSweeps: the scenario and the history as calls of the write path (see above); a verdict when a step of a
// CreateHail call did something that is neither its Add nor a removal of a hail its List showed expired
func expandSweeps(sc Scenario, r *Run) (Scenario, []HOp, *verdict) {
	out := sc
	out.Progs = make([][]Op, len(sc.Progs))
	addOf := func(o Op) Op { return Op{K: "u", Gen: true, EA: true, CIA: true, F: o.F} }
	for t, p := range sc.Progs {
		for _, o := range p {
			if o.K == "h" {
				o = addOf(o)
			}
			out.Progs[t] = append(out.Progs[t], o)
		}
	}
	if r.Stuck || len(r.HailSteps) != len(r.Sched)+1 {
		return out, r.Hist, nil
	}
	// the step at which each CreateHail finished its Add and entered the sweep
	type call struct {
		h  HOp
		s0 int
	}
	var calls []call
	for _, h := range r.Hist {
		if h.Op.K != "h" {
			continue
		}
		c := call{h: h, s0: -1}
		for s := int(h.Inv); s <= int(h.Resp) && s < len(r.Sched); s++ {
			if r.Sched[s] == h.T && r.From[s] == "gau.beforeLock" {
				c.s0 = s
				break
			}
		}
		calls = append(calls, c)
	}
	sort.Slice(calls, func(i, j int) bool { return calls[i].s0 < calls[j].s0 })
	var hist []HOp
	for _, h := range r.Hist {
		if h.Op.K != "h" {
			hist = append(hist, h)
		}
	}
	swept := false
	for _, c := range calls {
		h := c.h
		add := h
		add.Op = addOf(h.Op)
		if c.s0 < 0 {
			hist = append(hist, add)
			continue
		}
		add.Resp = int64(c.s0)
		hist = append(hist, add)
		// the first call to get there holds the model's only ticket: its List saw the contents after step s0
		listed := map[int]P{}
		if !swept {
			swept = true
			for id, v := range r.HailSteps[c.s0+1] {
				if hailExpired(v) {
					listed[id] = v
				}
			}
		}
		k := 0
		for s := int(h.Inv); s <= int(h.Resp) && s < len(r.Sched); s++ {
			if r.Sched[s] != h.T {
				continue
			}
			before, after := r.HailSteps[s], r.HailSteps[s+1]
			for _, id := range sortedIDs(before) {
				v := before[id]
				w, still := after[id]
				if still && w == v {
					continue
				}
				want, was := listed[id]
				if still || !was || s <= c.s0 {
					return out, hist, &verdict{"C02/h/contents-changed-outside-commit",
						fmt.Sprintf("step %d of CreateHail (thread %d) changed hail %d from %s although it is not a removal of a hail the sweep's List showed expired", s, h.T, id, v),
						showContents(before), showContents(after)}
				}
				e := want
				out.Progs[h.T] = append(out.Progs[h.T], Op{K: "d", ID: id, AM: true, Expect: &e})
				hist = append(hist, HOp{T: h.T, N: 100 + k, Op: Op{K: "d", ID: id, AM: true, Expect: &e}, Inv: int64(c.s0), Resp: int64(s), Res: "ok:" + v.String(), GenID: -1})
				k++
				if !hailExpired(v) {
					return out, hist, &verdict{"C02/h/sweep-removed-a-hail-that-is-not-expired",
						fmt.Sprintf("the sweep of expired hails run by CreateHail (thread %d) removed hail %d at step %d in the version %s, which is not expired: the version its List showed expired was %s, another writer stored %s since", h.T, id, s, v, want, v),
						"the sweep's Delete removes only the version its precondition accepts (the listed, expired one)", "removed " + v.String()}
				}
			}
			for _, id := range sortedIDs(after) {
				if _, had := before[id]; !had && !(s == c.s0 && id == h.GenID) {
					return out, hist, &verdict{"C02/h/contents-changed-outside-commit",
						fmt.Sprintf("step %d of CreateHail (thread %d) made hail %d appear, which is not the hail the call reports", s, h.T, id),
						showContents(before), showContents(after)}
				}
			}
		}
	}
	return out, hist, nil
}

// sweepWitnesses: one expired hail (or two), a CreateHail that sweeps, and rivals that write to the expired hail
// while the sweep is between its List and its Delete - a re-dispatch (arrive_time moves forward: the hail is not
// expired any more), a state change (still expired, another version), a Delete, an upsert -; every schedule
func sweepWitnesses() []Scenario {
	set := func(a, b int64) string { return "s" + P{a, b}.String() }
	exp := map[string]P{"4": {4, 1}}
	two := map[string]P{"3": {4, 1}, "4": {4, 1}}
	out := []Scenario{
		{Init: exp, Progs: [][]Op{{hailOp(1, 0)}, {Op{K: "u", ID: 4, F: set(1, 3)}}}},
		{Init: exp, Clock: "f", Progs: [][]Op{{hailOp(1, 0)}, {Op{K: "u", ID: 4, F: set(0, 3), Mask: "b"}}}},
		{Init: exp, Progs: [][]Op{{hailOp(1, 0)}, {Op{K: "u", ID: 4, F: set(3, 0), Mask: "a"}}}},
		{Init: exp, Progs: [][]Op{{hailOp(1, 2)}, {Op{K: "u", ID: 4, F: "b2", Mask: "b"}}}},
		{Init: exp, Clock: "f", Progs: [][]Op{{hailOp(1, 0)}, {Op{K: "d", ID: 4}, Op{K: "u", ID: 4, CIA: true, F: set(1, 2)}}}},
		{Init: exp, Progs: [][]Op{{hailOp(1, 0)}, {Op{K: "u", ID: 4, F: set(2, 1)}, Op{K: "u", ID: 4, F: set(4, 1)}}}}, // ABA on the expired version
		{Init: two, Progs: [][]Op{{hailOp(1, 0)}, {Op{K: "u", ID: 4, F: set(1, 3)}}}},
		{Init: two, Clock: "f", Progs: [][]Op{{hailOp(1, 0)}, {hailOp(2, 0)}, {Op{K: "u", ID: 3, F: set(1, 3)}}}},
		{Init: exp, Progs: [][]Op{{hailOp(1, 1)}, {Op{K: "u", ID: 4, Expect: pp(4, 1), F: set(1, 3)}}}}, // the new hail is expired itself
	}
	for i := range out {
		out[i].Carrier = "hail"
	}
	return out
}

func genSweep(rng *rand.Rand) Scenario {
	sc := Scenario{Init: map[string]P{}, Carrier: "hail", Clock: []string{"t", "f", "c"}[rng.Intn(3)]}
	ids := []int{4}
	sc.Init["4"] = P{int64(1 + rng.Intn(4)), 1}
	if rng.Intn(2) == 0 {
		ids = append(ids, 3)
		sc.Init["3"] = P{int64(1 + rng.Intn(4)), []int64{1, 1, 0, 3}[rng.Intn(4)]}
	}
	sc.Progs = append(sc.Progs, []Op{hailOp(int64(1+rng.Intn(3)), []int64{0, 0, 2, 1}[rng.Intn(4)])})
	for t, nt := 0, 1+rng.Intn(2); t < nt; t++ {
		var prog []Op
		for i, n := 0, 1+rng.Intn(2); i < n; i++ {
			id := ids[rng.Intn(len(ids))]
			switch k := rng.Intn(10); {
			case k < 3: // re-dispatch: the arrival moves
				prog = append(prog, Op{K: "u", ID: id, F: "s" + P{int64(rng.Intn(4)), int64(rng.Intn(4))}.String(), Mask: []string{"", "b"}[rng.Intn(2)]})
			case k < 5:
				prog = append(prog, Op{K: "u", ID: id, F: "b" + strconv.Itoa(1+rng.Intn(2)), Mask: "b"})
			case k < 7: // a state change
				prog = append(prog, Op{K: "u", ID: id, F: "s" + P{int64(rng.Intn(5)), 0}.String(), Mask: "a"})
			case k < 8:
				prog = append(prog, Op{K: "d", ID: id, AM: rng.Intn(2) == 0})
			case k < 9:
				prog = append(prog, Op{K: "u", ID: id, CIA: true, F: "s" + P{int64(rng.Intn(4)), int64(rng.Intn(4))}.String()})
			default:
				prog = append(prog, hailOp(int64(1+rng.Intn(3)), 0))
			}
		}
		sc.Progs = append(sc.Progs, prog)
	}
	return sc
}

// sweepFamily: hooked executions of CreateHail (and its sweep) against writers of the hails it sweeps
func sweepFamily(f lib.Flags, res *lib.Result, rng *rand.Rand, mon *lib.Monitor) {
	ctl := k4.New(parkPoints...)
	defer ctl.Close()
	type scase struct {
		sc  Scenario
		run *Run
	}
	var cases []scase
	n := 0
	for _, sc := range sweepWitnesses() {
		if stuckHooked >= 10 {
			break
		}
		sc := sc
		k, _ := exploreAll(ctl, sc, 1500, func(r *Run) { cases = append(cases, scase{sc, r}) })
		n += k
	}
	res.Extra["hail_sweep_witness_schedules"] = n
	for i, k := 0, f.N(400, 6000); i < k && stuckHooked < 10; i++ {
		sc := genSweep(rng)
		cases = append(cases, scase{sc, runScheduled(ctl, sc, nil, func(en []int) int { return en[rng.Intn(len(en))] })})
	}
	removed, kept := 0, 0
	for _, c := range cases {
		in := c.sc.input(c.run.Sched)
		scx, hist, v := expandSweeps(c.sc, c.run)
		mon.Eval("hail-sweep "+fmt.Sprint(in), overlapped(c.run.Hist), nil)
		for _, h := range hist {
			mon.Count(codeOf(h.Res))
			if h.N >= 100 {
				removed++
			}
		}
		if len(c.run.Final) > 0 {
			for id := range c.sc.Init {
				if k, _ := strconv.Atoi(id); c.run.Final[k] != (P{}) {
					kept++
					break
				}
			}
		}
		if v != nil {
			mon.Violate(v.sig+c.sc.family(), v.what, in, v.expected, v.observed)
			continue
		}
		if v := judgeSteps(c.run); v != nil {
			mon.Violate(v.sig+c.sc.family(), v.what, in, v.expected, v.observed)
		}
		if v := judge(scx, hist, c.run.Final); v != nil {
			mon.Violate(v.sig+c.sc.family(), v.what, in, v.expected, v.observed)
		}
	}
	mon.Distribution["hail-sweep:cases"] += len(cases)
	mon.Distribution["hail-sweep:hails-removed-by-the-sweep"] += removed
	mon.Distribution["hail-sweep:runs-in-which-an-initial-hail-survived"] += kept
	_ = strings.TrimSpace
}
