// Harness for C02 (concurrent writes are atomic): executes model schedules on the real
// pkg/resource code through the verifhook yield points (K4), compares every outcome with the Lean
// model (driverC02), and evaluates the property itself with an independent linearizability checker
// on hooked schedules and on unhooked multi-core stress histories.
package main

import (
	"encoding/json"
	"fmt"
	"io"
	"log"
	"math/rand"
	"os"
	"runtime"
	"sort"
	"strconv"
	"strings"
	"sync"
	"sync/atomic"
	"time"

	"github.com/smart-core-os/sc-golang/verifharness/cmd/c02/k4"
	"github.com/smart-core-os/sc-golang/verifharness/lib"
)

// runs that ended with a writer waiting for a lock held outside a locked section; exploration stops early
// once there are several (every further run would end the same way and leak its goroutines)
var stuckHooked, stuckNested int

// the sections of the write path, and the end of every plain read a caller makes on the way to its write (no write
// path of the library or of the trait models driven here reads first: a caller that does - check, then write - gets
// a step of its own for the read, so that the window between the two can be entered)
var parkPoints = []string{"gau.afterRead", "gau.beforeLock", "coll.delete.afterRead", "coll.get", "value.get"}

// family publish-window: the publication after the commit is a step of its own as well - a thread parked there has
// stored its value and has not returned yet (what a subscriber with backpressure that is slow to receive does to a
// writer): whatever a handler does between the save and its answer happens while other writers commit
var parkPointsPub = append(append([]string{}, parkPoints...), "value.set.beforeSend", "coll.update.beforeSend")

func pointsOf(sc Scenario) []string {
	if sc.Pub {
		return parkPointsPub
	}
	return parkPoints
}

// ---------------------------------------------------------------------------------------------
// one hooked execution

type Run struct {
	Sched   []int      // the schedule actually executed: one entry per released step
	Enabled [][]int    // threads that could have been released at each step
	Results [][]string // per thread, per call
	Progs   [][]Op     // the programs as the model sees them (nested runs: one thread per call that ran)
	Hist    []HOp
	Final   map[int]P
	Stamps  map[int]int64 // change time stored with each value
	RNG     int           // rng.Read calls made
	Stuck   bool          // nested run: the call did not return (a rival made from its callback waits for a lock the call holds)
	// Changes: the steps of a hooked run after which a plain read of the resources showed something else than before
	Changes []stepChange
	// From: the yield point each step was released from ("start": the call was invoked at this step)
	From []string
	// HailSteps: (scenarios on a hail model) the hails held before the first step and after every step
	HailSteps []map[int]P
	IDCalls   []idCall // (the same scenarios) the id lookups of the model's collection, by step
}

// stepChange: step Step (of thread T, inside its call Op) changed what the resources hold; Res is the result the
// call reported at that very step ("" if the call had not returned yet)
type stepChange struct {
	Step int
	T    int
	N    int // index of the call among the thread's calls
	// AtSend: after the step the thread was parked in front of its publication (*.beforeSend): the step was the
	// save of a call that has not returned yet; Res is then filled in when it does
	AtSend        bool
	Op            Op
	Before, After string
	Res           string
}

// runScheduled executes sc on the real code. The schedule follows prefix as long as it lasts (entries
// naming a finished thread are skipped), then always releases the lowest unfinished thread.
func runScheduled(ctl *k4.Controller, sc Scenario, prefix []int, choose func(enabled []int) int) *Run {
	w := newWorld(sc, false)
	n := len(sc.Progs)
	r := &Run{Results: make([][]string, n), Progs: sc.Progs}
	ths := make([]*k4.Thread, n)
	cur := make([]int, n) // index of the call a thread is in (or about to start)
	inv := make([]int64, n)
	gen := make([]int, n) // id generated for the call a thread is in
	for t := 0; t < n; t++ {
		t := t
		prog := sc.Progs[t]
		ths[t] = ctl.Spawn(t, func(yield func(string)) {
			for _, op := range prog {
				yield("start")
				gen[t] = -1
				res := w.exec(op, &gen[t])
				r.Results[t] = append(r.Results[t], res)
			}
		})
	}
	step := int64(0)
	pi := 0
	snap := w.snapshot()
	if w.hail != nil {
		r.HailSteps = append(r.HailSteps, w.hailMap())
	}
	for {
		var enabled []int
		for t := 0; t < n; t++ {
			if ths[t].Status == k4.Parked {
				enabled = append(enabled, t)
			}
		}
		if len(enabled) == 0 {
			break
		}
		pick := -1
		for pi < len(prefix) && pick < 0 {
			c := prefix[pi]
			pi++
			if c >= 0 && c < n && ths[c].Status == k4.Parked {
				pick = c
			}
		}
		if pick < 0 {
			if choose != nil {
				pick = choose(enabled)
			} else {
				pick = enabled[0]
			}
		}
		th := ths[pick]
		wasStart := th.Point == "start"
		from := th.Point
		if wasStart {
			inv[pick] = step
		}
		before := len(r.Results[pick])
		w.clk.n.Store(int64(len(r.Sched)) + 1) // the instant the clock shows during this step
		w.curK, w.curFrom = "", from
		if cur[pick] < len(sc.Progs[pick]) {
			w.curK = sc.Progs[pick][cur[pick]].K
		}
		st := ctl.Step(th)
		for wait := 0; st == k4.Blocked && wait < 50; wait++ {
			// a transient wait (allocator, logger, scheduler under load) is not a disabled step: look again
			time.Sleep(2 * time.Millisecond)
			st = ctl.Poll(th)
		}
		if st == k4.Blocked {
			// no step of a writer is ever disabled in the model: locks are only held inside a step. Here a parked
			// writer (between its read and its commit) holds a lock the released one waits for.
			r.Stuck = true
			stuckHooked++
			r.Sched = append(r.Sched, pick)
			r.Results[pick] = append(r.Results[pick], "deadlock")
			r.Hist = append(r.Hist, HOp{T: pick, N: cur[pick], Op: sc.Progs[pick][cur[pick]], Inv: inv[pick], Resp: step, Res: "deadlock", GenID: -1})
			r.Final, r.Stamps = map[int]P{}, map[int]int64{}
			return r
		}
		if th.Panic != nil {
			r.Results[pick] = append(r.Results[pick], fmt.Sprint("panic:", th.Panic))
		}
		r.Sched = append(r.Sched, pick)
		r.From = append(r.From, from)
		r.Enabled = append(r.Enabled, enabled)
		now, ok := w.snapshotBounded()
		if !ok {
			// the plain read does not come back: a parked writer holds a lock outside its sections
			r.Stuck = true
			stuckHooked++
			r.Sched = append(r.Sched, pick)
			r.Hist = append(r.Hist, HOp{T: pick, N: cur[pick], Op: sc.Progs[pick][min(cur[pick], len(sc.Progs[pick])-1)], Inv: inv[pick], Resp: step, Res: "deadlock", GenID: -1})
			r.Final, r.Stamps = map[int]P{}, map[int]int64{}
			return r
		}
		if w.hail != nil {
			r.HailSteps = append(r.HailSteps, w.hailMap())
		}
		if now != snap {
			ch := stepChange{Step: int(step), T: pick, N: cur[pick], Before: snap, After: now,
				AtSend: th.Status == k4.Parked && strings.HasSuffix(th.Point, ".beforeSend")}
			if cur[pick] < len(sc.Progs[pick]) {
				ch.Op = sc.Progs[pick][cur[pick]]
			}
			if len(r.Results[pick]) > before {
				ch.Res = r.Results[pick][before]
			}
			r.Changes = append(r.Changes, ch)
			snap = now
		}
		if len(r.Results[pick]) > before {
			r.Hist = append(r.Hist, HOp{T: pick, N: cur[pick], Op: sc.Progs[pick][cur[pick]], Inv: inv[pick], Resp: step, Res: r.Results[pick][before], GenID: gen[pick]})
			cur[pick]++
		}
		step++
	}
	w.mu.Lock()
	r.IDCalls = append(r.IDCalls, w.idCalls...)
	w.mu.Unlock()
	r.Final, r.Stamps = w.contents()
	r.RNG = w.rng.n
	return r
}

// runNested executes Progs[0][0] with no hooks and no goroutines: its Rivals are complete calls made from
// inside its own callbacks (which the write path runs with no lock held), i.e. between its optimistic read
// and its write lock. For the model every call that ran is a thread of its own: rival j is thread j+1 and
// the schedule is read(0) ▸ { rival j to completion ▸ next step of 0 }*.
func runNested(sc Scenario) *Run { return runNestedOnce(sc, false) }

func runNestedOnce(sc Scenario, confirm bool) *Run {
	w := newWorld(sc, false)
	outer := sc.Progs[0][0]
	gen := -1
	var res string
	finished := make(chan struct{})
	go func() {
		defer close(finished)
		if p, msg := lib.Catch(func() { res = w.exec(outer, &gen) }); p {
			res = "panic:" + msg
		}
	}()
	plain := outer
	plain.Rivals, plain.RivalAt = nil, ""
	select {
	case <-finished:
	case <-time.After(5 * time.Second):
		// callbacks must run with no lock held (GetAndUpdate's contract): the rival is waiting for this call
		if !confirm {
			// self-confirming: only a second run that does not return either is reported
			return runNestedOnce(sc, true)
		}
		stuckNested++
		return &Run{Progs: [][]Op{{plain}}, Results: [][]string{{"deadlock"}}, Sched: []int{0}, Stuck: true,
			Hist: []HOp{{T: 0, Op: plain, Inv: 0, Resp: 1, Res: "deadlock", GenID: -1}}, Final: map[int]P{}, Stamps: map[int]int64{}}
	}
	resp := w.seq.Add(1)
	r := &Run{Progs: [][]Op{{plain}}, Results: [][]string{{res}}, Sched: []int{0}}
	r.Hist = append(r.Hist, HOp{T: 0, N: 0, Op: plain, Inv: 0, Resp: resp, Res: res, GenID: gen})
	for j, rv := range w.rivals {
		r.Progs = append(r.Progs, []Op{rv.op})
		r.Results = append(r.Results, []string{rv.res})
		r.Hist = append(r.Hist, HOp{T: j + 1, N: 0, Op: rv.op, Inv: rv.inv, Resp: rv.resp, Res: rv.res, GenID: rv.genID})
		r.Sched = append(r.Sched, j+1, j+1, j+1, 0)
	}
	r.Sched = append(r.Sched, 0, 0)
	r.Final, r.Stamps = w.contents()
	r.RNG = w.rng.n
	return r
}

func (r *Run) canon() string {
	var parts []string
	for t := range r.Results {
		parts = append(parts, fmt.Sprintf("T%d=[%s]", t, strings.Join(r.Results[t], ",")))
	}
	return strings.Join(parts, "|") + "|store=" + showStamped(r.Final, r.Stamps)
}

// exploreAll enumerates every schedule of sc (stateless depth-first search by re-execution).
func exploreAll(ctl *k4.Controller, sc Scenario, limit int, visit func(*Run)) (count int, complete bool) {
	stack := [][]int{{}}
	for len(stack) > 0 {
		if limit > 0 && count >= limit {
			return count, false
		}
		prefix := stack[len(stack)-1]
		stack = stack[:len(stack)-1]
		r := runScheduled(ctl, sc, prefix, nil)
		count++
		visit(r)
		if r.Stuck {
			return count, true
		}
		for i := len(r.Sched) - 1; i >= len(prefix); i-- {
			for _, alt := range r.Enabled[i] {
				if alt > r.Sched[i] {
					p := append(append([]int{}, r.Sched[:i]...), alt)
					stack = append(stack, p)
				}
			}
		}
	}
	return count, true
}

// ---------------------------------------------------------------------------------------------
// the property evaluated on one history

type verdict struct {
	sig, what, expected, observed string
}

// pureIncrement: an unconditional read-modify-write that adds to one field and leaves the other alone
func (o Op) pureIncrement() bool {
	if o.K == "d" || o.Gen || o.EA || o.CIA || o.Expect != nil || o.check() != "n" || len(o.F) < 2 {
		return false
	}
	switch o.F[0] {
	case 'a':
		return !o.After && (o.Mask == "" || o.Mask == "a" || o.Mask == "ab")
	case 'b':
		return !o.After && (o.Mask == "" || o.Mask == "b" || o.Mask == "ab")
	}
	return false
}

func allCalls(progs [][]Op, writable string) []Op {
	var ops []Op
	for _, p := range progs {
		for _, o := range p {
			ops = append(ops, o.eff(writable))
			for _, r := range o.Rivals {
				ops = append(ops, r.eff(writable))
			}
		}
	}
	return ops
}

// effHist: the history with every call as the merge sees it (writable-field restriction of the resource applied)
func effHist(writable string, hist []HOp) []HOp {
	if writable == "" {
		return hist
	}
	out := make([]HOp, len(hist))
	for i, h := range hist {
		h.Op = h.Op.eff(writable)
		out[i] = h
	}
	return out
}

func judge(sc Scenario, hist []HOp, final map[int]P) *verdict {
	init := sc.initMap()
	hist = effHist(sc.Writable, hist)
	// specific clauses first, so that signatures stay specific
	addsOK := map[int]int{}
	deletes := map[int]bool{}
	pureInc := map[int]bool{}
	anyGen := false
	sum := map[int]P{}
	for _, o := range allCalls(sc.Progs, sc.Writable) {
		if o.Gen {
			anyGen = true
			continue
		}
		id := o.target()
		if _, seen := pureInc[id]; !seen {
			pureInc[id] = true
		}
		if !o.pureIncrement() {
			pureInc[id] = false
		}
		if o.K == "d" {
			deletes[id] = true
		}
	}
	for _, h := range hist {
		if strings.HasPrefix(h.Res, "panic:") {
			return &verdict{"C02/" + h.Op.K + "/panic", "a concurrent write panicked", "a result", h.Res}
		}
		if h.Res == "deadlock" {
			return &verdict{"C02/" + h.Op.K + "/lock-held-outside-section", "a writer waits for a lock that another call holds while it is between its optimistic read and its commit (parked at a yield point, or running its own callback which made this write)", "no lock is held while the change function runs", "the call did not return"}
		}
		id := h.Op.target()
		if h.Op.Gen {
			id = h.GenID
		}
		if strings.HasPrefix(h.Res, "ok:") && h.Op.K == "u" && h.Op.EA {
			addsOK[id]++
		}
		if h.Op.K == "d" && strings.HasPrefix(h.Res, "ok:") && h.Res != "ok:nil" {
			// the version a Delete reports it removed is one its own precondition accepts
			var gone P
			if err := gone.UnmarshalText([]byte(h.Res[3:])); err == nil {
				if !checkOK(h.Op.Check, gone, true) || (h.Op.Expect != nil && gone != *h.Op.Expect) {
					return &verdict{"C02/d/removed-a-version-its-precondition-refuses",
						fmt.Sprintf("Delete %s reported success and removed %s, a version its expected check / expected value does not accept", h.Op.encode(), gone),
						"a Delete removes only a version its precondition inspected and accepted", h.Res}
				}
			}
		}
		if strings.HasPrefix(h.Res, "ok:") && h.Op.pureIncrement() {
			k, _ := strconv.ParseInt(h.Op.F[1:], 10, 64)
			p := sum[id]
			if h.Op.F[0] == 'a' {
				p.A += k
			} else {
				p.B += k
			}
			sum[id] = p
		}
	}
	for id, c := range addsOK {
		if c > 1 && !deletes[id] {
			sig := "C02/add/both-succeed"
			if id >= genBase {
				sig = "C02/add/generated-id-shared"
			}
			return &verdict{sig, fmt.Sprintf("%d Adds of id %d reported success although nothing deletes it", c, id), "at most one Add of an id succeeds", fmt.Sprintf("%d successes", c)}
		}
	}
	for id, pure := range pureInc {
		if v0, present := init[id]; pure && present && !(anyGen && id >= genBase) {
			want := P{v0.A + sum[id].A, v0.B + sum[id].B}
			if final[id] != want {
				return &verdict{"C02/increment/lost", fmt.Sprintf("successful increments on id %d add up to %s but the value went from %s to %s", id, sum[id], v0, final[id]),
					want.String(), final[id].String()}
			}
		}
	}
	// Aborted only when a call that took effect on the same id overlapped, Unavailable only when five did
	// (or the id generator cannot find a free id: all ten candidates it draws are taken only in scenarios
	// that start with ten records)
	idOfCall := func(h HOp) int {
		if h.Op.Gen {
			return h.GenID
		}
		return h.Op.target()
	}
	for i, h := range hist {
		if !lostRace(h.Res) || h.Fault || (h.Op.Gen && len(init) >= 10) {
			continue
		}
		need, rivals := 1, 0
		if h.Res == "err:Unavailable" {
			need = 5
		}
		for j, g := range hist {
			if i != j && !(g.Resp < h.Inv || h.Resp < g.Inv) && strings.HasPrefix(g.Res, "ok:") && g.Res != "ok:nil" && idOfCall(g) == idOfCall(h) {
				rivals++
			}
		}
		if rivals < need {
			return &verdict{"C02/" + h.Op.K + "/spurious-" + strings.TrimPrefix(h.Res, "err:"),
				fmt.Sprintf("a call lost a race although only %d call(s) that took effect on its id overlapped it (%d needed)", rivals, need),
				"a result of the sequential specification", h.Res}
		}
	}
	if ok, _ := linearizable(init, hist, final); !ok {
		var hs []string
		for _, h := range hist {
			hs = append(hs, fmt.Sprintf("T%d.%d %s [%d,%d] -> %s", h.T, h.N, h.Op.encode(), h.Inv, h.Resp, h.Res))
		}
		sig := "C02/linearizability/no-sequential-order"
		return &verdict{sig, "no one-at-a-time order consistent with real time explains the results and the final contents",
			"some sequential order of the calls on the map specification", strings.Join(hs, "; ") + " ; final " + showContents(final)}
	}
	return nil
}

// judgeSteps: on a hooked run the contents are read after every step. Every call's last lock-delimited section is
// its commit (the save under the write lock, or Delete's removal), so what the resources hold may differ from one
// step to the next only across a step in which the released call returned, and returned success: the optimistic
// read and the change function (preconditions, interceptors, the masked merge) work on the caller's side and leave
// the stored message as it is, whether or not the write is validated later.
func judgeSteps(r *Run) *verdict {
	for _, ch := range r.Changes {
		if ch.AtSend && ch.Res == "" && ch.T < len(r.Results) && ch.N < len(r.Results[ch.T]) {
			// the save of a call whose publication was a later step: judged by what the call reported in the end
			ch.Res = r.Results[ch.T][ch.N]
		}
		if strings.HasPrefix(ch.Res, "ok:") && ch.Res != "ok:nil" {
			continue
		}
		if ch.Op.K == "h" {
			continue // CreateHail and its sweep: judged step by step in expandSweeps
		}
		what := "the call had not returned (it was between its optimistic read and its commit)"
		if ch.Res != "" {
			what = "the call returned " + ch.Res
		}
		return &verdict{"C02/" + ch.Op.K + "/contents-changed-outside-commit",
			fmt.Sprintf("step %d (thread %d, call %s) changed what the resource holds although %s: only the commit of a call that reports success may change the stored value", ch.Step, ch.T, ch.Op.encode(), what),
			ch.Before, ch.After}
	}
	return nil
}

// ---------------------------------------------------------------------------------------------
// scenario generation

func pp(a, b int64) *P    { return &P{a, b} }
func pi64(v int64) *int64 { return &v }

func genVal(rng *rand.Rand) P {
	// few distinct values, so that expectations are met and ABA on values happens
	return P{int64(rng.Intn(3)), int64(rng.Intn(2))}
}

// options shared by every scenario of one kind: which option combinations its calls use
type flavour struct {
	masks  bool   // update masks on writes
	after  bool   // InterceptAfter callbacks
	wt     string // "" none | "same": every write carries one write time | "mixed"
	sameWT int64
}

func genOp(rng *rand.Rand, ids []int, withValue bool, fl flavour) Op {
	f := func() string {
		switch rng.Intn(4) {
		case 0, 1:
			return "s" + genVal(rng).String()
		case 2:
			return "a" + strconv.Itoa(1+rng.Intn(2))
		}
		return "b" + strconv.Itoa(1+rng.Intn(2))
	}
	opts := func(o *Op) {
		if fl.masks && rng.Intn(3) > 0 {
			o.Mask = []string{"a", "b", "ab"}[rng.Intn(3)]
			if o.F[0] == 'a' || o.F[0] == 'b' { // an interceptor adding to a field the mask drops would be a no-op
				if rng.Intn(4) > 0 {
					o.Mask = string(o.F[0])
				}
			}
		}
		switch fl.wt {
		case "same":
			o.WT = pi64(fl.sameWT)
		case "mixed":
			if rng.Intn(2) == 0 {
				o.WT = pi64(int64(5 + rng.Intn(2)))
			}
		}
		o.After = fl.after && rng.Intn(2) == 0
	}
	pre := func(o *Op) {
		switch rng.Intn(6) {
		case 0, 1:
			v := genVal(rng)
			o.Expect = &v
		case 2:
			o.Check = []string{"eq", "ne"}[rng.Intn(2)] + strconv.Itoa(rng.Intn(3))
		}
	}
	id := ids[rng.Intn(len(ids))]
	k := rng.Intn(10)
	if withValue && k < 3 {
		o := Op{K: "v", ID: valueID, F: f()}
		pre(&o)
		opts(&o)
		return o
	}
	switch {
	case k < 5: // Add
		o := Op{K: "u", ID: id, EA: true, CIA: true, ViaAdd: rng.Intn(2) == 0, F: "s" + genVal(rng).String()}
		opts(&o)
		return o
	case k < 7: // upsert
		o := Op{K: "u", ID: id, CIA: true, F: f()}
		if rng.Intn(3) == 0 {
			pre(&o)
		}
		opts(&o)
		return o
	case k < 9: // update existing
		o := Op{K: "u", ID: id, F: f()}
		pre(&o)
		opts(&o)
		return o
	default:
		o := Op{K: "d", ID: id, AM: rng.Intn(3) == 0}
		pre(&o)
		return o
	}
}

func genFlavour(rng *rand.Rand) flavour {
	fl := flavour{masks: rng.Intn(2) == 0, after: rng.Intn(4) == 0}
	switch rng.Intn(4) {
	case 0:
		fl.wt, fl.sameWT = "same", int64(rng.Intn(2)*5) // 0 = the instant the constructor stamped
	case 1:
		fl.wt = "mixed"
	}
	return fl
}

func genScenario(rng *rand.Rand, maxThreads, maxOps int) Scenario {
	sc := Scenario{Init: map[string]P{}, Clock: []string{"t", "t", "f", "f", "c"}[rng.Intn(5)]}
	fl := genFlavour(rng)
	ids := []int{0}
	if rng.Intn(3) == 0 {
		ids = append(ids, 1)
	}
	withValue := rng.Intn(3) == 0
	for _, id := range ids {
		if rng.Intn(2) == 0 {
			sc.Init[strconv.Itoa(id)] = genVal(rng)
		}
	}
	if withValue && rng.Intn(3) > 0 {
		sc.Init[strconv.Itoa(valueID)] = genVal(rng)
	}
	nt := 2 + rng.Intn(maxThreads-1)
	// some scenarios are Delete-heavy, increment-only, CAS-only or generate their ids, so that the rarer paths are visited
	mode := rng.Intn(14)
	if mode == 11 { // dispenses from one stock record through vendingpb.Model.DispenseInstantly
		if rng.Intn(6) > 0 {
			sc.Init[strconv.Itoa(vendID)] = P{int64(rng.Intn(3)), int64(2 + rng.Intn(5))}
		}
	}
	if mode == 13 { // versioned updates and deletes of one publication through publicationpb.ModelServer
		sc.Clock = "f"
		if rng.Intn(5) > 0 {
			sc.Init[strconv.Itoa(pubID)] = P{int64(rng.Intn(3)), []int64{0, 0, 0, 1, 2}[rng.Intn(5)]}
		}
	}
	if mode == 12 { // enter / leave events through enterleavesensorpb.Model.CreateEnterLeaveEvent
		sc.Init[strconv.Itoa(enterID)] = genVal(rng)
	}
	if mode == 3 { // generated ids: a short candidate script makes callers draw the same id; some candidates are taken
		sc.Cands = [][]int{{0}, {0, 1}, {0, 0, 1}, {1, 0}, {}}[rng.Intn(5)]
		if rng.Intn(2) == 0 {
			sc.Init[strconv.Itoa(genBase)] = genVal(rng)
		}
	}
	snap := genVal(rng)
	if mode == 2 || mode == 4 {
		sc.Init[strconv.Itoa(ids[0])] = snap
		sc.Init[strconv.Itoa(valueID)] = snap
	}
	for t := 0; t < nt; t++ {
		var prog []Op
		no := 1 + rng.Intn(maxOps)
		for i := 0; i < no; i++ {
			switch {
			case mode == 0: // increments of one record
				o := Op{K: "u", ID: ids[0], F: []string{"a", "a", "b"}[rng.Intn(3)] + strconv.Itoa(1+rng.Intn(3))}
				if fl.masks && rng.Intn(2) == 0 {
					o.Mask = string(o.F[0])
				}
				if fl.wt == "same" {
					o.WT = pi64(fl.sameWT)
				}
				prog = append(prog, o)
			case mode == 1 && rng.Intn(2) == 0:
				o := Op{K: "d", ID: ids[0], AM: rng.Intn(3) == 0}
				if rng.Intn(2) == 0 {
					v := genVal(rng)
					o.Expect = &v
				}
				prog = append(prog, o)
			case mode == 2 || mode == 4: // compare-and-set from one snapshot, each writer through its own mask
				o := Op{K: "u", ID: ids[0], F: "s" + genVal(rng).String(), Mask: []string{"", "a", "b", "ab"}[rng.Intn(4)]}
				if mode == 4 {
					o = Op{K: "v", ID: valueID, F: o.F, Mask: o.Mask}
				}
				e := snap
				if rng.Intn(4) == 0 {
					e = genVal(rng)
				}
				o.Expect = &e
				if fl.wt == "same" {
					o.WT = pi64(fl.sameWT)
				}
				prog = append(prog, o)
			case mode == 3 && rng.Intn(3) > 0:
				prog = append(prog, Op{K: "u", Gen: true, EA: true, CIA: true, ViaAdd: rng.Intn(2) == 0, F: "s" + genVal(rng).String()})
			case mode == 3:
				prog = append(prog, Op{K: "d", ID: genBase + 10*rng.Intn(2), AM: rng.Intn(2) == 0})
			case mode == 6 || mode == 7: // partial writers: each call replaces (or adds to) ONE field through its mask, most of them plain (no precondition, no callback)
				fld := []string{"a", "b"}[rng.Intn(2)]
				o := Op{K: "u", ID: ids[0], Mask: fld, F: "s" + genVal(rng).String()}
				if rng.Intn(4) == 0 {
					o.F = fld + strconv.Itoa(1+rng.Intn(2))
				}
				if mode == 7 {
					o.K, o.ID = "v", valueID
				}
				if fl.wt == "same" {
					o.WT = pi64(fl.sameWT)
				}
				prog = append(prog, o)
			case mode == 11: // portions repeat (a machine dispensing a fixed portion: last_dispensed is already what is written)
				prog = append(prog, Op{K: "x", ID: vendID, F: "x" + strconv.Itoa(1+rng.Intn(2))})
			case mode == 12:
				prog = append(prog, Op{K: "e", ID: enterID, F: []string{"a1", "b1"}[rng.Intn(2)]})
			case mode == 13:
				o := Op{K: "p", ID: pubID, F: "s" + P{int64(rng.Intn(3)), 0}.String()}
				if rng.Intn(4) == 0 {
					o = Op{K: "q", ID: pubID, AM: rng.Intn(3) == 0}
				}
				if rng.Intn(4) > 0 {
					o.Expect = &P{int64(rng.Intn(3)), 0}
				}
				if rng.Intn(5) < 2 { // an acknowledgement of some version: accepted, rejected or "no signal"
					o = ackOp(int64(rng.Intn(3)), []int64{2, 3, 2, 3, 1}[rng.Intn(5)])
				}
				prog = append(prog, o)
			case mode == 5: // increments of the Value
				o := Op{K: "v", ID: valueID, F: []string{"a", "a", "b"}[rng.Intn(3)] + strconv.Itoa(1+rng.Intn(3))}
				if fl.masks && rng.Intn(2) == 0 {
					o.Mask = string(o.F[0])
				}
				if fl.wt == "same" {
					o.WT = pi64(fl.sameWT)
				}
				prog = append(prog, o)
			default:
				prog = append(prog, genOp(rng, ids, withValue, fl))
			}
		}
		sc.Progs = append(sc.Progs, prog)
	}
	if mode == 0 {
		sc.Init[strconv.Itoa(ids[0])] = genVal(rng)
	}
	if mode == 5 && rng.Intn(4) > 0 {
		sc.Init[strconv.Itoa(valueID)] = genVal(rng)
	}
	if mode == 6 && rng.Intn(4) > 0 {
		sc.Init[strconv.Itoa(ids[0])] = genVal(rng)
	}
	if mode == 7 && rng.Intn(4) > 0 {
		sc.Init[strconv.Itoa(valueID)] = genVal(rng)
	}
	if mode != 6 && mode != 7 && mode != 13 && rng.Intn(6) == 0 {
		sc.restrictWritable([]string{"a", "b"}[rng.Intn(2)])
	}
	if rng.Intn(5) == 0 && sc.spellable() {
		sc.spell(rng) // the collection has an id interceptor and the callers do not agree on how to write an id
	}
	if sc.Writable == "" && rng.Intn(4) == 0 {
		sc.Carrier = "chg" // the resources hold messages of another type
		if sc.hailable() && rng.Intn(2) == 0 {
			sc.Carrier = "hail" // the collection is a hail model's: Update = UpdateHail, Delete = DeleteHail
		}
	}
	return sc
}

// restrictWritable configures the resources with one writable field; update masks then name that field only
func (sc *Scenario) restrictWritable(w string) {
	sc.Writable = w
	for _, p := range sc.Progs {
		for i := range p {
			if p[i].Mask != "" {
				p[i].Mask = w
			}
			for j := range p[i].Rivals {
				if p[i].Rivals[j].Mask != "" {
					p[i].Rivals[j].Mask = w
				}
			}
		}
	}
}

// genNested: one call whose callback makes 1-5 complete rival calls on the same record / Value; frozen clock
// (the stamp never moves), no hooks, no goroutines.
func genNested(rng *rand.Rand) Scenario {
	sc := Scenario{Init: map[string]P{}, Clock: "f", Nested: true}
	fl := genFlavour(rng)
	ids := []int{0}
	onValue := rng.Intn(3) == 0
	if rng.Intn(4) > 0 {
		sc.Init["0"] = genVal(rng)
	}
	if onValue && rng.Intn(4) > 0 {
		sc.Init[strconv.Itoa(valueID)] = genVal(rng)
	}
	var outer Op
	for {
		outer = genOp(rng, ids, onValue, fl)
		if (outer.K == "v") == onValue {
			break
		}
	}
	if !onValue && rng.Intn(3) == 0 { // a guarded Delete: the guard refers to the version stored at the start
		v0 := sc.Init["0"]
		outer = Op{K: "d", ID: 0, AM: rng.Intn(4) == 0}
		switch rng.Intn(3) {
		case 0:
			outer.Check = "eq" + strconv.FormatInt(v0.A, 10)
		case 1:
			outer.Check = "ne" + strconv.FormatInt(v0.A+1, 10)
		default:
			outer.Expect = &v0
		}
	}
	nr := 1
	if outer.K == "d" {
		nr = 1 + rng.Intn(5)
	}
	for i := 0; i < nr; i++ {
		var rv Op
		for {
			rv = genOp(rng, ids, onValue, fl)
			if (rv.K == "v") == onValue {
				break
			}
		}
		outer.Rivals = append(outer.Rivals, rv)
	}
	if outer.K == "d" && outer.Check != "" && rng.Intn(3) == 0 {
		// every attempt of the guarded Delete is invalidated by a writer the guard does not mind (it changes the
		// other field), the last one by a writer it does mind
		keep := Op{K: "u", ID: 0, F: "b" + strconv.Itoa(1+rng.Intn(2)), Mask: "b"}
		last := Op{K: "u", ID: 0, F: "a" + strconv.Itoa(1+rng.Intn(2))}
		if rng.Intn(3) == 0 {
			last = Op{K: "u", ID: 0, F: "s" + P{sc.Init["0"].A + 1, 0}.String()}
		}
		outer.Rivals = []Op{keep, keep, keep, keep, last}
		if rng.Intn(3) == 0 {
			outer.Rivals = append(outer.Rivals, keep)
		}
	}
	outer.RivalAt = []string{"c", "b"}[rng.Intn(2)]
	sc.Progs = [][]Op{{outer}}
	if rng.Intn(6) == 0 {
		sc.restrictWritable([]string{"a", "b"}[rng.Intn(2)])
	}
	if rng.Intn(4) == 0 && sc.spellable() {
		sc.spell(rng)
	}
	if sc.Writable == "" && rng.Intn(4) == 0 {
		sc.Carrier = "chg"
		if sc.hailable() && rng.Intn(2) == 0 {
			sc.Carrier = "hail"
		}
	}
	return sc
}

// witnesses: small scenarios that exercise each race window; all their schedules are enumerated
func witnessScenarios() []Scenario {
	set := func(a, b int64) string { return "s" + P{a, b}.String() }
	add := func(v int64) Op { return Op{K: "u", ID: 0, EA: true, CIA: true, ViaAdd: v%2 == 0, F: set(v, 0)} }
	gadd := func(v int64) Op { return Op{K: "u", Gen: true, EA: true, CIA: true, ViaAdd: v%2 == 0, F: set(v, 0)} }
	inc := func(k int) Op { return Op{K: "u", ID: 0, F: "a" + strconv.Itoa(k)} }
	upinc := func(k int) Op { return Op{K: "u", ID: 0, CIA: true, F: "a" + strconv.Itoa(k)} }
	cas := func(e, v int64) Op { return Op{K: "u", ID: 0, Expect: pp(e, 0), F: set(v, 0)} }
	vcas := func(e, v int64) Op { return Op{K: "v", ID: valueID, Expect: pp(e, 0), F: set(v, 0)} }
	vinc := func(k int) Op { return Op{K: "v", ID: valueID, F: "a" + strconv.Itoa(k)} }
	del := func() Op { return Op{K: "d", ID: 0} }
	delx := func(e int64) Op { return Op{K: "d", ID: 0, Expect: pp(e, 0)} }
	at := func(o Op, t int64) Op { o.WT = pi64(t); return o }
	masked := func(o Op, m string) Op { o.Mask = m; return o }
	one := func(v int64) map[string]P { return map[string]P{"0": {v, 0}} }
	return []Scenario{
		{Init: map[string]P{}, Progs: [][]Op{{add(1)}, {add(2)}}},                       // the defect fixed by 41c35d0
		{Init: map[string]P{}, Progs: [][]Op{{upinc(1)}, {upinc(2)}}},                   // create-if-absent increments
		{Init: map[string]P{}, Progs: [][]Op{{add(0)}, {upinc(2)}}},                     // created value equal to the empty message
		{Init: one(1), Progs: [][]Op{{inc(1)}, {inc(2)}}},                               // lost update
		{Init: one(1), Progs: [][]Op{{cas(1, 2)}, {cas(1, 3)}}},                         // CAS vs CAS
		{Init: one(1), Progs: [][]Op{{cas(1, 2), cas(2, 1)}, {cas(1, 3)}}},              // ABA on values
		{Init: one(1), Progs: [][]Op{{delx(1)}, {cas(1, 2), cas(2, 1)}}},                // Delete vs ABA: pointer comparison
		{Init: one(1), Progs: [][]Op{{del()}, {inc(1)}}},                                // Delete retry
		{Init: one(0), Progs: [][]Op{{del()}, {upinc(1)}}},                              // delete, then re-create on the re-validation read
		{Init: map[string]P{"9": {1, 0}}, Progs: [][]Op{{vcas(1, 2)}, {vinc(1)}}},       // Value
		{Init: map[string]P{}, Progs: [][]Op{{vinc(1)}, {vinc(2)}}},                     // Value starting nil
		{Init: one(1), Progs: [][]Op{{del()}, {add(5)}, {Op{K: "d", ID: 0, AM: true}}}}, // three threads
		// expected value x update mask: two writers holding one snapshot, each writing its own field
		{Init: map[string]P{"0": {1, 1}}, Progs: [][]Op{
			{Op{K: "u", ID: 0, Expect: pp(1, 1), F: set(2, 0), Mask: "a"}}, {Op{K: "u", ID: 0, Expect: pp(1, 1), F: set(0, 3), Mask: "b"}}}},
		{Init: map[string]P{"9": {1, 1}}, Progs: [][]Op{
			{Op{K: "v", ID: valueID, Expect: pp(1, 1), F: set(2, 0), Mask: "a"}}, {Op{K: "v", ID: valueID, Expect: pp(1, 1), F: "b2", Mask: "b"}}}},
		// masked increments of different fields of one record: neither may be lost
		{Init: map[string]P{"0": {1, 1}}, Progs: [][]Op{{masked(inc(1), "a")}, {masked(Op{K: "u", ID: 0, F: "b2"}, "b")}}},
		// plain partial writers (no precondition, no callback): each replaces one field through its mask and carries
		// the other one over from the value it read; against each other, against an increment of the other field,
		// on a resource whose writable fields are restricted (an unmasked write is then partial too), and two blind
		// writers of the whole message
		{Init: map[string]P{"9": {1, 1}}, Progs: [][]Op{{Op{K: "v", ID: valueID, F: set(5, 0), Mask: "a"}}, {Op{K: "v", ID: valueID, F: set(0, 7), Mask: "b"}}}},
		{Init: map[string]P{"9": {1, 1}}, Clock: "f", Progs: [][]Op{{Op{K: "v", ID: valueID, F: set(5, 0), Mask: "a"}}, {masked(Op{K: "v", ID: valueID, F: "b2"}, "b")}}},
		{Init: map[string]P{"0": {1, 1}}, Progs: [][]Op{{Op{K: "u", ID: 0, F: set(5, 0), Mask: "a"}}, {Op{K: "u", ID: 0, F: set(0, 7), Mask: "b"}}}},
		{Init: map[string]P{"0": {1, 1}}, Progs: [][]Op{{Op{K: "u", ID: 0, CIA: true, F: set(5, 0), Mask: "a"}}, {masked(Op{K: "u", ID: 0, F: "b2"}, "b")}}},
		{Init: map[string]P{"9": {1, 1}}, Writable: "a", Progs: [][]Op{{Op{K: "v", ID: valueID, F: set(5, 0)}}, {Op{K: "v", ID: valueID, F: set(6, 0), After: true}}}},
		{Init: map[string]P{"0": {1, 1}}, Writable: "a", Clock: "f", Progs: [][]Op{{Op{K: "u", ID: 0, F: set(5, 0)}}, {Op{K: "u", ID: 0, F: set(6, 0), After: true}}}},
		{Init: map[string]P{"9": {1, 1}}, Progs: [][]Op{{Op{K: "v", ID: valueID, F: set(2, 0)}}, {Op{K: "v", ID: valueID, F: set(3, 0)}}}},
		// clocks that do not tell writes apart, equal write times: the stamp is not a version
		{Init: map[string]P{"9": {1, 0}}, Clock: "f", Progs: [][]Op{{vinc(1)}, {vinc(2)}}},
		{Init: map[string]P{"9": {1, 0}}, Clock: "c", Progs: [][]Op{{vinc(1)}, {vcas(1, 5)}}},
		{Init: map[string]P{"9": {1, 0}}, Progs: [][]Op{{at(vinc(1), 0)}, {at(vinc(2), 0)}}},
		{Init: map[string]P{}, Progs: [][]Op{{at(vinc(1), 7), at(vinc(1), 7)}, {at(vinc(2), 7)}}},
		{Init: one(1), Clock: "f", Progs: [][]Op{{inc(1)}, {inc(2)}}},
		{Init: one(1), Progs: [][]Op{{at(cas(1, 2), 5)}, {at(cas(1, 3), 5)}}},
		// generated ids: both callers draw the same candidate; a candidate that is taken; a freed id
		{Init: map[string]P{}, Cands: []int{0}, Progs: [][]Op{{gadd(1)}, {gadd(2)}}},
		{Init: map[string]P{"100": {5, 0}}, Cands: []int{0, 1}, Progs: [][]Op{{gadd(1)}, {gadd(2)}}},
		{Init: map[string]P{"100": {5, 0}}, Cands: []int{0, 0, 1}, Progs: [][]Op{{gadd(1)}, {Op{K: "d", ID: genBase}}}},
		{Init: map[string]P{}, Cands: []int{0}, Progs: [][]Op{{gadd(1), Op{K: "d", ID: genBase}}, {gadd(2)}}},
		// read-modify-write callers of the trait packages (their own interceptors): dispenses from one stock record
		// (first portion, the same portion again - the stored last_dispensed then equals the one written -, a stock
		// that runs out, a record that does not exist), enter / leave events
		{Init: map[string]P{"7": {0, 10}}, Progs: [][]Op{{vendOp(2)}, {vendOp(2)}}},
		{Init: map[string]P{"7": {0, 10}}, Progs: [][]Op{{vendOp(2), vendOp(2)}, {vendOp(2)}}},
		{Init: map[string]P{"7": {1, 3}}, Clock: "f", Progs: [][]Op{{vendOp(2)}, {vendOp(3)}}},
		{Init: map[string]P{}, Progs: [][]Op{{vendOp(1)}, {vendOp(1)}}},
		{Init: map[string]P{"6": {0, 0}}, Progs: [][]Op{{enterOp("a1")}, {enterOp("a1")}}},
		{Init: map[string]P{"6": {2, 1}}, Clock: "c", Progs: [][]Op{{enterOp("a1"), enterOp("b1")}, {enterOp("b1")}}},
		// optimistic concurrency as the publication API offers it (a version = a hash of the content, checked by
		// the server's own WithExpectedCheck): two writers holding one version, a versioned Delete against an
		// update that restores the content (ABA), an unversioned update against a versioned one
		{Init: map[string]P{"5": {1, 0}}, Clock: "f", Progs: [][]Op{{pubOp(2, pp(1, 0))}, {pubOp(3, pp(1, 0))}}},
		{Init: map[string]P{"5": {1, 0}}, Clock: "f", Progs: [][]Op{{Op{K: "q", ID: pubID, Expect: pp(1, 0)}}, {pubOp(2, pp(1, 0)), pubOp(1, pp(2, 0))}}},
		{Init: map[string]P{"5": {1, 0}}, Clock: "f", Progs: [][]Op{{pubOp(2, nil)}, {pubOp(3, pp(1, 0))}, {Op{K: "q", ID: pubID, AM: true, Expect: pp(3, 0)}}}},
		// acknowledgements (a check-guarded masked Update of the receipt): two clients answer one version; an
		// acknowledgement against a new version being published; a second answer after "no signal"
		{Init: map[string]P{"5": {1, 0}}, Clock: "f", Progs: [][]Op{{ackOp(1, 2)}, {ackOp(1, 3)}}},
		{Init: map[string]P{"5": {1, 0}}, Clock: "f", Progs: [][]Op{{ackOp(1, 2)}, {pubOp(2, pp(1, 0)), ackOp(2, 3)}}},
		{Init: map[string]P{"5": {1, 1}}, Clock: "f", Progs: [][]Op{{ackOp(1, 1), ackOp(1, 2)}, {ackOp(1, 3)}}},
	}
}

// carrierWitnesses: race windows of the generic write path on resources that hold another message type (one whose
// field b the library's Pull-response comparer leaves out): every schedule
func carrierWitnesses() []Scenario {
	set := func(a, b int64) string { return "s" + P{a, b}.String() }
	inc := func(k int) Op { return Op{K: "u", ID: 0, F: "a" + strconv.Itoa(k)} }
	incb := func(k int) Op { return Op{K: "u", ID: 0, F: "b" + strconv.Itoa(k), Mask: "b"} }
	out := []Scenario{
		{Init: map[string]P{"0": {1, 1}}, Progs: [][]Op{{inc(1)}, {incb(2)}}},
		{Init: map[string]P{"0": {1, 0}}, Clock: "f", Progs: [][]Op{{Op{K: "u", ID: 0, Check: "eq1", F: set(2, 0), Mask: "a"}}, {Op{K: "u", ID: 0, F: set(0, 3), Mask: "b"}}}},
		{Init: map[string]P{"0": {1, 1}}, Progs: [][]Op{{Op{K: "u", ID: 0, Expect: pp(1, 1), F: set(2, 1)}}, {Op{K: "u", ID: 0, Expect: pp(1, 1), F: set(1, 3)}}}},
		{Init: map[string]P{"0": {1, 1}}, Progs: [][]Op{{Op{K: "d", ID: 0, Expect: pp(1, 1)}}, {incb(1)}}},
		{Init: map[string]P{}, Progs: [][]Op{{Op{K: "u", ID: 0, EA: true, CIA: true, F: set(1, 0)}}, {Op{K: "u", ID: 0, CIA: true, F: "b2"}}}},
		{Init: map[string]P{"9": {1, 1}}, Clock: "f", Progs: [][]Op{{Op{K: "v", ID: valueID, F: "a1"}}, {Op{K: "v", ID: valueID, F: "b1", Mask: "b"}}}},
		{Init: map[string]P{"9": {0, 1}}, Progs: [][]Op{{Op{K: "v", ID: valueID, F: set(5, 0), Mask: "a"}}, {Op{K: "v", ID: valueID, F: set(0, 7), Mask: "b"}}}},
		{Init: map[string]P{}, Progs: [][]Op{{Op{K: "v", ID: valueID, F: "b1"}}, {Op{K: "v", ID: valueID, F: "b2", After: true}}}},
	}
	for i := range out {
		out[i].Carrier = "chg"
	}
	return out
}

// ackOp: AcknowledgePublication of the version of the body, with the receipt r
func ackOp(body, r int64) Op {
	return Op{K: "k", ID: pubID, Expect: pp(body, 0), F: "s" + P{0, r}.String(), Mask: "b"}
}

func pubOp(body int64, expect *P) Op {
	return Op{K: "p", ID: pubID, F: "s" + P{body, 0}.String(), Expect: expect}
}

func vendOp(k int) Op     { return Op{K: "x", ID: vendID, F: "x" + strconv.Itoa(k)} }
func enterOp(f string) Op { return Op{K: "e", ID: enterID, F: f} }

// nestedWitnesses: the same windows reached without hooks (a rival call made from the call's own callback)
func nestedWitnesses() []Scenario {
	set := func(a, b int64) string { return "s" + P{a, b}.String() }
	inc := func(k int) Op { return Op{K: "u", ID: 0, F: "a" + strconv.Itoa(k)} }
	vinc := func(k int) Op { return Op{K: "v", ID: valueID, F: "a" + strconv.Itoa(k)} }
	del := Op{K: "d", ID: 0}
	incb := Op{K: "u", ID: 0, F: "b1", Mask: "b"}
	with := func(o Op, at string, rv ...Op) Op { o.Rivals, o.RivalAt = rv, at; return o }
	one := map[string]P{"0": {1, 0}}
	val := map[string]P{"9": {1, 0}}
	mk := func(init map[string]P, o Op) Scenario {
		return Scenario{Init: init, Clock: "f", Nested: true, Progs: [][]Op{{o}}}
	}
	var ten = map[string]P{}
	for i := 0; i < 10; i++ {
		ten[strconv.Itoa(genBase+i)] = P{int64(i), 0}
	}
	return []Scenario{
		mk(one, with(inc(1), "b", inc(2))),
		mk(one, with(inc(1), "c", inc(2))),
		mk(val, with(vinc(1), "b", vinc(2))),
		mk(val, with(vinc(1), "c", vinc(2))),
		mk(map[string]P{}, with(vinc(1), "b", vinc(2))),
		mk(val, with(Op{K: "v", ID: valueID, Expect: pp(1, 0), F: set(2, 0)}, "b", Op{K: "v", ID: valueID, Expect: pp(1, 0), F: set(3, 0)})),
		mk(one, with(Op{K: "u", ID: 0, Expect: pp(1, 0), F: set(2, 0), Mask: "a"}, "b", Op{K: "u", ID: 0, Expect: pp(1, 0), F: set(0, 3), Mask: "b"})),
		mk(map[string]P{}, with(Op{K: "u", ID: 0, EA: true, CIA: true, F: set(1, 0)}, "b", Op{K: "u", ID: 0, EA: true, CIA: true, F: set(2, 0)})),
		// guarded Deletes whose guard is evaluated on the version read, while a rival replaces that version
		mk(one, with(Op{K: "d", ID: 0, Check: "eq1"}, "c", inc(1))),
		mk(one, with(Op{K: "d", ID: 0, Check: "eq1"}, "c", Op{K: "u", ID: 0, F: "b1", Mask: "b"})),
		mk(one, with(Op{K: "d", ID: 0, Expect: pp(1, 0)}, "c", inc(1))),
		mk(one, with(Op{K: "d", ID: 0, Check: "ne2"}, "c", inc(1), inc(1))),
		mk(one, with(Op{K: "d", ID: 0, Check: "eq1"}, "c", del, Op{K: "u", ID: 0, EA: true, CIA: true, F: set(1, 0)})),
		mk(one, with(del, "c", del)),
		mk(one, with(Op{K: "d", ID: 0, AM: true}, "c", del)),
		mk(one, with(del, "c", inc(1))),
		mk(one, with(del, "c", inc(1), inc(1), inc(1), inc(1))),
		mk(one, with(del, "c", inc(1), inc(1), inc(1), inc(1), inc(1))), // five invalidated attempts: Unavailable
		// ... of a guarded Delete: the guard accepted every version it was shown, the fifth writer stores one it refuses
		mk(one, with(Op{K: "d", ID: 0, Check: "eq1"}, "c", incb, incb, incb, incb, inc(1))),
		mk(one, with(Op{K: "d", ID: 0, Check: "ne2", AM: true}, "c", incb, incb, incb, incb, inc(1))),
		mk(one, with(Op{K: "d", ID: 0, Check: "eq1"}, "c", incb, incb, incb, incb, incb, inc(1))),
		mk(one, with(del, "c", del, Op{K: "u", ID: 0, EA: true, CIA: true, F: set(7, 0)})),
		mk(one, with(inc(1), "b", del)),
		mk(one, with(inc(1), "b", del, inc(1))),
		// an id generator whose ten candidates are all taken gives up with Aborted
		{Init: ten, Clock: "f", Nested: true, Cands: []int{0}, Progs: [][]Op{{Op{K: "u", Gen: true, EA: true, CIA: true, F: set(1, 0)}}}},
	}
}

// pairScenarios: every unordered pair of calls from a small alphabet of option combinations, on a record that
// is absent (ticking clock) or present (frozen clock), and likewise on the Value; every schedule of each pair
// is enumerated (thorough: all pairs, quick: a sample).
func pairScenarios() []Scenario {
	coll := []Op{
		{K: "u", ID: 0, EA: true, CIA: true, F: "s2.0"},
		{K: "u", ID: 0, CIA: true, F: "a1"},
		{K: "u", ID: 0, F: "a1"},
		{K: "u", ID: 0, F: "b1", Mask: "b"},
		{K: "u", ID: 0, Expect: pp(1, 1), F: "s2.1"},
		{K: "u", ID: 0, Expect: pp(1, 1), F: "s2.0", Mask: "a"},
		{K: "u", ID: 0, Expect: pp(1, 1), F: "s0.3", Mask: "b"},
		{K: "u", ID: 0, Check: "eq1", F: "s3.1", WT: pi64(0)},
		{K: "d", ID: 0},
		{K: "d", ID: 0, Expect: pp(1, 1)},
		{K: "d", ID: 0, AM: true, Check: "eq1"},
		{K: "u", Gen: true, EA: true, CIA: true, F: "s5.0"},
		{K: "d", ID: genBase, AM: true},
		{K: "u", ID: 0, F: "s5.1", Mask: "a"},            // plain partial writers: no precondition, no callback
		{K: "u", ID: 0, CIA: true, F: "s0.7", Mask: "b"}, //
	}
	val := []Op{
		{K: "v", ID: valueID, F: "a1"},
		{K: "v", ID: valueID, F: "b1", Mask: "b"},
		{K: "v", ID: valueID, Expect: pp(1, 1), F: "s2.1"},
		{K: "v", ID: valueID, Expect: pp(1, 1), F: "s2.0", Mask: "a"},
		{K: "v", ID: valueID, Expect: pp(1, 1), F: "s0.3", Mask: "b"},
		{K: "v", ID: valueID, Check: "ne2", F: "s3.1", WT: pi64(0)},
		{K: "v", ID: valueID, F: "s5.1", Mask: "a"}, // plain partial writers
		{K: "v", ID: valueID, F: "s0.7", Mask: "b"},
		{K: "v", ID: valueID, F: "s4.4"}, // a blind write of the whole message
	}
	var out []Scenario
	for i := range coll {
		for j := i; j < len(coll); j++ {
			out = append(out,
				Scenario{Init: map[string]P{}, Clock: "t", Cands: []int{0}, Progs: [][]Op{{coll[i]}, {coll[j]}}},
				Scenario{Init: map[string]P{"0": {1, 1}}, Clock: "f", Cands: []int{0}, Progs: [][]Op{{coll[i]}, {coll[j]}}})
		}
	}
	// the same alphabet on a collection with an id interceptor, the first caller spelling the id its own way
	for i := range coll {
		for j := range coll {
			sc := Scenario{Init: map[string]P{}, Clock: "t", Icpt: true, Progs: [][]Op{{sp(coll[i], 1)}, {sp(coll[j], j%2)}}}
			if i != j && sc.spellable() {
				out = append(out, sc)
			}
		}
	}
	for i := range val {
		for j := i; j < len(val); j++ {
			out = append(out,
				Scenario{Init: map[string]P{}, Clock: "f", Progs: [][]Op{{val[i]}, {val[j]}}},
				Scenario{Init: map[string]P{"9": {1, 1}}, Clock: "f", Progs: [][]Op{{val[i]}, {val[j]}}})
		}
	}
	return out
}

func thoroughScenarios() []Scenario {
	set := func(a, b int64) string { return "s" + P{a, b}.String() }
	inc := func(k int) Op { return Op{K: "u", ID: 0, F: "a" + strconv.Itoa(k)} }
	add := func(v int64) Op { return Op{K: "u", ID: 0, EA: true, CIA: true, F: set(v, 0)} }
	gadd := func(v int64) Op { return Op{K: "u", Gen: true, EA: true, CIA: true, F: set(v, 0)} }
	del := func() Op { return Op{K: "d", ID: 0} }
	cas := func(e, v int64) Op { return Op{K: "u", ID: 0, Expect: pp(e, 0), F: set(v, 0)} }
	vinc := func(k int) Op { return Op{K: "v", ID: valueID, F: "a" + strconv.Itoa(k)} }
	one := func(v int64) map[string]P { return map[string]P{"0": {v, 0}} }
	return []Scenario{
		{Init: map[string]P{}, Progs: [][]Op{{add(1)}, {add(2)}, {add(3)}}},
		{Init: one(0), Progs: [][]Op{{inc(1)}, {inc(2)}, {inc(3)}}},
		{Init: one(1), Progs: [][]Op{{del(), add(4)}, {inc(1), inc(1)}}},
		{Init: map[string]P{}, Progs: [][]Op{{add(1), del()}, {add(2), del()}}},
		{Init: one(1), Progs: [][]Op{{cas(1, 2), cas(2, 1)}, {cas(1, 3), del()}}},
		{Init: one(1), Progs: [][]Op{{del()}, {inc(1)}, {inc(2)}}},
		{Init: map[string]P{"9": {0, 0}}, Clock: "f", Progs: [][]Op{{vinc(1)}, {vinc(2)}, {vinc(3)}}},
		{Init: map[string]P{}, Cands: []int{0, 1}, Progs: [][]Op{{gadd(1)}, {gadd(2)}, {gadd(3)}}},
		{Init: map[string]P{}, Cands: []int{0}, Progs: [][]Op{{gadd(1), Op{K: "d", ID: genBase}}, {gadd(2), Op{K: "d", ID: genBase, AM: true}}}},
	}
}

// ---------------------------------------------------------------------------------------------

type pending struct {
	sc  Scenario
	run *Run
}

func main() {
	f := lib.ParseFlags()
	log.SetOutput(io.Discard) // Value.set's "took too long" alarm fires while a thread is parked
	if f.Replay != "" {
		os.Exit(replay(f))
	}
	res := lib.NewResult("C02", f)
	rng := lib.NewRand(f.Seed)
	ctl := k4.New(parkPoints...)

	// the send-timeout family needs the code's five-second send budget to run out: its cases run next to everything else
	sendResults := make(chan []sendOutcome, 1)
	go func() {
		cs := sendCases()
		outs := make([]sendOutcome, len(cs))
		var wg sync.WaitGroup
		for i, c := range cs {
			wg.Add(1)
			go func(i int, c sendCase) {
				defer wg.Done()
				outs[i] = runSendCase(c)
			}(i, c)
		}
		wg.Wait()
		sendResults <- outs
	}()

	tie := res.Tie("k4-schedules", "K4",
		"each case = one scenario (2-3 writers x 1-2 calls from {Add, Add with a generated id, upsert, Update with expected value/check, delta interceptor, Delete with precondition, Value.Set}, each with or without an update mask on one of the two message fields and a write time, on 1-2 ids + a Value, under a ticking / frozen / coarse injected clock and a scripted id generator) executed on the real code under one schedule forced through the yield points gau.afterRead / gau.beforeLock / coll.delete.afterRead; per-call results (with generated ids), final contents, the change time stored with every value, the number of rng reads and the steps at which every call was invoked and returned (the model's ghost real time invT/respT of C02_linearization_respects_step_order) compared with run(model) on the same schedule; scenarios include plain partial writers (update mask or a resource restricted WithWritablePaths to one field, no precondition, no callback); non-trivial = at least two calls overlapped; distinct = distinct (scenario, schedule)")
	ntie := res.Tie("nested-rivals", "K4",
		"no hooks, no goroutines: each case = one call whose own callback (WithExpectedCheck / InterceptBefore, run by the write path with no lock held) makes 1-5 complete rival calls, i.e. between the call's optimistic read and its write lock; frozen clock; compared with run(model) on the schedule read ▸ rival to completion ▸ next step (one model thread per call that ran); non-trivial = a rival ran; distinct = distinct scenario")
	ctie := res.Tie("linearization-certificate", "K4",
		"the sequence the theorem C02_linearizable speaks about (printed by the model for the same scenario and schedule: refused calls by linearization index, then the owner of each commit-log entry) is checked against the REAL execution with the harness' own sequential specification: it must contain exactly the calls that did not lose a race, reproduce every real result and the real final contents when executed one call at a time, and respect the real-time order of the real calls (step indices of invocation and response); non-trivial = at least two calls overlapped")
	mon := res.Monitor("linearizable-hooked",
		"the property on every hooked and every nested execution: independent Go map specification + backtracking linearizability checker (real-time order from step indices), plus add-exclusive (given and generated ids), no-lost-increment per field, no spurious Aborted")
	t0 := time.Now()
	phase := func(name string) {
		res.Extra["wall_s_"+name] = float64(time.Since(t0).Milliseconds()) / 1000
		t0 = time.Now()
	}
	var cases []pending
	record := func(sc Scenario, r *Run) {
		cases = append(cases, pending{sc, r})
	}

	// 1. witnesses: every schedule
	exhaustiveCount := 0
	for _, sc := range append(append(witnessScenarios(), icptWitnesses()...), carrierWitnesses()...) {
		if stuckHooked >= 10 {
			break
		}
		n, complete := exploreAll(ctl, sc, 0, func(r *Run) { record(sc, r) })
		exhaustiveCount += n
		if !complete {
			tie.Fail(fmt.Errorf("schedule enumeration incomplete"))
		}
	}
	res.Extra["witness_scenarios_all_schedules"] = exhaustiveCount
	{
		pairs := pairScenarios()
		res.Extra["pair_scenarios_total"] = len(pairs)
		if !f.Thorough() {
			rng.Shuffle(len(pairs), func(i, j int) { pairs[i], pairs[j] = pairs[j], pairs[i] })
			pairs = pairs[:80]
		}
		np := 0
		for _, sc := range pairs {
			if stuckHooked >= 10 {
				break
			}
			n, complete := exploreAll(ctl, sc, 0, func(r *Run) { record(sc, r) })
			np += n
			if !complete {
				tie.Fail(fmt.Errorf("schedule enumeration incomplete"))
			}
		}
		res.Extra["pair_scenarios_enumerated"] = len(pairs)
		res.Extra["pair_scenarios_all_schedules"] = np
	}
	// a Delete invalidated five times in a row gives up with Unavailable
	if stuckHooked < 10 {
		inc := Op{K: "u", ID: 0, F: "a1"}
		sc := Scenario{Init: map[string]P{"0": {0, 0}}, Progs: [][]Op{{{K: "d", ID: 0}}, {inc, inc, inc, inc, inc}}}
		sched := []int{0}
		for i := 0; i < 5; i++ {
			sched = append(sched, 1, 1, 1, 0)
		}
		record(sc, runScheduled(ctl, sc, sched, nil))
		sc4 := Scenario{Init: map[string]P{"0": {0, 0}}, Progs: [][]Op{{{K: "d", ID: 0}}, {inc, inc, inc, inc}}}
		record(sc4, runScheduled(ctl, sc4, sched, nil))
		// ... also when it carries a guard that every version it was shown satisfied and the last writer's does not:
		// the Delete gives up, whatever it would do instead it has not checked the version that is stored now
		incb := Op{K: "u", ID: 0, F: "b1", Mask: "b"}
		for _, guard := range []Op{{K: "d", ID: 0, Check: "eq0"}, {K: "d", ID: 0, Check: "ne1", AM: true}} {
			scg := Scenario{Init: map[string]P{"0": {0, 0}}, Progs: [][]Op{{guard}, {incb, incb, incb, incb, inc}}}
			record(scg, runScheduled(ctl, scg, sched, nil))
			scg2 := Scenario{Init: map[string]P{"0": {0, 0}}, Clock: "f", Progs: [][]Op{{guard}, {incb, incb, incb, incb, incb, inc}}}
			record(scg2, runScheduled(ctl, scg2, append(append([]int{}, sched...), 1, 1, 1, 0), nil))
		}
	}
	// 2. thorough: every schedule of bigger programs and of random small scenarios
	if f.Thorough() && stuckHooked < 10 {
		n2 := 0
		for _, sc := range thoroughScenarios() {
			n, _ := exploreAll(ctl, sc, 6000, func(r *Run) { record(sc, r) })
			n2 += n
		}
		for i := 0; i < 150; i++ {
			sc := genScenario(rng, 2, 2)
			n, _ := exploreAll(ctl, sc, 1500, func(r *Run) { record(sc, r) })
			n2 += n
		}
		res.Extra["thorough_scenarios_all_schedules"] = n2
	}
	// 3. random scenarios, random schedules
	nrand := f.N(3000, 40000)
	for i := 0; i < nrand && stuckHooked < 10; i++ {
		sc := genScenario(rng, 3+i%4/3, 2) // every fourth scenario may have four writers
		r := runScheduled(ctl, sc, nil, func(en []int) int { return en[rng.Intn(len(en))] })
		record(sc, r)
	}
	ctl.Close()
	hooked := len(cases)
	phase("hooked")
	pubFamily(f, res, rng, mon)
	phase("publish-window")
	sweepFamily(f, res, rng, mon)
	phase("hail-sweep")
	// 4. nested rivals (hooks removed)
	for _, sc := range append(nestedWitnesses(), nestedIcptWitnesses()...) {
		if stuckNested < 3 {
			record(sc, runNested(sc))
		}
	}
	for i, n := 0, f.N(2500, 30000); i < n && stuckNested < 3; i++ {
		sc := genNested(rng)
		record(sc, runNested(sc))
	}

	phase("nested")
	// model side, in one batch
	drv, err := lib.StartDriver(f.Driver)
	if err != nil {
		tie.Fail(err)
		ntie.Fail(err)
	} else {
		lines := make([]string, len(cases))
		for i, c := range cases {
			lines[i] = driverLine(c.sc, c.run.Progs, c.run.Sched)
		}
		answers, err := drv.Batch(lines)
		drv.Close()
		if err != nil {
			tie.Fail(err)
			ntie.Fail(err)
		} else {
			for i, c := range cases {
				n := len(c.run.Progs)
				model, lin := splitLin(answers[i])
				model, rt := splitRT(model)
				// the model must also say every thread is finished after exactly these steps
				wantPc := "|pc=" + strings.Repeat("i", n)
				code := c.run.canon() + fmt.Sprintf("|log=%d", countCommits(c.run.Hist)) + wantPc + fmt.Sprintf("|rng=%d", c.run.RNG)
				in := c.sc.input(c.run.Sched)
				tt := tie
				nontrivial := overlapped(c.run.Hist)
				if i >= hooked {
					tt = ntie
					nontrivial = len(c.run.Progs) > 1
				} else {
					// real time, step by step: the model's ghost stamps of invocation and response (the time base of
					// C02_linearization_respects_step_order) against the steps at which the real calls were released
					// and returned
					model += "|rt=" + rt
					code += "|rt=" + realTimes(c.run.Hist)
				}
				tt.Record(lines[i], nontrivial, in, model, code)
				if !c.run.Stuck {
					why := certify(c.sc, c.run, lin)
					ctie.Record(lines[i], nontrivial, in, "lin="+strings.Join(lin, ",")+" valid", "lin="+strings.Join(lin, ",")+" "+why)
				}
				for _, h := range c.run.Hist {
					tt.Count(h.Op.K + ":" + h.Res[:strings.IndexByte(h.Res, ':')+1] + codeOf(h.Res))
					tt.Count(h.Op.optionClass())
				}
				tt.Count("clock:" + c.sc.clock())
				if c.sc.Carrier != "" {
					tt.Count("message-type:" + c.sc.Carrier)
				}
				if c.sc.Writable != "" {
					tt.Count("writable-fields:" + c.sc.Writable)
				}
			}
		}
	}
	phase("model")
	for _, c := range cases {
		sc := c.sc
		in := sc.input(c.run.Sched)
		mon.Eval(driverLine(sc, c.run.Progs, c.run.Sched), overlapped(c.run.Hist), nil)
		for _, h := range c.run.Hist {
			mon.Count(codeOf(h.Res))
		}
		if v := judgeSteps(c.run); v != nil {
			mon.Violate(v.sig+sc.family(), v.what, in, v.expected, v.observed)
		}
		if v := judge(sc, c.run.Hist, c.run.Final); v != nil {
			mon.Violate(v.sig+sc.family(), v.what, in, v.expected, v.observed)
		}
	}

	phase("judge")
	// 5. unhooked stress
	stress(f, res, rng)
	phase("stress")
	sendFamily(f, res, <-sendResults)
	phase("send-timeout")

	if err := res.Write(f.Out); err != nil {
		lib.Fatal(err)
	}
}

// family: the qualifier a scenario's family adds to a signature
func (sc Scenario) family() string {
	q := ""
	if sc.Icpt {
		q += "/spelled-ids"
	}
	if sc.Pub {
		q += "/publish-window"
	}
	if sc.Carrier == "hail" {
		q += "/hail-model"
	} else if sc.Carrier != "" {
		q += "/change-message"
	}
	if sc.Nested {
		q += "/nested"
	}
	return q
}

// splitLin separates the model's linearization sequence from the rest of its answer.
func splitLin(answer string) (string, []string) {
	i := strings.LastIndex(answer, "|lin=")
	if i < 0 {
		return answer, nil
	}
	if answer[i+5:] == "" {
		return answer[:i], nil
	}
	return answer[:i], strings.Split(answer[i+5:], ",")
}

// splitRT separates the model's step-level invocation/response stamps from the rest of its answer.
func splitRT(answer string) (string, string) {
	i := strings.LastIndex(answer, "|rt=")
	if i < 0 {
		return answer, "?"
	}
	return answer[:i], answer[i+4:]
}

// realTimes: per finished call (by thread, then by position) the step at which it was released into its first
// section and the step at which it returned; the clock showed step+1 during a step.
func realTimes(hist []HOp) string {
	hs := append([]HOp{}, hist...)
	sort.Slice(hs, func(i, j int) bool {
		if hs[i].T != hs[j].T {
			return hs[i].T < hs[j].T
		}
		return hs[i].N < hs[j].N
	})
	var parts []string
	for _, h := range hs {
		parts = append(parts, fmt.Sprintf("%d.%d:%d-%d", h.T, h.N, h.Inv+1, h.Resp+1))
	}
	return strings.Join(parts, ",")
}

// certify checks the model's linearization against the real execution; "valid" or the reason it is not.
func certify(sc Scenario, r *Run, lin []string) string {
	calls := map[string]HOp{}
	want := 0
	for _, h := range effHist(sc.Writable, r.Hist) {
		calls[fmt.Sprintf("%d.%d", h.T, h.N)] = h
		if !lostRace(h.Res) {
			want++
		}
	}
	if len(lin) != want {
		return fmt.Sprintf("INVALID: %d calls did not lose a race, the sequence has %d", want, len(lin))
	}
	st := sc.initMap()
	seen := map[string]bool{}
	var seq []HOp
	for _, key := range lin {
		h, ok := calls[key]
		if !ok || seen[key] || lostRace(h.Res) {
			return "INVALID: " + key + " is not a call that took part exactly once"
		}
		seen[key] = true
		if got := specApply(st, h.Op, h.GenID); got != h.Res {
			return fmt.Sprintf("INVALID: at %s the specification reports %s, the call reported %s", key, got, h.Res)
		}
		seq = append(seq, h)
	}
	if showContents(st) != showContents(r.Final) {
		return "INVALID: ends in " + showContents(st) + ", the real contents are " + showContents(r.Final)
	}
	for i := range seq {
		for j := i + 1; j < len(seq); j++ {
			if seq[j].Resp < seq[i].Inv {
				return fmt.Sprintf("INVALID: T%d.%d responded before T%d.%d was invoked but comes later", seq[j].T, seq[j].N, seq[i].T, seq[i].N)
			}
		}
	}
	return "valid"
}

// input is the concrete replay of one execution.
func (sc Scenario) input(sched []int) map[string]any {
	in := map[string]any{"mode": "k4", "init": sc.Init, "progs": sc.Progs, "sched": sched, "clock": sc.clock()}
	if len(sc.Cands) > 0 {
		in["cands"] = sc.Cands
	}
	if sc.Writable != "" {
		in["writable"] = sc.Writable
	}
	if sc.Icpt {
		in["icpt"] = true
	}
	if sc.Pub {
		in["pub"] = true
	}
	if sc.Carrier != "" {
		in["carrier"] = sc.Carrier
	}
	if sc.Nested {
		in["mode"] = "nested"
		in["nested"] = true
		delete(in, "sched")
	}
	return in
}

// optionClass names the option combination of a call (distribution in the evidence)
func (o Op) optionClass() string {
	var parts []string
	switch o.K {
	case "x":
		return "opts:trait-caller:vendingpb.DispenseInstantly"
	case "e":
		return "opts:trait-caller:enterleavesensorpb.CreateEnterLeaveEvent"
	case "p":
		return "opts:trait-caller:publicationpb.ModelServer.UpdatePublication"
	case "q":
		return "opts:trait-caller:publicationpb.ModelServer.DeletePublication"
	case "k":
		return "opts:trait-handler:publicationpb.ModelServer.AcknowledgePublication"
	case "c":
		return "opts:trait-handler:countpb.MemoryDevice.UpdateCount"
	case "z":
		return "opts:trait-handler:countpb.MemoryDevice.ResetCount"
	}
	if o.Gen {
		parts = append(parts, "gen-id")
	}
	if o.Expect != nil {
		parts = append(parts, "expected-value")
	}
	if o.check() != "n" {
		parts = append(parts, "expected-check")
	}
	if o.Mask != "" {
		parts = append(parts, "mask")
	}
	if o.WT != nil {
		parts = append(parts, "write-time")
	}
	if o.After {
		parts = append(parts, "after")
	}
	if o.plain() {
		parts = append(parts, "plain") // no precondition and no callback: nothing of the caller's runs between read and lock
	}
	if len(parts) == 0 {
		return "opts:none"
	}
	return "opts:" + strings.Join(parts, "+")
}

// plain: a write with no precondition and no interceptor
func (o Op) plain() bool {
	return o.K != "d" && !o.trait() && !o.EA && o.Expect == nil && o.check() == "n" && !o.After && len(o.F) > 0 && o.F[0] == 's' && len(o.Rivals) == 0
}

func codeOf(res string) string {
	if strings.HasPrefix(res, "ok:") {
		return "ok"
	}
	return strings.TrimPrefix(res, "err:")
}

func countCommits(hist []HOp) int {
	n := 0
	for _, h := range hist {
		if strings.HasPrefix(h.Res, "ok:") && h.Res != "ok:nil" {
			n++
		}
	}
	return n
}

func overlapped(hist []HOp) bool {
	for i, h := range hist {
		for j, g := range hist {
			if i < j && h.T != g.T && !(g.Resp < h.Inv || h.Resp < g.Inv) {
				return true
			}
		}
	}
	return false
}

// ---------------------------------------------------------------------------------------------
// unhooked stress: real goroutines on all cores, histories stamped with an atomic counter

func stressOnce(sc Scenario) ([]HOp, map[int]P) {
	w := newWorld(sc, true)
	var clock atomic.Int64
	var wg sync.WaitGroup
	start := make(chan struct{})
	hists := make([][]HOp, len(sc.Progs))
	for t, prog := range sc.Progs {
		wg.Add(1)
		go func(t int, prog []Op) {
			defer wg.Done()
			<-start
			for n, op := range prog {
				inv := clock.Add(1)
				var res string
				gen := -1
				if p, msg := lib.Catch(func() { res = w.exec(op, &gen) }); p {
					res = "panic:" + msg
				}
				resp := clock.Add(1)
				hists[t] = append(hists[t], HOp{T: t, N: n, Op: op, Inv: inv, Resp: resp, Res: res, GenID: gen})
			}
		}(t, prog)
	}
	close(start)
	wg.Wait()
	var hist []HOp
	for _, h := range hists {
		hist = append(hist, h...)
	}
	sort.Slice(hist, func(i, j int) bool { return hist[i].Inv < hist[j].Inv })
	final, _ := w.contents()
	return hist, final
}

func stress(f lib.Flags, res *lib.Result, rng *rand.Rand) {
	mon := res.Monitor("linearizable-stress",
		"the property on unhooked executions: writers are real goroutines released together on all cores, calls stamped with an atomic counter at invocation and response; same independent checker; a violation is then searched for among all hooked schedules of the same scenario to obtain a deterministic replay")
	rounds := f.N(80, 600)
	reps := f.N(300, 500)
	workers := runtime.GOMAXPROCS(0) / 2
	if workers < 2 {
		workers = 2
	}
	if workers > 8 {
		workers = 8
	}
	type found struct {
		sc Scenario
		v  *verdict
	}
	var scs []Scenario
	for _, sc := range witnessScenarios() {
		scs = append(scs, sc)
	}
	scs = append(scs, icptWitnesses()...)
	scs = append(scs, countWitnesses()...)
	for i := 0; i < rounds; i++ {
		if i%8 == 7 {
			scs = append(scs, genCount(rng))
			continue
		}
		scs = append(scs, genScenario(rng, 4, 2))
	}
	var mu sync.Mutex
	var founds []found
	var evals, overl atomic.Int64
	dist := map[string]int{}
	jobs := make(chan Scenario)
	var wg sync.WaitGroup
	deadline := time.Now().Add(time.Duration(f.N(20, 240)) * time.Second)
	for wk := 0; wk < workers; wk++ {
		wg.Add(1)
		go func() {
			defer wg.Done()
			for sc := range jobs {
				local := map[string]int{}
				for i := 0; i < reps && time.Now().Before(deadline); i++ {
					hist, final := stressOnce(sc)
					evals.Add(1)
					if overlapped(hist) {
						overl.Add(1)
					}
					for _, h := range hist {
						local[codeOf(h.Res)]++
					}
					if v := judge(sc, hist, final); v != nil {
						mu.Lock()
						founds = append(founds, found{sc, v})
						mu.Unlock()
						break
					}
				}
				mu.Lock()
				for k, v := range local {
					dist[k] += v
				}
				mu.Unlock()
			}
		}()
	}
	for _, sc := range scs {
		jobs <- sc
	}
	close(jobs)
	wg.Wait()
	mon.Evaluations = int(evals.Load())
	mon.Distinct = int(overl.Load())
	for k, v := range dist {
		mon.Distribution[k] = v
	}
	mon.Samples = append(mon.Samples, map[string]any{"scenarios": len(scs), "repetitions_each": reps, "workers": workers, "histories_with_overlap": overl.Load()})
	if len(founds) > 0 {
		ctl := k4.New(parkPoints...)
		defer ctl.Close()
		searched := map[string]bool{}
		for _, fd := range founds {
			if searched[fd.v.sig+fd.sc.family()] {
				mon.Violate(fd.v.sig+fd.sc.family(), fd.v.what, nil, fd.v.expected, fd.v.observed)
				continue
			}
			searched[fd.v.sig+fd.sc.family()] = true
			in := fd.sc.input(nil)
			in["mode"] = "stress"
			delete(in, "sched")
			// look for a deterministic schedule showing the same failure
			exploreAll(ctl, fd.sc, 4000, func(r *Run) {
				if _, has := in["sched"]; has {
					return
				}
				if v := judge(fd.sc, r.Hist, r.Final); v != nil && v.sig == fd.v.sig {
					in["sched"] = r.Sched
					in["mode"] = "k4"
				}
			})
			mon.Violate(fd.v.sig+fd.sc.family(), fd.v.what, in, fd.v.expected, fd.v.observed)
		}
	}
}

// sendFamily evaluates the send-timeout cases (they ran concurrently with the rest of the harness).
func sendFamily(f lib.Flags, res *lib.Result, outs []sendOutcome) {
	mon := res.Monitor("linearizable-send-timeout",
		"the property on writes whose publication fails: a backpressured Pull that does not receive makes write A of a Value wait in its send until the code's five-second budget runs out; write B is made while A waits (and returns once the subscriber receives, or times out as well); results, real-time order (A and B overlap) and the final value go through the same independent checker, a call that reported the failed publication counting as 'took effect once inside its interval, or not at all'")
	tie := res.Tie("send-timeout", "K4",
		"the same executions as schedules of the publication-layer model (Send.lean: prun = the core model plus, per Value.Set, a publication step that times out or not): A read/change/commit, B read/change/commit, A's publication, B's publication, with the observed time-outs; per-call results (a failed publication reports Unknown AFTER the commit) and the final value compared; non-trivial = a publication timed out while another write was committed")
	var lines []string
	for _, o := range outs {
		lines = append(lines, o.driverLine())
	}
	answers, err := lib.RunOnce(f.Driver, lines)
	if err != nil {
		tie.Fail(err)
	}
	for i, o := range outs {
		in := o.c.input()
		nontrivial := o.faultA || o.faultB
		mon.Eval(o.c.Name, nontrivial, map[string]any{"case": o.c.Name, "observed": o.canon(), "timing": o.note})
		for _, h := range o.hist {
			mon.Count(codeOf(h.Res))
			if h.Fault {
				mon.Count("publication-timed-out")
			}
		}
		if v := judgeSend(o); v != nil {
			mon.Violate(v.sig, v.what, in, v.expected, v.observed)
		}
		if err == nil && o.ordered {
			// (a run in which the machine was too busy for the two commits to be seen in order is judged by the
			// monitor only: it did not necessarily follow the model schedule)
			tie.Record(lines[i], nontrivial, in, answers[i], o.canon())
		}
	}
}

// ---------------------------------------------------------------------------------------------

func replay(f lib.Flags) int {
	rp, err := lib.ReadReplay(f.Replay)
	if err != nil {
		lib.Fatal(err)
	}
	raw, _ := json.Marshal(rp.Input)
	var in struct {
		Mode  string `json:"mode"`
		Case  string `json:"case"`
		Drain bool   `json:"drain"`
		Scenario
	}
	if err := json.Unmarshal(raw, &in); err != nil || len(in.Progs) == 0 {
		fmt.Println("replay: no concrete input in file (", rp.Kind, ")")
		return 2
	}
	if in.Mode == "send-timeout" {
		if len(in.Progs) != 2 || len(in.Progs[0]) != 1 || len(in.Progs[1]) != 1 {
			fmt.Println("replay: a send-timeout input has two writers with one call each")
			return 2
		}
		o := runSendCase(sendCase{Name: in.Case, Init: in.Init["9"], A: in.Progs[0][0], B: in.Progs[1][0], Drain: in.Drain})
		fmt.Printf("replay send-timeout %s -> %s (%s)\n", in.Case, o.canon(), o.note)
		if v := judgeSend(o); v != nil {
			fmt.Printf("STILL FAILS %s: %s (expected %s, observed %s)\n", v.sig, v.what, v.expected, v.observed)
			return 1
		}
		fmt.Println("replay: property holds on this input now")
		return 0
	}
	sc := in.Scenario
	if sc.Init == nil {
		sc.Init = map[string]P{}
	}
	if (in.Mode == "nested" || sc.Nested) && sc.usesTrait("h") {
		sc.Nested = true
		ns := runNestedSweep(sc)
		fmt.Printf("replay nested sweep -> %s\n", ns.obs)
		if f.Driver != "" && ns.v == nil && !ns.run.Stuck {
			if ans, err := lib.RunOnce(f.Driver, []string{driverLine(sc, ns.progs, ns.sched)}); err == nil {
				fmt.Println("model:", sweepAnswer(ans[0], ns.dels))
			}
		}
		v := ns.v
		if v == nil {
			v = judge(ns.scx, ns.hist, ns.run.Final)
		}
		if v != nil {
			fmt.Printf("STILL FAILS %s: %s (expected %s, observed %s)\n", v.sig+sc.family(), v.what, v.expected, v.observed)
			return 1
		}
		fmt.Println("replay: property holds on this input now")
		return 0
	}
	if in.Mode == "nested" || sc.Nested {
		sc.Nested = true
		r := runNested(sc)
		fmt.Printf("replay nested -> %s\n", r.canon())
		if f.Driver != "" {
			if ans, err := lib.RunOnce(f.Driver, []string{driverLine(sc, r.Progs, r.Sched)}); err == nil {
				fmt.Println("model:", ans[0])
			}
		}
		if v := judge(sc, r.Hist, r.Final); v != nil {
			fmt.Printf("STILL FAILS %s: %s (expected %s, observed %s)\n", v.sig+sc.family(), v.what, v.expected, v.observed)
			return 1
		}
		fmt.Println("replay: property holds on this input now")
		return 0
	}
	if in.Mode == "stress" || len(sc.Sched) == 0 {
		for i := 0; i < 20000; i++ {
			hist, final := stressOnce(sc)
			if v := judge(sc, hist, final); v != nil {
				fmt.Printf("STILL FAILS %s: %s (expected %s, observed %s) after %d stress repetitions\n", v.sig, v.what, v.expected, v.observed, i+1)
				return 1
			}
		}
		fmt.Println("replay: 20000 stress repetitions of the scenario satisfied the property")
		return 0
	}
	ctl := k4.New(pointsOf(sc)...)
	defer ctl.Close()
	r := runScheduled(ctl, sc, sc.Sched, nil)
	fmt.Printf("replay schedule %v -> %s\n", r.Sched, r.canon())
	if f.Driver != "" {
		line := driverLine(sc, r.Progs, r.Sched)
		if sc.Pub {
			line = pubDriverLine(sc, r)
		}
		var dels map[int]map[int]bool
		if sc.usesTrait("h") { // CreateHail and its sweep as the program Add ; Delete ; ... of the model
			line = ""
			if progs, sched, d, ok := sweepModel(sc, r); ok {
				line, dels = driverLine(sc, progs, sched), d
			}
		}
		if ans, err := lib.RunOnce(f.Driver, []string{line}); err == nil && line != "" {
			if dels != nil {
				ans[0] = sweepAnswer(ans[0], dels)
			}
			fmt.Println("model:", ans[0])
		}
	}
	if sc.usesTrait("h") {
		scx, hist, v := expandSweeps(sc, r)
		if v != nil {
			fmt.Printf("STILL FAILS %s: %s (expected %s, observed %s)\n", v.sig+sc.family(), v.what, v.expected, v.observed)
			return 1
		}
		sc, r.Hist = scx, hist
	}
	if v := judgeSteps(r); v != nil {
		fmt.Printf("STILL FAILS %s: %s (expected %s, observed %s)\n", v.sig+sc.family(), v.what, v.expected, v.observed)
		return 1
	}
	if v := judge(sc, r.Hist, r.Final); v != nil {
		fmt.Printf("STILL FAILS %s: %s (expected %s, observed %s)\n", v.sig+sc.family(), v.what, v.expected, v.observed)
		return 1
	}
	fmt.Println("replay: property holds on this input now")
	return 0
}
